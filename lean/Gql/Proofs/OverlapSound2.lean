import Gql.Proofs.OverlapSound
/-! C14, named fragments, soundness (2): the four mutually recursive comparison functions. -/
namespace Gql.Exec
open Overlap

theorem Snd.imp' {env : Env} {r : St → Res} {P Q : Prop} (h : Snd env r P) (hpq : P → Q) :
    Snd env r Q := Snd.imp env h hpq

section sound
variable (env : Env) (hle : LinOrd env.le) (hU : TypedIdsUnique env.s env.d)
  (hA : ∀ a, DocInst env.s env.d a → a.node.argsOK)
  (hT : ∀ a, DocInst env.s env.d a → a.node.name ≠ "__typename")

include hA hT in
theorem known_facts' {e : FieldEntry} (k : Known env e) :
    e.node.argsOK ∧ e.defTy = Spec.fieldType env.s e.parent e.node.name := by
  obtain ⟨⟨a, hda, hea⟩, hdef⟩ := k
  have en : e.node = a.node := hea.1
  refine ⟨by rw [en]; exact hA a hda, ?_⟩
  rw [hdef, fieldType_of_ne (by rw [en]; exact hT a hda)]

/-- the field map of typed set `t`, collected for the parent variant `q'` -/
def fmOf (t : Option String × SelSet) (q' : Option String) : FieldMap :=
  ⟨t.2.id, grp [] ((selsFlat env.s q' t.2.sels).map (toEntry env.s))⟩

theorem entry_known {t : Option String × SelSet} (ht : t ∈ env.d.typedSets env.s)
    {q' : Option String} (hq : PEq env.s t.1 q') {e : FieldEntry}
    (he : e ∈ (selsFlat env.s q' t.2.sels).map (toEntry env.s)) :
    Known env e ∧ ∃ c ∈ selsFlat env.s t.1 t.2.sels, InstEq env.s e.inst c := by
  obtain ⟨c', hc', rfl⟩ := List.mem_map.1 he
  obtain ⟨c, hc, i⟩ := (selsFlat_peq env.s t.2.sels t.1 q' hq).mem_right hc'
  exact ⟨⟨⟨c, ⟨t, ht, hc⟩, by rw [inst_toEntry]; exact i.symm⟩, rfl⟩,
    c, hc, by rw [inst_toEntry]; exact i.symm⟩

theorem between_known {t1 t2 : Option String × SelSet} (h1 : t1 ∈ env.d.typedSets env.s)
    (h2 : t2 ∈ env.d.typedSets env.s) {q1' q2' : Option String} (hq1 : PEq env.s t1.1 q1')
    (hq2 : PEq env.s t2.1 q2') {u : String × FieldEntry × FieldEntry}
    (hu : u ∈ betweenPairs (fmOf env t1 q1') (fmOf env t2 q2')) :
    Known env u.2.1 ∧ Known env u.2.2 ∧
      ∃ c1 ∈ selsFlat env.s t1.1 t1.2.sels, ∃ c2 ∈ selsFlat env.s t2.1 t2.2.sels,
        InstEq env.s u.2.1.inst c1 ∧ InstEq env.s u.2.2.inst c2 ∧
          c1.node.responseName = c2.node.responseName := by
  obtain ⟨m1, m2, n1, n2⟩ := mem_betweenPairs_grp.1 hu
  obtain ⟨k1, c1, hc1, i1⟩ := entry_known env h1 hq1 m1
  obtain ⟨k2, c2, hc2, i2⟩ := entry_known env h2 hq2 m2
  refine ⟨k1, k2, c1, hc1, c2, hc2, i1, i2, ?_⟩
  have e1 : c1.node = u.2.1.node := i1.1.symm
  have e2 : c2.node = u.2.2.node := i2.1.symm
  rw [e1, e2]
  simp only [rnE] at n1 n2
  rw [n1, n2]

theorem within_known {t : Option String × SelSet} (ht : t ∈ env.d.typedSets env.s)
    {q' : Option String} (hq : PEq env.s t.1 q') {u : String × FieldEntry × FieldEntry}
    (hu : u ∈ withinPairs (fmOf env t q')) :
    Known env u.2.1 ∧ Known env u.2.2 ∧
      ∃ c1 ∈ selsFlat env.s t.1 t.2.sels, ∃ c2 ∈ selsFlat env.s t.1 t.2.sels,
        InstEq env.s u.2.1.inst c1 ∧ InstEq env.s u.2.2.inst c2 ∧
          c1.node.responseName = c2.node.responseName := by
  obtain ⟨hp, n1, n2⟩ := mem_withinPairs_grp.1 hu
  have hm := Spec.pairsOf_mem hp
  obtain ⟨k1, c1, hc1, i1⟩ := entry_known env ht hq hm.1
  obtain ⟨k2, c2, hc2, i2⟩ := entry_known env ht hq hm.2
  refine ⟨k1, k2, c1, hc1, c2, hc2, i1, i2, ?_⟩
  have e1 : c1.node = u.2.1.node := i1.1.symm
  have e2 : c2.node = u.2.2.node := i2.1.symm
  rw [e1, e2]
  simp only [rnE] at n1 n2
  rw [n1, n2]

theorem computeFields_fmOf (t : Option String × SelSet) (q' : Option String) :
    computeFields env.s env.d q' t.2 =
      (fmOf env t q', spreadsOf env.d (selsDirectSpreads t.2.sels)) := by
  rw [computeFields_gen]; rfl

end sound

section sound2
variable (env : Env) (hle : LinOrd env.le) (hU : TypedIdsUnique env.s env.d)
  (hA : ∀ a, DocInst env.s env.d a → a.node.argsOK)
  (hT : ∀ a, DocInst env.s env.d a → a.node.name ≠ "__typename")
include hle hU hA hT

theorem sound_all : ∀ n : Nat,
    (∀ excl rn e1 e2, Known env e1 → Known env e2 →
      Snd env (findConflict env n excl rn e1 e2) (UConf env.s env.d (!excl) e1.inst e2.inst)) ∧
    (∀ excl p1 p2 (t1 t2 : Option String × SelSet), t1 ∈ env.d.typedSets env.s →
      t2 ∈ env.d.typedSets env.s → PEq env.s t1.1 p1 → PEq env.s t2.1 p2 →
      Snd env (findConflictsBetweenSubSelectionSets env n excl p1 t1.2 p2 t2.2)
        (∃ c1 c2, InE env.s env.d t1.1 t1.2.sels c1 ∧ InE env.s env.d t2.1 t2.2.sels c2 ∧
          c1.node.responseName = c2.node.responseName ∧ UConf env.s env.d (!excl) c1 c2)) ∧
    (∀ excl (t : Option String × SelSet) q' nm, t ∈ env.d.typedSets env.s → PEq env.s t.1 q' →
      Snd env (collectConflictsBetweenFieldsAndFragment env n excl (fmOf env t q')
          (mkSpread env.d nm))
        (∃ c1 ∈ selsFlat env.s t.1 t.2.sels, ∃ c2, FragFields env.s env.d nm c2 ∧
          c1.node.responseName = c2.node.responseName ∧ UConf env.s env.d (!excl) c1 c2)) ∧
    (∀ excl n1 n2,
      Snd env (collectConflictsBetweenFragments env n excl (mkSpread env.d n1) (mkSpread env.d n2))
        (∃ c1 c2, FragFields env.s env.d n1 c1 ∧ FragFields env.s env.d n2 c2 ∧
          c1.node.responseName = c2.node.responseName ∧ UConf env.s env.d (!excl) c1 c2)) := by
  intro n
  induction n with
  | zero =>
    refine ⟨?_, ?_, ?_, ?_⟩
    · intro excl rn e1 e2 _ _ σ σ' cs _ h; simp [findConflict] at h
    · intro excl p1 p2 t1 t2 _ _ _ _ σ σ' cs _ h
      simp [findConflictsBetweenSubSelectionSets] at h
    · intro excl t q' nm _ _ σ σ' cs _ h
      simp [collectConflictsBetweenFieldsAndFragment] at h
    · intro excl n1 n2 σ σ' cs _ h
      simp [collectConflictsBetweenFragments] at h
  | succ n ih =>
    obtain ⟨ihFC, ihBS, ihFF, ihFR⟩ := ih
    -- comparing the field maps of two typed sets
    have between : ∀ (excl : Bool) (t1 t2 : Option String × SelSet) (q1' q2' : Option String)
        (P : Prop), t1 ∈ env.d.typedSets env.s → t2 ∈ env.d.typedSets env.s →
        PEq env.s t1.1 q1' → PEq env.s t2.1 q2' →
        (∀ c1 ∈ selsFlat env.s t1.1 t1.2.sels, ∀ c2 ∈ selsFlat env.s t2.1 t2.2.sels,
          c1.node.responseName = c2.node.responseName → UConf env.s env.d (!excl) c1 c2 → P) →
        Snd env (forEach (betweenPairs (fmOf env t1 q1') (fmOf env t2 q2'))
          (fun u => findConflict env n excl u.1 u.2.1 u.2.2)) P := by
      intro excl t1 t2 q1' q2' P h1 h2 hq1 hq2 hP
      apply snd_forEach
      intro u hu
      obtain ⟨k1, k2, c1, hc1, c2, hc2, i1, i2, hrn⟩ := between_known env h1 h2 hq1 hq2 hu
      exact (ihFC excl u.1 u.2.1 u.2.2 k1 k2).imp' (fun h => hP c1 hc1 c2 hc2 hrn (h.instEq i1 i2))
    refine ⟨?_, ?_, ?_, ?_⟩
    · -- find_conflict
      intro excl rn e1 e2 k1 k2 σ σ' cs hσ h
      obtain ⟨ha1, hd1⟩ := known_facts' env hA hT k1
      obtain ⟨ha2, hd2⟩ := known_facts' env hA hT k2
      obtain ⟨⟨a, hda, hea⟩, _⟩ := k1
      obtain ⟨⟨b, hdb, heb⟩, _⟩ := k2
      obtain ⟨hT1, hF1⟩ := fc_unfold env hle n excl rn e1 e2 σ ha1 ha2 hd1 hd2
      cases hdir : Spec.direct env.s ⟨e1.inst, e2.inst, !excl⟩ with
      | true =>
        obtain ⟨c, hc⟩ := hT1 hdir
        rw [hc] at h
        simp only [Option.some.injEq, Prod.mk.injEq] at h
        obtain ⟨rfl, rfl⟩ := h
        exact ⟨hσ, fun _ => ⟨0, UConfN.here hdir⟩⟩
      | false =>
        rw [hF1 hdir] at h
        by_cases hsub : (e1.node.hasSub && e2.node.hasSub) = true
        · simp only [hsub, if_true] at h
          have hs := hsub
          simp only [Bool.and_eq_true] at hs
          have en1 : e1.inst.node = a.node := hea.1
          have en2 : e2.inst.node = b.node := heb.1
          have m1 : (subP env.s e1.inst, e1.node.subSet) ∈ env.d.typedSets env.s := by
            have := hda.sub (by rw [← en1]; exact hs.1)
            rw [← en1, ← hea.subP] at this
            exact this
          have m2 : (subP env.s e2.inst, e2.node.subSet) ∈ env.d.typedSets env.s := by
            have := hdb.sub (by rw [← en2]; exact hs.2)
            rw [← en2, ← heb.subP] at this
            exact this
          have p1 : PEq env.s (subP env.s e1.inst) (e1.defTy.map Ty.named) := by
            rw [hd1]; exact PEq.refl _ _
          have p2 : PEq env.s (subP env.s e2.inst) (e2.defTy.map Ty.named) := by
            rw [hd2]; exact PEq.refl _ _
          cases hb : findConflictsBetweenSubSelectionSets env n
              (!Spec.deeper env.s ⟨e1.inst, e2.inst, !excl⟩) (e1.defTy.map Ty.named)
              e1.node.subSet (e2.defTy.map Ty.named) e2.node.subSet σ with
          | none => simp [hb] at h
          | some x =>
            obtain ⟨σ1, cs1⟩ := x
            simp only [hb, Option.some.injEq, Prod.mk.injEq] at h
            obtain ⟨rfl, rfl⟩ := h
            obtain ⟨g, i⟩ := ihBS _ _ _ (subP env.s e1.inst, e1.node.subSet)
              (subP env.s e2.inst, e2.node.subSet) m1 m2 p1 p2 σ σ1 cs1 hσ hb
            refine ⟨g, fun hne => ?_⟩
            obtain ⟨c1, c2, h1, h2, hrn, k, hu⟩ := i ((subfieldConflicts_ne_nil _ _ _ _).1 hne)
            rw [Bool.not_not] at hu
            refine ⟨k + 1, UConfN.sub (a := e1.inst) (b := e2.inst) (Or.inl ?_) (Or.inr ?_) hrn hu⟩
            · have : subSels e1.inst = e1.node.sub := subSels_eq hs.1
              rw [this]; exact h1
            · have : subSels e2.inst = e2.node.sub := subSels_eq hs.2
              rw [this]; exact h2
        · simp only [hsub, Bool.false_eq_true, if_false, Option.some.injEq, Prod.mk.injEq] at h
          obtain ⟨rfl, rfl⟩ := h
          exact ⟨hσ, fun h => absurd rfl h⟩
    · -- find_conflicts_between_sub_selection_sets
      intro excl p1 p2 t1 t2 h1 h2 hp1 hp2 σ σ' cs hσ h
      simp only [findConflictsBetweenSubSelectionSets] at h
      obtain ⟨g1, q1', hq1', c1eq⟩ := getFields_nf env hU hσ h1 hp1
      generalize getFields env.s env.d σ p1 t1.2 = r1 at g1 c1eq h
      obtain ⟨σ1, fm1, sps1⟩ := r1
      obtain ⟨g2, q2', hq2', c2eq⟩ := getFields_nf env hU g1 h2 hp2
      generalize getFields env.s env.d σ1 p2 t2.2 = r2 at g2 c2eq h
      obtain ⟨σ2, fm2, sps2⟩ := r2
      simp only at g1 g2 c1eq c2eq h
      rw [computeFields_fmOf, Prod.mk.injEq] at c1eq c2eq
      obtain ⟨rfl, rfl⟩ := c1eq
      obtain ⟨rfl, rfl⟩ := c2eq
      refine snd_andThen env ?_ (snd_andThen env ?_ (snd_andThen env ?_ ?_)) σ2 σ' cs g2 h
      · -- (H)
        exact between excl t1 t2 q1' q2' _ h1 h2 hq1' hq2'
          (fun c1 hc1 c2 hc2 hrn hu => ⟨c1, c2, Or.inl hc1, Or.inl hc2, hrn, hu⟩)
      · -- (I) fields of the first against the spreads of the second
        apply snd_forEach
        intro sp hsp
        obtain ⟨nm, hnm, rfl⟩ := mem_spreadsOf hsp
        exact (ihFF excl t1 q1' nm h1 hq1').imp'
          (fun ⟨c1, hc1, c2, hf, hrn, hu⟩ => ⟨c1, c2, Or.inl hc1, Or.inr ⟨nm, hnm, hf⟩, hrn, hu⟩)
      · -- (I) fields of the second against the spreads of the first
        apply snd_forEach
        intro sp hsp
        obtain ⟨nm, hnm, rfl⟩ := mem_spreadsOf hsp
        refine (ihFF excl t2 q2' nm h2 hq2').imp' ?_
        rintro ⟨c1, hc1, c2, hf, hrn, k, hu⟩
        exact ⟨c2, c1, Or.inr ⟨nm, hnm, hf⟩, Or.inl hc1, hrn.symm, k,
          hu.symm hA ⟨t2, h2, hc1⟩ hf.docInst⟩
      · -- (J)
        apply snd_forEach
        intro pr hpr
        simp only [List.mem_flatMap, List.mem_map] at hpr
        obtain ⟨a, ha, b, hb, rfl⟩ := hpr
        obtain ⟨n1, hn1, rfl⟩ := mem_spreadsOf ha
        obtain ⟨n2, hn2, rfl⟩ := mem_spreadsOf hb
        exact (ihFR excl n1 n2).imp'
          (fun ⟨c1, c2, hf1, hf2, hrn, hu⟩ =>
            ⟨c1, c2, Or.inr ⟨n1, hn1, hf1⟩, Or.inr ⟨n2, hn2, hf2⟩, hrn, hu⟩)
    · -- collect_conflicts_between_fields_and_fragment
      intro excl t q' nm ht hq σ σ' cs hσ h
      simp only [collectConflictsBetweenFieldsAndFragment] at h
      split at h
      · simp only [Option.some.injEq, Prod.mk.injEq] at h
        obtain ⟨rfl, rfl⟩ := h
        exact ⟨hσ, fun h => absurd rfl h⟩
      · have hσ1 : CacheNF env (σ.cfpAdd (fmOf env t q').id (mkSpread env.d nm).key excl) := hσ
        generalize σ.cfpAdd (fmOf env t q').id (mkSpread env.d nm).key excl = σ1 at hσ1 h
        have hname : (mkSpread env.d nm).name = nm := rfl
        rw [hname] at h
        cases hfr : env.d.getFragment nm with
        | none =>
          simp only [hfr, Option.some.injEq, Prod.mk.injEq] at h
          obtain ⟨rfl, rfl⟩ := h
          exact ⟨hσ1, fun h => absurd rfl h⟩
        | some fr =>
          simp only [hfr] at h
          obtain ⟨htf, g2, q2', hq2', ceq⟩ := getReferenced_nf env hU hσ1 hfr
          generalize getReferenced env.s env.d σ1 fr = r2 at g2 ceq h
          obtain ⟨σ2, fm2, sps⟩ := r2
          simp only at g2 ceq h
          rw [computeFields_fmOf env (env.s.typeFromAst fr.typeCond, fr.ss), Prod.mk.injEq] at ceq
          obtain ⟨rfl, rfl⟩ := ceq
          have hfs : fragSet env.s env.d nm = some (env.s.typeFromAst fr.typeCond, fr.ss) := by
            simp [fragSet, hfr]
          split at h
          · simp only [Option.some.injEq, Prod.mk.injEq] at h
            obtain ⟨rfl, rfl⟩ := h
            exact ⟨g2, fun h => absurd rfl h⟩
          · refine snd_andThen env ?_ ?_ σ2 σ' cs g2 h
            · exact between excl t (env.s.typeFromAst fr.typeCond, fr.ss) q' q2' _ ht htf hq hq2'
                (fun c1 hc1 c2 hc2 hrn hu =>
                  ⟨c1, hc1, c2, ⟨nm, FReach.refl _, _, hfs, hc2⟩, hrn, hu⟩)
            · apply snd_forEach
              intro sp hsp
              obtain ⟨n', hn', rfl⟩ := mem_spreadsOf hsp
              exact (ihFF excl t q' n' ht hq).imp'
                (fun ⟨c1, hc1, c2, ⟨m, hr, hf⟩, hrn, hu⟩ =>
                  ⟨c1, hc1, c2, ⟨m, FReach.step ⟨fr, hfr, hn'⟩ hr, hf⟩, hrn, hu⟩)
    · -- collect_conflicts_between_fragments
      intro excl n1 n2 σ σ' cs hσ h
      simp only [collectConflictsBetweenFragments] at h
      split at h
      · simp only [Option.some.injEq, Prod.mk.injEq] at h
        obtain ⟨rfl, rfl⟩ := h
        exact ⟨hσ, fun h => absurd rfl h⟩
      · split at h
        · simp only [Option.some.injEq, Prod.mk.injEq] at h
          obtain ⟨rfl, rfl⟩ := h
          exact ⟨hσ, fun h => absurd rfl h⟩
        · have hσ1 : CacheNF env
              (σ.cmpAdd (mkSpread env.d n1).key (mkSpread env.d n2).key excl) := hσ
          generalize σ.cmpAdd (mkSpread env.d n1).key (mkSpread env.d n2).key excl = σ1 at hσ1 h
          have hname1 : (mkSpread env.d n1).name = n1 := rfl
          have hname2 : (mkSpread env.d n2).name = n2 := rfl
          rw [hname1, hname2] at h
          split at h
          · rename_i fr1 fr2 hfr1 hfr2
            obtain ⟨ht1, g1, q1', hq1', c1eq⟩ := getReferenced_nf env hU hσ1 hfr1
            generalize getReferenced env.s env.d σ1 fr1 = r1 at g1 c1eq h
            obtain ⟨σ2, fm1, sps1⟩ := r1
            obtain ⟨ht2, g2, q2', hq2', c2eq⟩ := getReferenced_nf env hU g1 hfr2
            generalize getReferenced env.s env.d σ2 fr2 = r2 at g2 c2eq h
            obtain ⟨σ3, fm2, sps2⟩ := r2
            simp only at g1 g2 c1eq c2eq h
            rw [computeFields_fmOf env (env.s.typeFromAst fr1.typeCond, fr1.ss),
              Prod.mk.injEq] at c1eq
            rw [computeFields_fmOf env (env.s.typeFromAst fr2.typeCond, fr2.ss),
              Prod.mk.injEq] at c2eq
            obtain ⟨rfl, rfl⟩ := c1eq
            obtain ⟨rfl, rfl⟩ := c2eq
            have hfs1 : fragSet env.s env.d n1 = some (env.s.typeFromAst fr1.typeCond, fr1.ss) := by
              simp [fragSet, hfr1]
            have hfs2 : fragSet env.s env.d n2 = some (env.s.typeFromAst fr2.typeCond, fr2.ss) := by
              simp [fragSet, hfr2]
            refine snd_andThen env ?_ (snd_andThen env ?_ ?_) σ3 σ' cs g2 h
            · exact between excl _ _ q1' q2' _ ht1 ht2 hq1' hq2'
                (fun c1 hc1 c2 hc2 hrn hu =>
                  ⟨c1, c2, ⟨n1, FReach.refl _, _, hfs1, hc1⟩, ⟨n2, FReach.refl _, _, hfs2, hc2⟩,
                    hrn, hu⟩)
            · apply snd_forEach
              intro sp hsp
              obtain ⟨n', hn', rfl⟩ := mem_spreadsOf hsp
              exact (ihFR excl n1 n').imp'
                (fun ⟨c1, c2, hf1, ⟨m, hr, hf⟩, hrn, hu⟩ =>
                  ⟨c1, c2, hf1, ⟨m, FReach.step ⟨fr2, hfr2, hn'⟩ hr, hf⟩, hrn, hu⟩)
            · apply snd_forEach
              intro sp hsp
              obtain ⟨n', hn', rfl⟩ := mem_spreadsOf hsp
              exact (ihFR excl n' n2).imp'
                (fun ⟨c1, c2, ⟨m, hr, hf⟩, hf2, hrn, hu⟩ =>
                  ⟨c1, c2, ⟨m, FReach.step ⟨fr1, hfr1, hn'⟩ hr, hf⟩, hf2, hrn, hu⟩)
          · simp only [Option.some.injEq, Prod.mk.injEq] at h
            obtain ⟨rfl, rfl⟩ := h
            exact ⟨hσ1, fun h => absurd rfl h⟩

end sound2

end Gql.Exec
