import Gql.Proofs.SchemaBuild3
namespace Gql.Types
open Gql Gql.Generated

theorem not_all_other (s : Schema) (h : s.types ≠ []) : (schemaToDefs s).all Def.isOther = false := by
  cases hts : s.types with
  | nil => exact absurd hts h
  | cons t ts =>
    simp only [schemaToDefs, hts, List.map_cons, List.all_append, List.all_cons, typeToDef_eq, Def.isOther]
    simp

theorem argRefsOk_of_wf (s : Schema) (as : List Arg) (h : wfArgs s as = true) : argRefsOk s as = true := by
  simp only [wfArgs, Bool.and_eq_true, List.all_eq_true] at h
  simp only [argRefsOk, List.all_eq_true]
  intro a ha
  have := h.2 a ha
  simp only [wfArg, Bool.and_eq_true] at this
  exact this.2

theorem typeRefsOk_of_wf (s : Schema) (t : TypeDef) (h : wfType s t = true) : typeRefsOk s t = true := by
  cases t with
  | scalar => rfl
  | enum => rfl
  | union n d ms =>
    simp only [wfType, Bool.and_eq_true] at h
    simpa [typeRefsOk] using h.2
  | input n d o fs =>
    simp only [wfType, Bool.and_eq_true] at h
    exact argRefsOk_of_wf s fs h.2
  | object n d is fs =>
    simp only [wfType, Bool.and_eq_true, List.all_eq_true] at h
    simp only [typeRefsOk, Bool.and_eq_true, List.all_eq_true]
    refine ⟨h.1.1.2, ?_⟩
    intro f hf
    have := h.2 f hf
    simp only [wfField, Bool.and_eq_true] at this
    exact ⟨this.1.2, argRefsOk_of_wf s f.args this.2⟩
  | interface n d is fs =>
    simp only [wfType, Bool.and_eq_true, List.all_eq_true] at h
    simp only [typeRefsOk, Bool.and_eq_true, List.all_eq_true]
    refine ⟨h.1.1.2, ?_⟩
    intro f hf
    have := h.2 f hf
    simp only [wfField, Bool.and_eq_true] at this
    exact ⟨this.1.2, argRefsOk_of_wf s f.args this.2⟩

/-- Reference resolution only looks at the type names. -/
theorem resolves_congr (s r : Schema) (h : r.types = s.types) (n : Str) : resolves r n = resolves s n := by
  simp [resolves, Schema.hasType, Schema.typeNames, h]

theorem typeRefsOk_congr (s r : Schema) (h : r.types = s.types) (t : TypeDef) :
    typeRefsOk r t = typeRefsOk s t := by
  have hr : resolves r = resolves s := funext (resolves_congr s r h)
  cases t <;> simp [typeRefsOk, argRefsOk, hr]

theorem rootOk_congr (s r : Schema) (h : r.types = s.types) (o : Option Str) : rootOk r o = rootOk s o := by
  cases o <;> simp [rootOk, Schema.hasType, Schema.typeNames, h]

theorem allRefsResolve_of_wf (s r : Schema) (h : WFSchema s = true) (ht : r.types = s.types)
    (hd : r.directives = s.directives)
    (hq : r.query = s.query ∨ r.query = none) (hm : r.mutation = s.mutation ∨ r.mutation = none)
    (hs : r.subscription = s.subscription ∨ r.subscription = none) : allRefsResolve r = true := by
  simp only [WFSchema, Bool.and_eq_true] at h
  obtain ⟨⟨⟨⟨⟨⟨⟨_, htypes⟩, _⟩, hdirs⟩, _⟩, hrq⟩, hrm⟩, hrs⟩ := h
  have hr : resolves r = resolves s := funext (resolves_congr s r ht)
  simp only [allRefsResolve, Bool.and_eq_true]
  refine ⟨⟨⟨⟨?_, ?_⟩, ?_⟩, ?_⟩, ?_⟩
  · rw [ht]
    simp only [List.all_eq_true] at htypes ⊢
    intro t htm
    rw [typeRefsOk_congr s r ht]
    exact typeRefsOk_of_wf s t (htypes t htm)
  · rw [hd]
    simp only [List.all_eq_true] at hdirs ⊢
    intro d hdm
    have := hdirs d hdm
    simp only [wfDirective, Bool.and_eq_true] at this
    have h2 := argRefsOk_of_wf s d.args this.1.1.2
    simpa [argRefsOk, hr] using h2
  · rw [rootOk_congr s r ht]; rcases hq with e | e <;> rw [e]; exact hrq; rfl
  · rw [rootOk_congr s r ht]; rcases hm with e | e <;> rw [e]; exact hrm; rfl
  · rw [rootOk_congr s r ht]; rcases hs with e | e <;> rw [e]; exact hrs; rfl

end Gql.Types
