import Gql.Proofs.ExecLex
/-!
`render_lex` for operation / fragment definitions and executable documents (stage 1).
-/
namespace Gql.Text
open Gql.Syntax

theorem printDirs_eq_nil_iff (w : Widths) (ds : List Dir) : Exec.printDirs w ds = [] ↔ ds = [] := by
  cases ds with
  | nil => simp [Exec.printDirs, join, joinWith]
  | cons d r =>
    rw [printDirs_cons]
    constructor
    · intro h
      split at h
      · exact absurd h (printDir_ne_nil w d)
      · simp at h
    · intro h; cases h

theorem opPre_eq (ot n D : List Nat) (hot : ot ≠ []) :
    join [ot, join [n, []], D] [32] = ot ++ (wrap [32] n ++ wrap [32] D) := by
  rw [join_nil_sep, join_space _ _ hot]
  simp [spaced]

theorem validName_opType {ot : List Nat} (h : Exec.isOpType ot) : validName ot = true := by
  rcases h with rfl | rfl | rfl <;> decide

theorem wrap_space_mem (x : List Nat) (hx : x ≠ []) : 32 ∈ wrap [32] x := by
  cases x with
  | nil => exact absurd rfl hx
  | cons a r => simp [wrap]

theorem opPre_query_iff (w : Widths) (ot n : List Nat) (ds : List Dir) (hot : Exec.isOpType ot) :
    join [ot, join [n, []], Exec.printDirs w ds] [32] = S "query" ↔ Exec.isShorthand ot n ds := by
  have hne : ot ≠ [] := validName_ne_nil (validName_opType hot)
  rw [opPre_eq _ _ _ hne]
  unfold Exec.isShorthand
  constructor
  · intro h
    by_cases hn : n = []
    · by_cases hd : ds = []
      · subst hn hd
        simp [wrap, Exec.printDirs, join, joinWith] at h
        exact ⟨h, rfl, rfl⟩
      · exfalso
        have : 32 ∈ ot ++ (wrap [32] n ++ wrap [32] (Exec.printDirs w ds)) := by
          simp only [List.mem_append]
          exact Or.inr (Or.inr (wrap_space_mem _ (fun h0 => hd ((printDirs_eq_nil_iff w ds).mp h0))))
        rw [h] at this
        revert this; decide
    · exfalso
      have : 32 ∈ ot ++ (wrap [32] n ++ wrap [32] (Exec.printDirs w ds)) := by
        simp only [List.mem_append]
        exact Or.inr (Or.inl (wrap_space_mem _ hn))
      rw [h] at this
      revert this; decide
  · rintro ⟨rfl, rfl, rfl⟩
    simp [wrap, Exec.printDirs, join, joinWith]

theorem printDef_op (w : Widths) (ot n : List Nat) (ds : List Dir) (ss : List Sel) (hot : Exec.isOpType ot)
    (hbne : block (Exec.printSels w ss) ≠ []) :
    Exec.printDef w (.op ot n ds ss) =
      if Exec.isShorthand ot n ds then block (Exec.printSels w ss)
      else ot ++ (wrap [32] n ++ (wrap [32] (Exec.printDirs w ds) ++ wrap [32] (block (Exec.printSels w ss)))) := by
  have hne : ot ≠ [] := validName_ne_nil (validName_opType hot)
  unfold Exec.printDef
  simp only
  by_cases hs : Exec.isShorthand ot n ds
  · rw [if_pos ((opPre_query_iff w ot n ds hot).mpr hs), if_pos hs]; simp
  · rw [if_neg (fun h => hs ((opPre_query_iff w ot n ds hot).mp h)), if_neg hs, opPre_eq _ _ _ hne]
    have hb : wrap [32] (block (Exec.printSels w ss)) = [32] ++ block (Exec.printSels w ss) := by
      cases hbb : block (Exec.printSels w ss) with
      | nil => exact absurd hbb hbne
      | cons a r => simp [wrap]
    rw [hb]; simp [List.append_assoc]

end Gql.Text

namespace Gql.Text
open Gql.Syntax

theorem wrap_space_of_ne {x : List Nat} (h : x ≠ []) : wrap [32] x = [32] ++ x := by
  cases x with
  | nil => exact absurd rfl h
  | cons a r => simp [wrap]

theorem S_fragment : S "fragment " = S "fragment" ++ [32] := by decide
theorem S_on_sp : S " on " = [32] ++ S "on" ++ [32] := by decide

theorem printDef_frag (w : Widths) (n tc : List Nat) (ds : List Dir) (ss : List Sel)
    (hn : n ≠ []) (htc : tc ≠ []) (hbne : block (Exec.printSels w ss) ≠ []) :
    Exec.printDef w (.frag n tc ds ss) =
      S "fragment" ++ (wrap [32] n ++ (wrap [32] (S "on") ++ (wrap [32] tc ++
        (wrap [32] (Exec.printDirs w ds) ++ wrap [32] (block (Exec.printSels w ss)))))) := by
  simp only [Exec.printDef]
  rw [wrap_space_of_ne hn, wrap_space_of_ne htc, wrap_space_of_ne hbne,
    wrap_space_of_ne (show S "on" ≠ [] by decide), S_fragment, S_on_sp]
  by_cases hd : Exec.printDirs w ds = []
  · simp [hd, wrap, List.append_assoc]
  · have : wrap [] (Exec.printDirs w ds) [32] = Exec.printDirs w ds ++ [32] := by
      cases hx : Exec.printDirs w ds with
      | nil => exact absurd hx hd
      | cons a r => simp [wrap]
    rw [wrap_space_of_ne hd, this]; simp [List.append_assoc]

section
variable (w : Widths) (hw : 4 ≤ w.object)
variable (hT : tableOK Generated.escapeTable = true) (hC : tableComplete Generated.escapeTable = true)
include hw hT hC

theorem lexes_ss (ss : List Sel) (hne : ss ≠ []) (h : Exec.selsWf ss) (k : Nat) :
    block (Exec.printSels w ss) ≠ [] ∧
      Lexes true (indentLF k (block (Exec.printSels w ss))) (Exec.ssKvs ss) := by
  have hts : Exec.printSels w ss ≠ [] := by
    obtain ⟨s, r, rfl⟩ := List.exists_cons_of_ne_nil hne
    simp [Exec.printSels]
  have hne' := printSels_ne_nil w ss h
  have hJ := lexSels w hw hT hC ss h (k + 2) (10 :: List.replicate (k + 2) 32) (ignorable_lf_spaces _) (by simp)
  exact ⟨by rw [block_eq _ hts hne']; simp, lexes_block w hw hT hC _ _ hts hne' k hJ⟩

omit hw hT hC in
theorem lexOpt_name (k : Nat) (n : List Nat) (h : n = [] ∨ validName n = true) :
    LexOpt (indentLF k n) (if n.isEmpty then [] else [(.name, some n)]) := by
  by_cases hn : n = []
  · subst hn; left; simp [indentLF]
  · right
    have hv := h.resolve_left hn
    have : n.isEmpty = false := by cases n <;> simp_all
    rw [indentLF_no10 k n (name_no10 hv)]
    exact ⟨hn, by simpa [this] using Lexes.name n hv⟩

/-- One definition. -/
theorem lexes_def (d : Def) (h : Exec.defWf d) (k : Nat) :
    Lexes true (indentLF k (Exec.printDef w d)) (Exec.defKvs d) := by
  cases d with
  | op ot n ds ss =>
    obtain ⟨hot, hn, hds, hssne, hss⟩ := h
    obtain ⟨hbne, hB⟩ := lexes_ss w hw hT hC ss hssne hss k
    rw [printDef_op w ot n ds ss hot hbne]
    simp only [Exec.defKvs]
    by_cases hs : Exec.isShorthand ot n ds
    · rw [if_pos hs, if_pos hs]; exact hB
    · rw [if_neg hs, if_neg hs]
      have hov := validName_opType hot
      have h0 : Lexes true (indentLF k ot) [(.name, some ot)] := by
        rw [indentLF_no10 k ot (name_no10 hov)]; exact Lexes.name ot hov
      have h1 := lexes_optSpace h0 (lexOpt_name k n hn)
      have h2 := lexes_optSpace h1 (lexes_dirs w hw hT hC false ds hds k)
      have h3 := lexes_optSpace h2 (lexOpt_of_ne (indentLF_ne_nil hbne) hB)
      simp only [indentLF_append, indentLF_wrap]
      simpa [indentLF, List.append_assoc] using h3
  | frag n tc ds ss =>
    obtain ⟨hn, _, htc, hds, hssne, hss⟩ := h
    obtain ⟨hbne, hB⟩ := lexes_ss w hw hT hC ss hssne hss k
    rw [printDef_frag w n tc ds ss (validName_ne_nil hn) (validName_ne_nil htc) hbne]
    have hname : ∀ (x : List Nat), validName x = true →
        LexOpt (indentLF k x) [(.name, some x)] := by
      intro x hx
      have := lexOpt_name k x (Or.inr hx)
      have hxe : x.isEmpty = false := by
        have := validName_ne_nil hx; cases x <;> simp_all
      simpa [hxe] using this
    have h0 : Lexes true (indentLF k (S "fragment")) [(.name, some (S "fragment"))] := by
      rw [indentLF_no10 k _ (by decide)]; exact Lexes.name _ (by decide)
    have h1 := lexes_optSpace h0 (hname n hn)
    have h2 := lexes_optSpace h1 (hname (S "on") (by decide))
    have h3 := lexes_optSpace h2 (hname tc htc)
    have h4 := lexes_optSpace h3 (lexes_dirs w hw hT hC false ds hds k)
    have h5 := lexes_optSpace h4 (lexOpt_of_ne (indentLF_ne_nil hbne) hB)
    simp only [indentLF_append, indentLF_wrap]
    simpa [indentLF, Exec.defKvs, List.append_assoc] using h5

end

end Gql.Text

namespace Gql.Text
open Gql.Syntax

theorem block_last (ts : List (List Nat)) (hts : ts ≠ []) (hne : ∀ t ∈ ts, t ≠ []) :
    (block ts).getLast? = some 125 := by
  rw [block_eq ts hts hne]
  have : [123] ++ [10] ++ indent (joinWith [10] ts) ++ [10] ++ [125] =
      ([123] ++ [10] ++ indent (joinWith [10] ts) ++ [10]) ++ [125] := by simp
  rw [this, List.getLast?_append]
  simp

theorem getLast?_append_of_ne {a b : List Nat} (hb : b ≠ []) : (a ++ b).getLast? = b.getLast? := by
  rw [List.getLast?_append]
  cases h : b.getLast? with
  | none => simp [List.getLast?_eq_none_iff] at h; exact absurd h hb
  | some x => simp

theorem printDef_last (w : Widths) (d : Def) (h : Exec.defWf d) : (Exec.printDef w d).getLast? = some 125 := by
  have key : ∀ ss : List Sel, ss ≠ [] → Exec.selsWf ss →
      block (Exec.printSels w ss) ≠ [] ∧ (block (Exec.printSels w ss)).getLast? = some 125 := by
    intro ss hne hss
    have hts : Exec.printSels w ss ≠ [] := by
      obtain ⟨s, r, rfl⟩ := List.exists_cons_of_ne_nil hne
      simp [Exec.printSels]
    have hne' := printSels_ne_nil w ss hss
    exact ⟨by rw [block_eq _ hts hne']; simp, block_last _ hts hne'⟩
  cases d with
  | op ot n ds ss =>
    obtain ⟨hot, _, _, hssne, hss⟩ := h
    obtain ⟨hb, hl⟩ := key ss hssne hss
    simp only [Exec.printDef]
    rw [getLast?_append_of_ne hb]; exact hl
  | frag n tc ds ss =>
    obtain ⟨_, _, _, _, hssne, hss⟩ := h
    obtain ⟨hb, hl⟩ := key ss hssne hss
    simp only [Exec.printDef]
    rw [getLast?_append_of_ne hb]; exact hl

/-- In an executable document every definition ends with `}`: `leave_document` adds no `query`. -/
theorem documentDefs_id (ts : List (List Nat)) (h : ∀ t ∈ ts, t.getLast? = some 125) :
    ∀ prev : Option (List Nat), (∀ p, prev = some p → p.getLast? = some 125) → documentDefs prev ts = ts := by
  induction ts with
  | nil => intro prev _; rfl
  | cons d r ih =>
    intro prev hp
    have hd := h d (by simp)
    have ih' := ih (fun t ht => h t (by simp [ht])) (some d) (by intro p hp'; cases hp'; exact hd)
    cases prev with
    | none => simp [documentDefs, ih']
    | some p =>
      have := hp p rfl
      simp [documentDefs, this, ih']

section
variable (w : Widths) (hw : 4 ≤ w.object)
variable (hT : tableOK Generated.escapeTable = true) (hC : tableComplete Generated.escapeTable = true)
include hw hT hC

theorem lexes_defs (defs : List Def) (h : Exec.defsWf defs) :
    Lexes true (joinWith [10, 10] (defs.map (Exec.printDef w))) (Exec.defsKvs defs) := by
  induction defs with
  | nil => exact Lexes.nil.weaken true
  | cons d r ih =>
    have hd := lexes_def w hw hT hC d h.1 0
    rw [indentLF_zero] at hd
    have ih' := ih h.2
    cases r with
    | nil => simpa [joinWith, Exec.defsKvs] using hd
    | cons d' r' =>
      simp only [List.map_cons, joinWith, Exec.defsKvs] at ih' ⊢
      have := Lexes.append_l (Lexes.append_ign hd (sep := [10, 10])
        (by intro x hx; simp at hx; simp [hx]) (by simp)) ih'
      simpa [List.append_assoc] using this

/-- `render_lex` for executable documents. -/
theorem lexes_doc (defs : List Def) (h : Exec.defsWf defs) :
    Lexes true (Exec.printDoc w defs) (Exec.defsKvs defs) := by
  have hlast : ∀ t ∈ defs.map (Exec.printDef w), t.getLast? = some 125 := by
    intro t ht
    simp only [List.mem_map] at ht
    obtain ⟨d, hd, rfl⟩ := ht
    have : Exec.defWf d := by
      clear hw hT hC
      induction defs with
      | nil => simp at hd
      | cons x r ih =>
        rcases List.mem_cons.mp hd with rfl | hd'
        · exact h.1
        · exact ih h.2 hd'
    exact printDef_last w d this
  have hne : ∀ t ∈ defs.map (Exec.printDef w), t ≠ [] := by
    intro t ht h0
    have := hlast t ht
    rw [h0] at this; simp at this
  unfold Exec.printDoc
  rw [documentDefs_id _ hlast none (by intro p hp; cases hp), join_eq_joinWith _ _ hne]
  exact lexes_defs w hw hT hC defs h

end

end Gql.Text
