/-
C13 — soundness, general chain (variables, fragments, type conditions, @skip/@include,
merged response keys): well-typedness of what CollectFields collects.
-/
import Gql.Proofs.SoundExec
import Gql.Proofs.ExecFuel

namespace Gql.Exec.Valid
open Gql.Exec Gql.Exec.Refine

/-- the fixed data of one request in the general chain: executor context, declared variables,
and a set of fragment names closed under "spreads" whose definitions are valid -/
structure GCtx where
  cx : Spec.Ctx
  env : List VarDef
  reach : List Name

namespace GCtx
def vcx (g : GCtx) : VCtx := { schema := g.cx.schema, doc := g.cx.doc, env := g.env }
end GCtx

/-- a selection set is valid for (values of) the named type `S`, the run-time exception does not
apply anywhere in it, and it only spreads fragments of the closed set -/
def SelsOk (g : GCtx) (S : Name) (sels : List Selection) : Prop :=
  validSels g.vcx S sels = true ∧ excSels g.cx.schema g.env g.cx.vars S sels = false ∧
    ∀ n ∈ spreadsIn sels, n ∈ g.reach

/-- every fragment of the closed set is valid on its type condition -/
def FragsOk (g : GCtx) : Prop :=
  ∀ n ∈ g.reach, ∀ fr, g.cx.doc.frag n = some fr → SelsOk g fr.cond fr.sels

/-- the object type `rt` is (a possible type of) `S` -/
def Sub (s : Schema) (rt S : Name) : Prop := rt = S ∨ s.isSubType S rt = true

/-- what the value layer owes for this request (`OpsSoundV` with `VarsTyped` discharged) -/
def ValuesOk (g : GCtx) : Prop :=
  ∀ (t : TypeRef) (d : Bool) (v : Value), validValue g.cx.schema g.env t d v = true →
    excValue g.cx.schema g.env g.cx.vars t v = false →
    (∀ x, v = .var x → (g.cx.vars.lookup x).isSome = true) →
    g.cx.ops.coerceLiteral g.cx.schema g.cx.vars t v ≠ none

/-- a collected field is well-typed on the runtime object type `rt` -/
def FieldOn (g : GCtx) (rt : Name) (f : FieldNode) : Prop :=
  (f.name = "__typename" ∧ f.sels = []) ∨
  (f.name ≠ "__typename" ∧ ∃ fd, g.cx.schema.getField rt f.name = some fd ∧
    validArgs g.cx.schema g.env fd.args f.args = true ∧
    excArgs g.cx.schema g.env g.cx.vars fd.args f.args = false ∧
    (if isLeaf g.cx.schema fd.type.baseName = true then f.sels = []
     else SelsOk g fd.type.baseName f.sels))

/-- all groups non-empty, all their fields well-typed on `rt` -/
def AllOn (g : GCtx) (rt : Name) (gs : Spec.Groups) : Prop :=
  ∀ p ∈ gs, p.2 ≠ [] ∧ ∀ f ∈ p.2, FieldOn g rt f

theorem AllOn.nil (g : GCtx) (rt : Name) : AllOn g rt [] := by intro p hp; cases hp

theorem AllOn.appendGroup {g : GCtx} {rt : Name} {gs : Spec.Groups} (h : AllOn g rt gs)
    (k : Name) (f : FieldNode) (hf : FieldOn g rt f) : AllOn g rt (Spec.appendGroup gs k [f]) := by
  induction gs with
  | nil =>
    intro p hp
    simp only [Spec.appendGroup, List.mem_singleton] at hp
    subst hp
    exact ⟨by simp, by intro f' hf'; simp at hf'; subst hf'; exact hf⟩
  | cons hd t ih =>
    obtain ⟨k', fs⟩ := hd
    have ht : AllOn g rt t := fun p hp => h p (List.mem_cons_of_mem _ hp)
    have hhd := h (k', fs) (List.mem_cons_self ..)
    intro p hp
    simp only [Spec.appendGroup] at hp
    split at hp
    · rcases List.mem_cons.1 hp with rfl | hp
      · refine ⟨by simp, ?_⟩
        intro f' hf'
        rcases List.mem_append.1 hf' with hf' | hf'
        · exact hhd.2 f' hf'
        · simp at hf'; subst hf'; exact hf
      · exact ht p hp
    · rcases List.mem_cons.1 hp with rfl | hp
      · exact hhd
      · exact ih ht p hp

theorem AllOn.appendGroups {g : GCtx} {rt : Name} {gs : Spec.Groups} (h : AllOn g rt gs)
    (k : Name) (fs : List FieldNode) (hne : fs ≠ []) (hf : ∀ f ∈ fs, FieldOn g rt f) :
    AllOn g rt (Spec.appendGroup gs k fs) := by
  induction gs with
  | nil =>
    intro p hp
    simp only [Spec.appendGroup, List.mem_singleton] at hp
    subst hp
    exact ⟨hne, hf⟩
  | cons hd t ih =>
    obtain ⟨k', fs'⟩ := hd
    have ht : AllOn g rt t := fun p hp => h p (List.mem_cons_of_mem _ hp)
    have hhd := h (k', fs') (List.mem_cons_self ..)
    intro p hp
    simp only [Spec.appendGroup] at hp
    split at hp
    · rcases List.mem_cons.1 hp with rfl | hp
      · refine ⟨by simp [hhd.1], ?_⟩
        intro f' hf'
        rcases List.mem_append.1 hf' with hf' | hf'
        · exact hhd.2 f' hf'
        · exact hf f' hf'
      · exact ht p hp
    · rcases List.mem_cons.1 hp with rfl | hp
      · exact hhd
      · exact ih ht p hp

theorem AllOn.mergeGroups {g : GCtx} {rt : Name} {gs fg : Spec.Groups} (h : AllOn g rt gs)
    (hf : AllOn g rt fg) : AllOn g rt (Spec.mergeGroups gs fg) := by
  induction fg generalizing gs with
  | nil => exact h
  | cons hd t ih =>
    obtain ⟨k, fs⟩ := hd
    have hhd := hf (k, fs) (List.mem_cons_self ..)
    exact ih (h.appendGroups k fs hhd.1 hhd.2) (fun p hp => hf p (List.mem_cons_of_mem _ hp))

/-! ### directives never fail -/

theorem coerce_if (scx : Spec.Ctx) (args : List (Name × Value)) (m : ArgMap)
    (h : Spec.coerceArgumentValues scx args [{ name := "if", type := boolNN, default := none }] [] = some m) :
    ∃ r, m = [("if", r)] := by
  unfold Spec.coerceArgumentValues at h
  simp only [boolNN, TypeRef.nonNull, Option.isSome_none, Bool.and_false, Bool.false_eq_true,
    ↓reduceIte] at h
  split at h
  · rename_i v hv
    simp only [Spec.coerceArgumentValues, ArgMap.set, Option.some.injEq] at h
    exact ⟨v, h.symm⟩
  · rename_i hv
    exfalso
    revert hv
    cases lookupArg args "if" with
    | none => simp
    | some v =>
      simp only
      split <;> (try simp) <;>
        (cases scx.ops.coerceLiteral scx.schema scx.vars (.named "Boolean" true) v <;> simp)
  · cases h

theorem directiveIf_some (g : GCtx) (hvok : VarsOk g.env g.cx.vars) (hval : ValuesOk g)
    (d : Directive)
    (hv : validArgs g.cx.schema g.env [{ name := "if", type := boolNN, default := none }] d.args = true)
    (he : excArgs g.cx.schema g.env g.cx.vars [{ name := "if", type := boolNN, default := none }] d.args = false) :
    ∃ b, Spec.directiveIf g.cx d = some b := by
  obtain ⟨m, hm⟩ := arguments_coerce g.cx g.env hvok hval _ d.args hv he
    (by intro a ha dflt hd; simp at ha; subst ha; cases hd) _ (fun _ h => h) []
  obtain ⟨r, rfl⟩ := coerce_if g.cx d.args m hm
  exact ⟨r.truthy, by simp [Spec.directiveIf, hm, List.lookup]⟩

theorem included_some (g : GCtx) (hvok : VarsOk g.env g.cx.vars) (hval : ValuesOk g)
    (dirs : List Directive) (hv : validDirs g.cx.schema g.env dirs = true)
    (he : excDirs g.cx.schema g.env g.cx.vars dirs = false) :
    ∃ b, Spec.included g.cx dirs = some b := by
  have hd : ∀ d ∈ dirs, ∃ b, Spec.directiveIf g.cx d = some b := by
    intro d hd
    unfold validDirs at hv
    simp only [Bool.and_eq_true, List.all_eq_true] at hv
    have h1 := (hv.2 d hd).2
    unfold excDirs at he
    have h2 := List.any_eq_false.1 he d hd
    exact directiveIf_some g hvok hval d h1 (by simpa using h2)
  unfold Spec.included
  cases hs : dirs.find? (fun d => d.name == "skip") with
  | none =>
    simp only
    cases hi : dirs.find? (fun d => d.name == "include") with
    | none => exact ⟨true, rfl⟩
    | some d' =>
      obtain ⟨b, hb⟩ := hd d' (List.mem_of_find?_eq_some hi)
      exact ⟨b, by simp [hb]⟩
  | some d =>
    obtain ⟨b, hb⟩ := hd d (List.mem_of_find?_eq_some hs)
    simp only [hb]
    cases b with
    | true => exact ⟨false, rfl⟩
    | false =>
      simp only
      cases hi : dirs.find? (fun d => d.name == "include") with
      | none => exact ⟨true, rfl⟩
      | some d' =>
        obtain ⟨b', hb'⟩ := hd d' (List.mem_of_find?_eq_some hi)
        exact ⟨b', by simp [hb']⟩

end Gql.Exec.Valid
