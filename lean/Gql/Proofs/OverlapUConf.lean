import Gql.Proofs.OverlapSym
import Gql.Proofs.OverlapExpand
import Gql.Proofs.OverlapSpecFlat
/-! C14, named fragments, specification side: `SpecConflict` holds iff two fields of one expanded
selection set have an *unordered* conflict `UConf` (membership in expanded sets instead of list
positions; the visited-set order of the specification's expansion disappears). -/
namespace Gql.Exec
open Overlap

/-- unordered conflict of two field instances, with the length of the chain -/
inductive UConfN (s : Schema) (d : Doc) : Nat → Bool → Spec.FieldInst → Spec.FieldInst → Prop where
  | here {n : Nat} {full : Bool} {a b : Spec.FieldInst} :
      Spec.direct s ⟨a, b, full⟩ = true → UConfN s d n full a b
  | sub {n : Nat} {full : Bool} {a b c1 c2 : Spec.FieldInst} :
      MIn s d a b c1 → MIn s d a b c2 → c1.node.responseName = c2.node.responseName →
      UConfN s d n (Spec.deeper s ⟨a, b, full⟩) c1 c2 → UConfN s d (n + 1) full a b

def UConf (s : Schema) (d : Doc) (full : Bool) (a b : Spec.FieldInst) : Prop :=
  ∃ n, UConfN s d n full a b

/-- two fields of one expanded selection set of the document have an unordered conflict -/
def UWConf (s : Schema) (d : Doc) : Prop :=
  ∃ t ∈ d.typedSets s, ∃ c1 c2, InE s d t.1 t.2.sels c1 ∧ InE s d t.1 t.2.sels c2 ∧
    c1.node.responseName = c2.node.responseName ∧ UConf s d true c1 c2

theorem MIn.comm {s : Schema} {d : Doc} {a b c : Spec.FieldInst} (h : MIn s d a b c) :
    MIn s d b a c := Or.symm h

/-! ### members of expanded sets are document fields -/

theorem fragSet_typed {s : Schema} {d : Doc} {n : String} {t : Option String × SelSet}
    (h : fragSet s d n = some t) : t ∈ d.typedSets s := by
  simp only [fragSet, Option.map_eq_some_iff] at h
  obtain ⟨fr, hfr, rfl⟩ := h
  have h2 : fr ∈ d.frags := List.mem_reverse.1 (List.mem_of_find?_eq_some hfr)
  simp only [Doc.frags, List.mem_filterMap] at h2
  obtain ⟨df, hdf, hx⟩ := h2
  cases df with
  | op _ _ => simp at hx
  | frag f =>
    simp only [Option.some.injEq] at hx
    subst hx
    simp only [Doc.typedSets, List.mem_flatMap, List.mem_cons]
    exact ⟨_, hdf, Or.inl rfl⟩

theorem InE.docInst {s : Schema} {d : Doc} {t : Option String × SelSet}
    (ht : t ∈ d.typedSets s) {c : Spec.FieldInst} (h : InE s d t.1 t.2.sels c) : DocInst s d c := by
  rcases h with h | ⟨_, _, m, _, tf, htf, hc⟩
  · exact ⟨t, ht, h⟩
  · exact ⟨tf, fragSet_typed htf, hc⟩

theorem subSels_mem {s : Schema} {d : Doc} {a c : Spec.FieldInst}
    (h : InE s d (subP s a) (subSels a) c) : a.node.hasSub = true := by
  cases hs : a.node.hasSub with
  | true => rfl
  | false =>
    simp only [subSels, hs, Bool.false_eq_true, if_false] at h
    rcases h with h | ⟨n, hn, _⟩
    · simp [selsFlat] at h
    · simp [selsDirectSpreads] at hn

theorem subSels_eq {a : Spec.FieldInst} (h : a.node.hasSub = true) : subSels a = a.node.sub := by
  simp [subSels, h]

theorem InE.sub_docInst {s : Schema} {d : Doc} {a c : Spec.FieldInst} (ha : DocInst s d a)
    (h : InE s d (subP s a) (subSels a) c) : DocInst s d c := by
  have hs := subSels_mem h
  rw [subSels_eq hs] at h
  exact InE.docInst (t := (subP s a, a.node.subSet)) (ha.sub hs) h

theorem MIn.docInst {s : Schema} {d : Doc} {a b c : Spec.FieldInst} (ha : DocInst s d a)
    (hb : DocInst s d b) (h : MIn s d a b c) : DocInst s d c := by
  rcases h with h | h
  · exact InE.sub_docInst ha h
  · exact InE.sub_docInst hb h

/-! ### symmetry, monotonicity -/

section sym
variable {s : Schema} {d : Doc} (hA : ∀ a, DocInst s d a → a.node.argsOK)
include hA

theorem UConfN.symm : ∀ {n : Nat} {full : Bool} {a b : Spec.FieldInst}, DocInst s d a →
    DocInst s d b → UConfN s d n full a b → UConfN s d n full b a := by
  intro n
  induction n with
  | zero =>
    intro full a b ha hb h
    cases h with
    | here hd => exact UConfN.here (by rw [← direct_comm s (hA a ha) (hA b hb)]; exact hd)
  | succ n ih =>
    intro full a b ha hb h
    cases h with
    | here hd => exact UConfN.here (by rw [← direct_comm s (hA a ha) (hA b hb)]; exact hd)
    | sub h1 h2 hrn hc =>
      refine UConfN.sub h1.comm h2.comm hrn ?_
      rw [← deeper_comm]
      exact hc

theorem UConfN.swap_pair : ∀ {n : Nat} {full : Bool} {a b : Spec.FieldInst}, DocInst s d a →
    DocInst s d b → UConfN s d n full a b → UConfN s d n full b a :=
  fun ha hb h => UConfN.symm hA ha hb h

end sym

theorem UConfN.mono_full {s : Schema} {d : Doc} : ∀ {n : Nat} {full full' : Bool}
    {a b : Spec.FieldInst}, (full = true → full' = true) → UConfN s d n full a b →
      UConfN s d n full' a b := by
  intro n
  induction n with
  | zero =>
    intro full full' a b hf h
    cases h with
    | here hd => exact UConfN.here (Spec.direct_covers (s := ⟨a, b, full⟩) (t := ⟨a, b, full'⟩) ⟨rfl, rfl, hf⟩ hd)
  | succ n ih =>
    intro full full' a b hf h
    cases h with
    | here hd => exact UConfN.here (Spec.direct_covers (s := ⟨a, b, full⟩) (t := ⟨a, b, full'⟩) ⟨rfl, rfl, hf⟩ hd)
    | sub h1 h2 hrn hc =>
      refine UConfN.sub h1 h2 hrn (ih ?_ hc)
      simp only [Spec.deeper, Bool.and_eq_true]
      exact fun h => ⟨hf h.1, h.2⟩

/-! ### `SpecConflict` → `UWConf` -/

theorem mem_initStates_gen {s : Schema} {d : Doc} {st0 : Spec.State} :
    st0 ∈ Spec.initStates s d ↔
      ∃ t ∈ d.typedSets s,
        ∃ pr ∈ Spec.sameNamePairs (Spec.expandWith s d t.1 t.2.sels []).1,
          st0 = ⟨pr.1, pr.2, true⟩ := by
  simp only [Spec.initStates, ← Doc.typedSets_spec, List.mem_flatMap, List.mem_map]
  constructor
  · rintro ⟨ps, ⟨t, ht, rfl⟩, pr, hpr, rfl⟩
    exact ⟨t, ht, pr, hpr, rfl⟩
  · rintro ⟨t, ht, pr, hpr, rfl⟩
    exact ⟨_, ⟨t, ht, rfl⟩, pr, hpr, rfl⟩

theorem reach_uconf {s : Schema} {d : Doc} {st0 st : Spec.State} (hr : Spec.Reach s d st0 st) :
    Spec.direct s st = true → UConf s d st0.full st0.a st0.b := by
  induction hr with
  | refl st => exact fun hd => ⟨0, UConfN.here hd⟩
  | @step a b c hstep _ ih =>
    intro hd
    obtain ⟨n, hn⟩ := ih hd
    simp only [Spec.Step, Spec.succs] at hstep
    split at hstep
    · cases hstep
    · obtain ⟨pr, hpr, rfl⟩ := List.mem_map.1 hstep
      obtain ⟨hp, hrn⟩ := Spec.mem_sameNamePairs.1 hpr
      have hm := Spec.pairsOf_mem hp
      exact ⟨n + 1, UConfN.sub ((merged_mem s d _ _ _).1 hm.1) ((merged_mem s d _ _ _).1 hm.2)
        hrn hn⟩

theorem specConflict_uw {s : Schema} {d : Doc} (h : Spec.SpecConflict s d) : UWConf s d := by
  obtain ⟨st0, h0, st, hr, hd⟩ := h
  obtain ⟨t, ht, pr, hpr, rfl⟩ := mem_initStates_gen.1 h0
  obtain ⟨hp, hrn⟩ := Spec.mem_sameNamePairs.1 hpr
  have hm := Spec.pairsOf_mem hp
  exact ⟨t, ht, pr.1, pr.2, (expand_mem s d _ _ _).1 hm.1, (expand_mem s d _ _ _).1 hm.2, hrn,
    reach_uconf hr hd⟩

/-! ### `UWConf` → `SpecConflict` -/

theorem mem_pairs_or {α : Type} {l : List α} {x y : α} (hx : x ∈ l) (hy : y ∈ l) :
    (x, y) ∈ Spec.pairsOf l ∨ (y, x) ∈ Spec.pairsOf l ∨ x = y := by
  induction l with
  | nil => cases hx
  | cons h t ih =>
    simp only [Spec.pairsOf, List.mem_append, List.mem_map]
    rcases List.mem_cons.1 hx with rfl | hx' <;> rcases List.mem_cons.1 hy with rfl | hy'
    · exact Or.inr (Or.inr rfl)
    · exact Or.inl (Or.inl ⟨y, hy', rfl⟩)
    · exact Or.inr (Or.inl (Or.inl ⟨x, hx', rfl⟩))
    · rcases ih hx' hy' with h1 | h1 | h1
      · exact Or.inl (Or.inr h1)
      · exact Or.inr (Or.inl (Or.inr h1))
      · exact Or.inr (Or.inr h1)

section back
variable {s : Schema} {d : Doc} (hA : ∀ a, DocInst s d a → a.node.argsOK)
  (hL : LeafNoSub s d)
include hA hL

/-- two members of the expansion of one typed set, with an unordered conflict of length `n`:
one of the next two alternatives, given the induction hypotheses -/
theorem within_route
    (n : Nat)
    (IH1 : ∀ a b full, DocInst s d a → DocInst s d b → UConfN s d n full a b →
      (∃ st0 ∈ Spec.initStates s d, Spec.Reach s d st0 ⟨a, b, full⟩) → Spec.SpecConflict s d)
    (IH2 : ∀ c f, DocInst s d c → UConfN s d n f c c → Spec.SpecConflict s d)
    {t : Option String × SelSet} (ht : t ∈ d.typedSets s) {c1 c2 : Spec.FieldInst} {f : Bool}
    (h1 : InE s d t.1 t.2.sels c1) (h2 : InE s d t.1 t.2.sels c2)
    (hrn : c1.node.responseName = c2.node.responseName) (hu : UConfN s d n f c1 c2) :
    Spec.SpecConflict s d := by
  have d1 := InE.docInst ht h1
  have d2 := InE.docInst ht h2
  have hu' : UConfN s d n true c1 c2 := hu.mono_full (fun _ => rfl)
  have m1 := (expand_mem s d _ _ _).2 h1
  have m2 := (expand_mem s d _ _ _).2 h2
  rcases mem_pairs_or m1 m2 with hp | hp | he
  · have h0 : (⟨c1, c2, true⟩ : Spec.State) ∈ Spec.initStates s d :=
      mem_initStates_gen.2 ⟨t, ht, (c1, c2), Spec.mem_sameNamePairs.2 ⟨hp, hrn⟩, rfl⟩
    exact IH1 c1 c2 true d1 d2 hu' ⟨_, h0, Spec.Reach.refl _⟩
  · have h0 : (⟨c2, c1, true⟩ : Spec.State) ∈ Spec.initStates s d :=
      mem_initStates_gen.2 ⟨t, ht, (c2, c1), Spec.mem_sameNamePairs.2 ⟨hp, hrn.symm⟩, rfl⟩
    exact IH1 c2 c1 true d2 d1 (hu'.symm hA d1 d2) ⟨_, h0, Spec.Reach.refl _⟩
  · subst he
    exact IH2 c1 f d1 hu

theorem uconf_spec : ∀ n : Nat,
    (∀ a b full, DocInst s d a → DocInst s d b → UConfN s d n full a b →
      (∃ st0 ∈ Spec.initStates s d, Spec.Reach s d st0 ⟨a, b, full⟩) → Spec.SpecConflict s d) ∧
    (∀ c f, DocInst s d c → UConfN s d n f c c → Spec.SpecConflict s d) := by
  intro n
  induction n with
  | zero =>
    refine ⟨?_, ?_⟩
    · intro a b full _ _ hu ⟨st0, h0, hr⟩
      cases hu with
      | here hd => exact ⟨st0, h0, _, hr, hd⟩
    · intro c f hc hu
      cases hu with
      | here hd => rw [direct_self s (hA c hc)] at hd; cases hd
  | succ n ih =>
    obtain ⟨IH1, IH2⟩ := ih
    refine ⟨?_, ?_⟩
    · intro a b full ha hb hu ⟨st0, h0, hr⟩
      cases hu with
      | here hd => exact ⟨st0, h0, _, hr, hd⟩
      | @sub _ _ _ _ c1 c2 h1 h2 hrn hc =>
        -- does the specification look at the sub-selections of this pair at all?
        by_cases hcut : (!Spec.deeper s ⟨a, b, full⟩ && Spec.leafStop s ⟨a, b, full⟩) = true
        · -- no: then not both fields have sub-selections, all members come from one of them
          simp only [Bool.and_eq_true] at hcut
          have hns := hL st0 h0 _ hr hcut.2
          simp only [Bool.and_eq_false_iff] at hns
          have key : ∀ x : Spec.FieldInst, DocInst s d x → x.node.hasSub = true →
              InE s d (subP s x) (subSels x) c1 → InE s d (subP s x) (subSels x) c2 →
              Spec.SpecConflict s d := by
            intro x hx hs e1 e2
            rw [subSels_eq hs] at e1 e2
            exact within_route hA hL n IH1 IH2 (t := (subP s x, x.node.subSet)) (hx.sub hs)
              e1 e2 hrn hc
          rcases h1 with e1 | e1
          · have hsa := subSels_mem e1
            rcases h2 with e2 | e2
            · exact key a ha hsa e1 e2
            · have hsb := subSels_mem e2
              rcases hns with h | h
              · rw [hsa] at h; cases h
              · rw [hsb] at h; cases h
          · have hsb := subSels_mem e1
            rcases h2 with e2 | e2
            · have hsa := subSels_mem e2
              rcases hns with h | h
              · rw [hsa] at h; cases h
              · rw [hsb] at h; cases h
            · exact key b hb hsb e1 e2
        · -- yes: every pair of the merged list is a successor
          have dc1 := h1.docInst ha hb
          have dc2 := h2.docInst ha hb
          have m1 := (merged_mem s d a b c1).2 h1
          have m2 := (merged_mem s d a b c2).2 h2
          have hsucc : ∀ x y : Spec.FieldInst, (x, y) ∈ Spec.pairsOf (Spec.mergedFields s d a b) →
              x.node.responseName = y.node.responseName →
              (⟨x, y, Spec.deeper s ⟨a, b, full⟩⟩ : Spec.State) ∈ Spec.succs s d ⟨a, b, full⟩ := by
            intro x y hp hr'
            simp only [Spec.succs, hcut, if_false]
            exact List.mem_map.2 ⟨(x, y), Spec.mem_sameNamePairs.2 ⟨hp, hr'⟩, rfl⟩
          rcases mem_pairs_or m1 m2 with hp | hp | he
          · exact IH1 c1 c2 _ dc1 dc2 hc
              ⟨st0, h0, hr.trans (Spec.Reach.step (hsucc c1 c2 hp hrn) (Spec.Reach.refl _))⟩
          · exact IH1 c2 c1 _ dc2 dc1 (hc.symm hA dc1 dc2)
              ⟨st0, h0, hr.trans (Spec.Reach.step (hsucc c2 c1 hp hrn.symm) (Spec.Reach.refl _))⟩
          · subst he
            exact IH2 c1 _ dc1 hc
    · intro c f hc hu
      cases hu with
      | here hd => rw [direct_self s (hA c hc)] at hd; cases hd
      | @sub _ _ _ _ c1 c2 h1 h2 hrn hcc =>
        have e1 : InE s d (subP s c) (subSels c) c1 := by rcases h1 with h | h <;> exact h
        have e2 : InE s d (subP s c) (subSels c) c2 := by rcases h2 with h | h <;> exact h
        have hs := subSels_mem e1
        rw [subSels_eq hs] at e1 e2
        exact within_route hA hL n IH1 IH2 (t := (subP s c, c.node.subSet)) (hc.sub hs)
          e1 e2 hrn hcc

theorem uw_specConflict (h : UWConf s d) : Spec.SpecConflict s d := by
  obtain ⟨t, ht, c1, c2, h1, h2, hrn, n, hu⟩ := h
  obtain ⟨IH1, IH2⟩ := uconf_spec hA hL n
  exact within_route hA hL n IH1 IH2 ht h1 h2 hrn hu

end back

/-- The specification rejects iff two fields of one expanded selection set have an unordered
conflict. -/
theorem specConflict_iff_uw {s : Schema} {d : Doc} (hA : ∀ a, DocInst s d a → a.node.argsOK)
    (hL : LeafNoSub s d) : Spec.SpecConflict s d ↔ UWConf s d :=
  ⟨specConflict_uw, uw_specConflict hA hL⟩

end Gql.Exec
