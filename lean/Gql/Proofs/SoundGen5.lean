/-
C13 — soundness, general chain: from the executable rules (`validOp`, `mayHitNullViaDefault`) to
the invariants of the proof, and the request level.
-/
import Gql.Proofs.SoundGen4

namespace Gql.Exec.Valid
open Gql.Exec Gql.Exec.Refine

def gctxOf (ops : Ops) (s : Schema) (doc : Doc) (op : Operation) (vars : Vars) : GCtx :=
  { cx := { ops := ops, schema := s, doc := doc, vars := vars }, env := op.vars,
    reach := reachable doc op.sels }

theorem rootTypeOf_object {s : Schema} {k : OpKind} {rt : Name} (h : rootTypeOf s k = some rt) :
    s.kind rt = .object := by
  unfold rootTypeOf at h
  cases k <;> simp only at h
  · split at h
    · simp_all
    · cases h
  · cases hm : s.mutation with
    | none => simp [hm] at h
    | some n =>
      simp only [hm] at h
      split at h
      · simp_all
      · cases h

/-- what `validOp` and the absence of the run-time exception give the proof -/
theorem invariants_of_valid (ops : Ops) (s : Schema) (doc : Doc) (op : Operation) (vars : Vars)
    (rt : Name) (hroot : rootTypeOf s op.kind = some rt)
    (hvalid : validOp s doc op = true) (hexc : mayHitNullViaDefault s doc op vars = false) :
    SelsOk (gctxOf ops s doc op vars) rt op.sels ∧ FragsOk (gctxOf ops s doc op vars) := by
  unfold validOp at hvalid
  simp only [hroot, Bool.and_eq_true, List.all_eq_true] at hvalid
  obtain ⟨⟨⟨⟨⟨_, hvs⟩, hfrags⟩, hsp⟩, hclosed⟩, _⟩ := hvalid
  unfold mayHitNullViaDefault at hexc
  simp only [hroot, Bool.or_eq_false_iff] at hexc
  obtain ⟨hex1, hex2⟩ := hexc
  refine ⟨⟨hvs, hex1, ?_⟩, ?_⟩
  · intro n hn
    have := hsp n hn
    simpa [gctxOf] using this
  · intro n hn fr hf
    have hn' : n ∈ reachable doc op.sels := hn
    have hf' : doc.frag n = some fr := hf
    have h1 := hfrags n hn'
    simp only [hf'] at h1
    have h2 := List.any_eq_false.1 hex2 n hn'
    simp only [hf'] at h2
    refine ⟨h1, (by simpa using h2 : excSels s op.vars vars fr.cond fr.sels = false), ?_⟩
    intro m hm
    unfold reachClosed at hclosed
    simp only [List.all_eq_true, List.mem_flatMap, forall_exists_index, and_imp] at hclosed
    have := hclosed m n hn' (by simp only [hf']; exact hm)
    simpa [gctxOf] using this

/-- the general request-level statement (variables, fragments, directives, merged keys) -/
theorem soundness_gen (ops : Ops) (s : Schema) (doc : Doc) (hyps : SoundHyps ops s)
    (op : Operation) (opName : Option Name) (vars : Vars) (root : RVal) (rt : Name)
    (hsel : Spec.getOperation doc.ops opName = some op)
    (hvalid : validOp s doc op = true)
    (hvok : VarsOk op.vars vars) (htyped : VarsTyped s op.vars vars)
    (hops : OpsSoundV ops s op.vars vars)
    (hexc : mayHitNullViaDefault s doc op vars = false)
    (hmerge : MergeOk { ops := ops, schema := s, doc := doc, vars := vars } op)
    (hroot : Spec.rootType s op.kind = some rt)
    (hconf : Conforms ops s (.named rt true) root) :
    (Spec.executeRequest ops s doc opName vars root).errors = [] ∧
    shapeResponse ops s doc op vars root (Spec.executeRequest ops s doc opName vars root).data = true := by
  have hrt : rootTypeOf s op.kind = some rt := hroot
  have hk : s.kind rt = .object := rootTypeOf_object hrt
  obtain ⟨hsels, hfr⟩ := invariants_of_valid ops s doc op vars rt hrt hvalid hexc
  let g := gctxOf ops s doc op vars
  have hval : ValuesOk g := hops htyped
  cases root with
  | null => simp [Conforms, TypeRef.nonNull] at hconf
  | raise tag p => simp [Conforms] at hconf
  | leaf l => simp [Conforms, hk] at hconf
  | list items => simp [Conforms] at hconf
  | obj tn f =>
    simp only [Conforms] at hconf
    obtain ⟨rt', fs, hrt', hfs, hc⟩ := hconf
    have heq : rt' = rt := by
      unfold runtimeType at hrt'
      simp only [hk, Option.some.injEq] at hrt'
      exact hrt'.symm
    subst heq
    obtain ⟨gs, hcol, hall⟩ := collectFields_typed g hvok hval hfr hyps rt' hk op.sels rt' hsels (Or.inl rfl)
    have hreach0 : ReachSel g.cx op rt' op.sels := ReachSel.root hroot
    have huni := hmerge rt' op.sels hreach0 gs hcol
    obtain ⟨g1, kvs, g2, g3⟩ := groups_sound_gen g op hvok hval hyps rt' fs f hfs hc
      (fun name args t fields pos hc' hwt' hr' =>
        complete_sound_gen g op hvok hval hfr hyps hmerge (f name args) t fields pos hc' hwt' hr')
      gs [] hall huni (fun p hp rt'' hk' => ReachSel.step (k := p.1) hreach0 hcol hp hk')
    have hcol' : Spec.collectFields { ops := ops, schema := s, doc := doc, vars := vars } rt' op.sels
        = .ok gs := hcol
    have hchild : Spec.childOf ({ ops := ops, schema := s, doc := doc, vars := vars } : Spec.Ctx) (.obj tn f) =
        (fun name args t fields pos => Spec.completeValue
          ({ ops := ops, schema := s, doc := doc, vars := vars } : Spec.Ctx) t fields pos (f name args)) := rfl
    have g1' : (Spec.executeGroups { ops := ops, schema := s, doc := doc, vars := vars } rt'
        (fun name args t fields pos => Spec.completeValue
          ({ ops := ops, schema := s, doc := doc, vars := vars } : Spec.Ctx) t fields pos (f name args)) [] gs).errs = [] := g1
    have g2' : (Spec.executeGroups { ops := ops, schema := s, doc := doc, vars := vars } rt'
        (fun name args t fields pos => Spec.completeValue
          ({ ops := ops, schema := s, doc := doc, vars := vars } : Spec.Ctx) t fields pos (f name args)) [] gs).out = some kvs := g2
    have g3' : shapeGroups { ops := ops, schema := s, doc := doc, vars := vars } rt'
        (fun name args t fields j => shapeOk
          ({ ops := ops, schema := s, doc := doc, vars := vars } : Spec.Ctx) t fields (f name args) j) gs kvs = true := g3
    unfold Spec.executeRequest shapeResponse
    simp only [hsel, hroot]
    rw [hcol', hchild]
    simp only [g1', g2', true_and]
    simpa [RVal.child, hcol'] using g3'

end Gql.Exec.Valid
