import Gql.Text.Lexer
import Gql.Text.BlockRepr
/-!
`dedent_block_string_lines` on the raw lines the lexer collects from a printed block string:
an optional empty first line, the lines of the value, an optional empty last line.
-/
namespace Gql.Text

/-- The three results of the first loop of `dedent_block_string_lines`, separately. -/
def firstNB : List (List Nat) → Nat → Option Nat
  | [], _ => none
  | x :: rest, i => if leadingWhiteSpace x = x.length then firstNB rest (i + 1) else some i

def lastNB : List (List Nat) → Nat → Option Nat
  | [], _ => none
  | x :: rest, i =>
    match lastNB rest (i + 1) with
    | some j => some j
    | none => if leadingWhiteSpace x = x.length then none else some i

def commonI : List (List Nat) → Nat → Option Nat → Option Nat
  | [], _, ci => ci
  | x :: rest, i, ci =>
    if leadingWhiteSpace x = x.length then commonI rest (i + 1) ci
    else
      commonI rest (i + 1)
        (if i ≠ 0 then
          match ci with
          | none => some (leadingWhiteSpace x)
          | some c => if leadingWhiteSpace x < c then some (leadingWhiteSpace x) else some c
        else ci)

theorem dedentScan_eq (lines : List (List Nat)) :
    ∀ (i : Nat) (ci f l : Option Nat),
      dedentScan lines i ci f l =
        (commonI lines i ci,
         (match f with | some x => some x | none => firstNB lines i),
         (match lastNB lines i with | some j => some j | none => l)) := by
  induction lines with
  | nil => intro i ci f l; cases f <;> simp [dedentScan, commonI, firstNB, lastNB]
  | cons x rest ih =>
    intro i ci f l
    by_cases hb : leadingWhiteSpace x = x.length
    · simp only [dedentScan, hb, ↓reduceIte, commonI, firstNB, lastNB]
      rw [ih]
      cases h : lastNB rest (i + 1) <;> simp
    · simp only [dedentScan, hb, ↓reduceIte, commonI, firstNB, lastNB]
      rw [ih]
      cases f <;> cases h : lastNB rest (i + 1) <;> simp <;> cases ci <;> rfl

/-! ### first / last non-blank line -/

def AllBlank (ls : List (List Nat)) : Prop := ∀ x ∈ ls, leadingWhiteSpace x = x.length

theorem firstNB_blank_prefix (B : List (List Nat)) (hB : AllBlank B) (x : List Nat)
    (hx : leadingWhiteSpace x ≠ x.length) (rest : List (List Nat)) (i : Nat) :
    firstNB (B ++ x :: rest) i = some (i + B.length) := by
  induction B generalizing i with
  | nil => simp [firstNB, hx]
  | cons b B ih =>
    have hb : leadingWhiteSpace b = b.length := hB b (by simp)
    have hB' : AllBlank B := fun y hy => hB y (by simp [hy])
    simp only [List.cons_append, firstNB, hb, ↓reduceIte, List.length_cons]
    rw [ih hB']
    congr 1; omega

theorem lastNB_allBlank (A : List (List Nat)) (hA : AllBlank A) (i : Nat) : lastNB A i = none := by
  induction A generalizing i with
  | nil => rfl
  | cons a A ih =>
    have ha : leadingWhiteSpace a = a.length := hA a (by simp)
    have hA' : AllBlank A := fun y hy => hA y (by simp [hy])
    simp [lastNB, ih hA', ha]

theorem lastNB_suffix (xs : List (List Nat)) (x : List Nat) (hx : leadingWhiteSpace x ≠ x.length)
    (A : List (List Nat)) (hA : AllBlank A) (i : Nat) :
    lastNB (xs ++ x :: A) i = some (i + xs.length) := by
  induction xs generalizing i with
  | nil => simp [lastNB, lastNB_allBlank A hA, hx]
  | cons y xs ih =>
    simp only [List.cons_append, lastNB, List.length_cons]
    rw [ih]
    simp
    omega

/-! ### common indentation -/

theorem commonI_zero (ls : List (List Nat)) (i : Nat) : commonI ls i (some 0) = some 0 := by
  induction ls generalizing i with
  | nil => rfl
  | cons x rest ih =>
    by_cases hb : leadingWhiteSpace x = x.length
    · simp [commonI, hb, ih]
    · by_cases hi : i = 0
      · simp [commonI, hb, hi, ih]
      · simp [commonI, hb, hi, ih]

/-- A non-blank line without indentation at an index other than 0 makes the common indent 0. -/
theorem commonI_has_zero (ls : List (List Nat)) (i : Nat) (ci : Option Nat)
    (h : ∃ k x, ls[k]? = some x ∧ leadingWhiteSpace x ≠ x.length ∧ leadingWhiteSpace x = 0 ∧ i + k ≠ 0) :
    commonI ls i ci = some 0 := by
  induction ls generalizing i ci with
  | nil => obtain ⟨k, x, hk, _⟩ := h; simp at hk
  | cons y rest ih =>
    obtain ⟨k, x, hk, hnb, hz, hik⟩ := h
    cases k with
    | zero =>
      simp at hk; subst hk
      have hi : i ≠ 0 := by omega
      have hnb' : ¬ (0 = y.length) := by rw [hz] at hnb; exact hnb
      cases ci with
      | none => simp [commonI, hi, hz, hnb', commonI_zero]
      | some c =>
        by_cases hc : 0 < c
        · simp [commonI, hi, hz, hnb', hc, commonI_zero]
        · have : c = 0 := by omega
          subst this
          simp [commonI, hi, hz, hnb', commonI_zero]
    | succ k =>
      simp at hk
      have : ∃ k x, rest[k]? = some x ∧ leadingWhiteSpace x ≠ x.length ∧ leadingWhiteSpace x = 0 ∧ i + 1 + k ≠ 0 :=
        ⟨k, x, hk, hnb, hz, by omega⟩
      by_cases hb : leadingWhiteSpace y = y.length
      · simp only [commonI, hb, ↓reduceIte]; exact ih (i + 1) ci this
      · simp only [commonI, hb, ↓reduceIte]; exact ih (i + 1) _ this

/-- No non-blank line except possibly at index 0: the common indent stays unset. -/
theorem commonI_none (ls : List (List Nat)) (i : Nat) (hi : i ≠ 0) (h : AllBlank ls) :
    commonI ls i none = none := by
  induction ls generalizing i with
  | nil => rfl
  | cons y rest ih =>
    have hy : leadingWhiteSpace y = y.length := h y (by simp)
    simp only [commonI, hy, ↓reduceIte]
    exact ih (i + 1) (by omega) (fun z hz => h z (by simp [hz]))

/-! ### removing the indentation -/

theorem dropIndent_zero (ls : List (List Nat)) (i : Nat) : dropIndent (some 0) ls i = ls := by
  induction ls generalizing i with
  | nil => rfl
  | cons x rest ih => by_cases hi : i = 0 <;> simp [dropIndent, hi, ih]

theorem dropIndent_none_nil (ls : List (List Nat)) (i : Nat) (hi : i ≠ 0) (h : ∀ x ∈ ls, x = []) :
    dropIndent none ls i = ls := by
  induction ls generalizing i with
  | nil => rfl
  | cons x rest ih =>
    have hx : x = [] := h x (by simp)
    simp only [dropIndent, hi, ne_eq, not_false_eq_true, ↓reduceIte, hx]
    rw [ih (i + 1) (by omega) (fun z hz => h z (by simp [hz]))]

end Gql.Text

namespace Gql.Text

/-- A non-blank line with no leading white space. -/
def Unindented (x : List Nat) : Prop := leadingWhiteSpace x ≠ x.length ∧ leadingWhiteSpace x = 0

theorem allBlank_opt (A : List (List Nat)) (hA : A = [] ∨ A = [[]]) : AllBlank A ∧ ∀ x ∈ A, x = [] := by
  rcases hA with h | h <;> subst h <;> simp [AllBlank, leadingWhiteSpace]

/-- The raw lines of a printed block string dedent to the lines of the value. -/
theorem dedent_sandwich (B L A : List (List Nat)) (hB : B = [] ∨ B = [[]]) (hA : A = [] ∨ A = [[]])
    (l0 : List Nat) (M : List (List Nat)) (hL0 : L = l0 :: M) (h0 : leadingWhiteSpace l0 ≠ l0.length)
    (xs : List (List Nat)) (lN : List Nat) (hLN : L = xs ++ [lN]) (hN : leadingWhiteSpace lN ≠ lN.length)
    (hci : (B = [] ∧ (M = [] ∨ ∃ (k : Nat) (x : List Nat), M[k]? = some x ∧ Unindented x)) ∨
           (B = [[]] ∧ ∃ (k : Nat) (x : List Nat), L[k]? = some x ∧ Unindented x)) :
    dedentBlockStringLines (B ++ L ++ A) = L := by
  obtain ⟨hAb, hAnil⟩ := allBlank_opt A hA
  obtain ⟨hBb, _⟩ := allBlank_opt B hB
  have hf : firstNB (B ++ L ++ A) 0 = some B.length := by
    have := firstNB_blank_prefix B hBb l0 h0 (M ++ A) 0
    simpa [hL0] using this
  have hl : lastNB (B ++ L ++ A) 0 = some (B.length + xs.length) := by
    have := lastNB_suffix (B ++ xs) lN hN A hAb 0
    simpa [hLN] using this
  have hlen : L.length = xs.length + 1 := by simp [hLN]
  unfold dedentBlockStringLines
  rw [dedentScan_eq]
  simp only [hf, hl]
  have hfin : ∀ ci, dropIndent ci (B ++ L ++ A) 0 = B ++ L ++ A →
      List.take (B.length + xs.length + 1 - B.length)
        (List.drop B.length (dropIndent ci (B ++ L ++ A) 0)) = L := by
    intro ci h
    rw [h, List.append_assoc, List.drop_left]
    have : B.length + xs.length + 1 - B.length = L.length := by omega
    rw [this, List.take_left]
  rcases hci with ⟨hB0, hM⟩ | ⟨hB1, k, x, hk, hx⟩
  · subst hB0
    rcases hM with hM | ⟨k, x, hk, hx⟩
    · -- a single line: no common indent is found, the optional last line is already empty
      subst hM
      have hc : commonI ([] ++ L ++ A) 0 none = none := by
        simp only [List.nil_append, hL0, List.cons_append, commonI, h0, ↓reduceIte]
        exact commonI_none A 1 (by omega) hAb
      rw [hc]
      apply hfin
      simp only [List.nil_append, hL0, List.cons_append, dropIndent]
      simp
      exact dropIndent_none_nil A 1 (by omega) hAnil
    · have hc : commonI ([] ++ L ++ A) 0 none = some 0 := by
        apply commonI_has_zero
        refine ⟨k + 1, x, ?_, hx.1, hx.2, by omega⟩
        have : k < M.length := by
          rcases Nat.lt_or_ge k M.length with h | h
          · exact h
          · simp [List.getElem?_eq_none h] at hk
        rw [hL0]
        simp only [List.nil_append, List.cons_append, List.getElem?_cons_succ]
        rw [List.getElem?_append_left this]
        exact hk
      rw [hc]
      exact hfin _ (dropIndent_zero _ 0)
  · subst hB1
    have hc : commonI ([[]] ++ L ++ A) 0 none = some 0 := by
      apply commonI_has_zero
      refine ⟨k + 1, x, ?_, hx.1, hx.2, by omega⟩
      have : k < L.length := by
        rcases Nat.lt_or_ge k L.length with h | h
        · exact h
        · simp [List.getElem?_eq_none h] at hk
      simp only [List.cons_append, List.nil_append, List.getElem?_cons_succ]
      rw [List.getElem?_append_left this]
      exact hk
    rw [hc]
    exact hfin _ (dropIndent_zero _ 0)

end Gql.Text
