import Gql.Proofs.RoundTripLeaf
/-
Unfolding lemmas for `valueToLiteral` and the shape of the literals it produces (C15).
-/
namespace Gql.Values
open Gql

/-- per-field function of the object case of `valueToLiteral` -/
def v2lF (c : PyConv) (tm : TypeMap) (kvs : List (List Nat × PyVal)) (f : Field) :
    Option (Option (List Nat × Lit)) :=
  match _h : dictGetDefined kvs f.name with
  | some fv => (match valueToLiteral c tm fv f.type with
    | some node => some (some (f.name, node))
    | none => none)
  | none => if f.isRequired then none else some none

section unfold
variable (c : PyConv) (tm : TypeMap)

theorem valueToLiteral_nonNull {v : PyVal} {t' : InType} (hn : ¬ v.isNullish = true) :
    valueToLiteral c tm v (.nonNull t') = valueToLiteral c tm v t' := by
  rw [valueToLiteral]; simp [hn]

theorem valueToLiteral_nullish {v : PyVal} (t : InType) (hv : v.isNullish = true) :
    valueToLiteral c tm v t = if t.isNonNull then none else some .null := by
  cases t <;> rw [valueToLiteral] <;> simp [hv, InType.isNonNull]

theorem valueToLiteral_list_iter {v : PyVal} {t' : InType} {xs : List PyVal}
    (hn : ¬ v.isNullish = true) (hit : v.iterItems = some xs) :
    valueToLiteral c tm v (.list t') =
      (match seqLits (xs.attach.map fun ⟨x, _⟩ => valueToLiteral c tm x t') with
       | some ls => some (.list ls)
       | none => none) := by
  rw [valueToLiteral]; simp only [hn, Bool.false_eq_true, ↓reduceIte]
  split
  · rename_i xs' h'; rw [hit] at h'; cases h'; rfl
  · rename_i h'; rw [hit] at h'; cases h'

theorem valueToLiteral_list_single {v : PyVal} {t' : InType}
    (hn : ¬ v.isNullish = true) (hit : v.iterItems = none) :
    valueToLiteral c tm v (.list t') = valueToLiteral c tm v t' := by
  rw [valueToLiteral]; simp only [hn, Bool.false_eq_true, ↓reduceIte]
  split
  · rename_i xs' h'; rw [hit] at h'; cases h'
  · rfl

theorem valueToLiteral_obj {v : PyVal} {n : List Nat} {fields : List Field} {oneOf : Bool}
    {kvs : List (List Nat × PyVal)}
    (hn : ¬ v.isNullish = true) (hf : tm.find n = some (.inputObject fields oneOf)) (hd : v.asMapping = some kvs) :
    valueToLiteral c tm v (.named n) =
      if hasUnknownDefined kvs fields then none
      else match seqLitFields (fields.map (v2lF c tm kvs)) with
        | some fs => some (.obj fs)
        | none => none := by
  rw [valueToLiteral]; simp only [hn, Bool.false_eq_true, ↓reduceIte, hf]
  split
  · rename_i kvs' h'; rw [hd] at h'; cases h'; rfl
  · rename_i h'; rw [hd] at h'; cases h'

theorem valueToLiteral_notobj {v : PyVal} {n : List Nat} {fields : List Field} {oneOf : Bool}
    (hn : ¬ v.isNullish = true) (hf : tm.find n = some (.inputObject fields oneOf)) (hd : v.asMapping = none) :
    valueToLiteral c tm v (.named n) = none := by
  rw [valueToLiteral]; simp only [hn, Bool.false_eq_true, ↓reduceIte, hf]
  split
  · rename_i kvs' h'; rw [hd] at h'; cases h'
  · rfl

theorem asMapping_of_asDict {v : PyVal} {kvs : List (List Nat × PyVal)} (h : v.asDict = some kvs) :
    v.asMapping = some kvs := by
  cases v <;> simp [PyVal.asDict] at h; subst h; rfl

/-- the literal produced for a value that is not `None`/`Undefined` is not a variable and not
`null`; for a value that is not iterable it is not a list literal either -/
theorem valueToLiteral_shape (v : PyVal) (hn : ¬ v.isNullish = true) (t : InType) (l : Lit)
    (h : valueToLiteral c tm v t = some l) :
    l.asVar = none ∧ l.isNull = false ∧ (v.iterItems = none → l.asList = none) := by
  induction t generalizing l with
  | nonNull t' ih =>
    rw [valueToLiteral_nonNull c tm hn] at h; exact ih l h
  | list t' ih =>
    cases hit : v.iterItems with
    | some xs =>
      rw [valueToLiteral_list_iter c tm hn hit] at h
      split at h
      · simp only [Option.some.injEq] at h; subst h
        exact ⟨rfl, rfl, fun hc => by cases hc⟩
      · simp at h
    | none =>
      rw [valueToLiteral_list_single c tm hn hit] at h
      obtain ⟨h1, h2, h3⟩ := ih l h
      exact ⟨h1, h2, fun _ => h3 hit⟩
  | named n =>
    cases hf : tm.find n with
    | none => rw [valueToLiteral] at h; simp [hn, hf] at h
    | some d =>
      cases d with
      | scalar s =>
        rw [valueToLiteral] at h; simp only [hn, hf, Bool.false_eq_true, ↓reduceIte] at h
        obtain ⟨h1, h2, h3, _⟩ := Lit.scalarKind_shape (leafToLiteral_kind c _ v l h)
        exact ⟨h1, h2, fun _ => h3⟩
      | enum e =>
        rw [valueToLiteral] at h; simp only [hn, hf, Bool.false_eq_true, ↓reduceIte] at h
        obtain ⟨h1, h2, h3, _⟩ := Lit.scalarKind_shape (leafToLiteral_kind c _ v l h)
        exact ⟨h1, h2, fun _ => h3⟩
      | inputObject fields oneOf =>
        cases hd : v.asMapping with
        | none => rw [valueToLiteral_notobj c tm hn hf hd] at h; simp at h
        | some kvs =>
          rw [valueToLiteral_obj c tm hn hf hd] at h
          split at h
          · simp at h
          · split at h
            · simp only [Option.some.injEq] at h; subst h
              exact ⟨rfl, rfl, fun _ => rfl⟩
            · simp at h

end unfold

/-! ### the two sequencing helpers of `valueToLiteral` -/

theorem seqLits_some {rs : List (Option Lit)} {ls : List Lit} (h : seqLits rs = some ls) :
    rs = ls.map some := by
  induction rs generalizing ls with
  | nil => simp [seqLits] at h; subst h; rfl
  | cons r rs ih =>
    cases r with
    | none => simp [seqLits] at h
    | some l =>
      simp only [seqLits] at h
      split at h
      · rename_i ls' hls'
        simp only [Option.some.injEq] at h; subst h
        simp [ih hls']
      · simp at h

theorem seqLits_of_all {rs : List (Option Lit)} {ls : List Lit} (h : rs = ls.map some) :
    seqLits rs = some ls := by
  subst h
  induction ls with
  | nil => rfl
  | cons l ls ih => simp [seqLits, ih]

def litEntryOf : Option (Option (List Nat × Lit)) → Option (List Nat × Lit)
  | some (some kv) => some kv
  | _ => none

theorem seqLitFields_some {rs : List (Option (Option (List Nat × Lit)))} {fs : List (List Nat × Lit)}
    (h : seqLitFields rs = some fs) : fs = rs.filterMap litEntryOf ∧ ∀ r ∈ rs, r ≠ none := by
  induction rs generalizing fs with
  | nil => simp [seqLitFields] at h; subst h; simp
  | cons r rs ih =>
    cases r with
    | none => simp [seqLitFields] at h
    | some o =>
      cases o with
      | none =>
        simp only [seqLitFields] at h
        obtain ⟨h1, h2⟩ := ih h
        refine ⟨by simp [List.filterMap_cons, litEntryOf, h1], ?_⟩
        intro r hr; simp only [List.mem_cons] at hr
        rcases hr with rfl | hr
        · simp
        · exact h2 r hr
      | some kv =>
        simp only [seqLitFields] at h
        split at h
        · rename_i ls hls
          simp only [Option.some.injEq] at h; subst h
          obtain ⟨h1, h2⟩ := ih hls
          refine ⟨by simp [List.filterMap_cons, litEntryOf, h1], ?_⟩
          intro r hr; simp only [List.mem_cons] at hr
          rcases hr with rfl | hr
          · simp
          · exact h2 r hr
        · simp at h

theorem seqLitFields_of_all {rs : List (Option (Option (List Nat × Lit)))} (h : ∀ r ∈ rs, r ≠ none) :
    seqLitFields rs = some (rs.filterMap litEntryOf) := by
  induction rs with
  | nil => rfl
  | cons r rs ih =>
    have ih' := ih (fun r' hr' => h r' (by simp [hr']))
    cases r with
    | none => exact absurd rfl (h none (by simp))
    | some o =>
      cases o with
      | none => simp [seqLitFields, ih', List.filterMap_cons, litEntryOf]
      | some kv => simp [seqLitFields, ih', List.filterMap_cons, litEntryOf]

end Gql.Values
