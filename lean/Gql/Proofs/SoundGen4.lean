/-
C13 — soundness, general chain: completion of a conforming value (induction on the data graph).
-/
import Gql.Proofs.SoundGen3

namespace Gql.Exec.Valid
open Gql.Exec Gql.Exec.Refine

variable (g : GCtx) (op : Operation) (hvok : VarsOk g.env g.cx.vars) (hval : ValuesOk g)
variable (hfr : FragsOk g) (hyps : SoundHyps g.cx.ops g.cx.schema) (hmerge : MergeOk g.cx op)

theorem sub_of_runtime {s : Schema} {n : Name} {tn : TN} {rt : Name}
    (h : runtimeType s n tn = some rt) : Sub s rt n ∧ s.kind rt = .object := by
  rcases runtimeType_kind h with ⟨hk, rfl⟩ | ⟨_, hres⟩
  · exact ⟨Or.inl rfl, hk⟩
  · obtain ⟨ho, hsub⟩ := resolve_ok hres
    exact ⟨Or.inr hsub, ho⟩

include hvok hval hfr hyps hmerge in
/-- the object case, given the statement for all children -/
theorem object_sound_gen (n : Name) (nn : Bool) (tn : TN) (f : Name → ArgMap → RVal)
    (fields : List FieldNode) (pos : List PSeg)
    (hconf : Conforms g.cx.ops g.cx.schema (.named n nn) (.obj tn f))
    (hwt : FieldsWT g (.named n nn) fields)
    (hreach : ∀ rt', g.cx.schema.kind rt' = .object →
      ReachSel g.cx op rt' (Spec.mergeSelectionSets fields))
    (hchild : ∀ (name : Name) (args : ArgMap) (t : TypeRef) (fields : List FieldNode) (pos : List PSeg),
      Conforms g.cx.ops g.cx.schema t (f name args) → FieldsWT g t fields →
      (∀ rt', g.cx.schema.kind rt' = .object → ReachSel g.cx op rt' (Spec.mergeSelectionSets fields)) →
      ResG g.cx t fields (f name args) (Spec.completeValue g.cx t fields pos (f name args))) :
    ResG g.cx (.named n nn) fields (.obj tn f)
      (Spec.completeNamed g.cx (.named n nn) fields pos none tn
        (fun name args t fields pos => Spec.completeValue g.cx t fields pos (f name args))) := by
  simp only [Conforms] at hconf
  obtain ⟨rt, fs, hrt, hfs, hc⟩ := hconf
  obtain ⟨hsub, hobj⟩ := sub_of_runtime hrt
  have hnl : isLeaf g.cx.schema n = false := by
    rcases runtimeType_kind hrt with ⟨hk, _⟩ | ⟨hk, _⟩ <;> simp [isLeaf, hk]
  have hsels : SelsOk g n (Spec.mergeSelectionSets fields) := by
    apply selsOk_merge
    intro f' hf'
    have := hwt.2 f' hf'
    simpa [TypeRef.baseName, hnl] using this
  obtain ⟨gs, hcol, hall⟩ := collectFields_typed g hvok hval hfr hyps rt hobj _ n hsels hsub
  have huni := hmerge rt _ (hreach rt hobj) gs hcol
  obtain ⟨g1, kvs, g2, g3⟩ := groups_sound_gen g op hvok hval hyps rt fs f hfs hc hchild gs pos hall huni
    (fun p hp rt' hk' => ReachSel.step (k := p.1) (hreach rt hobj) hcol hp hk')
  have hexec : Spec.executeSelectionSet g.cx rt (Spec.mergeSelectionSets fields) pos
      (fun name args t fields pos => Spec.completeValue g.cx t fields pos (f name args)) =
      { out := some (Json.obj kvs), errs := [], log := (Spec.executeGroups g.cx rt
          (fun name args t fields pos => Spec.completeValue g.cx t fields pos (f name args)) pos
          gs).log } := by
    unfold Spec.executeSelectionSet
    rw [hcol]
    simp [g1, g2]
  have hshape : shapeOk g.cx (.named n nn) fields (.obj tn f) (Json.obj kvs) = true := by
    unfold shapeOk
    simp only [hrt, hcol, g3]
  unfold Spec.completeNamed
  rcases runtimeType_kind hrt with ⟨hk, hrt'⟩ | ⟨hk, hres⟩
  · subst hrt'
    simp only [hk, hexec]
    exact ⟨rfl, _, rfl, hshape⟩
  · simp only [hk, hres, hexec]
    exact ⟨rfl, _, rfl, hshape⟩

/-- list items: no errors, all values, item shapes -/
def ResItemsG (cx : Spec.Ctx) (t : TypeRef) (fields : List FieldNode) (items : List RVal)
    (r : Spec.R (List Json)) : Prop :=
  r.errs = [] ∧ ∃ js, r.out = some js ∧ shapeItems cx t fields items js = true

include hvok hval hfr hyps hmerge in
mutual
theorem complete_sound_gen : (d : RVal) → ∀ (t : TypeRef) (fields : List FieldNode) (pos : List PSeg),
    Conforms g.cx.ops g.cx.schema t d → FieldsWT g t fields →
    (∀ rt', g.cx.schema.kind rt' = .object → ReachSel g.cx op rt' (Spec.mergeSelectionSets fields)) →
    ResG g.cx t fields d (Spec.completeValue g.cx t fields pos d)
  | .raise tag p, t, fields, pos, hc, _, _ => by simp [Conforms] at hc
  | .null, t, fields, pos, hc, _, _ => by
    simp only [Conforms] at hc
    unfold Spec.completeValue Spec.completeNull
    simp only [hc, Bool.false_eq_true, ↓reduceIte]
    exact ⟨rfl, .null, rfl, by simp [shapeOk, hc]⟩
  | .leaf l, t, fields, pos, hc, _, _ => by
    cases t with
    | list t' nn => simp [Conforms] at hc
    | named n nn =>
      simp only [Conforms] at hc
      obtain ⟨hk, j, hj, hnn⟩ := hc
      unfold Spec.completeValue Spec.completeNamed
      simp only [hk, Spec.coerceResult, hj]
      have hshape := hyps.serializeShape n l j hj hnn
      cases j with
      | null => exact absurd rfl hnn
      | _ => exact ⟨rfl, _, rfl, by simp [shapeOk, hk, hshape]⟩
  | .obj tn f, t, fields, pos, hc, hwt, hreach => by
    cases t with
    | list t' nn => simp [Conforms] at hc
    | named n nn =>
      unfold Spec.completeValue
      exact object_sound_gen g op hvok hval hfr hyps hmerge n nn tn f fields pos hc hwt hreach
        (fun name args t' fields' pos' hc' hwt' hr' =>
          complete_sound_gen (f name args) t' fields' pos' hc' hwt' hr')
  | .list items, t, fields, pos, hc, hwt, hreach => by
    cases t with
    | named n nn => simp [Conforms] at hc
    | list t' nn =>
      simp only [Conforms] at hc
      have hwt' : FieldsWT g t' fields := hwt
      obtain ⟨h1, js, h2, h3⟩ := items_sound_gen items t' fields pos 0 hc hwt' hreach
      unfold Spec.completeValue
      simp only [h1, h2, Option.map_some]
      exact ⟨rfl, _, rfl, by simp [shapeOk, h3]⟩

theorem items_sound_gen : (items : List RVal) → ∀ (t : TypeRef) (fields : List FieldNode)
    (pos : List PSeg) (i : Nat), ConformsL g.cx.ops g.cx.schema t items → FieldsWT g t fields →
    (∀ rt', g.cx.schema.kind rt' = .object → ReachSel g.cx op rt' (Spec.mergeSelectionSets fields)) →
    ResItemsG g.cx t fields items (Spec.completeItems g.cx t fields pos i items)
  | [], t, fields, pos, i, _, _, _ => by
    unfold Spec.completeItems
    exact ⟨rfl, [], rfl, by simp [shapeItems]⟩
  | x :: xs, t, fields, pos, i, hc, hwt, hreach => by
    simp only [ConformsL] at hc
    obtain ⟨h1, j, h2, h3⟩ := complete_sound_gen x t fields (pos ++ [.idx i]) hc.1 hwt hreach
    obtain ⟨g1, js, g2, g3⟩ := items_sound_gen xs t fields pos (i + 1) hc.2 hwt hreach
    unfold Spec.completeItems
    simp only [Spec.absorb, h2, h1, g1, g2, Option.map_some, List.append_nil]
    exact ⟨rfl, _, rfl, by simp [shapeItems, h3, g3]⟩
end

end Gql.Exec.Valid
