/-
C13 — soundness, first stage: plain documents (fields / arguments / literals; no fragments,
directives or variables; distinct response keys) over conforming data execute without errors
and produce a response of the prescribed shape.
-/
import Gql.Proofs.SoundCollect

namespace Gql.Exec.Valid
open Gql.Exec Gql.Exec.Refine

/-- schema validity and value-layer laws the soundness proof uses -/
structure SoundHyps (ops : Ops) (s : Schema) : Prop where
  opsSound : OpsSound ops s
  defaultsOk : DefaultsOk ops s
  /-- an object type implementing an interface has the interface's fields with identical
  definitions (the specification allows covariant return types; the stage proved here assumes
  identical ones) -/
  ifaceOk : ∀ (i o name : Name) (fd : FieldDef), s.isSubType i o = true → s.kind o = .object →
    getFieldAny s i name = some fd → s.getField o name = some fd
  stringId : ∀ cs, ops.serialize s "String" (.str cs) = some (.str cs)
  serializeShape : ∀ n l j, ops.serialize s n l = some j → j ≠ .null → leafShape s n j = true

def vctx (s : Schema) (doc : Doc) : VCtx := { schema := s, doc := doc, env := [] }

/-- a field node is well-typed for a value of named type `S` -/
def NodeWT (s : Schema) (doc : Doc) (S : Name) (node : FieldNode) : Prop :=
  if isLeaf s S = true then node.sels = []
  else plainSels node.sels = true ∧ distinctSels node.sels = true ∧
    validSels (vctx s doc) S node.sels = true

/-- no errors, a value, of the prescribed shape -/
def Res (cx : Spec.Ctx) (t : TypeRef) (node : FieldNode) (d : RVal) (r : Spec.R Json) : Prop :=
  r.errs = [] ∧ ∃ j, r.out = some j ∧ shapeOk cx t [node] d j = true

theorem getField_eq_any {s : Schema} {o name : Name} (h : s.kind o = .object) :
    s.getField o name = getFieldAny s o name := by
  unfold Schema.getField Schema.objectFields getFieldAny
  unfold Schema.kind at h
  cases hl : s.lookup o with
  | none => simp [hl] at h
  | some d => cases d <;> simp_all

theorem getField_mem {s : Schema} {o name : Name} {fd : FieldDef} {fs : List FieldDef}
    (h : s.getField o name = some fd) (hfs : s.objectFields o = some fs) :
    fd ∈ fs ∧ fd.name = name := by
  unfold Schema.getField at h
  rw [hfs] at h
  exact ⟨List.mem_of_find?_eq_some h, by simpa using List.find?_some h⟩

theorem resolve_ok {s : Schema} {n : Name} {tn : TN} {rt : Name}
    (h : Spec.resolveAbstractType s n tn = .ok rt) : s.kind rt = .object ∧ s.isSubType n rt = true := by
  cases tn with
  | missing => simp [Spec.resolveAbstractType] at h
  | bad => simp [Spec.resolveAbstractType] at h
  | name m =>
    simp only [Spec.resolveAbstractType] at h
    cases hl : s.lookup m with
    | none => simp [hl] at h
    | some d =>
      cases d with
      | object nm is fs =>
        simp only [hl] at h
        split at h
        · cases h
          rename_i hsub
          exact ⟨by simp [Schema.kind, hl], hsub⟩
        · cases h
      | _ => simp [hl] at h

/-- the fields a selection set valid on `S` may name exist, identically, on the runtime type -/
def FieldsAgree (s : Schema) (S rt : Name) : Prop :=
  ∀ name fd, getFieldAny s S name = some fd → s.getField rt name = some fd

theorem fieldsAgree_of_runtime {ops : Ops} {s : Schema} (h : SoundHyps ops s) {n : Name} {tn : TN}
    {rt : Name} (hr : runtimeType s n tn = some rt) : FieldsAgree s n rt ∧ s.kind rt = .object := by
  unfold runtimeType at hr
  cases hk : s.kind n with
  | object =>
    simp only [hk, Option.some.injEq] at hr
    subst hr
    exact ⟨fun name fd hf => by rw [getField_eq_any hk]; exact hf, hk⟩
  | abstract =>
    simp only [hk] at hr
    cases hres : Spec.resolveAbstractType s n tn with
    | error k => simp [hres] at hr
    | ok rt' =>
      simp only [hres, Option.some.injEq] at hr
      subst hr
      obtain ⟨ho, hsub⟩ := resolve_ok hres
      exact ⟨fun name fd hf => h.ifaceOk n rt' name fd hsub ho hf, ho⟩
  | leaf => simp [hk] at hr
  | input => simp [hk] at hr
  | unknown => simp [hk] at hr

end Gql.Exec.Valid
