import Gql.Proofs.OverlapDfs
import Gql.Proofs.OverlapHyps
import Gql.Exec.SpecMergeIds
/-! C14, oracle = specification, part B1: the universe of states of a document.

Every field *position* of the document once, with the parent type the specification selects it
on (`Doc.allInsts`); the states the search can meet are pairs of those.  Field-node identities
(`FieldNode.id`, Python object identity) are pairwise different (`Doc.FieldIdsNodup`), so a state
is determined by its key. -/
namespace Gql.Exec
open Overlap

mutual
/-- every field below a selection (through inline fragments and sub-selections, not through
spreads), each position once, with its parent type -/
def Sel.allInsts (s : Schema) (p : Option String) : Sel → List Spec.FieldInst
  | .field id al name args st hasSub subId sub =>
    ⟨p, ⟨id, al, name, args, st, hasSub, subId, sub⟩⟩ ::
      (if hasSub then selsAllInsts s ((Spec.fieldType s p name).map Ty.named) sub else [])
  | .inline tc _ sels =>
    selsAllInsts s (match tc with | some n => s.typeFromAst n | none => p) sels
  | .spread _ => []
def selsAllInsts (s : Schema) (p : Option String) : List Sel → List Spec.FieldInst
  | [] => []
  | x :: xs => x.allInsts s p ++ selsAllInsts s p xs
end

def Doc.allInsts (s : Schema) (d : Doc) : List Spec.FieldInst :=
  d.flatMap (fun df => selsAllInsts s (df.parent s) df.ss.sels)

mutual
theorem Sel.allInsts_ids (s : Schema) : ∀ (x : Sel) (p : Option String),
    (x.allInsts s p).map (·.node.id) = x.allIds
  | .field id al name args st hasSub subId sub, p => by
    cases hasSub
    · simp [Sel.allInsts, Sel.allIds]
    · simp [Sel.allInsts, Sel.allIds, selsAllInsts_ids s sub _]
  | .inline tc _ sels, p => by
    simpa [Sel.allInsts, Sel.allIds] using selsAllInsts_ids s sels _
  | .spread _, p => by simp [Sel.allInsts, Sel.allIds]
theorem selsAllInsts_ids (s : Schema) : ∀ (xs : List Sel) (p : Option String),
    (selsAllInsts s p xs).map (·.node.id) = selsAllIds xs
  | [], p => by simp [selsAllInsts, selsAllIds]
  | x :: xs, p => by
    simp [selsAllInsts, selsAllIds, Sel.allInsts_ids s x p, selsAllInsts_ids s xs p]
end

theorem Doc.allInsts_ids (s : Schema) (d : Doc) :
    (d.allInsts s).map (·.node.id) = d.fieldIds := by
  induction d with
  | nil => simp [Doc.allInsts, Doc.fieldIds]
  | cons df rest ih =>
    simp only [Doc.allInsts, Doc.fieldIds, List.flatMap_cons, List.map_append] at ih ⊢
    rw [ih, selsAllInsts_ids]

mutual
theorem Sel.allInsts_length (s : Schema) : ∀ (x : Sel) (p : Option String),
    (x.allInsts s p).length ≤ Spec.countFieldsSel x
  | .field id al name args st hasSub subId sub, p => by
    cases hasSub
    · simp [Sel.allInsts, Spec.countFieldsSel]
    · have := selsAllInsts_length s sub ((Spec.fieldType s p name).map Ty.named)
      simp only [Sel.allInsts, if_true, List.length_cons, Spec.countFieldsSel]
      omega
  | .inline tc _ sels, p => by
    simpa [Sel.allInsts, Spec.countFieldsSel] using selsAllInsts_length s sels _
  | .spread _, p => by simp [Sel.allInsts]
theorem selsAllInsts_length (s : Schema) : ∀ (xs : List Sel) (p : Option String),
    (selsAllInsts s p xs).length ≤ Spec.countFieldsSels xs
  | [], p => by simp [selsAllInsts]
  | x :: xs, p => by
    have h1 := Sel.allInsts_length s x p
    have h2 := selsAllInsts_length s xs p
    simp only [selsAllInsts, List.length_append, Spec.countFieldsSels]
    omega
end

theorem Doc.allInsts_length (s : Schema) (d : Doc) :
    (d.allInsts s).length ≤ Spec.countFields d := by
  induction d with
  | nil => simp [Doc.allInsts]
  | cons df rest ih =>
    have h1 := selsAllInsts_length s df.ss.sels (df.parent s)
    have e1 : Doc.allInsts s (df :: rest) =
        selsAllInsts s (df.parent s) df.ss.sels ++ Doc.allInsts s rest := by simp [Doc.allInsts]
    have e2 : Spec.countFields (df :: rest) =
        Spec.countFieldsSels df.ss.sels + Spec.countFields rest := by
      cases df <;> simp [Spec.countFields, Defn.ss]
    rw [e1, e2, List.length_append]
    omega

mutual
theorem Sel.flat_sub_allInsts (s : Schema) : ∀ (x : Sel) (p : Option String),
    x.flat s p ⊆ x.allInsts s p
  | .field .., p => by simp [Sel.flat, Sel.allInsts]
  | .inline tc _ sels, p => by
    simp only [Sel.flat, Sel.allInsts]
    exact selsFlat_sub_allInsts s sels _
  | .spread _, p => by simp [Sel.flat]
theorem selsFlat_sub_allInsts (s : Schema) : ∀ (xs : List Sel) (p : Option String),
    selsFlat s p xs ⊆ selsAllInsts s p xs
  | [], p => by simp [selsFlat]
  | x :: xs, p => by
    intro a ha
    simp only [selsFlat, List.mem_append] at ha
    simp only [selsAllInsts, List.mem_append]
    rcases ha with ha | ha
    · exact Or.inl (Sel.flat_sub_allInsts s x p ha)
    · exact Or.inr (selsFlat_sub_allInsts s xs p ha)
end

mutual
theorem Sel.typedSets_allInsts (s : Schema) : ∀ (x : Sel) (p : Option String)
    (t : Option String × SelSet), t ∈ x.typedSets s p →
      selsAllInsts s t.1 t.2.sels ⊆ x.allInsts s p
  | .field id al name args st hasSub subId sub, p, t, h => by
    cases hasSub with
    | false => simp [Sel.typedSets] at h
    | true =>
      simp only [Sel.typedSets, if_true, List.mem_cons] at h
      simp only [Sel.allInsts, if_true]
      rcases h with rfl | h
      · exact fun a ha => List.mem_cons_of_mem _ ha
      · exact fun a ha => List.mem_cons_of_mem _ (selsTypedSets_allInsts s sub _ t h ha)
  | .inline tc ssId sels, p, t, h => by
    simp only [Sel.typedSets, List.mem_cons] at h
    simp only [Sel.allInsts]
    rcases h with rfl | h
    · exact fun a ha => ha
    · exact selsTypedSets_allInsts s sels _ t h
  | .spread _, p, t, h => by simp [Sel.typedSets] at h
theorem selsTypedSets_allInsts (s : Schema) : ∀ (xs : List Sel) (p : Option String)
    (t : Option String × SelSet), t ∈ selsTypedSets s p xs →
      selsAllInsts s t.1 t.2.sels ⊆ selsAllInsts s p xs
  | [], p, t, h => by simp [selsTypedSets] at h
  | x :: xs, p, t, h => by
    simp only [selsTypedSets, List.mem_append] at h
    intro a ha
    simp only [selsAllInsts, List.mem_append]
    rcases h with h | h
    · exact Or.inl (Sel.typedSets_allInsts s x p t h ha)
    · exact Or.inr (selsTypedSets_allInsts s xs p t h ha)
end

/-- a field instance of the document is one of `allInsts` -/
theorem DocInst.mem_allInsts {s : Schema} {d : Doc} {a : Spec.FieldInst} (h : DocInst s d a) :
    a ∈ d.allInsts s := by
  obtain ⟨t, ht, ha⟩ := h
  obtain ⟨df, hdf, hcase⟩ := Doc.mem_typedSets ht
  simp only [Doc.allInsts, List.mem_flatMap]
  refine ⟨df, hdf, ?_⟩
  have ha' := selsFlat_sub_allInsts s _ _ ha
  rcases hcase with rfl | hin
  · exact ha'
  · exact selsTypedSets_allInsts s _ _ t hin ha'

/-- with pairwise different field identities a document field is determined by its identity -/
theorem DocInst.eq_of_id {s : Schema} {d : Doc} (hF : d.FieldIdsNodup) {a b : Spec.FieldInst}
    (ha : DocInst s d a) (hb : DocInst s d b) (e : a.node.id = b.node.id) : a = b := by
  have hn : ((d.allInsts s).map (fun x => x.node.id)).Nodup := by
    rw [Doc.allInsts_ids]; exact hF
  exact eq_of_nodup_map (fun (x : Spec.FieldInst) => x.node.id) hn ha.mem_allInsts
    hb.mem_allInsts e

/-! ### the universe of states -/

/-- both fields of the state are fields of the document -/
def DocState (s : Schema) (d : Doc) (x : Spec.State) : Prop := DocInst s d x.a ∧ DocInst s d x.b

theorem DocState.succs {s : Schema} {d : Doc} {x : Spec.State} (hx : DocState s d x) :
    ∀ y ∈ Spec.succs s d x, DocState s d y := by
  intro y hy
  simp only [Spec.succs] at hy
  split at hy
  · cases hy
  · obtain ⟨pr, hpr, rfl⟩ := List.mem_map.1 hy
    have hm := Spec.pairsOf_mem (Spec.mem_sameNamePairs.1 hpr).1
    exact ⟨((merged_mem s d _ _ _).1 hm.1).docInst hx.1 hx.2,
      ((merged_mem s d _ _ _).1 hm.2).docInst hx.1 hx.2⟩

theorem DocState.init {s : Schema} {d : Doc} {x : Spec.State} (h : x ∈ Spec.initStates s d) :
    DocState s d x := by
  obtain ⟨t, ht, pr, hpr, rfl⟩ := mem_initStates_gen.1 h
  have hm := Spec.pairsOf_mem (Spec.mem_sameNamePairs.1 hpr).1
  exact ⟨InE.docInst ht ((expand_mem s d _ _ _).1 hm.1),
    InE.docInst ht ((expand_mem s d _ _ _).1 hm.2)⟩

theorem DocState.key_inj {s : Schema} {d : Doc} (hF : d.FieldIdsNodup) {x y : Spec.State}
    (hx : DocState s d x) (hy : DocState s d y) (e : x.key = y.key) : x = y := by
  simp only [Spec.State.key, Prod.mk.injEq] at e
  obtain ⟨e1, e2, e3⟩ := e
  have ha := DocInst.eq_of_id hF hx.1 hy.1 e1
  have hb := DocInst.eq_of_id hF hx.2 hy.2 e2
  cases x; cases y
  simp_all

/-- **Soundness and completeness of the search, given that it answers.**  With pairwise
different field identities, `dfs` from the initial states answers `some true` exactly when the
specification finds an unmergeable pair. -/
theorem dfs_init_iff {s : Schema} {d : Doc} (hF : d.FieldIdsNodup) (n : Nat) (b : Bool)
    (h : Spec.dfs s d n [] (Spec.initStates s d) = some b) :
    b = true ↔ Spec.SpecConflict s d := by
  cases b with
  | true =>
    simp only [true_iff]
    exact dfs_sound s d n [] _ h
  | false =>
    simp only [Bool.false_eq_true, false_iff]
    exact dfs_complete s d (DocState s d) (fun x hx => hx.succs)
      (fun x y hx hy e => DocState.key_inj hF hx hy e) n _ (fun x hx => DocState.init hx) h

end Gql.Exec
