import Gql.Proofs.LexerBasic
import Gql.Proofs.ParserTotal
/-
From source text to the parser theorems: the lazily lexed stream of any string holds no lexer crash
(`lex_no_crash`, `lex_progress` of `Gql/Proofs/LexerBasic.lean`; the schema-coordinate lexer is
treated here), its fuel is sufficient, and therefore every parse entry point on every string returns
a node or a syntax error.
-/
namespace Gql.Syntax
open Gql Gql.Text

/-! ### the schema-coordinate lexer -/

/-- Post-condition of `SchemaCoordinateLexer.read_next_token` at `pos ≤ |body|`: no crash; a non-EOF
token starts at `pos`, is non-empty and inside the text. -/
theorem coordReadNextToken_post (body : List Nat) (pos : Nat) :
    Text.Post (fun t => (t.kind ≠ .eof → pos < t.stop ∧ t.stop ≤ body.length))
      (coordReadNextToken body pos) := by
  unfold coordReadNextToken
  split
  · next h =>
    rw [Text.index_ok body pos h]
    simp only [Out.bind_ok]
    split
    · simp [mkToken]; omega
    · split
      · exact (Text.readName_post body {} pos h).mono (fun t ht _ => by
          obtain ⟨⟨h1, h2, h3, _⟩, _⟩ := ht; omega)
      · unfold printCodePointAt
        have : ¬ pos ≥ body.length := by omega
        simp only [this, ↓reduceIte, Text.index_ok body pos h, Out.bind_ok]
        trivial
  · simp [mkToken]

theorem coordLex_no_crash' (body : List Nat) (pos : Nat) : ¬ (coordReadNextToken body pos).isCrash :=
  (coordReadNextToken_post body pos).noCrash

/-! ### streams -/

theorem streamAux_noCrash (body : List Nat) :
    ∀ (fuel : Nat) (st : LexState) (pos : Nat), pos ≤ body.length → body.length - pos + 1 ≤ fuel →
      (streamAux body fuel st pos).NoCrash := by
  intro fuel
  induction fuel with
  | zero => intro st pos _ hf; omega
  | succ fuel ih =>
    intro st pos hp hf
    unfold streamAux
    cases h : readNextToken body st pos with
    | ok r =>
      obtain ⟨t, st'⟩ := r
      have hprog := Text.lex_progress body st st' pos t hp h
      simp only []
      split
      · trivial
      · next hk =>
        have := hprog.2.1 hk
        split
        · exact ih _ _ this.2 (by omega)
        · exact ih _ _ this.2 (by omega)
    | err e => trivial
    | crash c =>
      have := Text.lex_no_crash body st pos
      rw [h] at this
      simp [Out.isCrash] at this

theorem streamOf_noCrash (body : List Nat) : (streamOf body).NoCrash :=
  streamAux_noCrash body _ {} 0 (by omega) (by omega)

theorem coordStreamAux_noCrash (body : List Nat) :
    ∀ (fuel : Nat) (pos : Nat), body.length - pos + 1 ≤ fuel → (coordStreamAux body fuel pos).NoCrash := by
  intro fuel
  induction fuel with
  | zero => intro pos hf; omega
  | succ fuel ih =>
    intro pos hf
    unfold coordStreamAux
    have hpost := coordReadNextToken_post body pos
    cases h : coordReadNextToken body pos with
    | ok t =>
      rw [h] at hpost
      simp only []
      split
      · trivial
      · next hk =>
        have := hpost hk
        exact ih _ (by omega)
    | err e => trivial
    | crash c => rw [h] at hpost; exact hpost.elim

theorem coordStreamOf_noCrash (body : List Nat) : (coordStreamOf body).NoCrash :=
  coordStreamAux_noCrash body _ 0 (by omega)

/-- every entry point on every source text: a node or a syntax error, never a crash -/
theorem parseSource_total (e : Entry) (cfg : Cfg) (body : List Nat) :
    ¬ (parseSource e cfg body).isCrash = true := by
  unfold parseSource parseStream parseFuel
  split
  · exact parseStreamWith_total e cfg _ _ (coordStreamOf_noCrash body) (by omega)
  · exact parseStreamWith_total e cfg _ _ (streamOf_noCrash body) (by omega)

end Gql.Syntax
