/-
C13 — `soundness_full` / `blame_full` as stated (with `validOp` only, which does not contain
Field Selection Merging) are false: a concrete request.
-/
import Gql.Proofs.SoundExample
import Gql.Proofs.SoundGen5

namespace Gql.Exec.Valid.FullWitness
open Gql Gql.Exec Gql.Exec.Valid Gql.Exec.Valid.Example

/-- `type Query { a: A b: B }  type A { q: String }  type B { q(r: Int!): String }` -/
def fS : Schema :=
  { query := "Query", mutation := none,
    types := [
      .object "Query" [] [⟨"a", [], .named "A" false⟩, ⟨"b", [], .named "B" false⟩],
      .object "A" [] [⟨"q", [], .named "String" false⟩],
      .object "B" [] [⟨"q", [⟨"r", .named "Int" true, none⟩], .named "String" false⟩]] }

/-- `{ x: b { __typename } x: a { q } }` -/
def fOp : Operation :=
  { kind := .query, name := none, vars := [],
    sels := [.field (some "x") "b" [] [] [.field none "__typename" [] [] []],
             .field (some "x") "a" [] [] [.field none "q" [] [] []]] }

def fDoc : Doc := { ops := [fOp], frags := [] }

/-- `a` and `b` resolve to objects all of whose fields are `null` -/
def fRoot : RVal := .obj .missing (fun _ _ => .obj .missing (fun _ _ => .null))

theorem fS_noSub (i o : Name) : fS.isSubType i o = false := by
  cases hb : fS.isSubType i o with
  | false => rfl
  | true =>
    unfold Schema.isSubType at hb
    cases hl : fS.lookup i with
    | none => simp [hl] at hb
    | some d =>
      rcases lookup_cases fS i d hl with hm | hm
      · simp only [fS, List.mem_cons, List.mem_nil_iff, or_false] at hm
        rcases hm with rfl | rfl | rfl <;> simp [hl] at hb
      · subst hm; simp [hl] at hb

theorem fHyps : SoundHyps exOps fS where
  opsSound := by intro t d v _ vars; simp [exOps]
  defaultsOk := by intro o f fd _ a _ d _; simp [exOps]
  ifaceOk := by intro i o name fd h; simp [fS_noSub] at h
  stringId := by
    intro cs
    simp [exOps, leafShape, Gql.Exec.Concrete.leafJson, Schema.lookup, fS, TypeDef.name, builtinScalars]
  serializeShape := by
    intro n l j h _
    simp only [exOps] at h
    split at h
    · cases h; assumption
    · cases h

theorem fConf : Conforms exOps fS (.named "Query" true) fRoot := by
  simp only [fRoot, Conforms]
  refine ⟨"Query", [⟨"a", [], .named "A" false⟩, ⟨"b", [], .named "B" false⟩], by decide, rfl, ?_⟩
  intro fd hfd args
  simp only [List.mem_cons, List.mem_nil_iff, or_false] at hfd
  rcases hfd with rfl | rfl
  · simp only [Conforms]
    refine ⟨"A", [⟨"q", [], .named "String" false⟩], by decide, rfl, ?_⟩
    intro fd hfd args
    simp only [List.mem_cons, List.mem_nil_iff, or_false] at hfd
    subst hfd
    simp [TypeRef.nonNull]
  · simp only [Conforms]
    refine ⟨"B", [⟨"q", [⟨"r", .named "Int" true, none⟩], .named "String" false⟩], by decide, rfl, ?_⟩
    intro fd hfd args
    simp only [List.mem_cons, List.mem_nil_iff, or_false] at hfd
    subst hfd
    simp [TypeRef.nonNull]

theorem fVarsOk : VarsOk fOp.vars [] := by intro vd hvd; simp [fOp] at hvd
theorem fVarsTyped : VarsTyped fS fOp.vars [] := by intro vd hvd; simp [fOp] at hvd
theorem fOpsV : OpsSoundV exOps fS fOp.vars [] := by intro _ t d v _ _ _; simp [exOps]

theorem fValid : validOp fS fDoc fOp = true := by decide
theorem fExc : mayHitNullViaDefault fS fDoc fOp [] = false := by decide

/-- the merged sub-selections `{ __typename q }` are executed on `B`, where `q` requires `r` -/
theorem fErrors : ((Spec.executeRequest exOps fS fDoc none [] fRoot).errors.map (·.kind)) = [.argCoercion] := by
  decide

end Gql.Exec.Valid.FullWitness
