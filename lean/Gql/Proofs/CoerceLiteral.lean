import Gql.Proofs.LiteralBasics
/-
Agreement of `coerceLiteral` and `validateLiteral` (C15), static and with variable maps.
-/
namespace Gql.Values
open Gql

/-- A variable node is "usable" at a position: it has a runtime value, or the position is
non-null (then a missing value is an error on both sides). The only excluded case is a variable
without runtime value at a nullable position — "no value", which callers test first. -/
def VarOK (vars : Option VarValues) (l : Lit) (t : InType) : Prop :=
  ∀ x, l.asVar = some x → isDefined (varGet vars x) = true ∨ t.isNonNull = true

theorem VarOK_of_not_var {vars : Option VarValues} {l : Lit} {t : InType} (h : l.asVar = none) : VarOK vars l t := by
  intro x hx; rw [h] at hx; cases hx

theorem nullish_of_undefined {v : PyVal} (h : isDefined v = false) : v = .undefined := by
  cases v <;> simp_all [isDefined]

theorem not_nullish_ne_undefined {v : PyVal} (h : v.isNullish = false) : v ≠ .undefined := by
  intro hc; subst hc; simp [PyVal.isNullish] at h

section
variable (c : PyConv) (D : Field → R) (tm : TypeMap) (vars : Option VarValues)

theorem var_agree {l : Lit} {x : List Nat} (t : InType) (path : Path) (hv : l.asVar = some x)
    (hs : vars.isNone = false) (hok : VarOK vars l t) :
    ∃ cv, coerceLiteral c D tm vars l t = .ok cv ∧ (validateLiteral c tm vars l t path = [] ↔ cv ≠ .undefined) := by
  rw [coerceLiteral_var c D tm vars t hv, validateLiteral_var c tm vars t path hv]
  simp only [hs, Bool.false_eq_true, ↓reduceIte]
  by_cases hnn : t.isNonNull = true
  · by_cases hnl : (varGet vars x).isNullish = true
    · exact ⟨.undefined, by simp [hnn, hnl], by simp [hnn, hnl]⟩
    · have hnl' : (varGet vars x).isNullish = false := by simpa using hnl
      exact ⟨varGet vars x, by simp [hnl'], by simpa [hnn, hnl'] using not_nullish_ne_undefined hnl'⟩
  · have hnn' : t.isNonNull = false := by simpa using hnn
    rcases hok x hv with hd | hd
    · refine ⟨varGet vars x, by simp [hnn'], ?_⟩
      simp only [hnn', Bool.false_and, Bool.false_eq_true, ↓reduceIte, true_iff]
      exact (isDefined_iff _).1 hd
    · rw [hnn'] at hd; cases hd

theorem oneOfLiteral_ne_none (fs : List (List Nat × Lit)) (es : List (List Nat × PyVal)) (cv : PyVal)
    (h : oneOfLiteral fs es = .ok cv) : cv ≠ .none := by
  unfold oneOfLiteral at h
  repeat' split at h
  all_goals (simp only [Out.ok.injEq] at h; subst h; simp)

theorem leafLiteral_ne_none (hEN : ∀ n e, tm.find n = some (.enum e) → ∀ k, e.valueOf k ≠ some .none)
    {n : List Nat} {d : NamedDef} {leaf : Leaf} (hf : tm.find n = some d) (hl : d.asLeaf = some leaf) (l : Lit) :
    leafLiteral c leaf l ≠ .none := by
  unfold leafLiteral
  cases d with
  | scalar s =>
    simp only [NamedDef.asLeaf, Option.some.injEq] at hl; subst hl
    simp only [Leaf.coerceInputLiteral]
    split
    · rename_i r h; exact (scalarConforms_ne_none (scalar_literal_conforms' c s l r h)).1
    · simp
  | enum e =>
    simp only [NamedDef.asLeaf, Option.some.injEq] at hl; subst hl
    simp only [Leaf.coerceInputLiteral]
    split
    · rename_i r h
      cases l <;> simp only [EnumType.coerceInputLiteral] at h
      all_goals try (simp at h; done)
      rename_i s
      split at h
      · rename_i w hw
        simp only [Out.ok.injEq] at h; subst h
        intro hc; subst hc
        exact hEN n e hf s hw
      · simp at h
    · simp
  | inputObject fields o => simp [NamedDef.asLeaf] at hl

theorem coerceLiteral_ne_none (hEN : ∀ n e, tm.find n = some (.enum e) → ∀ k, e.valueOf k ≠ some .none)
    (l : Lit) (hv : l.asVar = none) (hn : ¬ l.isNull = true) (t : InType) (cv : PyVal)
    (h : coerceLiteral c D tm vars l t = .ok cv) : cv ≠ .none := by
  induction t generalizing cv with
  | nonNull t' ih =>
    rw [coerceLiteral_nonNull c D tm vars hv] at h
    simp only [hn, Bool.false_eq_true, ↓reduceIte] at h
    exact ih cv h
  | list t' ih =>
    cases hl : l.asList with
    | some items =>
      rw [coerceLiteral_list_iter c D tm vars hv hn hl] at h
      generalize seqItems _ = X at h
      cases X with
      | ok o => cases o <;> simp only [wrapList, Out.ok.injEq] at h <;> subst h <;> simp
      | err e => simp [wrapList] at h
      | crash k => simp [wrapList] at h
    | none =>
      rw [coerceLiteral_list_single c D tm vars hv hn hl] at h
      split at h
      all_goals try (simp at h; done)
      all_goals (simp only [Out.ok.injEq] at h; subst h; simp)
  | named n =>
    cases hf : tm.find n with
    | none => rw [coerceLiteral] at h; simp only [hv, hn, hf, Bool.false_eq_true, ↓reduceIte, Out.ok.injEq] at h; subst h; simp
    | some d =>
      cases d with
      | scalar s =>
        rw [coerceLiteral] at h; simp only [hv, hn, hf, Bool.false_eq_true, ↓reduceIte, Out.ok.injEq] at h; subst h
        exact leafLiteral_ne_none c tm hEN hf rfl l
      | enum e =>
        rw [coerceLiteral] at h; simp only [hv, hn, hf, Bool.false_eq_true, ↓reduceIte, Out.ok.injEq] at h; subst h
        exact leafLiteral_ne_none c tm hEN hf rfl l
      | inputObject fields oneOf =>
        cases ho : l.asObj with
        | none =>
          rw [coerceLiteral_notobj c D tm vars hv hn hf ho] at h
          simp only [Out.ok.injEq] at h; subst h; simp
        | some fs =>
          rw [coerceLiteral_obj c D tm vars hv hn hf ho] at h
          split at h
          · simp only [Out.ok.injEq] at h; subst h; simp
          · split at h
            · split at h
              · exact oneOfLiteral_ne_none _ _ _ h
              · simp only [Out.ok.injEq] at h; subst h; simp
            · simp only [Out.ok.injEq] at h; subst h; simp
            · simp at h
            · simp at h

/-- one list item -/
theorem item_agree {it : Lit} {t' : InType} {p : Path} (hconst : vars = none → it.isConst = true)
    (ih : VarOK vars it t' → ∃ cv, coerceLiteral c D tm vars it t' = .ok cv ∧
      (validateLiteral c tm vars it t' p = [] ↔ cv ≠ .undefined)) :
    ∃ cv, listItemLiteral vars it t'.isNonNull (coerceLiteral c D tm vars it t') = .ok cv ∧
      (validateLiteral c tm vars it t' p = [] ↔ cv ≠ .undefined) := by
  by_cases hok : VarOK vars it t'
  · obtain ⟨cv0, hcv0, hiff⟩ := ih hok
    rw [hcv0]
    by_cases hu : cv0 = .undefined
    · subst hu
      refine ⟨.undefined, ?_, hiff⟩
      unfold listItemLiteral
      have : (it.isVar && !t'.isNonNull && (litVarValue vars it).isNullish) = false := by
        by_cases hvar : it.isVar = true
        · obtain ⟨x, hx⟩ := (Lit.isVar_iff it).1 hvar
          by_cases hnn : t'.isNonNull = true
          · simp [hnn]
          · have hnn' : t'.isNonNull = false := by simpa using hnn
            exfalso
            rw [coerceLiteral_var c D tm vars t' hx] at hcv0
            simp only [hnn', Bool.and_false, Bool.false_eq_true, ↓reduceIte, Out.ok.injEq] at hcv0
            rcases hok x hx with hd | hd
            · rw [hcv0] at hd; simp [isDefined] at hd
            · rw [hnn'] at hd; cases hd
        · simp [hvar]
      simp [this]
    · refine ⟨cv0, ?_, hiff⟩
      cases cv0 <;> simp_all [listItemLiteral]
  · -- a variable without runtime value at a nullable item type: coerced to null
    unfold VarOK at hok
    obtain ⟨x, hx'⟩ := Classical.not_forall.1 hok
    obtain ⟨hx, hno⟩ := Classical.not_imp.1 hx'
    have hdef : isDefined (varGet vars x) = false := by
      by_cases h : isDefined (varGet vars x) = true
      · exact absurd (Or.inl h) hno
      · simpa using h
    have hnn : t'.isNonNull = false := by
      by_cases h : t'.isNonNull = true
      · exact absurd (Or.inr h) hno
      · simpa using h
    have hval := nullish_of_undefined hdef
    have hs : vars.isNone = false := by
      cases hvars : vars with
      | none => have := hconst hvars; rw [Lit.not_const_of_var hx] at this; cases this
      | some _ => rfl
    rw [coerceLiteral_var c D tm vars t' hx, validateLiteral_var c tm vars t' p hx]
    refine ⟨.none, ?_, by simp [hs, hnn]⟩
    have hvar : it.isVar = true := (Lit.isVar_iff it).2 ⟨x, hx⟩
    simp [hnn, hval, listItemLiteral, hvar, litVarValue_of_asVar hx, PyVal.isNullish]

end
end Gql.Values
