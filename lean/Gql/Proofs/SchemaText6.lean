import Gql.Proofs.SchemaText5
/-!
C17, text level, part 6: reading C08's typed document trees back into C17's definition AST
(`gdefsToDefs`, what `tools/c17_gen.py` does with the parsed document) and the proof that it
inverts the translation on the definitions `print_schema` emits.
-/
namespace Gql.Types.PrintSchema
open Gql Gql.Text Gql.Syntax Gql.Generated

def ofTy : Ty → TypeRef
  | .named n => .named n
  | .list t => .list (ofTy t)
  | .nonNull t => .nonNull (ofTy t)

def ofDesc (d : Desc) : Option DescNode := d.map (fun p => ⟨p.1, p.2⟩)

def ofDir (d : Dir) : DirApp := ⟨d.name, d.args.map (fun p => (p.1, ofVal p.2))⟩

def ofVarDef (v : VarDef) : IVD := ⟨ofDesc v.desc, v.name, ofTy v.ty, v.dflt.map ofVal, v.dirs.map ofDir⟩

def ofFDef (f : FDef) : FD := ⟨ofDesc f.desc, f.name, f.args.map ofVarDef, ofTy f.ty, f.dirs.map ofDir⟩

def ofEVDef (e : EVDef) : EVD := ⟨ofDesc e.desc, e.name, e.dirs.map ofDir⟩

def ofOp (n : List Nat) : Op :=
  if n = S "mutation" then .mutation else if n = S "subscription" then .subscription else .query

def ofOts (ots : List (List Nat × List Nat)) : List (Op × Str) := ots.map (fun p => (ofOp p.1, p.2))

def tdefToDef : TDef → Def
  | .schema d ds ots => .schemaDef (ofDesc d) (ds.map ofDir) (ofOts ots)
  | .scalar d n ds => .typeDef (ofDesc d) ⟨n, ds.map ofDir, .scalar⟩
  | .object iface d n ifs ds fs =>
    .typeDef (ofDesc d) ⟨n, ds.map ofDir, if iface then .interface ifs (fs.map ofFDef) else .object ifs (fs.map ofFDef)⟩
  | .union d n ds ts => .typeDef (ofDesc d) ⟨n, ds.map ofDir, .union ts⟩
  | .enum d n ds vs => .typeDef (ofDesc d) ⟨n, ds.map ofDir, .enum (vs.map ofEVDef)⟩
  | .input d n ds fs => .typeDef (ofDesc d) ⟨n, ds.map ofDir, .input (fs.map ofVarDef)⟩
  | .directive d n args ds rep locs => .directiveDef (ofDesc d) n (args.map ofVarDef) (ds.map ofDir) rep locs

def edefToDef : EDef → Def
  | .schema ds ots => .schemaExt (ds.map ofDir) (ofOts ots)
  | .scalar n ds => .typeExt ⟨n, ds.map ofDir, .scalar⟩
  | .object iface n ifs ds fs =>
    .typeExt ⟨n, ds.map ofDir, if iface then .interface ifs (fs.map ofFDef) else .object ifs (fs.map ofFDef)⟩
  | .union n ds ts => .typeExt ⟨n, ds.map ofDir, .union ts⟩
  | .enum n ds vs => .typeExt ⟨n, ds.map ofDir, .enum (vs.map ofEVDef)⟩
  | .input n ds fs => .typeExt ⟨n, ds.map ofDir, .input (fs.map ofVarDef)⟩

/-- A parsed definition as C17's definition AST (executable definitions carry nothing). -/
def gdefToDef : GDef → Def
  | .x _ => .other
  | .t d => tdefToDef d
  | .e d => edefToDef d

def gdefsToDefs (ds : List GDef) : List Def := ds.map gdefToDef

/-! ## inversion on what `print_schema` emits -/

def argShaped (a : Arg) : Bool :=
  match a.default with
  | none => true
  | some v => valueShaped v

/-- Every default value of the schema is a proper literal (`valueShaped`). -/
def schemaShaped (s : Schema) : Bool :=
  s.directives.all (fun d => d.args.all argShaped) &&
  s.types.all (fun t =>
    match t with
    | .object _ _ _ fs | .interface _ _ _ fs => fs.all (fun f => f.args.all argShaped)
    | .input _ _ _ fs => fs.all argShaped
    | _ => true)

theorem ofTy_toTy (t : TypeRef) : ofTy (toTy t) = t := by
  induction t with
  | named n => rfl
  | list t ih => simp [toTy, ofTy, ih]
  | nonNull t ih => simp [toTy, ofTy, ih]

theorem ofDesc_toDesc (d : Option DescNode) : ofDesc (toDesc d) = d := by
  cases d <;> simp [ofDesc, toDesc]

theorem ofDir_deprDirs (r : Option Str) : ((deprDirs r).map toDir).map ofDir = deprDirs r := by
  cases r with
  | none => rfl
  | some r =>
    simp only [deprDirs]
    split <;> simp [toDir, ofDir, toVal, ofVal]

theorem ofDir_specifiedByDirs (u : Option Str) : ((specifiedByDirs u).map toDir).map ofDir = specifiedByDirs u := by
  cases u <;> simp [specifiedByDirs, toDir, ofDir, toVal, ofVal]

theorem ofDir_deprDirs' (r : Option Str) : List.map (ofDir ∘ toDir) (deprDirs r) = deprDirs r := by
  simpa [List.map_map] using ofDir_deprDirs r

theorem ofVarDef_arg (a : Arg) (h : argShaped a = true) : ofVarDef (toVarDef (argToIVD a)) = argToIVD a := by
  have hd : (a.default.map toVal).map ofVal = a.default := by
    cases hdef : a.default with
    | none => rfl
    | some v =>
      simp only [argShaped, hdef, valueShaped, beq_iff_eq] at h
      simp [h]
  simp [ofVarDef, toVarDef, argToIVD, ofDesc_toDesc, ofTy_toTy, ofDir_deprDirs', hd]

theorem ofVarDef_args (as : List Arg) (h : as.all argShaped = true) :
    ((as.map argToIVD).map toVarDef).map ofVarDef = as.map argToIVD := by
  induction as with
  | nil => rfl
  | cons a r ih =>
    simp only [List.all_cons, Bool.and_eq_true] at h
    simp only [List.map_cons, ofVarDef_arg a h.1, ih h.2]

theorem ofFDef_field (f : Field) (h : f.args.all argShaped = true) : ofFDef (toFDef (fieldToFD f)) = fieldToFD f := by
  have := ofVarDef_args f.args h
  simp only [List.map_map] at this
  simp [ofFDef, toFDef, fieldToFD, ofDesc_toDesc, ofTy_toTy, ofDir_deprDirs', this]

theorem ofFDef_fields (fs : List Field) (h : fs.all (fun f => f.args.all argShaped) = true) :
    ((fs.map fieldToFD).map toFDef).map ofFDef = fs.map fieldToFD := by
  induction fs with
  | nil => rfl
  | cons a r ih =>
    simp only [List.all_cons, Bool.and_eq_true] at h
    simp only [List.map_cons, ofFDef_field a h.1, ih h.2]

theorem ofEVDef_vals (vs : List EnumVal) : ((vs.map enumValToEVD).map toEVDef).map ofEVDef = vs.map enumValToEVD := by
  induction vs with
  | nil => rfl
  | cons a r ih =>
    simp only [List.map_cons, ih]
    simp [ofEVDef, toEVDef, enumValToEVD, ofDesc_toDesc, ofDir_deprDirs']

def typeShaped : TypeDef → Bool
  | .object _ _ _ fs | .interface _ _ _ fs => fs.all (fun f => f.args.all argShaped)
  | .input _ _ _ fs => fs.all argShaped
  | _ => true

theorem tdefToDef_type (t : TypeDef) (h : typeShaped t = true) : tdefToDef (typeTDef t) = typeToDef t := by
  cases t with
  | scalar n d u =>
    have := ofDir_specifiedByDirs u
    simp only [List.map_map] at this
    simp [typeTDef, typeToDef, typeNodeToTDef, tdefToDef, ofDesc_toDesc, this]
  | object n d is fs =>
    have := ofFDef_fields fs h
    simp only [List.map_map] at this
    simp [typeTDef, typeToDef, typeNodeToTDef, tdefToDef, ofDesc_toDesc, this]
  | interface n d is fs =>
    have := ofFDef_fields fs h
    simp only [List.map_map] at this
    simp [typeTDef, typeToDef, typeNodeToTDef, tdefToDef, ofDesc_toDesc, this]
  | union n d ms => simp [typeTDef, typeToDef, typeNodeToTDef, tdefToDef, ofDesc_toDesc]
  | enum n d vs =>
    have := ofEVDef_vals vs
    simp only [List.map_map] at this
    simp [typeTDef, typeToDef, typeNodeToTDef, tdefToDef, ofDesc_toDesc, this]
  | input n d o fs =>
    have := ofVarDef_args fs h
    simp only [List.map_map] at this
    cases o <;> simp [typeTDef, typeToDef, typeNodeToTDef, tdefToDef, ofDesc_toDesc, this, toDir, ofDir]

theorem tdefToDef_directive (d : Directive) (h : d.args.all argShaped = true) :
    tdefToDef (directiveTDef d) = directiveToDef d := by
  have := ofVarDef_args d.args h
  simp only [List.map_map] at this
  simp [directiveTDef, directiveToDef, tdefToDef, ofDesc_toDesc, ofDir_deprDirs', this]

theorem ofOts_opEntry (o : Op) (r : Option Str) : ofOts (toOts (opEntry o r)) = opEntry o r := by
  cases r with
  | none => rfl
  | some n => cases o <;> simp [opEntry, toOts, ofOts, opName] <;> decide

theorem tdefToDef_schemaDef (s : Schema) : (schemaDefTDef s).map tdefToDef = schemaDefOf s := by
  unfold schemaDefTDef schemaDefOf
  split
  · rfl
  · split
    · rfl
    · simp [tdefToDef, ofDesc_toDesc, toOts, ofOts, List.map_append]
      have hq := ofOts_opEntry .query s.query
      have hm := ofOts_opEntry .mutation s.mutation
      have hs := ofOts_opEntry .subscription s.subscription
      simp only [toOts, ofOts, List.map_map] at hq hm hs
      simp [hq, hm, hs]

/-- **The reader inverts the translation** on the definitions `print_schema` emits. -/
theorem gdefsToDefs_schemaToDefs (s : Schema) (h : schemaShaped s = true) :
    gdefsToDefs (defsToGDefs (schemaToDefs s)) = schemaToDefs s := by
  rw [defsToGDefs_schemaToDefs]
  simp only [schemaShaped, Bool.and_eq_true] at h
  unfold gdefsToDefs schemaTDefs schemaToDefs
  simp only [List.map_append, List.map_map]
  have h1 : List.map (gdefToDef ∘ GDef.t) (schemaDefTDef s) = schemaDefOf s := by
    rw [← tdefToDef_schemaDef s]; rfl
  have h2 : List.map (gdefToDef ∘ GDef.t ∘ directiveTDef) s.directives = List.map directiveToDef s.directives := by
    apply List.map_congr_left
    intro d hd
    exact tdefToDef_directive d (List.all_eq_true.mp h.1 d hd)
  have h3 : List.map (gdefToDef ∘ GDef.t ∘ typeTDef) s.types = List.map typeToDef s.types := by
    apply List.map_congr_left
    intro t ht
    have := List.all_eq_true.mp h.2 t ht
    exact tdefToDef_type t (by cases t <;> simpa [typeShaped] using this)
  rw [h1, h2, h3]

end Gql.Types.PrintSchema
