import Gql.Proofs.ExecPrint3b
/-!
C08, stage 3: the printer model on type-system extensions and on whole documents.
-/
namespace Gql.Text
open Gql Gql.Syntax

theorem join_extend (kw : List Nat) (hkw : kw ≠ []) (parts : List (List Nat)) :
    join ((S "extend " ++ kw) :: parts) [32] = S "extend " ++ join (kw :: parts) [32] := by
  rw [join_space _ _ (by intro h; exact hkw (List.append_eq_nil_iff.mp h).2), join_space _ _ hkw]
  simp

theorem descPre_none (w : Widths) : Exec.descPre w none = [] := by
  simp [Exec.descPre, Exec.descText, wrap]

theorem printEDef_eq (w : Widths) (d : EDef) :
    Exec.printEDef w d = match d with
      | .schema ds ots => join [S "extend schema", Exec.printDirs w ds, block (ots.map Exec.printOt)] [32]
      | .scalar n ds => join [S "extend scalar", n, Exec.printDirs w ds] [32]
      | .object iface n ifs ds fs =>
        join [if iface then S "extend interface" else S "extend type", n,
          wrap (S "implements ") (join ifs (S " & ")), Exec.printDirs w ds, block (fs.map (Exec.printFd w))] [32]
      | .union n ds ts => join [S "extend union", n, Exec.printDirs w ds, wrap (S "= ") (join ts (S " | "))] [32]
      | .enum n ds vs => join [S "extend enum", n, Exec.printDirs w ds, block (vs.map (Exec.printEv w))] [32]
      | .input n ds fs => join [S "extend input", n, Exec.printDirs w ds, block (fs.map (Exec.printIvd w))] [32] := by
  cases d with
  | schema ds ots =>
    simp only [Exec.printEDef, EDef.base, Exec.printTDef, descPre_none, List.nil_append]
    rw [show S "extend schema" = S "extend " ++ S "schema" by decide, join_extend _ (by decide)]
  | scalar n ds =>
    simp only [Exec.printEDef, EDef.base, Exec.printTDef, descPre_none, List.nil_append]
    rw [show S "extend scalar" = S "extend " ++ S "scalar" by decide, join_extend _ (by decide)]
  | object iface n ifs ds fs =>
    simp only [Exec.printEDef, EDef.base, Exec.printTDef, descPre_none, List.nil_append]
    cases iface
    · simp only [Bool.false_eq_true, ↓reduceIte, Exec.objKw]
      rw [show S "extend type" = S "extend " ++ S "type" by decide, join_extend _ (by decide)]
    · simp only [↓reduceIte, Exec.objKw]
      rw [show S "extend interface" = S "extend " ++ S "interface" by decide, join_extend _ (by decide)]
  | union n ds ts =>
    simp only [Exec.printEDef, EDef.base, Exec.printTDef, descPre_none, List.nil_append]
    rw [show S "extend union" = S "extend " ++ S "union" by decide, join_extend _ (by decide)]
  | enum n ds vs =>
    simp only [Exec.printEDef, EDef.base, Exec.printTDef, descPre_none, List.nil_append]
    rw [show S "extend enum" = S "extend " ++ S "enum" by decide, join_extend _ (by decide)]
  | input n ds fs =>
    simp only [Exec.printEDef, EDef.base, Exec.printTDef, descPre_none, List.nil_append]
    rw [show S "extend input" = S "extend " ++ S "input" by decide, join_extend _ (by decide)]

set_option maxHeartbeats 1000000 in
theorem prEDef (w : Widths) (d : EDef) : pr w (Exec.edefAst d) = .ok (.text (Exec.printEDef w d)) := by
  rw [printEDef_eq]
  cases d with
  | schema ds ots =>
    have h4 := pr_dirsAst w ds
    have h6 := pr_optL_map w Exec.otAst Exec.printOt ots (fun a _ => prOt w a)
    simp only [Exec.edefAst, pr, prFields, h4, h6, Out.bind_ok, Out.pure_eq]
    by_cases hds : ds = [] <;> by_cases hi : ots = [] <;>
      simp [leave, baseClass, optText, optTexts, fld, hds, hi, Exec.printDirs]
  | scalar n ds =>
    have h4 := pr_dirsAst w ds
    have h5 := prNameNode w n
    simp only [Exec.edefAst, pr, prFields, h4, h5, Out.bind_ok, Out.pure_eq]
    by_cases hds : ds = [] <;>
      simp [leave, baseClass, reqText, optText, optTexts, fld, hds, Exec.printDirs]
  | object iface n ifs ds fs =>
    have h4 := pr_dirsAst w ds
    have h5 := prNameNode w n
    have h6 := pr_optL_map w namedType id ifs (fun a _ => prNamedType w a)
    have h7 := pr_optL_map w Exec.fdAst (Exec.printFd w) fs (fun a _ => prFd w a)
    simp only [Exec.edefAst, pr, prFields, h4, h5, h6, h7, Out.bind_ok, Out.pure_eq]
    cases iface <;> by_cases hds : ds = [] <;> by_cases hi : ifs = [] <;> by_cases hf : fs = [] <;>
      simp [leave, baseClass, reqText, optText, optTexts, fld, hds, hi, hf, Exec.printDirs, Exec.objExtCls]
  | union n ds ts =>
    have h4 := pr_dirsAst w ds
    have h5 := prNameNode w n
    have h6 := pr_optL_map w namedType id ts (fun a _ => prNamedType w a)
    simp only [Exec.edefAst, pr, prFields, h4, h5, h6, Out.bind_ok, Out.pure_eq]
    by_cases hds : ds = [] <;> by_cases hi : ts = [] <;>
      simp [leave, baseClass, reqText, optText, optTexts, fld, hds, hi, Exec.printDirs]
  | enum n ds vs =>
    have h4 := pr_dirsAst w ds
    have h5 := prNameNode w n
    have h6 := pr_optL_map w Exec.evAst (Exec.printEv w) vs (fun a _ => prEv w a)
    simp only [Exec.edefAst, pr, prFields, h4, h5, h6, Out.bind_ok, Out.pure_eq]
    by_cases hds : ds = [] <;> by_cases hi : vs = [] <;>
      simp [leave, baseClass, reqText, optText, optTexts, fld, hds, hi, Exec.printDirs]
  | input n ds fs =>
    have h4 := pr_dirsAst w ds
    have h5 := prNameNode w n
    have h6 := pr_optL_map w Exec.ivdAst (Exec.printIvd w) fs (fun a _ => prIvd w a)
    simp only [Exec.edefAst, pr, prFields, h4, h5, h6, Out.bind_ok, Out.pure_eq]
    by_cases hds : ds = [] <;> by_cases hi : fs = [] <;>
      simp [leave, baseClass, reqText, optText, optTexts, fld, hds, hi, Exec.printDirs]

theorem prGDef (w : Widths) (fa dd : Bool) (d : GDef) (h : Exec.gdefWf fa dd d) :
    pr w (Exec.gdefAst fa dd d) = .ok (.text (Exec.printGDef w d)) := by
  cases d with
  | x d => exact prXDef w fa d h
  | t d => exact prTDef w dd d h
  | e d => exact prEDef w d

/-- The printer model on the parser's tree of a stage-3 document prints `Exec.printGDoc`. -/
theorem printAst_gdoc (w : Widths) (fa dd : Bool) (defs : List GDef) (h : Exec.gdefsWf fa dd defs) :
    printAst w (Exec.gdocAst fa dd defs) = .ok (Exec.printGDoc w defs) := by
  have := pr_list_map w (Exec.gdefAst fa dd) (Exec.printGDef w) defs (fun a ha => prGDef w fa dd a (h a ha))
  simp only [pr] at this
  have hl : prList w (defs.map (Exec.gdefAst fa dd)) = .ok (defs.map (Exec.printGDef w)) := by
    cases hp : prList w (defs.map (Exec.gdefAst fa dd)) <;> simp_all
  simp [printAst, Exec.gdocAst, pr, prFields, leave, baseClass, optTexts, fld, hl, Exec.printGDoc]

end Gql.Text
