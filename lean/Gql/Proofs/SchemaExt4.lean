import Gql.Proofs.SchemaExt3
namespace Gql.Types
open Gql Gql.Generated

/-- What the theorem needs of "an extension document `B` valid against the schema built from
`A`" (the implementation's SDL validation guarantees all of it): `B` has no schema definition;
the types `A` defines are new and distinct; `A` does not extend anything only `B` defines. -/
structure ValidExt (s : Schema) (pa pb : Parts) : Prop where
  noSchemaDef : pb.schemaDef = none
  freshA_nodup : nodupNames ((newTypeDefs pa).map (fun dn => dn.2.name)) = true
  freshA : ∀ dn ∈ newTypeDefs pa, ∀ t ∈ s.types, t.name ≠ dn.2.name
  noEarlyExt : ∀ dn ∈ newTypeDefs pb, extsFor dn.2.body.kind dn.2.name pa.typeExts = []
  noEarlyDirExt : ∀ d ∈ pb.dirDefs, ∀ x ∈ pa.dirExts, x.1 ≠ d.directiveName

theorem newTypeDefs_merge (pa pb : Parts) : newTypeDefs (pa.merge pb) = newTypeDefs pa ++ newTypeDefs pb := by
  simp [newTypeDefs, Parts.merge]

theorem finish_ok (r a : Schema) (h : finish r = .ok a) : a = r := by
  unfold finish at h
  split at h <;> cases h
  rfl

theorem upsertAll_fresh (T N : List TypeDef) (ks : List Str) (kn : List Str)
    (hT : T.map TypeDef.name = ks) (hN : N.map TypeDef.name = kn)
    (hnd : nodupNames kn = true) (hdis : ∀ n ∈ kn, ∀ k ∈ ks, k ≠ n) :
    upsertAll TypeDef.name T N = T ++ N := by
  apply upsertAll_append TypeDef.name N T (by rw [hN]; exact hnd)
  intro y hy x hx
  apply hdis (x.name) (by rw [← hN]; exact List.mem_map.mpr ⟨x, hx, rfl⟩) (y.name)
    (by rw [← hT]; exact List.mem_map.mpr ⟨y, hy, rfl⟩)


/-- Roots after a document's schema definition and schema extensions, from the old roots. -/
def rootsTriple (p : Parts) (r : Option Str × Option Str × Option Str) : Option Str × Option Str × Option Str :=
  extsRoots (match p.schemaDef with
    | some (_, ops) => opsRoots r ops
    | none => r) p.schemaExts

theorem rootsOf_eq (p : Parts) (s : Schema) :
    rootsOf p s =
      { s with query := (rootsTriple p (s.query, s.mutation, s.subscription)).1
               mutation := (rootsTriple p (s.query, s.mutation, s.subscription)).2.1
               subscription := (rootsTriple p (s.query, s.mutation, s.subscription)).2.2 } := by
  unfold rootsOf rootsTriple
  rw [foldl_applyOps_eq]
  cases hsd : p.schemaDef with
  | none => rfl
  | some d =>
    obtain ⟨dd, ops⟩ := d
    simp only [applyOps_eq]

theorem rootsTriple_merge (pa pb : Parts) (h : pb.schemaDef = none) (r : Option Str × Option Str × Option Str) :
    rootsTriple (pa.merge pb) r = rootsTriple pb (rootsTriple pa r) := by
  unfold rootsTriple
  simp only [Parts.merge, h, extsRoots, List.foldl_append]

theorem descOf_merge (pa pb : Parts) (h : pb.schemaDef = none) (d : Option Str) :
    descOf (pa.merge pb) d = descOf pb (descOf pa d) := by
  unfold descOf
  simp only [Parts.merge, h]

/-- The object / interface / … mapper of a second document applied to an existing type. -/
def extB (pb : Parts) : TypeDef → B TypeDef := fun t => extendType t (extsFor t.kind t.name pb.typeExts)

/-- **Extend equals build, on collected parts.** -/
theorem stage_merge (s a : Schema) (pa pb : Parts) (ha : stage s pa = .ok a) (v : ValidExt s pa pb) :
    stage a pb = stage s (pa.merge pb) := by
  unfold stage at ha
  -- unpack the successful first stage
  cases hT1 : mapMOut (fun t => extendType t (extsFor t.kind t.name pa.typeExts)) s.types with
  | err e => rw [hT1] at ha; cases ha
  | crash c => rw [hT1] at ha; cases ha
  | ok T1 =>
  rw [hT1] at ha; simp only [] at ha
  cases hN1 : mapMOut (fun (dn : Option DescNode × TypeNode) =>
      buildNamedType dn.1 dn.2 (extsFor dn.2.body.kind dn.2.name pa.typeExts)) (newTypeDefs pa) with
  | err e => rw [hN1] at ha; cases ha
  | crash c => rw [hN1] at ha; cases ha
  | ok N1 =>
  rw [hN1] at ha; simp only [] at ha
  cases hD1 : mapMOut (extendDirective pa.dirExts) s.directives with
  | err e => rw [hD1] at ha; cases ha
  | crash c => rw [hD1] at ha; cases ha
  | ok D1 =>
  rw [hD1] at ha; simp only [] at ha
  cases hND1 : mapMOut (buildDirective pa.dirExts) (pa.dirDefs.filter Def.isUserDirectiveDef) with
  | err e => rw [hND1] at ha; cases ha
  | crash c => rw [hND1] at ha; cases ha
  | ok ND1 =>
  rw [hND1] at ha; simp only [] at ha
  have haeq := finish_ok _ _ ha
  -- names of the first-stage results
  have hT1n : T1.map TypeDef.name = s.types.map TypeDef.name :=
    mapMOut_keys _ TypeDef.name TypeDef.name _ _ hT1 (fun t _ t' h => (extendType_name_kind t t' _ h).1)
  have hN1n : N1.map TypeDef.name = (newTypeDefs pa).map (fun dn => dn.2.name) :=
    mapMOut_keys _ (fun dn => dn.2.name) TypeDef.name _ _ hN1
      (fun dn _ t h => (buildNamedType_name_kind dn.1 dn.2 _ t h).1)
  have hdisA : ∀ n ∈ (newTypeDefs pa).map (fun dn => dn.2.name), ∀ k ∈ s.types.map TypeDef.name, k ≠ n := by
    intro n hn k hk
    obtain ⟨dn, hdn, rfl⟩ := List.mem_map.mp hn
    obtain ⟨t, ht, rfl⟩ := List.mem_map.mp hk
    exact v.freshA dn hdn t ht
  have hup1 : upsertAll TypeDef.name T1 N1 = T1 ++ N1 :=
    upsertAll_fresh T1 N1 _ _ hT1n hN1n v.freshA_nodup hdisA
  -- the pieces of the combined stage, expressed through the first-stage results
  have hg : (fun t => extendType t (extsFor t.kind t.name pb.typeExts)) = extB pb := rfl
  have hR1 : mapMOut (fun t => extendType t (extsFor t.kind t.name (pa.merge pb).typeExts)) s.types =
      mapMOut (extB pb) T1 := by
    rw [← mapMOut_comp (fun t => extendType t (extsFor t.kind t.name pa.typeExts)) (extB pb)
      (fun t t' => extendType t' (extsFor t.kind t.name pb.typeExts)) s.types T1 hT1
      (fun t _ t' h => by
        have := extendType_name_kind t t' _ h
        simp only [extB, this.1, this.2])]
    apply mapMOut_congr
    intro t _
    simp only [Parts.merge, extsFor_append, extendType_append]
  have hR2a : mapMOut (fun (dn : Option DescNode × TypeNode) =>
        buildNamedType dn.1 dn.2 (extsFor dn.2.body.kind dn.2.name (pa.merge pb).typeExts)) (newTypeDefs pa) =
      mapMOut (extB pb) N1 := by
    rw [← mapMOut_comp (fun (dn : Option DescNode × TypeNode) =>
        buildNamedType dn.1 dn.2 (extsFor dn.2.body.kind dn.2.name pa.typeExts)) (extB pb)
      (fun dn t' => extendType t' (extsFor dn.2.body.kind dn.2.name pb.typeExts)) (newTypeDefs pa) N1 hN1
      (fun dn _ t' h => by
        have := buildNamedType_name_kind dn.1 dn.2 _ t' h
        simp only [extB, this.1, this.2])]
    apply mapMOut_congr
    intro dn _
    simp only [Parts.merge, extsFor_append, buildNamedType_append]
  have hR2b : mapMOut (fun (dn : Option DescNode × TypeNode) =>
        buildNamedType dn.1 dn.2 (extsFor dn.2.body.kind dn.2.name (pa.merge pb).typeExts)) (newTypeDefs pb) =
      mapMOut (fun (dn : Option DescNode × TypeNode) =>
        buildNamedType dn.1 dn.2 (extsFor dn.2.body.kind dn.2.name pb.typeExts)) (newTypeDefs pb) := by
    apply mapMOut_congr
    intro dn hdn
    simp only [Parts.merge, extsFor_append, v.noEarlyExt dn hdn, List.nil_append]
  have hR3 : mapMOut (extendDirective (pa.merge pb).dirExts) s.directives =
      mapMOut (extendDirective pb.dirExts) D1 := by
    rw [← mapMOut_comp (extendDirective pa.dirExts) (extendDirective pb.dirExts)
      (fun _ d' => extendDirective pb.dirExts d') s.directives D1 hD1 (fun _ _ _ _ => rfl)]
    apply mapMOut_congr
    intro d _
    simp only [Parts.merge, extendDirective_append]
  have hR4a : mapMOut (buildDirective (pa.merge pb).dirExts) (pa.dirDefs.filter Def.isUserDirectiveDef) =
      mapMOut (extendDirective pb.dirExts) ND1 := by
    rw [← mapMOut_comp (buildDirective pa.dirExts) (extendDirective pb.dirExts)
      (fun _ d' => extendDirective pb.dirExts d') _ ND1 hND1 (fun _ _ _ _ => rfl)]
    apply mapMOut_congr
    intro d _
    simp only [Parts.merge, buildDirective_append]
  have hR4b : mapMOut (buildDirective (pa.merge pb).dirExts) (pb.dirDefs.filter Def.isUserDirectiveDef) =
      mapMOut (buildDirective pb.dirExts) (pb.dirDefs.filter Def.isUserDirectiveDef) := by
    apply mapMOut_congr
    intro d hd
    simp only [Parts.merge]
    exact buildDirective_skip _ _ d (v.noEarlyDirExt d (List.mem_filter.mp hd).1)
  -- now both sides run the same six computations in the same order
  subst haeq
  unfold stage
  simp only [newTypeDefs_merge, mapMOut_append, hR1, hR2a, hR2b, hR3, hup1]
  have hdd : (pa.merge pb).dirDefs.filter Def.isUserDirectiveDef =
      pa.dirDefs.filter Def.isUserDirectiveDef ++ pb.dirDefs.filter Def.isUserDirectiveDef := by
    simp [Parts.merge]
  rw [hdd]
  simp only [mapMOut_append, hR4a, hR4b]
  simp only [rootsOf_eq, rootsTriple_merge pa pb v.noSchemaDef, descOf_merge pa pb v.noSchemaDef, hg, mapMOut_append]
  cases hX1 : mapMOut (extB pb) T1 with
  | err e => simp [andThen]
  | crash c => simp [andThen]
  | ok T' =>
  cases hX2 : mapMOut (extB pb) N1 with
  | err e => simp [andThen]
  | crash c => simp [andThen]
  | ok N' =>
  cases hX3 : mapMOut (fun (dn : Option DescNode × TypeNode) =>
      buildNamedType dn.1 dn.2 (extsFor dn.2.body.kind dn.2.name pb.typeExts)) (newTypeDefs pb) with
  | err e => simp [andThen]
  | crash c => simp [andThen]
  | ok NB =>
  cases hX4 : mapMOut (extendDirective pb.dirExts) D1 with
  | err e => simp [andThen]
  | crash c => simp [andThen]
  | ok D' =>
  cases hX5 : mapMOut (extendDirective pb.dirExts) ND1 with
  | err e => simp [andThen]
  | crash c => simp [andThen]
  | ok ND' =>
  cases hX6 : mapMOut (buildDirective pb.dirExts) (pb.dirDefs.filter Def.isUserDirectiveDef) with
  | err e => simp [andThen]
  | crash c => simp [andThen]
  | ok NDB =>
  simp only [andThen]
  have hT'n : T'.map TypeDef.name = s.types.map TypeDef.name := by
    rw [← hT1n]
    exact mapMOut_keys _ TypeDef.name TypeDef.name _ _ hX1 (fun t _ t' h => (extendType_name_kind t t' _ h).1)
  have hN'n : N'.map TypeDef.name = (newTypeDefs pa).map (fun dn => dn.2.name) := by
    rw [← hN1n]
    exact mapMOut_keys _ TypeDef.name TypeDef.name _ _ hX2 (fun t _ t' h => (extendType_name_kind t t' _ h).1)
  have hup2 : upsertAll TypeDef.name T' (N' ++ NB) = upsertAll TypeDef.name (T' ++ N') NB := by
    rw [← upsertAll_upsertAll, upsertAll_fresh T' N' _ _ hT'n hN'n v.freshA_nodup hdisA]
  rw [hup2]
  simp only [List.append_assoc]

/-- **Extending twice is extending once with the concatenated document.** -/
theorem extendCore_append (s a : Schema) (A B : List Def) (hA : A.all Def.isOther = false)
    (hB : B.all Def.isOther = false) (ha : extendCore s A = .ok a)
    (v : ValidExt s (collect A) (collect B)) : extendCore a B = extendCore s (A ++ B) := by
  unfold extendCore at ha ⊢
  simp only [hA, hB, List.all_append, Bool.false_and, Bool.false_eq_true, ↓reduceIte] at ha ⊢
  rw [collect_append]
  exact stage_merge s a (collect A) (collect B) ha v

/-- **Extend equals build** for a base document with an explicit schema definition. -/
theorem extend_eq_build_of_schemaDef (a : Schema) (A B : List Def) (hA : A.all Def.isOther = false)
    (hB : B.all Def.isOther = false) (hsd : (collect A).schemaDef.isSome = true)
    (ha : buildFromDefs A = .ok a) (v : ValidExt Schema.empty (collect A) (collect B)) :
    extendDefs a B = buildFromDefs (A ++ B) := by
  unfold buildFromDefs at ha ⊢
  have hsd2 : (collect (A ++ B)).schemaDef.isSome = true := by
    rw [collect_append]; simp only [Parts.merge, v.noSchemaDef]; exact hsd
  cases hc : extendCore Schema.empty A with
  | ok a0 =>
    rw [hc] at ha
    simp only [hsd, ↓reduceIte] at ha
    cases ha
    unfold extendDefs
    rw [extendCore_append Schema.empty a A B hA hB hc v]
    cases extendCore Schema.empty (A ++ B) <;> simp [hsd2]
  | err e => rw [hc] at ha; cases ha
  | crash c => rw [hc] at ha; cases ha

end Gql.Types
