/-
C13 — blame (`SoundBlame`) under the weaker merge hypothesis `MergeOkT`.  Same proofs; the reach
hypothesis carries the subtype fact.
-/
import Gql.Proofs.SoundMerge3
import Gql.Proofs.SoundBlame

namespace Gql.Exec.Valid
open Gql.Exec Gql.Exec.Refine

variable (g : GCtx) (op : Operation) (hvok : VarsOk g.env g.cx.vars) (hval : ValuesOk g)
variable (hfr : FragsOk g) (hyps : SoundHyps g.cx.ops g.cx.schema) (hmerge : MergeOkT g.cx op)

/-- children are completed without request-attributable errors -/
def ChildBlameT (g : GCtx) (op : Operation) (child : Spec.Child) : Prop :=
  ∀ (name : Name) (args : ArgMap) (t : TypeRef) (fields : List FieldNode) (pos : List PSeg),
    FieldsWT g t fields →
    ReachAt g op t.baseName fields →
    Blame (child name args t fields pos)

include hvok hval hyps in
theorem groups_blameT (rt : Name) (child : Spec.Child) (hchild : ChildBlameT g op child) :
    ∀ (groups : Spec.Groups) (pos : List PSeg), AllOn g rt groups → Uniform groups →
      ReachGroups g op rt groups →
      Blame (Spec.executeGroups g.cx rt child pos groups)
  | [], pos, _, _, _ => by simp [Spec.executeGroups, Blame, Spec.R.pure]
  | (k, fields) :: rest, pos, hall, huni, hreach => by
    have ih := groups_blameT rt child hchild rest pos
      (fun p hp => hall p (List.mem_cons_of_mem _ hp)) (fun p hp => huni p (List.mem_cons_of_mem _ hp))
      (fun p hp => hreach p (List.mem_cons_of_mem _ hp))
    obtain ⟨hne, hon⟩ := hall (k, fields) (List.mem_cons_self ..)
    have hu := huni (k, fields) (List.mem_cons_self ..)
    have hr := hreach (k, fields) (List.mem_cons_self ..)
    have hfield : Blame (Spec.executeField g.cx rt child (pos ++ [PSeg.key k]) fields) := by
      cases fields with
      | nil => exact absurd rfl hne
      | cons f0 frest =>
        rcases hon f0 (List.mem_cons_self ..) with ⟨hty, _⟩ | ⟨hty, fd, hgf, hargs, hexc, hsub⟩
        · have hty' : (f0.name == "__typename") = true := by simp [hty]
          simp only [Spec.executeField, hty', ↓reduceIte]
          exact (coerceResult_blame g.cx _ _ _).absorb _
        · have hty' : ¬ (f0.name == "__typename") = true := by simpa using hty
          obtain ⟨a, ha⟩ := arguments_coerce g.cx g.env hvok hval fd.args f0.args hargs hexc
            (fun x hx d hd' => hyps.defaultsOk rt f0.name fd hgf x hx d hd') fd.args (fun _ h => h) []
          have hwt : FieldsWT g fd.type (f0 :: frest) := by
            refine ⟨by simp, ?_⟩
            intro f' hf'
            have hn : f'.name = f0.name := hu f' hf' f0 (List.mem_cons_self ..)
            rcases hon f' hf' with ⟨hty2, _⟩ | ⟨_, fd', hgf', _, _, hsub'⟩
            · exact absurd (hn ▸ hty2) hty
            · rw [hn, hgf] at hgf'
              cases hgf'
              exact hsub'
          have hc := hchild f0.name a fd.type (f0 :: frest) (pos ++ [PSeg.key k]) hwt (hr f0 frest rfl fd hgf)
          simp only [Spec.executeField, hty', Bool.false_eq_true, ↓reduceIte, hgf, ha]
          have : Blame (Spec.absorb fd.type
              { child f0.name a fd.type (f0 :: frest) (pos ++ [PSeg.key k]) with
                log := { path := pos ++ [PSeg.key k], parent := rt, field := f0.name, args := a } ::
                  (child f0.name a fd.type (f0 :: frest) (pos ++ [PSeg.key k])).log }) :=
            Blame.absorb _ hc
          exact this
    unfold Spec.executeGroups
    simp only
    split
    · exact hfield
    · intro e he
      simp only at he
      rcases List.mem_append.1 he with he | he
      · exact hfield e he
      · exact ih e he

include hvok hval hfr hyps hmerge in
theorem completeNamed_blameT (t : TypeRef) (fields : List FieldNode) (pos : List PSeg)
    (leaf? : Option PyLeaf) (tn : TN) (child : Spec.Child) (hchild : ChildBlameT g op child)
    (hwt : FieldsWT g t fields)
    (hreach : ReachAt g op t.baseName fields) :
    Blame (Spec.completeNamed g.cx t fields pos leaf? tn child) := by
  have hexec : ∀ rt n nn, t = .named n nn → Sub g.cx.schema rt n → g.cx.schema.kind rt = .object →
      isLeaf g.cx.schema n = false →
      Blame (Spec.executeSelectionSet g.cx rt (Spec.mergeSelectionSets fields) pos child) := by
    intro rt n nn ht hsub hobj hnl
    subst ht
    have hsels : SelsOk g n (Spec.mergeSelectionSets fields) := by
      apply selsOk_merge
      intro f' hf'
      have := hwt.2 f' hf'
      simpa [TypeRef.baseName, hnl] using this
    obtain ⟨gs, hcol, hall⟩ := collectFields_typed g hvok hval hfr hyps rt hobj _ n hsels hsub
    have huni := hmerge rt _ (hreach rt hobj hsub) gs hcol
    have hb := groups_blameT g op hvok hval hyps rt child hchild gs pos hall huni
      (ReachGroups.of_step (hreach rt hobj hsub) hcol)
    unfold Spec.executeSelectionSet
    rw [hcol]
    exact hb
  unfold Spec.completeNamed
  cases t with
  | list t' nn => exact Blame.fail _ _ (by simp [DataKind])
  | named n nn =>
    simp only
    cases hk : g.cx.schema.kind n with
    | leaf =>
      cases leaf? with
      | none => exact Blame.fail _ _ (by simp [DataKind])
      | some l => exact coerceResult_blame _ _ _ _
    | object => exact hexec n n nn rfl (Or.inl rfl) hk (by simp [isLeaf, hk])
    | abstract =>
      simp only
      cases hres : Spec.resolveAbstractType g.cx.schema n tn with
      | error k =>
        refine Blame.fail _ _ ?_
        cases tn with
        | missing => simp [Spec.resolveAbstractType] at hres; subst hres; simp [DataKind]
        | bad => simp [Spec.resolveAbstractType] at hres; subst hres; simp [DataKind]
        | name m =>
          simp only [Spec.resolveAbstractType] at hres
          split at hres
          · cases hres; simp [DataKind]
          · split at hres <;> cases hres <;> simp [DataKind]
          · cases hres; simp [DataKind]
      | ok rt =>
        obtain ⟨ho, hsub⟩ := resolve_ok hres
        exact hexec rt n nn rfl (Or.inr hsub) ho (by simp [isLeaf, hk])
    | input => exact Blame.fail _ _ (by simp [DataKind])
    | unknown => exact Blame.fail _ _ (by simp [DataKind])

theorem nullChild_blameT : ChildBlameT g op Spec.nullChild :=
  fun _ _ t _ pos _ _ => completeNull_blame t pos

include hvok hval hfr hyps hmerge in
mutual
theorem complete_blameT : (d : RVal) → ∀ (t : TypeRef) (fields : List FieldNode) (pos : List PSeg),
    FieldsWT g t fields →
    ReachAt g op t.baseName fields →
    Blame (Spec.completeValue g.cx t fields pos d)
  | .raise tag none, t, fields, pos, _, _ => by
    unfold Spec.completeValue; exact Blame.fail _ _ (by simp [DataKind])
  | .raise tag (some p), t, fields, pos, _, _ => by
    unfold Spec.completeValue
    intro e he
    simp only [List.mem_singleton] at he
    subst he
    simp [DataKind]
  | .null, t, fields, pos, _, _ => by unfold Spec.completeValue; exact completeNull_blame t pos
  | .leaf l, t, fields, pos, hwt, hr => by
    unfold Spec.completeValue
    exact completeNamed_blameT g op hvok hval hfr hyps hmerge t fields pos _ _ _ (nullChild_blameT g op) hwt hr
  | .obj tn f, t, fields, pos, hwt, hr => by
    unfold Spec.completeValue
    exact completeNamed_blameT g op hvok hval hfr hyps hmerge t fields pos _ _ _
      (fun name args t' fields' pos' hwt' hr' => complete_blameT (f name args) t' fields' pos' hwt' hr') hwt hr
  | .list items, t, fields, pos, hwt, hr => by
    unfold Spec.completeValue
    cases t with
    | named n nn =>
      exact completeNamed_blameT g op hvok hval hfr hyps hmerge _ fields pos _ _ _ (nullChild_blameT g op) hwt hr
    | list t' nn =>
      have h := items_blameT items t' fields pos 0 hwt hr
      exact h

theorem items_blameT : (items : List RVal) → ∀ (t : TypeRef) (fields : List FieldNode)
    (pos : List PSeg) (i : Nat), FieldsWT g t fields →
    ReachAt g op t.baseName fields →
    Blame (Spec.completeItems g.cx t fields pos i items)
  | [], t, fields, pos, i, _, _ => by unfold Spec.completeItems; exact Blame.pure _
  | x :: xs, t, fields, pos, i, hwt, hr => by
    have h1 := (complete_blameT x t fields (pos ++ [.idx i]) hwt hr).absorb t
    have h2 := items_blameT xs t fields pos (i + 1) hwt hr
    unfold Spec.completeItems
    simp only
    split
    · exact h1
    · intro e he
      simp only at he
      rcases List.mem_append.1 he with he | he
      · exact h1 e he
      · exact h2 e he
end

end Gql.Exec.Valid

namespace Gql.Exec.Valid
open Gql.Exec Gql.Exec.Refine

/-- request level: no request-attributable error, whatever the data -/
theorem blame_T (ops : Ops) (s : Schema) (doc : Doc) (hyps : SoundHyps ops s)
    (op : Operation) (opName : Option Name) (vars : Vars) (root : RVal) (rt : Name)
    (hsel : Spec.getOperation doc.ops opName = some op)
    (hvalid : validOp s doc op = true)
    (hvok : VarsOk op.vars vars) (htyped : VarsTyped s op.vars vars)
    (hops : OpsSoundV ops s op.vars vars)
    (hexc : mayHitNullViaDefault s doc op vars = false)
    (hmerge : MergeOkT { ops := ops, schema := s, doc := doc, vars := vars } op)
    (hroot : Spec.rootType s op.kind = some rt) :
    ∀ e ∈ (Spec.executeRequest ops s doc opName vars root).errors, DataKind e.kind := by
  have hrt : rootTypeOf s op.kind = some rt := hroot
  have hk : s.kind rt = .object := rootTypeOf_object hrt
  obtain ⟨hsels, hfr⟩ := invariants_of_valid ops s doc op vars rt hrt hvalid hexc
  let g := gctxOf ops s doc op vars
  have hval : ValuesOk g := hops htyped
  obtain ⟨gs, hcol, hall⟩ := collectFields_typed g hvok hval hfr hyps rt hk op.sels rt hsels (Or.inl rfl)
  have hreach0 : ReachSelT g.cx op rt op.sels := ReachSelT.root hroot
  have huni := hmerge rt op.sels hreach0 gs hcol
  have hchild : ChildBlameT g op (Spec.childOf g.cx root) := by
    intro name args t fields pos hwt hr
    exact complete_blameT g op hvok hval hfr hyps hmerge (root.child name args) t fields pos hwt hr
  have hb := groups_blameT g op hvok hval hyps rt (Spec.childOf g.cx root) hchild gs [] hall huni
    (ReachGroups.of_step hreach0 hcol)
  have hcol' : Spec.collectFields { ops := ops, schema := s, doc := doc, vars := vars } rt op.sels
      = .ok gs := hcol
  have hb' : Blame (Spec.executeGroups { ops := ops, schema := s, doc := doc, vars := vars } rt
      (Spec.childOf { ops := ops, schema := s, doc := doc, vars := vars } root) [] gs) := hb
  unfold Spec.executeRequest
  simp only [hsel, hroot]
  rw [hcol']
  exact hb'

end Gql.Exec.Valid
