import Gql.Proofs.Frame
import Gql.Proofs.Sys
import Gql.Async.EnvOk
/-!
The scheduler's run separated from the publisher, and a generic induction principle: a
predicate on (environment ghost state, queue, events emitted so far) that every handled graph
event preserves holds at the end of every well-formed history.
-/
namespace Gql.Async
open Gql.Spec.Protocol

/-! ### the scheduler alone -/

def wqStart (σ : Static) (fuel : Nat) (work : Option Work) : WQ × List (List WQEvent) :=
  settle σ fuel fuel (startRoots σ (init σ work).1) []

def wqTick (σ : Static) (fuel : Nat) (q : WQ) (t : Tick) : WQ × List (List WQEvent) :=
  settle σ fuel fuel (t.foldl push q) []

/-- `(final queue, all batches emitted, oldest first)` -/
def wqRun (σ : Static) (fuel : Nat) : WQ × List (List WQEvent) → List Tick → WQ × List (List WQEvent)
  | st, [] => st
  | st, t :: r => wqRun σ fuel ((wqTick σ fuel st.1 t).1, st.2 ++ (wqTick σ fuel st.1 t).2) r

theorem publish_append_fst (π : PubStatic) (a b : List (List WQEvent)) (p : Pub) :
    (publish π p (a ++ b)).1 = (publish π (publish π p a).1 b).1 := by
  induction a generalizing p with
  | nil => simp [publish]
  | cons x a ih => simp [publish, ih]

theorem sysRun_eq (σ : Static) (π : PubStatic) (fuel : Nat) (h : List Tick) (s : Sys) (bs : List (List WQEvent))
    (p0 : Pub) (pl0 : Payload)
    (hp : s.pub = (publish π p0 bs).1) (ho : s.out = pl0 :: (publish π p0 bs).2) :
    (Sys.run σ π fuel s h).wq = (wqRun σ fuel (s.wq, bs) h).1 ∧
    (Sys.run σ π fuel s h).pub = (publish π p0 (wqRun σ fuel (s.wq, bs) h).2).1 ∧
    (Sys.run σ π fuel s h).out = pl0 :: (publish π p0 (wqRun σ fuel (s.wq, bs) h).2).2 := by
  induction h generalizing s bs with
  | nil => exact ⟨rfl, hp, ho⟩
  | cons t r ih =>
    simp only [Sys.run, wqRun]
    apply ih
    · simp only [Sys.tick, wqTick]
      rw [publish_append_fst, hp]
    · simp only [Sys.tick, wqTick]
      rw [publish_append, ho, hp]; simp

/-- The payload stream is the initial payload followed by the publisher's output on all the
batches the scheduler emits. -/
theorem payloads_eq (σ : Static) (π : PubStatic) (fuel : Nat) (work : Option Work) (h : List Tick) :
    payloads σ π fuel work h =
      (initialPayload π (init σ work).2.1 (init σ work).2.2).2 ::
        (publish π (initialPayload π (init σ work).2.1 (init σ work).2.2).1
          (wqRun σ fuel (wqStart σ fuel work) h).2).2 ∧
    (Sys.run σ π fuel (Sys.start σ π fuel work).1 h).wq = (wqRun σ fuel (wqStart σ fuel work) h).1 := by
  have := sysRun_eq σ π fuel h (Sys.start σ π fuel work).1 (wqStart σ fuel work).2
    (initialPayload π (init σ work).2.1 (init σ work).2.2).1
    (initialPayload π (init σ work).2.1 (init σ work).2.2).2 rfl rfl
  exact ⟨this.2.2, this.1⟩

/-! ### drain does not depend on its accumulator -/

theorem drain_acc (σ : Static) (fuel : Nat) (q : WQ) (acc : List WQEvent) :
    (drain σ fuel q acc).1 = (drain σ fuel q []).1 ∧
    (drain σ fuel q acc).2 = acc ++ (drain σ fuel q []).2 := by
  induction fuel generalizing q acc with
  | zero => simp [drain]
  | succ n ih =>
    unfold drain
    split
    · simp
    · simp only
      obtain ⟨a1, a2⟩ := ih (handleGraphEvent σ { q with channel := ‹List GraphEvent› } ‹GraphEvent›).1
        (acc ++ (handleGraphEvent σ { q with channel := ‹List GraphEvent› } ‹GraphEvent›).2)
      obtain ⟨b1, b2⟩ := ih (handleGraphEvent σ { q with channel := ‹List GraphEvent› } ‹GraphEvent›).1
        ([] ++ (handleGraphEvent σ { q with channel := ‹List GraphEvent› } ‹GraphEvent›).2)
      refine ⟨a1.trans b1.symm, ?_⟩
      rw [a2, b2]; simp

/-! ### handlers never touch the `stopped` flag -/

theorem successStep_stopped (σ : Static) (acc : WQ × List WQEvent × List Nat × List Nat) (g : Nat) :
    (successStep σ acc g).1.stopped = acc.1.stopped := by
  unfold successStep
  split
  · simp only
    split
    · unfold finishGroupSuccess
      simp only
      have f := (foldl_frame1 (collectTask σ) (‹GroupNode›).tasks
        (({ acc.1 with groupNodes := aerase (aset acc.1.groupNodes g
            { (‹GroupNode›) with pending := (‹GroupNode›).pending - 1 }) g } : WQ), ([] : List GVal), ([] : List Nat))
        (collectTask_frame σ)).trans (pruneEmpty_frame _ (‹GroupNode›).children)
      exact f.st
    · rfl
  · rfl

theorem failureStep_stopped (σ : Static) (acc : WQ × List WQEvent) (g : Nat) :
    (failureStep σ acc g).1.stopped = acc.1.stopped := by
  unfold failureStep
  split
  · exact (removeGroup_frame σ _ acc.1 g _).st
  · rfl

theorem itemStep_stopped (σ : Static) (acc : WQ × List IVal × List Nat × List Nat) (it : IResult) :
    (itemStep σ acc it).1.stopped = acc.1.stopped := by
  unfold itemStep
  simp only
  rw [(startNewWork_roots σ _ _ _).2.2.1]
  exact ((integrateWork_frame σ acc.1 it.work none).trans (pruneEmpty_frame _ _)).st

theorem handleGraphEvent_stopped (σ : Static) (q : WQ) (ev : GraphEvent) :
    (handleGraphEvent σ q ev).1.stopped = q.stopped := by
  cases ev with
  | taskSuccess t r =>
    simp only [handleGraphEvent, taskSuccess]
    rw [(startNewWork_roots σ _ _ _).2.2.1]
    have h := foldl_inv (fun acc : WQ × List WQEvent × List Nat × List Nat =>
        acc.1.stopped = q.stopped) (successStep σ) (σ.tgroups t)
      ((integrateWork σ (setTaskValue q t r.value) r.work (some t)).1, [], [], [])
      (((setTaskValue_frame q t r.value).trans (integrateWork_frame σ _ _ _)).st)
      (fun acc g ha => (successStep_stopped σ acc g).trans ha)
    exact h
  | taskFailure t =>
    simp only [handleGraphEvent, taskFailure]
    exact foldl_inv (fun acc : WQ × List WQEvent => acc.1.stopped = q.stopped) (failureStep σ)
      (σ.tgroups t) _ rfl (fun acc g ha => (failureStep_stopped σ acc g).trans ha)
  | streamItems s items st =>
    simp only [handleGraphEvent, streamItems]
    have h := foldl_inv (fun acc : WQ × List IVal × List Nat × List Nat => acc.1.stopped = q.stopped)
      (itemStep σ) items (q, [], [], []) rfl (fun acc it ha => (itemStep_stopped σ acc it).trans ha)
    split <;> exact h
  | streamSuccess s => simp only [handleGraphEvent]; split <;> rfl
  | streamFailure s => rfl
  | stop => rfl

/-! ### the induction principle -/

/-- A run invariant: a predicate on (environment ghost, queue, flattened events so far). -/
structure RunInv (σ : Static) (I : EnvSt → WQ → List WQEvent → Prop) : Prop where
  /-- handling a legal graph event preserves it and appends the emitted events -/
  handle : ∀ e q ev e' E, I e q E → q.stopped = false → eventOk σ e q ev = some e' →
    I e' (handleGraphEvent σ q ev).1 (E ++ (handleGraphEvent σ q ev).2)
  /-- it does not look at the channel, the deferred queue … -/
  chan : ∀ e q E c, I e q E → I e { q with channel := c } E
  defer : ∀ e q E d, I e q E → I e { q with deferred := d } E
  /-- … and survives the termination step of `events()` -/
  term : ∀ e q E, I e q E → q.rootGroups.isEmpty = true → q.rootStreams.isEmpty = true →
    I e { q with stopped := true } (E ++ [.termination])

theorem RunInv.push {σ : Static} {I : EnvSt → WQ → List WQEvent → Prop} (ri : RunInv σ I)
    (e : EnvSt) (q : WQ) (E : List WQEvent) (ev : GraphEvent) (h : I e q E) : I e (push q ev) E := by
  unfold Gql.Async.push
  split
  · exact h
  · exact ri.chan e q E _ h

theorem RunInv.pushes {σ : Static} {I : EnvSt → WQ → List WQEvent → Prop} (ri : RunInv σ I)
    (e : EnvSt) (E : List WQEvent) (evs : List GraphEvent) (q : WQ) (h : I e q E) :
    I e (evs.foldl Gql.Async.push q) E := by
  induction evs generalizing q with
  | nil => exact h
  | cons ev evs ih => exact ih _ (ri.push e q E ev h)

theorem RunInv.drain {σ : Static} {I : EnvSt → WQ → List WQEvent → Prop} (ri : RunInv σ I)
    (fuel : Nat) (e : EnvSt) (q : WQ) (E : List WQEvent) (e' : EnvSt) (q' : WQ)
    (h : I e q E) (hst : q.stopped = false) (hok : drainOk σ fuel e q = some (e', q')) :
    q' = (Gql.Async.drain σ fuel q []).1 ∧ I e' q' (E ++ (Gql.Async.drain σ fuel q []).2) := by
  induction fuel generalizing e q E with
  | zero => simp [drainOk] at hok; obtain ⟨rfl, rfl⟩ := hok; simpa [Gql.Async.drain] using h
  | succ n ih =>
    unfold drainOk at hok
    unfold Gql.Async.drain
    cases hc : q.channel with
    | nil => simp [hc] at hok; obtain ⟨rfl, rfl⟩ := hok; simpa [hc] using h
    | cons ev rest =>
      simp only [hc] at hok ⊢
      cases hev : eventOk σ e { q with channel := rest } ev with
      | none => simp [hev] at hok
      | some e1 =>
        simp only [hev] at hok
        have h1 := ri.handle e _ ev e1 E (ri.chan e q E rest h) hst hev
        have hst1 : (handleGraphEvent σ { q with channel := rest } ev).1.stopped = false := by
          rw [handleGraphEvent_stopped]; exact hst
        obtain ⟨a, b⟩ := ih e1 _ _ h1 hst1 hok
        obtain ⟨d1, d2⟩ := drain_acc σ n (handleGraphEvent σ { q with channel := rest } ev).1
          ([] ++ (handleGraphEvent σ { q with channel := rest } ev).2)
        refine ⟨a.trans d1.symm, ?_⟩
        rw [d2]; simpa [List.append_assoc] using b

theorem RunInv.batch {σ : Static} {I : EnvSt → WQ → List WQEvent → Prop} (ri : RunInv σ I)
    (fuel : Nat) (e : EnvSt) (q : WQ) (E : List WQEvent) (e' : EnvSt) (q' : WQ)
    (h : I e q E) (hst : q.stopped = false) (hok : drainOk σ fuel e q = some (e', q')) :
    I e' (Gql.Async.batch σ fuel q).1 (E ++ (Gql.Async.batch σ fuel q).2) := by
  obtain ⟨a, b⟩ := ri.drain fuel e q E e' q' h hst hok
  unfold Gql.Async.batch
  simp only
  split
  · rename_i hr
    have := ri.term e' _ _ (a ▸ b) hr.1 hr.2
    simpa [List.append_assoc] using this
  · exact a ▸ b

theorem settleOk_stopped (σ : Static) (fuel n : Nat) (e : EnvSt) (q : WQ) (h : q.stopped = true) :
    settleOk σ fuel (n + 1) e q = some (e, { q with deferred := [], channel := [] }) := by
  simp [settleOk, h]

theorem settleOk_idle (σ : Static) (fuel n : Nat) (e : EnvSt) (q : WQ)
    (h : q.stopped = false) (hc : q.channel = []) (hd : q.deferred = []) :
    settleOk σ fuel (n + 1) e q = some (e, q) := by
  simp [settleOk, h, hc, hd]

theorem settleOk_deferred (σ : Static) (fuel n : Nat) (e : EnvSt) (q : WQ)
    (h : q.stopped = false) (hc : q.channel = []) (d : GraphEvent) (ds : List GraphEvent)
    (hd : q.deferred = d :: ds) :
    settleOk σ fuel (n + 1) e q =
      settleOk σ fuel n e ((d :: ds).foldl Gql.Async.push { q with deferred := [] }) := by
  simp [settleOk, h, hc, hd]

theorem settleOk_batch (σ : Static) (fuel n : Nat) (e : EnvSt) (q : WQ)
    (h : q.stopped = false) (ev : GraphEvent) (es : List GraphEvent) (hc : q.channel = ev :: es)
    (e1 : EnvSt) (q1 : WQ) (hd : drainOk σ fuel e q = some (e1, q1)) :
    settleOk σ fuel (n + 1) e q = settleOk σ fuel n e1 (Gql.Async.batch σ fuel q).1 := by
  simp [settleOk, h, hc, hd]

theorem settleOk_batch_none (σ : Static) (fuel n : Nat) (e : EnvSt) (q : WQ)
    (h : q.stopped = false) (ev : GraphEvent) (es : List GraphEvent) (hc : q.channel = ev :: es)
    (hd : drainOk σ fuel e q = none) : settleOk σ fuel (n + 1) e q = none := by
  simp [settleOk, h, hc, hd]

theorem RunInv.settle {σ : Static} {I : EnvSt → WQ → List WQEvent → Prop} (ri : RunInv σ I)
    (fuel n : Nat) (e : EnvSt) (q : WQ) (acc : List (List WQEvent)) (E : List WQEvent) (e' : EnvSt) (q' : WQ)
    (h : I e q E) (hok : settleOk σ fuel n e q = some (e', q')) :
    ∃ new, (Gql.Async.settle σ fuel n q acc).2 = acc ++ new ∧
      q' = (Gql.Async.settle σ fuel n q acc).1 ∧ I e' q' (E ++ new.flatten) := by
  induction n generalizing e q acc E with
  | zero =>
    simp [settleOk] at hok; obtain ⟨rfl, rfl⟩ := hok
    exact ⟨[], by simp [Gql.Async.settle], by simp [Gql.Async.settle], by simpa using h⟩
  | succ n ih =>
    cases hs : q.stopped with
    | true =>
      rw [settle_stopped σ fuel n q acc hs]
      rw [settleOk_stopped σ fuel n e q hs] at hok
      simp only [Option.some.injEq, Prod.mk.injEq] at hok
      obtain ⟨rfl, rfl⟩ := hok
      refine ⟨[], by simp, rfl, ?_⟩
      simpa using ri.chan _ _ _ [] (ri.defer _ _ _ [] h)
    | false =>
      cases hc : q.channel with
      | nil =>
        cases hd : q.deferred with
        | nil =>
          rw [settle_idle σ fuel n q acc hs hc hd]
          rw [settleOk_idle σ fuel n e q hs hc hd] at hok
          simp only [Option.some.injEq, Prod.mk.injEq] at hok
          obtain ⟨rfl, rfl⟩ := hok
          exact ⟨[], by simp, rfl, by simpa using h⟩
        | cons d ds =>
          rw [settle_deferred σ fuel n q acc hs hc d ds hd]
          rw [settleOk_deferred σ fuel n e q hs hc d ds hd] at hok
          exact ih e _ acc E (ri.pushes e E (d :: ds) _ (ri.defer e q E [] h)) hok
      | cons ev rest =>
        rw [settle_batch σ fuel n q acc hs ev rest hc]
        cases hdo : drainOk σ fuel e q with
        | none => rw [settleOk_batch_none σ fuel n e q hs ev rest hc hdo] at hok; cases hok
        | some r =>
          obtain ⟨e1, q1⟩ := r
          have hok' : settleOk σ fuel n e1 (Gql.Async.batch σ fuel q).1 = some (e', q') := by
            rw [settleOk_batch σ fuel n e q hs ev rest hc e1 q1 hdo] at hok; exact hok
          have hb := ri.batch fuel e q E e1 q1 h hs hdo
          obtain ⟨new, a1, a2, a3⟩ := ih e1 _
            (if (Gql.Async.batch σ fuel q).2.isEmpty then acc else acc ++ [(Gql.Async.batch σ fuel q).2])
            _ hb hok'
          cases he : (Gql.Async.batch σ fuel q).2.isEmpty with
          | true =>
            simp only [he, if_true] at a1 a2 ⊢
            have hnil : (Gql.Async.batch σ fuel q).2 = [] := by simpa using he
            exact ⟨new, a1, a2, by simpa [hnil] using a3⟩
          | false =>
            simp only [he] at a1 a2 ⊢
            exact ⟨(Gql.Async.batch σ fuel q).2 :: new, by simpa using a1, a2,
              by simpa [List.append_assoc] using a3⟩

theorem RunInv.run {σ : Static} {I : EnvSt → WQ → List WQEvent → Prop} (ri : RunInv σ I)
    (fuel : Nat) (h : List Tick) (e : EnvSt) (q : WQ) (bs : List (List WQEvent))
    (hI : I e q bs.flatten) (hok : runOk σ fuel e q h = true) :
    ∃ e', I e' (wqRun σ fuel (q, bs) h).1 (wqRun σ fuel (q, bs) h).2.flatten := by
  induction h generalizing e q bs with
  | nil => exact ⟨e, hI⟩
  | cons t r ih =>
    unfold runOk at hok
    cases hs : settleOk σ fuel fuel e (t.foldl Gql.Async.push q) with
    | none => simp [hs] at hok
    | some x =>
      obtain ⟨e1, q1⟩ := x
      simp only [hs] at hok
      obtain ⟨new, a1, a2, a3⟩ := ri.settle fuel fuel e _ [] bs.flatten e1 q1 (ri.pushes e _ t q hI) hs
      simp only [wqRun, wqTick]
      simp only [List.nil_append] at a1
      rw [a1, ← a2]
      exact ih e1 q1 (bs ++ new) (by simpa using a3) hok

/-- The principle: an invariant that holds for the started queue holds at the end of every
well-formed history, for the queue and the flattened stream of all emitted events. -/
theorem RunInv.envOk {σ : Static} {I : EnvSt → WQ → List WQEvent → Prop} (ri : RunInv σ I)
    (fuel : Nat) (work : Option Work) (h : List Tick)
    (h0 : I (({} : EnvSt).intro work) (startRoots σ (init σ work).1) [])
    (hok : Gql.Async.envOk σ fuel work h = true) :
    ∃ e', I e' (wqRun σ fuel (wqStart σ fuel work) h).1 (wqRun σ fuel (wqStart σ fuel work) h).2.flatten := by
  unfold Gql.Async.envOk at hok
  simp only [Bool.and_eq_true] at hok
  cases hs : settleOk σ fuel fuel (({} : EnvSt).intro work) (startRoots σ (init σ work).1) with
  | none => simp [hs] at hok
  | some x =>
    obtain ⟨e1, q1⟩ := x
    simp only [hs] at hok
    obtain ⟨new, a1, a2, a3⟩ := ri.settle fuel fuel _ _ [] [] e1 q1 h0 hs
    simp only [List.nil_append] at a1 a3
    have : wqStart σ fuel work = (q1, new) := by
      unfold wqStart; rw [a2]; exact Prod.ext rfl a1
    rw [this]
    exact ri.run fuel h e1 q1 new a3 hok.2

end Gql.Async

namespace Gql.Async
open Gql.Spec.Protocol

/-- The invariant holds (for some environment ghost and some queue) at *every* batch boundary. -/
def AtPrefixes (I : EnvSt → WQ → List WQEvent → Prop) (E : List WQEvent) (bs : List (List WQEvent)) : Prop :=
  ∀ k, k ≤ bs.length → ∃ e q, I e q (E ++ (bs.take k).flatten)

theorem AtPrefixes.nil {I : EnvSt → WQ → List WQEvent → Prop} {E : List WQEvent} {e : EnvSt} {q : WQ}
    (h : I e q E) : AtPrefixes I E [] := by
  intro k hk
  have : k = 0 := by simpa using hk
  subst this
  exact ⟨e, q, by simpa using h⟩

theorem AtPrefixes.cons {I : EnvSt → WQ → List WQEvent → Prop} {E : List WQEvent} {e : EnvSt} {q : WQ}
    (b : List WQEvent) (bs : List (List WQEvent)) (h0 : I e q E) (h : AtPrefixes I (E ++ b) bs) :
    AtPrefixes I E (b :: bs) := by
  intro k hk
  cases k with
  | zero => exact ⟨e, q, by simpa using h0⟩
  | succ k =>
    obtain ⟨e', q', h'⟩ := h k (by simpa using hk)
    exact ⟨e', q', by simpa [List.append_assoc] using h'⟩

theorem AtPrefixes.append {I : EnvSt → WQ → List WQEvent → Prop} {E : List WQEvent}
    (a b : List (List WQEvent)) (ha : AtPrefixes I E a) (hb : AtPrefixes I (E ++ a.flatten) b) :
    AtPrefixes I E (a ++ b) := by
  intro k hk
  by_cases h : k ≤ a.length
  · obtain ⟨e, q, h'⟩ := ha k h
    refine ⟨e, q, ?_⟩
    rw [List.take_append_of_le_length h]; exact h'
  · have h1 : a.length ≤ k := Nat.le_of_not_le h
    obtain ⟨e, q, h'⟩ := hb (k - a.length) (by simp at hk; omega)
    refine ⟨e, q, ?_⟩
    rw [List.take_append, List.take_of_length_le h1]
    simpa [List.append_assoc] using h'

theorem RunInv.settle_prefix {σ : Static} {I : EnvSt → WQ → List WQEvent → Prop} (ri : RunInv σ I)
    (fuel n : Nat) (e : EnvSt) (q : WQ) (acc : List (List WQEvent)) (E : List WQEvent) (e' : EnvSt) (q' : WQ)
    (h : I e q E) (hok : settleOk σ fuel n e q = some (e', q')) :
    ∃ new, (Gql.Async.settle σ fuel n q acc).2 = acc ++ new ∧ AtPrefixes I E new := by
  induction n generalizing e q acc E with
  | zero => exact ⟨[], by simp [Gql.Async.settle], AtPrefixes.nil h⟩
  | succ n ih =>
    cases hs : q.stopped with
    | true =>
      rw [settle_stopped σ fuel n q acc hs]
      exact ⟨[], by simp, AtPrefixes.nil h⟩
    | false =>
      cases hc : q.channel with
      | nil =>
        cases hd : q.deferred with
        | nil =>
          rw [settle_idle σ fuel n q acc hs hc hd]
          exact ⟨[], by simp, AtPrefixes.nil h⟩
        | cons d ds =>
          rw [settle_deferred σ fuel n q acc hs hc d ds hd]
          rw [settleOk_deferred σ fuel n e q hs hc d ds hd] at hok
          exact ih e _ acc E (ri.pushes e E (d :: ds) _ (ri.defer e q E [] h)) hok
      | cons ev rest =>
        rw [settle_batch σ fuel n q acc hs ev rest hc]
        cases hdo : drainOk σ fuel e q with
        | none => rw [settleOk_batch_none σ fuel n e q hs ev rest hc hdo] at hok; cases hok
        | some r =>
          obtain ⟨e1, q1⟩ := r
          have hok' : settleOk σ fuel n e1 (Gql.Async.batch σ fuel q).1 = some (e', q') := by
            rw [settleOk_batch σ fuel n e q hs ev rest hc e1 q1 hdo] at hok; exact hok
          have hb := ri.batch fuel e q E e1 q1 h hs hdo
          obtain ⟨new, a1, a2⟩ := ih e1 _
            (if (Gql.Async.batch σ fuel q).2.isEmpty then acc else acc ++ [(Gql.Async.batch σ fuel q).2])
            _ hb hok'
          cases he : (Gql.Async.batch σ fuel q).2.isEmpty with
          | true =>
            simp only [he, if_true] at a1 ⊢
            have hnil : (Gql.Async.batch σ fuel q).2 = [] := by simpa using he
            refine ⟨new, a1, ?_⟩
            simpa [hnil] using a2
          | false =>
            simp only [he] at a1 ⊢
            exact ⟨(Gql.Async.batch σ fuel q).2 :: new, by simpa using a1, AtPrefixes.cons _ _ h a2⟩

theorem RunInv.run_prefix {σ : Static} {I : EnvSt → WQ → List WQEvent → Prop} (ri : RunInv σ I)
    (fuel : Nat) (h : List Tick) (e : EnvSt) (q : WQ) (bs : List (List WQEvent))
    (hI : I e q bs.flatten) (hp : AtPrefixes I [] bs) (hok : runOk σ fuel e q h = true) :
    AtPrefixes I [] (wqRun σ fuel (q, bs) h).2 := by
  induction h generalizing e q bs with
  | nil => exact hp
  | cons t r ih =>
    unfold runOk at hok
    cases hs : settleOk σ fuel fuel e (t.foldl Gql.Async.push q) with
    | none => simp [hs] at hok
    | some x =>
      obtain ⟨e1, q1⟩ := x
      simp only [hs] at hok
      obtain ⟨new, a1, a2, a3⟩ := ri.settle fuel fuel e _ [] bs.flatten e1 q1 (ri.pushes e _ t q hI) hs
      obtain ⟨new', b1, b2⟩ := ri.settle_prefix fuel fuel e _ [] bs.flatten e1 q1 (ri.pushes e _ t q hI) hs
      simp only [List.nil_append] at a1 b1
      have hnn : new' = new := by rw [← b1, a1]
      subst hnn
      simp only [wqRun, wqTick]
      rw [a1, ← a2]
      exact ih e1 q1 (bs ++ new') (by simpa using a3)
        (AtPrefixes.append bs new' hp (by simpa using b2)) hok

/-- The invariant holds at every batch boundary of every well-formed history. -/
theorem RunInv.envOk_prefix {σ : Static} {I : EnvSt → WQ → List WQEvent → Prop} (ri : RunInv σ I)
    (fuel : Nat) (work : Option Work) (h : List Tick)
    (h0 : I (({} : EnvSt).intro work) (startRoots σ (init σ work).1) [])
    (hok : Gql.Async.envOk σ fuel work h = true) :
    AtPrefixes I [] (wqRun σ fuel (wqStart σ fuel work) h).2 := by
  unfold Gql.Async.envOk at hok
  simp only [Bool.and_eq_true] at hok
  cases hs : settleOk σ fuel fuel (({} : EnvSt).intro work) (startRoots σ (init σ work).1) with
  | none => simp [hs] at hok
  | some x =>
    obtain ⟨e1, q1⟩ := x
    simp only [hs] at hok
    obtain ⟨new, a1, a2, a3⟩ := ri.settle fuel fuel _ _ [] [] e1 q1 h0 hs
    obtain ⟨new', b1, b2⟩ := ri.settle_prefix fuel fuel _ _ [] [] e1 q1 h0 hs
    simp only [List.nil_append] at a1 a3 b1
    have hnn : new' = new := by rw [← b1, a1]
    subst hnn
    have : wqStart σ fuel work = (q1, new') := by
      unfold wqStart; rw [a2]; exact Prod.ext rfl a1
    rw [this]
    exact ri.run_prefix fuel h e1 q1 new' a3 b2 hok.2

end Gql.Async
