import Gql.Proofs.StringRoundtrip
import Gql.Proofs.C09Pairs
/-!
# C08: quoted strings with verbatim surrogate pairs

`print_string` copies every code point without a table entry verbatim (`str.translate`), in
particular both halves of a leading+trailing surrogate pair; the lexer's `read_string` steps two
code points over such a pair (`is_supplementary_code_point`).  So the round trip
`print_string` → `read_string` is the identity on every `Paired` string (Unicode scalar values and
lead/trail pairs: `Gql.Text.Pairs.Paired`, everything a STRING token of the lexer can carry).
-/
namespace Gql.Text
open Gql.Text.Pairs

/-- A key of a well-formed escape table entry is a Unicode scalar value. -/
theorem entryOK_scalar {c : Nat} {e : List Nat} (h : entryOK c e = true) : isScalar c = true := by
  unfold entryOK at h
  split at h
  · rename_i x
    have hx : escapedChar (some x) = some c := by simpa using h
    unfold escapedChar at hx
    split at hx <;> first | (cases hx; decide) | (simp at hx)
  · simp only [Bool.and_eq_true, decide_eq_true_eq] at h
    have := h.2
    unfold isScalar
    simp only [Bool.or_eq_true, decide_eq_true_eq]
    left; omega
  · simp at h

/-- A surrogate has no entry in a well-formed table: `translate` copies it. -/
theorem lookup_none_of_not_scalar {table : List (Nat × List Nat)} (hT : tableOK table = true) {c : Nat}
    (hc : isScalar c = false) : escapeLookup table c = none := by
  cases hl : escapeLookup table c with
  | none => rfl
  | some e =>
    have := entryOK_scalar (tableOK_lookup hT hl)
    rw [hc] at this; cases this

/-- A verbatim leading+trailing surrogate pair inside a quoted string: two code points on. -/
theorem pair_step (body : List Nat) (st : LexState) (start pos cs a b : Nat) (acc : List Nat)
    (h0 : body[pos]? = some a) (h1 : body[pos + 1]? = some b)
    (hns : isScalar a = false) (hl : isLeadSurrogate a = true) (ht : isTrailSurrogate b = true) :
    readStringLoop body st start pos cs acc = readStringLoop body st start (pos + 2) cs acc := by
  obtain ⟨hlen, hidx⟩ := index_of_getElem? h0
  obtain ⟨f1, f2, f3, f4, _, _⟩ := lead_facts hl
  have hbp : body[pos] = a := by
    have := List.getElem?_eq_getElem hlen
    rw [h0] at this; exact (Option.some.inj this).symm
  rw [readStringLoop]
  simp [hlen, hidx, f1, f2, f3, f4, hns, isSupplementary, h1, hbp, hl, ht]

/-- Main induction for `Paired` strings: reading `translate s ++ '"' ++ rest` placed after any
prefix. -/
theorem readStringLoop_translate_paired (table : List (Nat × List Nat)) (hT : tableOK table = true)
    (hC : tableComplete table = true) (st : LexState) (start : Nat) (rest : List Nat) :
    ∀ (n : Nat) (s : List Nat), s.length ≤ n → ∀ (pre acc : List Nat) (cs : Nat), cs ≤ pre.length →
      Paired s →
      readStringLoop (pre ++ (translate table s ++ 34 :: rest)) st start pre.length cs acc =
        .ok (mkToken st .string start (pre.length + (translate table s).length + 1)
          (some (acc ++ slice (pre ++ (translate table s ++ 34 :: rest)) cs pre.length ++ s))) := by
  intro n
  induction n using Nat.strongRecOn with
  | _ n ih =>
    intro s hn pre acc cs hcs hP
    rcases s with _ | ⟨c, s⟩
    · simp only [translate, List.nil_append, List.length_nil, Nat.add_zero, List.append_nil]
      exact quote_step _ st start pre.length cs acc (by simp)
    rcases hP.cases with ⟨hc, hPs⟩ | ⟨b, r', hr, hns, hl, ht, hPr'⟩
    · -- a scalar value: as in `readStringLoop_translate`
      have ih' := ih s.length (by simp at hn; omega) s (Nat.le_refl _)
      cases hl : escapeLookup table c with
      | none =>
        have hne := tableComplete_none hC hl
        have hbody : pre ++ (translate table (c :: s) ++ 34 :: rest) =
            (pre ++ [c]) ++ (translate table s ++ 34 :: rest) := by simp [translate, hl]
        have hget : (pre ++ (translate table (c :: s) ++ 34 :: rest))[pre.length]? = some c := by
          simp [translate, hl]
        rw [plain_step _ st start pre.length cs c acc hget hc hne]
        have := ih' (pre ++ [c]) acc cs (by simp; omega) hPs
        simp only [List.length_append, List.length_cons, List.length_nil, Nat.zero_add] at this
        rw [hbody, this]
        have hsl := slice_snoc ((pre ++ [c]) ++ (translate table s ++ 34 :: rest)) cs pre.length c hcs
          (by simp)
        rw [hsl]
        simp [translate, hl, Nat.add_assoc, Nat.add_comm 1]
      | some e =>
        have hOK := tableOK_lookup hT hl
        have hbody : pre ++ (translate table (c :: s) ++ 34 :: rest) =
            pre ++ (e ++ (translate table s ++ 34 :: rest)) := by simp [translate, hl]
        rw [hbody, escape_step st start pre e _ c cs acc hOK]
        have hbody2 : pre ++ (e ++ (translate table s ++ 34 :: rest)) =
            (pre ++ e) ++ (translate table s ++ 34 :: rest) := by simp
        have := ih' (pre ++ e) (acc ++ slice (pre ++ (e ++ (translate table s ++ 34 :: rest))) cs pre.length ++ [c])
          (pre.length + e.length) (by simp) hPs
        simp only [List.length_append] at this
        rw [hbody2] at this ⊢
        rw [this, slice_self]
        simp [translate, hl, Nat.add_assoc]
    · -- a verbatim surrogate pair: both halves are copied by `translate`
      subst hr
      have hbs : isScalar b = false := by
        cases hb : isScalar b with
        | false => rfl
        | true => have := scalar_not_trail hb; rw [ht] at this; cases this
      have hlc := lookup_none_of_not_scalar hT hns
      have hlb := lookup_none_of_not_scalar hT hbs
      have htr : translate table (c :: b :: r') = c :: b :: translate table r' := by
        simp [translate, hlc, hlb]
      have hbody : pre ++ (translate table (c :: b :: r') ++ 34 :: rest) =
          (pre ++ [c, b]) ++ (translate table r' ++ 34 :: rest) := by simp [htr]
      have hget0 : (pre ++ (translate table (c :: b :: r') ++ 34 :: rest))[pre.length]? = some c := by
        simp [htr]
      have hget1 : (pre ++ (translate table (c :: b :: r') ++ 34 :: rest))[pre.length + 1]? = some b := by
        simp [htr]
      rw [pair_step _ st start pre.length cs c b acc hget0 hget1 hns hl ht]
      have := ih r'.length (by simp at hn; omega) r' (Nat.le_refl _) (pre ++ [c, b]) acc cs
        (by simp; omega) hPr'
      simp only [List.length_append, List.length_cons, List.length_nil, Nat.zero_add] at this
      have hsl := slice_snoc2 (pre ++ (translate table (c :: b :: r') ++ 34 :: rest)) cs pre.length c b hcs
        hget0 hget1
      rw [hbody] at hsl ⊢
      rw [this, hsl]
      simp [htr, Nat.add_assoc]
      congr 1
      omega

/-- C08-1 for `Paired` strings and an arbitrary well-formed table. -/
theorem printStringWith_roundtrip_paired (table : List (Nat × List Nat)) (hT : tableOK table = true)
    (hC : tableComplete table = true) (s rest : List Nat) (st : LexState) (hs : Paired s) :
    readString (printStringWith table s ++ rest) st 0 =
      .ok (mkToken st .string 0 (printStringWith table s).length (some s)) := by
  unfold readString printStringWith
  have := readStringLoop_translate_paired table hT hC st 0 rest s.length s (Nat.le_refl _) [34] [] 1
    (by simp) hs
  simp only [List.length_cons, List.length_nil, Nat.zero_add, List.nil_append] at this
  simp only [List.append_assoc, List.cons_append, List.nil_append, Nat.zero_add] at this ⊢
  rw [this, slice_self]
  simp [Nat.add_comm 1]

end Gql.Text
