import Gql.Proofs.ExecDocLex
/-!
The parser model on the tokens of printed executable definitions (stage 1).
-/
namespace Gql.Syntax
open Gql Gql.Text

theorem mk_arg (x y : Ast) : mkNode "ArgumentNode" [("name", x), ("value", y)] =
    .node "ArgumentNode" [("name", x), ("value", y)] := rfl
theorem mk_dir (x y : Ast) : mkNode "DirectiveNode" [("name", x), ("arguments", y)] =
    .node "DirectiveNode" [("name", x), ("arguments", y)] := rfl

section
variable (cfg : Cfg) (hm : cfg.maxTokens = none)
include hm

/-- One argument `name: value`. -/
theorem parseArgument_ok (c : Bool) (n : Nat) (nm : List Nat) (v : Val) (hv : Val.wf c v) (toks : List Token)
    (r : Stream) (cnt : Nat) (hn : v.kvs.length < n)
    (hkv : toks.map Token.kv = (.name, some nm) :: (.colon, none) :: v.kvs) (hne : NonEof toks) (hr : r.Ready) :
    ∃ c', parseArgument cfg n "ArgumentNode" c (PSat cnt (feed toks r)) =
      .ok (.node "ArgumentNode" [("name", Val.nameNode nm), ("value", v.toAst)], PSat c' r) := by
  simp only [List.map_eq_cons_iff] at hkv
  obtain ⟨tN, ts1, rfl, hkN, tC, tv, rfl, hkC, hkv⟩ := hkv
  obtain ⟨hNk, hNv⟩ := tok_of_kv hkN
  obtain ⟨hCk, _⟩ := tok_of_kv hkC
  have hCne : tC.kind ≠ .eof := by rw [hCk]; decide
  have hnev : NonEof tv := hne.tail.tail
  have hreadyV : (feed tv r).Ready := feed_ready _ _ hnev hr
  obtain ⟨c1, h1⟩ := parseName_ok cfg hm tN nm (.cons tC (feed tv r)) cnt hNk hNv (by simp [Stream.Ready, hCne])
  obtain ⟨c2, h2⟩ := expectToken_ok cfg hm .colon tC (feed tv r) c1 hCk hCne hreadyV
  obtain ⟨c3, h3⟩ := parseV cfg hm c v hv n tv r c2 hn hkv hnev hr
  refine ⟨c3, ?_⟩
  simp only [feed, PSat_cons, parseArgument, bind_eq, h1, h2, h3, pure_eq', mk_arg, Val.nameNode]

/-- The `while not ")"` loop over the remaining arguments. -/
theorem argsLoop_ok (c : Bool) (args : Args) (h : Exec.argsWfC c args) : ∀ (n m : Nat) (toks : List Token) (tR : Token)
    (r : Stream) (cnt : Nat) (acc : List Ast), (Val.kvsFields args).length < n → args.length < m →
    toks.map Token.kv = Val.kvsFields args → NonEof toks → tR.kind = .parenR → r.Ready →
    ∃ c', untilClose cfg .parenR (parseArgument cfg n "ArgumentNode" c) m acc
        (PSat cnt (feed toks (.cons tR r))) = .ok (acc ++ Exec.argsAst args, PSat c' r) := by
  induction args with
  | nil =>
    intro n m toks tR r cnt acc _ hmm hkv _ hRk hr
    obtain ⟨m, rfl⟩ : ∃ m', m = m' + 1 := ⟨m - 1, by simp at hmm; omega⟩
    simp only [Val.kvsFields, List.map_eq_nil_iff] at hkv
    subst hkv
    obtain ⟨c1, h1⟩ := expectOptionalToken_yes cfg hm .parenR tR r cnt hRk (by rw [hRk]; decide) hr
    exact ⟨c1, by simp only [untilClose, feed, PSat_cons, bind_eq, h1, ↓reduceIte, pure_eq', Exec.argsAst,
      List.append_nil]⟩
  | cons a rest ih =>
    intro n m toks tR r cnt acc hn hmm hkv hne hRk hr
    obtain ⟨nm, v⟩ := a
    obtain ⟨m, rfl⟩ : ∃ m', m = m' + 1 := ⟨m - 1, by simp at hmm; omega⟩
    have hRne : tR.kind ≠ .eof := by rw [hRk]; decide
    unfold Exec.argsWfC at h
    rw [show Val.kvsFields ((nm, v) :: rest) =
      ((.name, some nm) :: (.colon, none) :: v.kvs) ++ Val.kvsFields rest by simp [Val.kvsFields]] at hkv hn
    rw [List.map_eq_append_iff] at hkv
    obtain ⟨ta, ts', rfl, hka, hkr⟩ := hkv
    have hready : (feed ts' (.cons tR r)).Ready :=
      feed_ready _ _ hne.append_right (by simp [Stream.Ready, hRne])
    simp only [List.length_append, List.length_cons] at hn
    obtain ⟨c1, h1⟩ := parseArgument_ok cfg hm c n nm v h.2.1 ta (feed ts' (.cons tR r)) cnt (by omega) hka
      hne.append_left hready
    obtain ⟨c2, h2⟩ := ih h.2.2 n m ts' tR r c1
      (acc ++ [.node "ArgumentNode" [("name", Val.nameNode nm), ("value", v.toAst)]]) (by omega)
      (by simp at hmm; omega) hkr hne.append_right hRk hr
    have hhead : ∃ t0 ta', ta = t0 :: ta' ∧ t0.kind = .name := by
      rw [List.map_eq_cons_iff] at hka
      obtain ⟨t0, ta', rfl, ht0, _⟩ := hka
      exact ⟨t0, ta', rfl, (tok_of_kv ht0).1⟩
    obtain ⟨t0, ta', rfl, ht0⟩ := hhead
    have hno : expectOptionalToken cfg .parenR (PSat cnt (feed (t0 :: ta' ++ ts') (.cons tR r))) =
        .ok (false, PSat cnt (feed (t0 :: ta' ++ ts') (.cons tR r))) :=
      expectOptionalToken_no cfg .parenR _ (by simp [feed, ht0])
    refine ⟨c2, ?_⟩
    rw [feed_append] at hno ⊢
    simp only [untilClose, bind_eq, hno, Bool.false_eq_true, ↓reduceIte, h1, h2, Exec.argsAst]
    simp

end

end Gql.Syntax

namespace Gql.Syntax
open Gql Gql.Text

theorem argsAst_length (args : Args) : (Exec.argsAst args).length = args.length := by
  induction args with
  | nil => rfl
  | cons a r ih => obtain ⟨n, v⟩ := a; simp [Exec.argsAst, ih]

section
variable (cfg : Cfg) (hm : cfg.maxTokens = none)
include hm

/-- `parse_arguments(False)`. -/
theorem parseArguments_ok (c : Bool) (args : Args) (h : Exec.argsWfC c args) (n : Nat) (toks : List Token) (r : Stream)
    (cnt : Nat) (hn : (Exec.argsKvs args).length < n) (hkv : toks.map Token.kv = Exec.argsKvs args)
    (hne : NonEof toks) (hr : r.Ready) (hnop : args = [] → headKind r ≠ .parenL) :
    ∃ c', parseArguments cfg n c (PSat cnt (feed toks r)) =
      .ok ((if args = [] then none else some (Exec.argsAst args)), PSat c' r) := by
  cases args with
  | nil =>
    simp only [Exec.argsKvs, List.map_eq_nil_iff] at hkv
    subst hkv
    have hk : (PSat cnt r).cur.kind ≠ .parenL := by rw [PSat_cur_kind cnt r hr]; exact hnop rfl
    exact ⟨cnt, by simp only [parseArguments, parseOptionalMany, bind_eq, feed,
      expectOptionalToken_no cfg .parenL _ hk, Bool.false_eq_true, ↓reduceIte, pure_eq']⟩
  | cons a rest =>
    obtain ⟨nm, v⟩ := a
    unfold Exec.argsWfC at h
    rw [show Exec.argsKvs ((nm, v) :: rest) = (.parenL, none) ::
      (((.name, some nm) :: (.colon, none) :: v.kvs) ++ Val.kvsFields rest ++ [(.parenR, none)]) by
        simp [Exec.argsKvs, Val.kvsFields]] at hkv hn
    rw [List.map_eq_cons_iff] at hkv
    obtain ⟨tL, ts, rfl, hkL, hkv⟩ := hkv
    rw [List.map_eq_append_iff] at hkv
    obtain ⟨tsI, tsR, rfl, hkI, hkR⟩ := hkv
    rw [List.map_eq_append_iff] at hkI
    obtain ⟨ta, ts', rfl, hka, hkr⟩ := hkI
    simp only [List.map_eq_cons_iff, List.map_eq_nil_iff] at hkR
    obtain ⟨tR, tsE, rfl, hkR, rfl⟩ := hkR
    obtain ⟨hLk, _⟩ := tok_of_kv hkL
    obtain ⟨hRk, _⟩ := tok_of_kv hkR
    have hRne : tR.kind ≠ .eof := by rw [hRk]; decide
    have hneI : NonEof (ta ++ ts') := hne.tail.append_left
    have hready0 : (feed (ta ++ ts') (.cons tR r)).Ready := feed_ready _ _ hneI (by simp [Stream.Ready, hRne])
    have hready1 : (feed ts' (.cons tR r)).Ready :=
      feed_ready _ _ hneI.append_right (by simp [Stream.Ready, hRne])
    obtain ⟨c1, h1⟩ := expectOptionalToken_yes cfg hm .parenL tL (feed (ta ++ ts') (.cons tR r)) cnt hLk
      (by rw [hLk]; decide) hready0
    simp only [List.length_cons, List.length_append, List.length_nil] at hn
    obtain ⟨c2, h2⟩ := parseArgument_ok cfg hm c n nm v h.2.1 ta (feed ts' (.cons tR r)) c1 (by omega) hka
      hneI.append_left hready1
    have hlen := length_le_kvsFields rest
    obtain ⟨c3, h3⟩ := argsLoop_ok cfg hm c rest h.2.2 n n ts' tR r c2
      [.node "ArgumentNode" [("name", Val.nameNode nm), ("value", v.toAst)]] (by omega) (by omega) hkr
      hneI.append_right hRk hr
    refine ⟨c3, ?_⟩
    rw [feed_append] at h1
    simp only [parseArguments, parseOptionalMany, feed, feed_append, PSat_cons, bind_eq, h1, ↓reduceIte, h2, h3,
      pure_eq', Exec.argsAst]
    simp

/-- One directive `@name(args)`. -/
theorem parseDirective_ok (c : Bool) (d : Dir) (h : Exec.dirWfC c d) (n : Nat) (toks : List Token) (r : Stream) (cnt : Nat)
    (hn : (Exec.dirKvs d).length < n) (hkv : toks.map Token.kv = Exec.dirKvs d) (hne : NonEof toks)
    (hr : r.Ready) (hnop : d.args = [] → headKind r ≠ .parenL) :
    ∃ c', parseDirective cfg n c (PSat cnt (feed toks r)) = .ok (Exec.dirAst d, PSat c' r) := by
  unfold Exec.dirKvs at hkv hn
  simp only [List.map_eq_cons_iff] at hkv
  obtain ⟨tA, ts1, rfl, hkA, tN, ta, rfl, hkN, hka⟩ := hkv
  obtain ⟨hAk, _⟩ := tok_of_kv hkA
  obtain ⟨hNk, hNv⟩ := tok_of_kv hkN
  have hNne : tN.kind ≠ .eof := by rw [hNk]; decide
  have hnea : NonEof ta := hne.tail.tail
  have hreadyA : (feed ta r).Ready := feed_ready _ _ hnea hr
  obtain ⟨c1, h1⟩ := expectToken_ok cfg hm .at tA (.cons tN (feed ta r)) cnt hAk (by rw [hAk]; decide)
    (by simp [Stream.Ready, hNne])
  obtain ⟨c2, h2⟩ := parseName_ok cfg hm tN d.name (feed ta r) c1 hNk hNv hreadyA
  simp only [List.length_cons] at hn
  obtain ⟨c3, h3⟩ := parseArguments_ok cfg hm c d.args h.2 n ta r c2 (by omega) hka hnea hr hnop
  refine ⟨c3, ?_⟩
  simp only [feed, PSat_cons, parseDirective, bind_eq, h1, h2, h3, pure_eq', mk_dir, Exec.dirAst, Val.nameNode]
  by_cases ha : d.args = []
  · simp [ha, optListO, optL, Exec.argsAst]
  · have : (Exec.argsAst d.args).isEmpty = false := by
      have := argsAst_length d.args
      cases hx : Exec.argsAst d.args with
      | nil => rw [hx] at this; simp at this; exact absurd (List.eq_nil_of_length_eq_zero this.symm) ha
      | cons a r => rfl
    simp [ha, optListO, optL, this]

end

end Gql.Syntax

namespace Gql.Syntax
open Gql Gql.Text

theorem headKind_feed_cons (t : Token) (ts : List Token) (r : Stream) : headKind (feed (t :: ts) r) = t.kind := rfl

theorem dirsKvs_length_le (ds : List Dir) : ds.length ≤ (Exec.dirsKvs ds).length := by
  induction ds with
  | nil => simp [Exec.dirsKvs]
  | cons d r ih => simp [Exec.dirsKvs, Exec.dirKvs]; omega

section
variable (cfg : Cfg) (hm : cfg.maxTokens = none)
include hm

theorem dirsLoop_ok (c : Bool) (ds : List Dir) (h : Exec.dirsWfC c ds) : ∀ (n k : Nat) (toks : List Token) (r : Stream)
    (cnt : Nat) (acc : List Ast), (Exec.dirsKvs ds).length < n → ds.length < k →
    toks.map Token.kv = Exec.dirsKvs ds → NonEof toks → r.Ready → headKind r ≠ .at → headKind r ≠ .parenL →
    ∃ c', directivesLoop cfg n c k acc (PSat cnt (feed toks r)) =
      .ok (acc ++ ds.map Exec.dirAst, PSat c' r) := by
  induction ds with
  | nil =>
    intro n k toks r cnt acc _ hk hkv _ hr hat _
    obtain ⟨k, rfl⟩ : ∃ k', k = k' + 1 := ⟨k - 1, by simp at hk; omega⟩
    simp only [Exec.dirsKvs, List.map_eq_nil_iff] at hkv
    subst hkv
    have hkd : ((PSat cnt r).cur.kind == TokKind.at) = false := by
      rw [PSat_cur_kind cnt r hr]; simpa using hat
    exact ⟨cnt, by simp only [directivesLoop, feed, bind_eq, peek, hkd, Bool.false_eq_true, ↓reduceIte, pure_eq',
      List.map_nil, List.append_nil]⟩
  | cons d rest ih =>
    intro n k toks r cnt acc hn hk hkv hne hr hat hpar
    obtain ⟨k, rfl⟩ : ∃ k', k = k' + 1 := ⟨k - 1, by simp at hk; omega⟩
    unfold Exec.dirsWfC at h
    rw [show Exec.dirsKvs (d :: rest) = Exec.dirKvs d ++ Exec.dirsKvs rest from rfl] at hkv hn
    rw [List.map_eq_append_iff] at hkv
    obtain ⟨td, ts', rfl, hkd, hkr⟩ := hkv
    have hready : (feed ts' r).Ready := feed_ready _ _ hne.append_right hr
    have hnop : d.args = [] → headKind (feed ts' r) ≠ .parenL := by
      intro _
      cases rest with
      | nil =>
        simp only [Exec.dirsKvs, List.map_eq_nil_iff] at hkr
        subst hkr; exact hpar
      | cons d' rest' =>
        rw [show Exec.dirsKvs (d' :: rest') = (.at, none) :: ((.name, some d'.name) :: Exec.argsKvs d'.args ++
          Exec.dirsKvs rest') by simp [Exec.dirsKvs, Exec.dirKvs], List.map_eq_cons_iff] at hkr
        obtain ⟨t0, ts0, rfl, ht0, _⟩ := hkr
        rw [headKind_feed_cons, (tok_of_kv ht0).1]; decide
    simp only [List.length_append] at hn
    obtain ⟨c1, h1⟩ := parseDirective_ok cfg hm c d h.1 n td (feed ts' r) cnt (by omega) hkd hne.append_left
      hready hnop
    obtain ⟨c2, h2⟩ := ih h.2 n k ts' r c1 (acc ++ [Exec.dirAst d]) (by omega) (by simp at hk; omega) hkr
      hne.append_right hr hat hpar
    have hhead : ∃ t0 td', td = t0 :: td' ∧ t0.kind = .at := by
      unfold Exec.dirKvs at hkd
      rw [List.map_eq_cons_iff] at hkd
      obtain ⟨t0, td', rfl, ht0, _⟩ := hkd
      exact ⟨t0, td', rfl, (tok_of_kv ht0).1⟩
    obtain ⟨t0, td', rfl, ht0⟩ := hhead
    refine ⟨c2, ?_⟩
    rw [feed_append]
    have hpk : ((PSat cnt (feed (t0 :: td') (feed ts' r))).cur.kind == TokKind.at) = true := by
      simp [feed, ht0]
    simp only [directivesLoop, bind_eq, peek, hpk, ↓reduceIte, h1, h2]
    simp

theorem parseDirectives_raw (c : Bool) (ds : List Dir) (h : Exec.dirsWfC c ds) (n : Nat) (toks : List Token) (r : Stream)
    (cnt : Nat) (hn : (Exec.dirsKvs ds).length < n) (hkv : toks.map Token.kv = Exec.dirsKvs ds)
    (hne : NonEof toks) (hr : r.Ready) (hat : headKind r ≠ .at) (hpar : headKind r ≠ .parenL) :
    ∃ c', parseDirectives cfg n c (PSat cnt (feed toks r)) =
      .ok ((if ds = [] then none else some (ds.map Exec.dirAst)), PSat c' r) := by
  have hl := dirsKvs_length_le ds
  obtain ⟨c1, h1⟩ := dirsLoop_ok cfg hm c ds h n n toks r cnt [] hn (by omega) hkv hne hr hat hpar
  refine ⟨c1, ?_⟩
  simp only [parseDirectives, bind_eq, h1, pure_eq', List.nil_append]
  cases ds <;> simp

/-- `parse_directives(False)`. -/
theorem parseDirectives_ok (ds : List Dir) (h : Exec.dirsWf ds) (n : Nat) (toks : List Token) (r : Stream)
    (cnt : Nat) (hn : (Exec.dirsKvs ds).length < n) (hkv : toks.map Token.kv = Exec.dirsKvs ds)
    (hne : NonEof toks) (hr : r.Ready) (hat : headKind r ≠ .at) (hpar : headKind r ≠ .parenL) :
    ∃ c', (do let directives ← parseDirectives cfg n false
              pure (optListO directives) : P Ast) (PSat cnt (feed toks r)) = .ok (Exec.dirsAst ds, PSat c' r) := by
  have hl := dirsKvs_length_le ds
  obtain ⟨c1, h1⟩ := dirsLoop_ok cfg hm false ds h n n toks r cnt [] hn (by omega) hkv hne hr hat hpar
  refine ⟨c1, ?_⟩
  simp only [parseDirectives, bind_eq, h1, pure_eq', List.nil_append, Exec.dirsAst, optL]
  cases ds <;> simp [optListO]

end

end Gql.Syntax

namespace Gql.Syntax
open Gql Gql.Text

theorem mk_fieldNode (a b c d e : Ast) :
    mkNode "FieldNode" [("alias", a), ("name", b), ("arguments", c), ("directives", d), ("selection_set", e)] =
      .node "FieldNode" [("directives", d), ("name", b), ("alias", a), ("arguments", c), ("selection_set", e)] := rfl
theorem mk_spreadNode (a b : Ast) :
    mkNode "FragmentSpreadNode" [("name", a), ("directives", b)] =
      .node "FragmentSpreadNode" [("directives", b), ("name", a), ("arguments", .none)] := rfl
theorem mk_inlineNode (a b c : Ast) :
    mkNode "InlineFragmentNode" [("type_condition", a), ("directives", b), ("selection_set", c)] =
      .node "InlineFragmentNode" [("directives", b), ("selection_set", c), ("type_condition", a)] := rfl
theorem mk_ssNode (a : Ast) :
    mkNode "SelectionSetNode" [("selections", a)] = .node "SelectionSetNode" [("selections", a)] := rfl
theorem mk_namedType (a : Ast) :
    mkNode "NamedTypeNode" [("name", a)] = .node "NamedTypeNode" [("name", a)] := rfl

/-- What may follow a selection inside a selection set. -/
def SelNext (r : Stream) : Prop := headKind r = .name ∨ headKind r = .spread ∨ headKind r = .braceR

theorem SelNext.ne {r : Stream} (h : SelNext r) :
    headKind r ≠ .colon ∧ headKind r ≠ .parenL ∧ headKind r ≠ .at ∧ headKind r ≠ .braceL := by
  rcases h with h | h | h <;> rw [h] <;> decide

theorem expectOptionalKeyword_yes (cfg : Cfg) (hm : cfg.maxTokens = none) (v : String) (t : Token) (r : Stream)
    (c : Nat) (hk : t.kind = .name) (hv : valueIs t v = true) (hr : r.Ready) :
    ∃ c', expectOptionalKeyword cfg v { cur := t, rest := r, count := c } = .ok (true, PSat c' r) := by
  obtain ⟨c', h⟩ := advance_PSat cfg hm t r c (by rw [hk]; decide) hr
  exact ⟨c', by simp only [expectOptionalKeyword, bind_eq, P.cur, hk, hv, and_self, ↓reduceIte, h, pure_eq']⟩

theorem expectOptionalKeyword_no (cfg : Cfg) (v : String) (s : PS)
    (h : ¬ (s.cur.kind = .name ∧ valueIs s.cur v = true)) :
    expectOptionalKeyword cfg v s = .ok (false, s) := by
  simp only [expectOptionalKeyword, bind_eq, P.cur, h, ↓reduceIte, pure_eq']

theorem peek_eq (k : TokKind) (s : PS) : peek k s = .ok (s.cur.kind == k, s) := rfl

end Gql.Syntax

namespace Gql.Syntax
open Gql Gql.Text

/-- The kind of the first token of a kv list, `d` if it is empty. -/
def firstK (ks : List KV) (d : TokKind) : TokKind :=
  match ks with
  | [] => d
  | k :: _ => k.1

theorem headKind_feed (toks : List Token) (ks : List KV) (r : Stream) (h : toks.map Token.kv = ks) :
    headKind (feed toks r) = firstK ks (headKind r) := by
  cases toks with
  | nil => simp at h; subst h; rfl
  | cons t ts => simp at h; subst h; rfl

theorem firstK_append (a b : List KV) (d : TokKind) : firstK (a ++ b) d = firstK a (firstK b d) := by
  cases a <;> rfl

theorem firstK_args (args : Args) (d : TokKind) : firstK (Exec.argsKvs args) d = if args = [] then d else .parenL := by
  cases args <;> simp [Exec.argsKvs, firstK]

theorem firstK_dirs (ds : List Dir) (d : TokKind) : firstK (Exec.dirsKvs ds) d = if ds = [] then d else .at := by
  cases ds <;> simp [Exec.dirsKvs, Exec.dirKvs, firstK]

theorem firstK_ssOpt (ss : List Sel) (d : TokKind) : firstK (ssKvsOpt ss) d = if ss = [] then d else .braceL := by
  cases ss <;> simp [ssKvsOpt, Exec.ssKvs, firstK]

theorem selAst_field (al nm : List Nat) (args : Args) (ds : List Dir) (ss : List Sel) :
    Exec.selAst (.field al nm args ds ss) =
      .node "FieldNode" [("directives", Exec.dirsAst ds), ("name", Val.nameNode nm), ("alias", optName al),
        ("arguments", optL (Exec.argsAst args)),
        ("selection_set", if ss = [] then Ast.none else Exec.ssAst ss)] := by
  cases ss with
  | nil => rw [Exec.selAst.eq_1]; rfl
  | cons s r => rw [Exec.selAst.eq_2]; rfl

theorem ssAst_eq (ss : List Sel) :
    (match ss with
      | [] => Ast.none
      | s :: r => Ast.node "SelectionSetNode" [("selections", Ast.list (Exec.selsAst (s :: r)))]) =
    if ss = [] then Ast.none else Exec.ssAst ss := by
  cases ss <;> simp [Exec.ssAst]

section
variable (cfg : Cfg) (hm : cfg.maxTokens = none)
include hm

/-- `parse_field`, given what the nested selection-set parser does on this field's selection set. -/
theorem parseField_ok (n : Nat) (ssP : P Ast) (al nm : List Nat) (args : Args) (ds : List Dir) (ss : List Sel)
    (hal : al = [] ∨ validName al = true) (hargs : Exec.argsWf args) (hds : Exec.dirsWf ds)
    (hSS : ss ≠ [] → ∀ (toks : List Token) (r : Stream) (cnt : Nat), toks.map Token.kv = Exec.ssKvs ss →
      NonEof toks → r.Ready → ∃ c', ssP (PSat cnt (feed toks r)) = .ok (Exec.ssAst ss, PSat c' r))
    (toks : List Token) (r : Stream) (cnt : Nat)
    (hn : (Exec.selKvs (.field al nm args ds ss)).length < n)
    (hkv : toks.map Token.kv = Exec.selKvs (.field al nm args ds ss)) (hne : NonEof toks) (hr : r.Ready)
    (hnext : SelNext r) :
    ∃ c', parseField cfg n ssP (PSat cnt (feed toks r)) = .ok (Exec.selAst (.field al nm args ds ss), PSat c' r) := by
  obtain ⟨hncol, hnpar, hnat, hnbr⟩ := hnext.ne
  rw [selKvs_field] at hkv hn
  -- split the tokens
  rw [List.map_eq_append_iff] at hkv
  obtain ⟨t123, tss, rfl, hk123, hkss⟩ := hkv
  rw [List.map_eq_append_iff] at hk123
  obtain ⟨t12, tds, rfl, hk12, hkds⟩ := hk123
  rw [List.map_eq_append_iff] at hk12
  obtain ⟨t1, targs, rfl, hk1, hkargs⟩ := hk12
  rw [List.map_eq_append_iff] at hk1
  obtain ⟨tA, tNl, rfl, hkA, hkN⟩ := hk1
  simp only [List.map_eq_cons_iff, List.map_eq_nil_iff] at hkN
  obtain ⟨tN, tE, rfl, hkN, rfl⟩ := hkN
  obtain ⟨hNk, hNv⟩ := tok_of_kv hkN
  simp only [List.length_append] at hn
  have hne_args : NonEof targs := (hne.append_left.append_left).append_right
  have hne_ds : NonEof tds := hne.append_left.append_right
  have hne_ss : NonEof tss := hne.append_right
  have hR3 : (feed tss r).Ready := feed_ready _ _ hne_ss hr
  have hR2 : (feed tds (feed tss r)).Ready := feed_ready _ _ hne_ds hR3
  have hR1 : (feed targs (feed tds (feed tss r))).Ready := feed_ready _ _ hne_args hR2
  have hk3 : headKind (feed tss r) = if ss = [] then headKind r else .braceL := by
    rw [headKind_feed tss _ r hkss, firstK_ssOpt]
  have hk2 : headKind (feed tds (feed tss r)) = if ds = [] then headKind (feed tss r) else .at := by
    rw [headKind_feed tds _ _ hkds, firstK_dirs]
  have hk1 : headKind (feed targs (feed tds (feed tss r))) =
      if args = [] then headKind (feed tds (feed tss r)) else .parenL := by
    rw [headKind_feed targs _ _ hkargs, firstK_args]
  have h3ne : headKind (feed tss r) ≠ .at ∧ headKind (feed tss r) ≠ .parenL ∧ headKind (feed tss r) ≠ .colon := by
    rw [hk3]; split
    · exact ⟨hnat, hnpar, hncol⟩
    · exact ⟨by decide, by decide, by decide⟩
  have h2ne : headKind (feed tds (feed tss r)) ≠ .parenL ∧ headKind (feed tds (feed tss r)) ≠ .colon := by
    rw [hk2]; split
    · exact ⟨h3ne.2.1, h3ne.2.2⟩
    · exact ⟨by decide, by decide⟩
  have h1ne : headKind (feed targs (feed tds (feed tss r))) ≠ .colon := by
    rw [hk1]; split
    · exact h2ne.2
    · decide
  -- the tail of the method, from the state after the name(s)
  have hArgs : ∀ c0, ∃ ca, parseArguments cfg n false (PSat c0 (feed targs (feed tds (feed tss r)))) =
      .ok ((if args = [] then none else some (Exec.argsAst args)), PSat ca (feed tds (feed tss r))) := by
    intro c0
    exact parseArguments_ok cfg hm false args hargs n targs _ c0 (by omega) hkargs hne_args hR2
      (fun _ => h2ne.1)
  have hDirs : ∀ c0, ∃ cd, parseDirectives cfg n false (PSat c0 (feed tds (feed tss r))) =
      .ok ((if ds = [] then none else some (ds.map Exec.dirAst)), PSat cd (feed tss r)) := by
    intro c0
    exact parseDirectives_raw cfg hm false ds hds n tds _ c0 (by omega) hkds hne_ds hR3 h3ne.1 h3ne.2.1
  have hSel : ∀ c0, ∃ (b : Bool) (cs : Nat),
      peek .braceL (PSat c0 (feed tss r)) = .ok (b, PSat c0 (feed tss r)) ∧
      (if b = true then ssP else (pure Ast.none : P Ast)) (PSat c0 (feed tss r)) =
        .ok ((if ss = [] then Ast.none else Exec.ssAst ss), PSat cs r) := by
    intro c0
    by_cases hss : ss = []
    · subst hss
      simp only [ssKvsOpt, List.map_eq_nil_iff] at hkss
      subst hkss
      have : ((PSat c0 r).cur.kind == TokKind.braceL) = false := by
        rw [PSat_cur_kind c0 r hr]; simpa using hnbr
      exact ⟨false, c0, by simp only [feed, peek_eq, this], by simp [feed, pure_eq']⟩
    · have hkss' : tss.map Token.kv = Exec.ssKvs ss := by
        cases ss with
        | nil => exact absurd rfl hss
        | cons s0 r0 => simpa [ssKvsOpt] using hkss
      obtain ⟨cs, hS⟩ := hSS hss tss r c0 hkss' hne_ss hr
      have : ((PSat c0 (feed tss r)).cur.kind == TokKind.braceL) = true := by
        rw [PSat_cur_kind c0 _ hR3, hk3]; simp [hss]
      exact ⟨true, cs, by simp only [peek_eq, this], by simp only [↓reduceIte, hS, hss]⟩
  have hargsAst : optListO (if args = [] then none else some (Exec.argsAst args)) = optL (Exec.argsAst args) := by
    by_cases ha : args = []
    · subst ha; simp [optListO, optL, Exec.argsAst]
    · have : (Exec.argsAst args).isEmpty = false := by
        have := argsAst_length args
        cases hx : Exec.argsAst args with
        | nil => rw [hx] at this; simp at this; exact absurd (List.eq_nil_of_length_eq_zero this.symm) ha
        | cons a r => rfl
      simp [ha, optListO, optL, this]
  have hdirsAst : optListO (if ds = [] then none else some (ds.map Exec.dirAst)) = Exec.dirsAst ds := by
    cases ds <;> simp [optListO, Exec.dirsAst, optL]
  by_cases hal0 : al = []
  · -- no alias
    subst hal0
    simp only [List.isEmpty_nil, ↓reduceIte, List.map_eq_nil_iff] at hkA
    subst hkA
    obtain ⟨c1, h1⟩ := parseName_ok cfg hm tN nm (feed targs (feed tds (feed tss r))) cnt hNk hNv hR1
    have hno : expectOptionalToken cfg .colon (PSat c1 (feed targs (feed tds (feed tss r)))) =
        .ok (false, PSat c1 (feed targs (feed tds (feed tss r)))) :=
      expectOptionalToken_no cfg .colon _ (by rw [PSat_cur_kind _ _ hR1]; exact h1ne)
    obtain ⟨ca, hA⟩ := hArgs c1
    obtain ⟨cd, hD⟩ := hDirs ca
    obtain ⟨b, cs, hP, hS⟩ := hSel cd
    refine ⟨cs, ?_⟩
    simp only [List.nil_append, List.append_assoc, List.cons_append, feed, feed_append, PSat_cons]
    simp only [parseField, bind_eq, h1, hno, Bool.false_eq_true, ↓reduceIte, pure_eq', hA, hD, hP, hS,
      mk_fieldNode, hargsAst, hdirsAst]
    rw [selAst_field]
    simp [optName, Val.nameNode]
  · -- with alias
    have hav : validName al = true := hal.resolve_left hal0
    have hale : al.isEmpty = false := by cases al <;> simp_all
    simp only [hale, Bool.false_eq_true, ↓reduceIte, List.map_eq_cons_iff, List.map_eq_nil_iff] at hkA
    obtain ⟨tAl, tA', rfl, hkAl, tC, tA'', rfl, hkC, rfl⟩ := hkA
    obtain ⟨hAlk, hAlv⟩ := tok_of_kv hkAl
    obtain ⟨hCk, _⟩ := tok_of_kv hkC
    have hCne : tC.kind ≠ .eof := by rw [hCk]; decide
    have hNne : tN.kind ≠ .eof := by rw [hNk]; decide
    obtain ⟨c1, h1⟩ := parseName_ok cfg hm tAl al (.cons tC (.cons tN (feed targs (feed tds (feed tss r))))) cnt
      hAlk hAlv (by simp [Stream.Ready, hCne])
    obtain ⟨c2, h2⟩ := expectOptionalToken_yes cfg hm .colon tC (.cons tN (feed targs (feed tds (feed tss r)))) c1
      hCk hCne (by simp [Stream.Ready, hNne])
    obtain ⟨c3, h3⟩ := parseName_ok cfg hm tN nm (feed targs (feed tds (feed tss r))) c2 hNk hNv hR1
    obtain ⟨ca, hA⟩ := hArgs c3
    obtain ⟨cd, hD⟩ := hDirs ca
    obtain ⟨b, cs, hP, hS⟩ := hSel cd
    refine ⟨cs, ?_⟩
    simp only [List.nil_append, List.append_assoc, List.cons_append, feed, feed_append, PSat_cons]
    simp only [parseField, bind_eq, h1, PSat_cons, h2, ↓reduceIte, h3, pure_eq', hA, hD, hP, hS,
      mk_fieldNode, hargsAst, hdirsAst]
    rw [selAst_field]
    simp [optName, Val.nameNode, hale]

end

end Gql.Syntax

namespace Gql.Syntax
open Gql Gql.Text

section
variable (cfg : Cfg) (hm : cfg.maxTokens = none)
include hm

theorem parseSpread_ok (n : Nat) (ssP : P Ast) (nm : List Nat) (ds : List Dir)
    (hnm : validName nm = true) (hon : nm ≠ S "on") (hds : Exec.dirsWf ds)
    (toks : List Token) (r : Stream) (cnt : Nat)
    (hn : (Exec.selKvs (.spread nm ds)).length < n)
    (hkv : toks.map Token.kv = Exec.selKvs (.spread nm ds)) (hne : NonEof toks) (hr : r.Ready)
    (hnext : SelNext r) :
    ∃ c', parseFragment cfg n ssP (PSat cnt (feed toks r)) = .ok (Exec.selAst (.spread nm ds), PSat c' r) := by
  obtain ⟨_, hnpar, hnat, _⟩ := hnext.ne
  rw [show Exec.selKvs (.spread nm ds) = (.spread, none) :: (.name, some nm) :: Exec.dirsKvs ds by
    simp [Exec.selKvs]] at hkv hn
  simp only [List.map_eq_cons_iff] at hkv
  obtain ⟨tS, ts1, rfl, hkS, tN, tds, rfl, hkN, hkds⟩ := hkv
  obtain ⟨hSk, _⟩ := tok_of_kv hkS
  obtain ⟨hNk, hNv⟩ := tok_of_kv hkN
  have hNne : tN.kind ≠ .eof := by rw [hNk]; decide
  have hne_ds : NonEof tds := hne.tail.tail
  have hR : (feed tds r).Ready := feed_ready _ _ hne_ds hr
  have hkd : headKind (feed tds r) = if ds = [] then headKind r else .at := by
    rw [headKind_feed tds _ r hkds, firstK_dirs]
  have hkdne : headKind (feed tds r) ≠ .parenL := by rw [hkd]; split; exact hnpar; decide
  obtain ⟨c1, h1⟩ := expectToken_ok cfg hm .spread tS (.cons tN (feed tds r)) cnt hSk (by rw [hSk]; decide)
    (by simp [Stream.Ready, hNne])
  have hvon : valueIs tN "on" = false := valueIs_false hNv "on" hon
  have hkw : expectOptionalKeyword cfg "on" { cur := tN, rest := feed tds r, count := c1 } =
      .ok (false, { cur := tN, rest := feed tds r, count := c1 }) :=
    expectOptionalKeyword_no cfg "on" _ (by simp [hvon])
  obtain ⟨c2, h2⟩ := parseName_ok cfg hm tN nm (feed tds r) c1 hNk hNv hR
  simp only [List.length_cons] at hn
  obtain ⟨c3, h3⟩ := parseDirectives_raw cfg hm false ds hds n tds r c2 (by omega) hkds hne_ds hr hnat hnpar
  have hpk : ((PSat c2 (feed tds r)).cur.kind == TokKind.parenL) = false := by
    rw [PSat_cur_kind _ _ hR]; simpa using hkdne
  have hdirsAst : optListO (if ds = [] then none else some (ds.map Exec.dirAst)) = Exec.dirsAst ds := by
    cases ds <;> simp [optListO, Exec.dirsAst, optL]
  refine ⟨c3, ?_⟩
  simp only [feed, PSat_cons, parseFragment, bind_eq, h1, hkw, peek_eq, hNk, beq_self_eq_true, Bool.not_false,
    Bool.and_self, ↓reduceIte, parseFragmentName, P.cur, hvon, Bool.false_eq_true, h2, hpk, Bool.false_and, h3,
    pure_eq', mk_spreadNode, hdirsAst]
  rfl

end

end Gql.Syntax

namespace Gql.Syntax
open Gql Gql.Text

theorem selKvs_inline (tc : List Nat) (ds : List Dir) (ss : List Sel) :
    Exec.selKvs (.inline tc ds ss) =
      (.spread, none) :: ((if tc.isEmpty then [] else [(.name, some (S "on")), (.name, some tc)]) ++
        (Exec.dirsKvs ds ++ Exec.ssKvs ss)) := by
  simp [Exec.selKvs, Exec.ssKvs]

theorem selAst_inline (tc : List Nat) (ds : List Dir) (ss : List Sel) :
    Exec.selAst (.inline tc ds ss) =
      .node "InlineFragmentNode" [("directives", Exec.dirsAst ds), ("selection_set", Exec.ssAst ss),
        ("type_condition", if tc.isEmpty then .none else namedType tc)] := by
  rw [Exec.selAst.eq_4]; rfl

theorem firstK_ss (ss : List Sel) (d : TokKind) : firstK (Exec.ssKvs ss) d = .braceL := rfl

section
variable (cfg : Cfg) (hm : cfg.maxTokens = none)
include hm

theorem parseInline_ok (n : Nat) (ssP : P Ast) (tc : List Nat) (ds : List Dir) (ss : List Sel)
    (htc : tc = [] ∨ validName tc = true) (hds : Exec.dirsWf ds)
    (hSS : ∀ (toks : List Token) (r : Stream) (cnt : Nat), toks.map Token.kv = Exec.ssKvs ss →
      NonEof toks → r.Ready → ∃ c', ssP (PSat cnt (feed toks r)) = .ok (Exec.ssAst ss, PSat c' r))
    (toks : List Token) (r : Stream) (cnt : Nat)
    (hn : (Exec.selKvs (.inline tc ds ss)).length < n)
    (hkv : toks.map Token.kv = Exec.selKvs (.inline tc ds ss)) (hne : NonEof toks) (hr : r.Ready) :
    ∃ c', parseFragment cfg n ssP (PSat cnt (feed toks r)) = .ok (Exec.selAst (.inline tc ds ss), PSat c' r) := by
  rw [selKvs_inline] at hkv hn
  rw [List.map_eq_cons_iff] at hkv
  obtain ⟨tS, ts0, rfl, hkS, hkv⟩ := hkv
  rw [List.map_eq_append_iff] at hkv
  obtain ⟨ttc, trest, rfl, hktc, hkrest⟩ := hkv
  rw [List.map_eq_append_iff] at hkrest
  obtain ⟨tds, tss, rfl, hkds, hkss⟩ := hkrest
  obtain ⟨hSk, _⟩ := tok_of_kv hkS
  have hne_ds : NonEof tds := hne.tail.append_right.append_left
  have hne_ss : NonEof tss := hne.tail.append_right.append_right
  have hR3 : (feed tss r).Ready := feed_ready _ _ hne_ss hr
  have hR2 : (feed tds (feed tss r)).Ready := feed_ready _ _ hne_ds hR3
  have hk3 : headKind (feed tss r) = .braceL := by rw [headKind_feed tss _ r hkss]; rfl
  have hk2 : headKind (feed tds (feed tss r)) = if ds = [] then .braceL else .at := by
    rw [headKind_feed tds _ _ hkds, firstK_dirs, hk3]
  simp only [List.length_cons, List.length_append] at hn
  have hDirs : ∀ c0, ∃ cd, parseDirectives cfg n false (PSat c0 (feed tds (feed tss r))) =
      .ok ((if ds = [] then none else some (ds.map Exec.dirAst)), PSat cd (feed tss r)) := by
    intro c0
    exact parseDirectives_raw cfg hm false ds hds n tds _ c0 (by omega) hkds hne_ds hR3 (by rw [hk3]; decide)
      (by rw [hk3]; decide)
  have hdirsAst : optListO (if ds = [] then none else some (ds.map Exec.dirAst)) = Exec.dirsAst ds := by
    cases ds <;> simp [optListO, Exec.dirsAst, optL]
  by_cases htc0 : tc = []
  · subst htc0
    simp only [List.isEmpty_nil, ↓reduceIte, List.map_eq_nil_iff] at hktc
    subst hktc
    obtain ⟨c1, h1⟩ := expectToken_ok cfg hm .spread tS (feed tds (feed tss r)) cnt hSk (by rw [hSk]; decide) hR2
    have hnotname : (PSat c1 (feed tds (feed tss r))).cur.kind ≠ .name := by
      rw [PSat_cur_kind _ _ hR2, hk2]; split <;> decide
    have hkw : expectOptionalKeyword cfg "on" (PSat c1 (feed tds (feed tss r))) =
        .ok (false, PSat c1 (feed tds (feed tss r))) :=
      expectOptionalKeyword_no cfg "on" _ (fun h => hnotname h.1)
    have hpk : ((PSat c1 (feed tds (feed tss r))).cur.kind == TokKind.name) = false := by
      simpa using hnotname
    obtain ⟨cd, hD⟩ := hDirs c1
    obtain ⟨cs, hS⟩ := hSS tss r cd hkss hne_ss hr
    refine ⟨cs, ?_⟩
    simp only [List.nil_append, feed, feed_append, PSat_cons, parseFragment, bind_eq, h1, hkw, peek_eq, hpk,
      Bool.not_false, Bool.and_false, Bool.false_eq_true, ↓reduceIte, pure_eq', hD, hS, mk_inlineNode, hdirsAst,
      selAst_inline, List.isEmpty_nil]
  · have hv : validName tc = true := htc.resolve_left htc0
    have htce : tc.isEmpty = false := by cases tc <;> simp_all
    simp only [htce, Bool.false_eq_true, ↓reduceIte, List.map_eq_cons_iff, List.map_eq_nil_iff] at hktc
    obtain ⟨tOn, t1, rfl, hkOn, tT, t2, rfl, hkT, rfl⟩ := hktc
    obtain ⟨hOnk, hOnv⟩ := tok_of_kv hkOn
    obtain ⟨hTk, hTv⟩ := tok_of_kv hkT
    have hOne : tOn.kind ≠ .eof := by rw [hOnk]; decide
    have hTne : tT.kind ≠ .eof := by rw [hTk]; decide
    obtain ⟨c1, h1⟩ := expectToken_ok cfg hm .spread tS (.cons tOn (.cons tT (feed tds (feed tss r)))) cnt hSk
      (by rw [hSk]; decide) (by simp [Stream.Ready, hOne])
    have hvon : valueIs tOn "on" = true := (valueIs_iff hOnv "on").mpr rfl
    obtain ⟨c2, h2⟩ := expectOptionalKeyword_yes cfg hm "on" tOn (.cons tT (feed tds (feed tss r))) c1 hOnk hvon
      (by simp [Stream.Ready, hTne])
    obtain ⟨c3, h3⟩ := parseName_ok cfg hm tT tc (feed tds (feed tss r)) c2 hTk hTv hR2
    obtain ⟨cd, hD⟩ := hDirs c3
    obtain ⟨cs, hS⟩ := hSS tss r cd hkss hne_ss hr
    refine ⟨cs, ?_⟩
    simp only [List.cons_append, List.nil_append, feed, feed_append, PSat_cons, parseFragment, bind_eq, h1, h2,
      peek_eq, Bool.not_true, Bool.false_and, Bool.false_eq_true, ↓reduceIte, parseNamedType, h3, pure_eq',
      mk_namedType, hD, hS, mk_inlineNode, hdirsAst, selAst_inline, htce, namedType, Val.nameNode]

end

end Gql.Syntax

namespace Gql.Syntax
open Gql Gql.Text

theorem selKvs_head (s : Sel) : ∃ k ks, Exec.selKvs s = k :: ks ∧ (k.1 = .name ∨ k.1 = .spread) := by
  cases s with
  | field al n args ds ss =>
    rw [selKvs_field]
    by_cases ha : al.isEmpty
    · exact ⟨(.name, some n), Exec.argsKvs args ++ Exec.dirsKvs ds ++ ssKvsOpt ss, by simp [ha], Or.inl rfl⟩
    · exact ⟨(.name, some al), (.colon, none) :: (.name, some n) :: (Exec.argsKvs args ++ Exec.dirsKvs ds ++ ssKvsOpt ss),
        by simp [ha], Or.inl rfl⟩
  | spread n ds => exact ⟨(.spread, none), (.name, some n) :: Exec.dirsKvs ds, by simp [Exec.selKvs], Or.inr rfl⟩
  | inline tc ds ss => rw [selKvs_inline]; exact ⟨_, _, rfl, Or.inr rfl⟩

theorem selsKvs_length_le (ss : List Sel) : ss.length ≤ (Exec.selsKvs ss).length := by
  induction ss with
  | nil => simp [Exec.selsKvs]
  | cons s r ih =>
    obtain ⟨k, ks, hk, _⟩ := selKvs_head s
    simp [Exec.selsKvs, hk]; omega

theorem selNext_feed (toks : List Token) (ss : List Sel) (tR : Token) (r : Stream)
    (hkv : toks.map Token.kv = Exec.selsKvs ss) (hRk : tR.kind = .braceR) :
    SelNext (feed toks (.cons tR r)) := by
  unfold SelNext
  rw [headKind_feed toks _ _ hkv]
  cases ss with
  | nil => right; right; simp [Exec.selsKvs, firstK, headKind, hRk]
  | cons s rest =>
    obtain ⟨k, ks, hk, hkk⟩ := selKvs_head s
    simp only [Exec.selsKvs, hk, List.cons_append, firstK]
    rcases hkk with h | h
    · exact Or.inl h
    · exact Or.inr (Or.inl h)

section
variable (cfg : Cfg) (hm : cfg.maxTokens = none)
include hm

mutual
  theorem parseSel (s : Sel) (h : Exec.selWf s) (n : Nat) (toks : List Token) (r : Stream) (cnt : Nat)
      (hn : (Exec.selKvs s).length < n) (hkv : toks.map Token.kv = Exec.selKvs s) (hne : NonEof toks)
      (hr : r.Ready) (hnext : SelNext r) :
      ∃ c', parseSelection cfg n (selectionSet n cfg) (PSat cnt (feed toks r)) = .ok (Exec.selAst s, PSat c' r) := by
    obtain ⟨k0, ks0, hk0, hkk⟩ := selKvs_head s
    have hhead : ∃ t0 ts, toks = t0 :: ts ∧ t0.kind = k0.1 := by
      rw [hk0, List.map_eq_cons_iff] at hkv
      obtain ⟨t0, ts, rfl, ht0, _⟩ := hkv
      exact ⟨t0, ts, rfl, (tok_of_kv ht0).1⟩
    obtain ⟨t0, ts, htoks, ht0⟩ := hhead
    match s, h with
    | .field al nm args ds ss, h =>
      unfold Exec.selWf at h
      obtain ⟨hal, hnm, hargs, hds, hss⟩ := h
      have hk0n : k0.1 = .name := by
        rcases hkk with h' | h'
        · exact h'
        · exfalso
          rw [selKvs_field] at hk0
          by_cases ha : al.isEmpty <;> simp [ha] at hk0 <;> rw [← hk0.1] at h' <;> simp at h'
      have hlenss : ss ≠ [] → (Exec.ssKvs ss).length < n := by
        intro hne'
        rw [selKvs_field] at hn
        cases ss with
        | nil => exact absurd rfl hne'
        | cons s0 r0 => simp only [ssKvsOpt, List.length_append] at hn; omega
      obtain ⟨c', hf⟩ := parseField_ok cfg hm n (selectionSet n cfg) al nm args ds ss hal hargs hds
        (fun hne' toks' r' cnt' hkv' hne'' hr' => parseSS ss hne' hss n toks' r' cnt' (hlenss hne') hkv' hne'' hr')
        toks r cnt hn hkv hne hr hnext
      refine ⟨c', ?_⟩
      have hpk : ((PSat cnt (feed toks r)).cur.kind == TokKind.spread) = false := by
        rw [htoks]; simp [feed, ht0, hk0n]
      simp only [parseSelection, bind_eq, peek_eq, hpk, Bool.false_eq_true, ↓reduceIte, hf]
    | .spread nm ds, h =>
      unfold Exec.selWf at h
      obtain ⟨hnm, hon, hds⟩ := h
      have hk0s : k0.1 = .spread := by
        have : Exec.selKvs (.spread nm ds) = (.spread, none) :: (.name, some nm) :: Exec.dirsKvs ds := by
          simp [Exec.selKvs]
        rw [this] at hk0; simp at hk0; rw [← hk0.1]
      obtain ⟨c', hf⟩ := parseSpread_ok cfg hm n (selectionSet n cfg) nm ds hnm hon hds toks r cnt hn hkv hne hr hnext
      refine ⟨c', ?_⟩
      have hpk : ((PSat cnt (feed toks r)).cur.kind == TokKind.spread) = true := by
        rw [htoks]; simp [feed, ht0, hk0s]
      simp only [parseSelection, bind_eq, peek_eq, hpk, ↓reduceIte, hf]
    | .inline tc ds ss, h =>
      unfold Exec.selWf at h
      obtain ⟨htc, hds, hssne, hss⟩ := h
      have hk0s : k0.1 = .spread := by
        rw [selKvs_inline] at hk0; simp at hk0; rw [← hk0.1]
      have hlenss : (Exec.ssKvs ss).length < n := by
        rw [selKvs_inline] at hn
        simp only [List.length_cons, List.length_append] at hn; omega
      obtain ⟨c', hf⟩ := parseInline_ok cfg hm n (selectionSet n cfg) tc ds ss htc hds
        (fun toks' r' cnt' hkv' hne'' hr' => parseSS ss hssne hss n toks' r' cnt' hlenss hkv' hne'' hr')
        toks r cnt hn hkv hne hr
      refine ⟨c', ?_⟩
      have hpk : ((PSat cnt (feed toks r)).cur.kind == TokKind.spread) = true := by
        rw [htoks]; simp [feed, ht0, hk0s]
      simp only [parseSelection, bind_eq, peek_eq, hpk, ↓reduceIte, hf]
  theorem parseSS (ss : List Sel) (hssne : ss ≠ []) (h : Exec.selsWf ss) (n : Nat) (toks : List Token)
      (r : Stream) (cnt : Nat) (hn : (Exec.ssKvs ss).length < n) (hkv : toks.map Token.kv = Exec.ssKvs ss)
      (hne : NonEof toks) (hr : r.Ready) :
      ∃ c', selectionSet n cfg (PSat cnt (feed toks r)) = .ok (Exec.ssAst ss, PSat c' r) := by
    match ss, hssne, h with
    | s :: rest, _, h =>
      unfold Exec.selsWf at h
      obtain ⟨n, rfl⟩ : ∃ n', n = n' + 1 := ⟨n - 1, by omega⟩
      rw [show Exec.ssKvs (s :: rest) = (.braceL, none) :: (Exec.selKvs s ++ Exec.selsKvs rest ++ [(.braceR, none)]) by
        simp [Exec.ssKvs, Exec.selsKvs]] at hkv hn
      rw [List.map_eq_cons_iff] at hkv
      obtain ⟨tL, ts0, rfl, hkL, hkv⟩ := hkv
      rw [List.map_eq_append_iff] at hkv
      obtain ⟨tI, tRl, rfl, hkI, hkR⟩ := hkv
      rw [List.map_eq_append_iff] at hkI
      obtain ⟨tS, tRest, rfl, hkS, hkRest⟩ := hkI
      simp only [List.map_eq_cons_iff, List.map_eq_nil_iff] at hkR
      obtain ⟨tR, tE, rfl, hkR, rfl⟩ := hkR
      obtain ⟨hLk, _⟩ := tok_of_kv hkL
      obtain ⟨hRk, _⟩ := tok_of_kv hkR
      have hRne : tR.kind ≠ .eof := by rw [hRk]; decide
      have hneI : NonEof (tS ++ tRest) := hne.tail.append_left
      have hready0 : (feed (tS ++ tRest) (.cons tR r)).Ready := feed_ready _ _ hneI (by simp [Stream.Ready, hRne])
      have hready1 : (feed tRest (.cons tR r)).Ready :=
        feed_ready _ _ hneI.append_right (by simp [Stream.Ready, hRne])
      simp only [List.length_cons, List.length_append, List.length_nil] at hn
      obtain ⟨c1, h1⟩ := expectToken_ok cfg hm .braceL tL (feed (tS ++ tRest) (.cons tR r)) cnt hLk
        (by rw [hLk]; decide) hready0
      obtain ⟨c2, h2⟩ := parseSel s h.1 n tS (feed tRest (.cons tR r)) c1 (by omega) hkS hneI.append_left hready1
        (selNext_feed tRest rest tR r hkRest hRk)
      have hlen := selsKvs_length_le rest
      obtain ⟨c3, h3⟩ := parseSelsLoop rest h.2 n n tRest tR r c2 [Exec.selAst s] (by omega) (by omega) hkRest
        hneI.append_right hRk hr
      refine ⟨c3, ?_⟩
      rw [feed_append] at h1
      simp only [selectionSet, parseMany, feed, feed_append, PSat_cons, bind_eq, h1, h2, h3, pure_eq', mk_ssNode,
        Exec.ssAst, Exec.selsAst]
      simp
  theorem parseSelsLoop (ss : List Sel) (h : Exec.selsWf ss) (n m : Nat) (toks : List Token) (tR : Token)
      (r : Stream) (cnt : Nat) (acc : List Ast) (hn : (Exec.selsKvs ss).length < n) (hmm : ss.length < m)
      (hkv : toks.map Token.kv = Exec.selsKvs ss) (hne : NonEof toks) (hRk : tR.kind = .braceR) (hr : r.Ready) :
      ∃ c', untilClose cfg .braceR (parseSelection cfg n (selectionSet n cfg)) m acc
          (PSat cnt (feed toks (.cons tR r))) = .ok (acc ++ Exec.selsAst ss, PSat c' r) := by
    obtain ⟨m, rfl⟩ : ∃ m', m = m' + 1 := ⟨m - 1, by omega⟩
    have hRne : tR.kind ≠ .eof := by rw [hRk]; decide
    match ss, h with
    | [], _ =>
      simp only [Exec.selsKvs, List.map_eq_nil_iff] at hkv
      subst hkv
      obtain ⟨c1, h1⟩ := expectOptionalToken_yes cfg hm .braceR tR r cnt hRk hRne hr
      exact ⟨c1, by simp only [untilClose, feed, PSat_cons, bind_eq, h1, ↓reduceIte, pure_eq', Exec.selsAst,
        List.append_nil]⟩
    | s :: rest, h =>
      unfold Exec.selsWf at h
      rw [show Exec.selsKvs (s :: rest) = Exec.selKvs s ++ Exec.selsKvs rest from rfl] at hkv hn
      rw [List.map_eq_append_iff] at hkv
      obtain ⟨tS, tRest, rfl, hkS, hkRest⟩ := hkv
      obtain ⟨k0, ks0, hk0, hkk⟩ := selKvs_head s
      have hhead : ∃ t0 ts, tS = t0 :: ts ∧ t0.kind ≠ .braceR := by
        rw [hk0, List.map_eq_cons_iff] at hkS
        obtain ⟨t0, ts, rfl, ht0, _⟩ := hkS
        refine ⟨t0, ts, rfl, ?_⟩
        rw [(tok_of_kv ht0).1]
        rcases hkk with h' | h' <;> rw [h'] <;> decide
      obtain ⟨t0, ts, rfl, ht0⟩ := hhead
      have hready1 : (feed tRest (.cons tR r)).Ready :=
        feed_ready _ _ hne.append_right (by simp [Stream.Ready, hRne])
      have hno : expectOptionalToken cfg .braceR (PSat cnt (feed (t0 :: ts ++ tRest) (.cons tR r))) =
          .ok (false, PSat cnt (feed (t0 :: ts ++ tRest) (.cons tR r))) :=
        expectOptionalToken_no cfg .braceR _ (by simpa [feed] using ht0)
      simp only [List.length_append] at hn
      obtain ⟨c1, h1⟩ := parseSel s h.1 n (t0 :: ts) (feed tRest (.cons tR r)) cnt (by omega) hkS hne.append_left
        hready1 (selNext_feed tRest rest tR r hkRest hRk)
      obtain ⟨c2, h2⟩ := parseSelsLoop rest h.2 n m tRest tR r c1 (acc ++ [Exec.selAst s]) (by omega)
        (by simp at hmm; omega) hkRest hne.append_right hRk hr
      refine ⟨c2, ?_⟩
      rw [feed_append] at hno ⊢
      simp only [untilClose, bind_eq, hno, Bool.false_eq_true, ↓reduceIte, h1, h2, Exec.selsAst]
      simp
end

end

end Gql.Syntax
