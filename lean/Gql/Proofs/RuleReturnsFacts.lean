/-
C12 — facts decided by the kernel on the table regenerated from `src/graphql/validation/rules/**.py`
(`tools/c12_rules_static.py`): what each visitor method of each concrete rule can return to `visit()`.
-/
import Gql.Generated.RuleReturns
import Gql.Generated.ValidationTables

namespace Gql.Validation.Static
open Gql.Generated

/-- The return values `visit()` does not interpret as an edit: `None`/IDLE (continue), `SKIP`/`False`
(do not descend), `BREAK`/`True` (stop). -/
def retAllowed : List String := ["none", "skip", "break", "false", "true"]

/-- Every syntactic return of every `enter*`/`leave*` method of every class in `validation/rules` (helpers
reached through `return self.helper(…)` followed two levels) is one of the non-editing values. -/
def neverEdit (t : List (String × String × List String)) : Bool :=
  t.all (fun r => r.2.2.all (fun x => retAllowed.contains x))

/-- Every rule named in `specified_rules` / `specified_sdl_rules` has at least one analysed visitor method. -/
def covers (t : List (String × String × List String)) (rules : List String) : Bool :=
  rules.all (fun n => t.any (fun r => r.1 == n))

theorem ruleReturns_neverEdit : neverEdit ruleReturns = true := by decide +kernel

theorem ruleReturns_covers : covers ruleReturns (specifiedRules ++ specifiedSdlRules) = true := by decide +kernel

end Gql.Validation.Static
