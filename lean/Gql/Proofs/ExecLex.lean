import Gql.Proofs.ExecDefs
/-!
`render_lex` for the executable sub-grammar (stage 1): arguments, directives, selections.
-/
namespace Gql.Text
open Gql.Syntax

theorem indentLF_isEmpty (k : Nat) (x : List Nat) : (indentLF k x).isEmpty = x.isEmpty := by
  cases x with
  | nil => rfl
  | cons c r => by_cases hc : c = 10 <;> simp [indentLF, hc]

theorem indentLF_wrap (k : Nat) (s x e : List Nat) :
    indentLF k (wrap s x e) = wrap (indentLF k s) (indentLF k x) (indentLF k e) := by
  unfold wrap
  rw [indentLF_isEmpty]
  split <;> simp [indentLF, indentLF_append]

/-- An optional piece: absent (no text, no tokens) or a lexable text. -/
def LexOpt (B : List Nat) (kb : List KV) : Prop := (B = [] ∧ kb = []) ∨ (B ≠ [] ∧ Lexes true B kb)

/-- `A` followed by an optional ` B`. -/
theorem lexes_optSpace {A B : List Nat} {ka kb : List KV} (ha : Lexes true A ka) (hb : LexOpt B kb) :
    Lexes true (A ++ wrap [32] B) (ka ++ kb) := by
  rcases hb with ⟨rfl, rfl⟩ | ⟨hne, hB⟩
  · simpa [wrap] using ha
  · have h1 := Lexes.append_ign ha (sep := [32]) (by intro x hx; simp at hx; simp [hx]) (by simp)
    have h2 := Lexes.append_l h1 hB
    obtain ⟨b, r, rfl⟩ := List.exists_cons_of_ne_nil hne
    simpa [wrap, List.append_assoc] using h2

section
variable (w : Widths) (hw : 4 ≤ w.object)
variable (hT : tableOK Generated.escapeTable = true) (hC : tableComplete Generated.escapeTable = true)
include hw hT hC

/-- The parenthesised argument list, in the one-line layout. -/
theorem lexes_args_line (c : Bool) (args : Args) (hne : args ≠ []) (h : Exec.argsWfC c args) (k : Nat) :
    Lexes true (indentLF k ([40] ++ join (Val.printFields w args) [44, 32] ++ [41])) (Exec.argsKvs args) := by
  have hJ := lexFields w hw c hT hC args h k [44, 32]
    (by intro x hx; simp at hx; rcases hx with rfl | rfl <;> simp) (by simp)
  have := lexes_bracket 40 41 .parenL .parenR (by decide) (by decide) (by decide) [] [] _ _
    (by intro x hx; simp at hx) (by intro x hx; simp at hx) hJ
  rw [join_eq_joinWith _ _ (printFields_ne_nil w args)]
  obtain ⟨a, r, rfl⟩ := List.exists_cons_of_ne_nil hne
  simpa [indentLF_append, indentLF_joinWith, indentLF, List.append_assoc, Exec.argsKvs] using this

/-- The parenthesised argument list, in the wrapped layout. -/
theorem lexes_args_wrapped (c : Bool) (args : Args) (hne : args ≠ []) (h : Exec.argsWfC c args) (k : Nat) :
    Lexes true (indentLF k ([40] ++ [10] ++ indent (join (Val.printFields w args) [10]) ++ [10] ++ [41]))
      (Exec.argsKvs args) := by
  have hts : Val.printFields w args ≠ [] := by
    obtain ⟨a, r, rfl⟩ := List.exists_cons_of_ne_nil hne
    obtain ⟨n, v⟩ := a
    rw [Val.printFields]
    exact List.cons_ne_nil _ _
  have hJ := lexFields w hw c hT hC args h (k + 2) (10 :: List.replicate (k + 2) 32)
    (ignorable_lf_spaces _) (by simp)
  rw [join_eq_joinWith _ _ (printFields_ne_nil w args),
    indentLF_wrapped k 40 41 _ hts (printFields_ne_nil w args) (by decide) (by decide)]
  have := lexes_bracket 40 41 .parenL .parenR (by decide) (by decide) (by decide)
    (10 :: List.replicate k 32 ++ [32, 32]) (10 :: List.replicate k 32) _ _
    (ignorable_append (ignorable_lf_spaces k) (by intro x hx; simp at hx; subst hx; simp))
    (ignorable_lf_spaces k) hJ
  obtain ⟨a, r, rfl⟩ := List.exists_cons_of_ne_nil hne
  simpa [Exec.argsKvs] using this

/-- One directive. -/
theorem lexes_dir (c : Bool) (d : Dir) (h : Exec.dirWfC c d) (k : Nat) :
    Lexes true (indentLF k (Exec.printDir w d)) (Exec.dirKvs d) := by
  obtain ⟨hn, ha⟩ := h
  have hname : Lexes true (64 :: d.name) [(.at, none), (.name, some d.name)] := by
    have := Lexes.append_l (Lexes.punct 64 .at (by decide)) (Lexes.name d.name hn)
    simpa using this
  have hno : ∀ x ∈ (64 :: d.name), x ≠ 10 := by
    intro x hx
    rcases List.mem_cons.mp hx with rfl | hx
    · omega
    · exact name_no10 hn x hx
  unfold Exec.printDir Exec.dirKvs
  by_cases hargs : d.args = []
  · rw [hargs]
    simp only [Val.printFields, join, joinWith, List.filter_nil, wrap, List.isEmpty_nil, ↓reduceIte,
      List.append_nil, Exec.argsKvs]
    rw [indentLF_no10 k _ hno]
    exact hname
  · have hline := lexes_args_line w hw hT hC c d.args hargs ha k
    have hjne : join (Val.printFields w d.args) [44, 32] ≠ [] := by
      rw [join_eq_joinWith _ _ (printFields_ne_nil w d.args)]
      apply joinWith_eq_nil (printFields_ne_nil w d.args)
      obtain ⟨a, r, hr⟩ := List.exists_cons_of_ne_nil hargs
      obtain ⟨n, v⟩ := a
      rw [hr]; simp [Val.printFields]
    have hw' : wrap [40] (join (Val.printFields w d.args) [44, 32]) [41] =
        [40] ++ join (Val.printFields w d.args) [44, 32] ++ [41] := by
      unfold wrap
      cases hj : join (Val.printFields w d.args) [44, 32] with
      | nil => exact absurd hj hjne
      | cons a r => simp
    rw [hw', show (64 :: d.name ++ ([40] ++ join (Val.printFields w d.args) [44, 32] ++ [41])) =
      (64 :: d.name) ++ ([40] ++ join (Val.printFields w d.args) [44, 32] ++ [41]) by simp,
      indentLF_append, indentLF_no10 k _ hno]
    have := Lexes.append hname hline (by
      intro _ rest _
      simp only [indentLF_append, indentLF, List.cons_append, List.nil_append]
      exact Safe.cons (by decide))
    simpa using this

end

end Gql.Text

namespace Gql.Text
open Gql.Syntax

theorem printDir_ne_nil (w : Widths) (d : Dir) : Exec.printDir w d ≠ [] := by simp [Exec.printDir]

theorem printDirs_cons (w : Widths) (d : Dir) (r : List Dir) :
    Exec.printDirs w (d :: r) =
      if r = [] then Exec.printDir w d else Exec.printDir w d ++ [32] ++ Exec.printDirs w r := by
  unfold Exec.printDirs
  have hne : ∀ t ∈ (d :: r).map (Exec.printDir w), t ≠ [] := by
    intro t ht; simp at ht; rcases ht with rfl | ⟨x, _, rfl⟩ <;> exact printDir_ne_nil w _
  have hne' : ∀ t ∈ r.map (Exec.printDir w), t ≠ [] := fun t ht => hne t (by simp at ht ⊢; exact Or.inr ht)
  rw [join_eq_joinWith _ _ hne, join_eq_joinWith _ _ hne']
  cases r with
  | nil => simp [joinWith]
  | cons d' r' => simp [joinWith]

section
variable (w : Widths) (hw : 4 ≤ w.object)
variable (hT : tableOK Generated.escapeTable = true) (hC : tableComplete Generated.escapeTable = true)
include hw hT hC

theorem lexes_dirs (c : Bool) (ds : List Dir) (h : Exec.dirsWfC c ds) (k : Nat) :
    LexOpt (indentLF k (Exec.printDirs w ds)) (Exec.dirsKvs ds) := by
  induction ds with
  | nil => left; simp [Exec.printDirs, join, joinWith, indentLF, Exec.dirsKvs]
  | cons d r ih =>
    right
    have hd := lexes_dir w hw hT hC c d h.1 k
    rw [printDirs_cons]
    by_cases hr : r = []
    · subst hr
      simp only [↓reduceIte, Exec.dirsKvs, List.append_nil]
      refine ⟨?_, hd⟩
      intro h0
      have := congrArg List.isEmpty h0
      rw [indentLF_isEmpty] at this
      simp [Exec.printDir] at this
    · simp only [hr, ↓reduceIte, Exec.dirsKvs]
      rcases ih h.2 with ⟨h0, _⟩ | ⟨_, hrest⟩
      · exfalso
        have := congrArg List.isEmpty h0
        rw [indentLF_isEmpty] at this
        obtain ⟨d', r', rfl⟩ := List.exists_cons_of_ne_nil hr
        rw [printDirs_cons] at this
        split at this <;> simp [Exec.printDir] at this
      · refine ⟨?_, ?_⟩
        · intro h0
          have := congrArg List.isEmpty h0
          rw [indentLF_isEmpty] at this
          simp [Exec.printDir] at this
        · have h1 := Lexes.append_ign hd (sep := [32]) (by intro x hx; simp at hx; simp [hx]) (by simp)
          have h2 := Lexes.append_l h1 hrest
          simpa [indentLF_append, indentLF, List.append_assoc] using h2

/-- `wrapped_line_and_args(prefix, args)` for a lexable prefix without line feeds. -/
theorem lexes_wrappedLineAndArgs (pre : List Nat) (kp : List KV) (hpre : Lexes true pre kp)
    (hno : ∀ x ∈ pre, x ≠ 10) (c : Bool) (args : Args) (h : Exec.argsWfC c args) (k : Nat) :
    Lexes true (indentLF k (wrappedLineAndArgs w pre (Val.printFields w args))) (kp ++ Exec.argsKvs args) := by
  unfold wrappedLineAndArgs
  by_cases hargs : args = []
  · subst hargs
    simp only [Val.printFields, join, joinWith, List.filter_nil, wrap, List.isEmpty_nil, ↓reduceIte,
      List.append_nil, indent, indentNL, Exec.argsKvs, ite_self]
    rw [indentLF_no10 k pre hno]
    exact hpre
  · have hts : Val.printFields w args ≠ [] := by
      obtain ⟨a, r, rfl⟩ := List.exists_cons_of_ne_nil hargs
      obtain ⟨n, v⟩ := a
      rw [Val.printFields]
      exact List.cons_ne_nil _ _
    have hne := printFields_ne_nil w args
    have hj1 : join (Val.printFields w args) [44, 32] ≠ [] := by
      rw [join_eq_joinWith _ _ hne]; exact joinWith_eq_nil hne hts
    have hj2 : indent (join (Val.printFields w args) [10]) ≠ [] := by
      rw [join_eq_joinWith _ _ hne, indent_of_ne (joinWith_eq_nil hne hts)]; simp
    have hw1 : wrap [40] (join (Val.printFields w args) [44, 32]) [41] =
        [40] ++ join (Val.printFields w args) [44, 32] ++ [41] := by
      unfold wrap
      cases hj : join (Val.printFields w args) [44, 32] with
      | nil => exact absurd hj hj1
      | cons a r => simp
    have hw2 : wrap [40, 10] (indent (join (Val.printFields w args) [10])) [10, 41] =
        [40] ++ [10] ++ indent (join (Val.printFields w args) [10]) ++ [10] ++ [41] := by
      unfold wrap
      cases hj : indent (join (Val.printFields w args) [10]) with
      | nil => exact absurd hj hj2
      | cons a r => simp
    have hsafe : ∀ (X : List Nat) (rest : List Nat), Safe (indentLF k ([40] ++ X) ++ rest) := by
      intro X rest
      simp only [indentLF_append, indentLF, List.cons_append, List.nil_append]
      exact Safe.cons (by decide)
    simp only
    split
    · rw [hw2, indentLF_append, indentLF_no10 k pre hno]
      have := Lexes.append hpre (lexes_args_wrapped w hw hT hC c args hargs h k) (by
        intro _ rest _
        have := hsafe ([10] ++ indent (join (Val.printFields w args) [10]) ++ [10] ++ [41]) rest
        simpa [List.append_assoc] using this)
      exact this
    · rw [hw1, indentLF_append, indentLF_no10 k pre hno]
      have := Lexes.append hpre (lexes_args_line w hw hT hC c args hargs h k) (by
        intro _ rest _
        have := hsafe (join (Val.printFields w args) [44, 32] ++ [41]) rest
        simpa [List.append_assoc] using this)
      exact this

end

end Gql.Text

namespace Gql.Text
open Gql.Syntax

/-- `...` is one SPREAD token. -/
theorem next_spread (body : List Nat) (st : LexState) (pos : Nat) (h0 : body[pos]? = some 46)
    (h1 : body[pos + 1]? = some 46) (h2 : body[pos + 2]? = some 46) :
    readNextToken body st pos = .ok (mkToken st .spread pos (pos + 3) none, st) := by
  obtain ⟨hlen, hidx⟩ := index_of_getElem? h0
  rw [readNextToken]
  simp only [hlen, ↓reduceDIte, hidx, Out.bind_ok]
  simp [charAt, h1, h2, punctKind, isDigit, isNameStart, isLetter]

theorem Lexes.spread : Lexes false [46, 46, 46] [(.spread, none)] := by
  apply Lexes.single false _ .spread none (by decide) (by decide)
  intro pre rest st _
  refine ⟨_, st, next_spread _ st pre.length ((getElem?_pre0 pre _).trans rfl)
    ((getElem?_pre pre _ 1).trans rfl) ((getElem?_pre pre _ 2).trans rfl), rfl, rfl, rfl⟩

theorem S_dots : S "..." = [46, 46, 46] := by decide
theorem S_on : S "on " = [111, 110, 32] := by decide
theorem S_on' : S "on" = [111, 110] := by decide

/-- `join` with the empty separator is concatenation. -/
theorem join_nil_sep (xs : List (List Nat)) : join xs [] = xs.flatten := by
  unfold join
  induction xs with
  | nil => simp [joinWith]
  | cons a r ih =>
    by_cases ha : a = []
    · subst ha; simpa using ih
    · have : (a :: r).filter (fun s => !s.isEmpty) = a :: r.filter (fun s => !s.isEmpty) := by
        cases a <;> simp_all
      rw [this]
      cases hf : r.filter (fun s => !s.isEmpty) with
      | nil => rw [hf] at ih; simp [joinWith] at ih ⊢; exact ih
      | cons b r' => rw [hf] at ih; simp [joinWith] at ih ⊢; exact ih

/-- `join` with a single blank: every non-empty later part is preceded by one blank. -/
def spaced : List (List Nat) → List Nat
  | [] => []
  | b :: r => wrap [32] b ++ spaced r

theorem join_space (a : List Nat) (rest : List (List Nat)) (ha : a ≠ []) :
    join (a :: rest) [32] = a ++ spaced rest := by
  induction rest generalizing a with
  | nil => cases a <;> simp_all [join, joinWith, spaced]
  | cons b r ih =>
    by_cases hb : b = []
    · subst hb
      have := ih a ha
      have e : join (a :: [] :: r) [32] = join (a :: r) [32] := by
        unfold join
        congr 1
      rw [e, this]; simp [spaced, wrap]
    · have := ih b hb
      have e : join (a :: b :: r) [32] = a ++ [32] ++ join (b :: r) [32] := by
        cases a with
        | nil => exact absurd rfl ha
        | cons a0 a1 =>
          cases b with
          | nil => exact absurd rfl hb
          | cons b0 b1 => simp [join, joinWith]
      rw [e, this]
      cases b with
      | nil => exact absurd rfl hb
      | cons b0 b1 => simp [spaced, wrap]

end Gql.Text

namespace Gql.Text
open Gql.Syntax

theorem block_eq (ts : List (List Nat)) (hts : ts ≠ []) (hne : ∀ t ∈ ts, t ≠ []) :
    block ts = [123] ++ [10] ++ indent (joinWith [10] ts) ++ [10] ++ [125] := by
  unfold block wrap
  rw [join_eq_joinWith [10] _ hne, indent_of_ne (joinWith_eq_nil hne hts)]
  simp

theorem validName_ne_nil {n : List Nat} (h : validName n = true) : n ≠ [] := by
  intro h0; subst h0; simp [validName] at h

theorem wrappedLineAndArgs_ne_nil (w : Widths) (pre : List Nat) (args : List (List Nat)) (h : pre ≠ []) :
    wrappedLineAndArgs w pre args ≠ [] := by
  unfold wrappedLineAndArgs
  simp only
  split <;> simp [h]

theorem fieldPre_eq (al n : List Nat) :
    join [wrap [] al (S ": "), n] = (if al = [] then [] else al ++ [58, 32]) ++ n := by
  rw [join_nil_sep]
  by_cases h : al = []
  · subst h; simp [wrap]
  · cases al with
    | nil => exact absurd rfl h
    | cons a r => simp [wrap, S_colon]

def ssText (w : Widths) (ss : List Sel) : List Nat :=
  match ss with
  | [] => []
  | s :: r => block (Exec.printSels w (s :: r))

theorem printSel_field (w : Widths) (al n : List Nat) (args : Args) (ds : List Dir) (ss : List Sel) :
    Exec.printSel w (.field al n args ds ss) =
      wrappedLineAndArgs w ((if al = [] then [] else al ++ [58, 32]) ++ n) (Val.printFields w args) ++
        (wrap [32] (Exec.printDirs w ds) ++ wrap [32] (ssText w ss)) := by
  cases ss with
  | nil =>
    rw [Exec.printSel.eq_1, join_nil_sep, fieldPre_eq]
    simp [ssText]
  | cons s r =>
    rw [Exec.printSel.eq_2, join_nil_sep, fieldPre_eq]
    simp [ssText]

theorem printSel_spread (w : Widths) (n : List Nat) (ds : List Dir) :
    Exec.printSel w (.spread n ds) =
      wrappedLineAndArgs w ([46, 46, 46] ++ n) (Val.printFields w []) ++ wrap [32] (Exec.printDirs w ds) := by
  rw [Exec.printSel.eq_3, S_dots]; rfl

theorem printSel_inline (w : Widths) (tc : List Nat) (ds : List Dir) (ss : List Sel) :
    Exec.printSel w (.inline tc ds ss) =
      [46, 46, 46] ++ (wrap [32] (wrap [111, 110, 32] tc) ++ (wrap [32] (Exec.printDirs w ds) ++
        wrap [32] (block (Exec.printSels w ss)))) := by
  rw [Exec.printSel.eq_4, join_space _ _ (by simp [S_dots]), S_dots, S_on]
  simp [spaced]

theorem printSel_ne_nil (w : Widths) (s : Sel) (h : Exec.selWf s) : Exec.printSel w s ≠ [] := by
  cases s with
  | field al n args ds ss =>
    unfold Exec.selWf at h
    rw [printSel_field]
    intro h0
    have := List.append_eq_nil_iff.mp h0
    apply wrappedLineAndArgs_ne_nil w _ _ _ this.1
    simp [validName_ne_nil h.2.1]
  | spread n ds =>
    rw [printSel_spread]
    intro h0
    have := List.append_eq_nil_iff.mp h0
    exact wrappedLineAndArgs_ne_nil w _ _ (by simp) this.1
  | inline tc ds ss =>
    rw [printSel_inline]
    simp

theorem printSels_ne_nil (w : Widths) (ss : List Sel) (h : Exec.selsWf ss) :
    ∀ t ∈ Exec.printSels w ss, t ≠ [] := by
  induction ss with
  | nil => intro t ht; simp [Exec.printSels] at ht
  | cons s r ih =>
    intro t ht
    unfold Exec.selsWf at h
    simp only [Exec.printSels, List.mem_cons] at ht
    rcases ht with rfl | ht
    · exact printSel_ne_nil w s h.1
    · exact ih h.2 t ht

end Gql.Text

namespace Gql.Text
open Gql.Syntax

def ssKvsOpt (ss : List Sel) : List KV :=
  match ss with
  | [] => []
  | s :: r => Exec.ssKvs (s :: r)

theorem selKvs_field (al n : List Nat) (args : Args) (ds : List Dir) (ss : List Sel) :
    Exec.selKvs (.field al n args ds ss) =
      ((if al.isEmpty then [] else [(.name, some al), (.colon, none)]) ++ [(.name, some n)] ++ Exec.argsKvs args)
        ++ Exec.dirsKvs ds ++ ssKvsOpt ss := by
  cases ss <;> simp [Exec.selKvs, Exec.ssKvs, ssKvsOpt]

section
variable (w : Widths) (hw : 4 ≤ w.object)
variable (hT : tableOK Generated.escapeTable = true) (hC : tableComplete Generated.escapeTable = true)
include hw hT hC

/-- The block `{ LF indent(items) LF }` of a non-empty list of lexable items. -/
theorem lexes_block (ts : List (List Nat)) (K : List KV) (hts : ts ≠ []) (hne : ∀ t ∈ ts, t ≠ [])
    (k : Nat) (hJ : Lexes true (joinWith (10 :: List.replicate (k + 2) 32) (ts.map (indentLF (k + 2)))) K) :
    Lexes true (indentLF k (block ts)) ((.braceL, none) :: K ++ [(.braceR, none)]) := by
  rw [block_eq ts hts hne, indentLF_wrapped k 123 125 _ hts hne (by decide) (by decide)]
  exact lexes_bracket 123 125 .braceL .braceR (by decide) (by decide) (by decide)
    (10 :: List.replicate k 32 ++ [32, 32]) (10 :: List.replicate k 32) _ _
    (ignorable_append (ignorable_lf_spaces k) (by intro x hx; simp at hx; subst hx; simp))
    (ignorable_lf_spaces k) hJ

omit hw hT hC in
theorem lexOpt_of_ne {B : List Nat} {kb : List KV} (hne : B ≠ []) (h : Lexes true B kb) : LexOpt B kb :=
  Or.inr ⟨hne, h⟩

omit hw hT hC in
theorem indentLF_ne_nil {k : Nat} {x : List Nat} (h : x ≠ []) : indentLF k x ≠ [] := by
  intro h0
  have := congrArg List.isEmpty h0
  rw [indentLF_isEmpty] at this
  cases x <;> simp_all

mutual
  theorem lexSel (s : Sel) (h : Exec.selWf s) (k : Nat) :
      Lexes true (indentLF k (Exec.printSel w s)) (Exec.selKvs s) := by
    match s, h with
    | .field al n args ds ss, h =>
      unfold Exec.selWf at h
      obtain ⟨hal, hn, hargs, hds, hss⟩ := h
      -- the prefix `alias: name`
      have hpre : Lexes true ((if al = [] then [] else al ++ [58, 32]) ++ n)
          ((if al.isEmpty then [] else [(.name, some al), (.colon, none)]) ++ [(.name, some n)]) := by
        by_cases ha : al = []
        · subst ha; simpa using Lexes.name n hn
        · have hav : validName al = true := hal.resolve_left ha
          have h1 := Lexes.append_punct (Lexes.name al hav) 58 .colon (by decide) (by decide)
          have h2 := Lexes.append_l h1 (Lexes.ignorable [32] (by intro x hx; simp at hx; simp [hx]))
          have h3 := Lexes.append_l h2 (Lexes.name n hn)
          have hne : al.isEmpty = false := by cases al <;> simp_all
          simpa [ha, hne, List.append_assoc] using h3
      have hno : ∀ x ∈ ((if al = [] then [] else al ++ [58, 32]) ++ n), x ≠ 10 := by
        intro x hx
        rcases List.mem_append.mp hx with hx | hx
        · by_cases ha : al = []
          · simp [ha] at hx
          · simp only [ha, ↓reduceIte, List.mem_append, List.mem_cons, List.not_mem_nil, or_false] at hx
            rcases hx with hx | rfl | rfl
            · exact name_no10 (hal.resolve_left ha) x hx
            · omega
            · omega
        · exact name_no10 hn x hx
      have hX := lexes_wrappedLineAndArgs w hw hT hC _ _ hpre hno false args hargs k
      have hD := lexes_dirs w hw hT hC false ds hds k
      have hJ := lexSels ss hss (k + 2) (10 :: List.replicate (k + 2) 32) (ignorable_lf_spaces _) (by simp)
      have hne := printSels_ne_nil w ss hss
      have hB : LexOpt (indentLF k (ssText w ss)) (ssKvsOpt ss) := by
        cases ss with
        | nil => left; simp [ssText, indentLF, ssKvsOpt]
        | cons s r =>
          right
          have hts : Exec.printSels w (s :: r) ≠ [] := by simp [Exec.printSels]
          refine ⟨?_, ?_⟩
          · apply indentLF_ne_nil
            rw [ssText, block_eq _ hts hne]; simp
          · exact lexes_block w hw hT hC _ _ hts hne k hJ
      rw [printSel_field, selKvs_field, indentLF_append, indentLF_append, indentLF_wrap, indentLF_wrap]
      have h1 := lexes_optSpace hX hD
      have h2 := lexes_optSpace h1 hB
      simpa [indentLF, List.append_assoc] using h2
    | .spread n ds, h =>
      unfold Exec.selWf at h
      obtain ⟨hn, _, hds⟩ := h
      have hpre : Lexes true ([46, 46, 46] ++ n) [(.spread, none), (.name, some n)] := by
        have := Lexes.append_l Lexes.spread (Lexes.name n hn)
        simpa using this
      have hno : ∀ x ∈ ([46, 46, 46] ++ n), x ≠ 10 := by
        intro x hx
        rcases List.mem_append.mp hx with hx | hx
        · simp at hx; omega
        · exact name_no10 hn x hx
      have hX := lexes_wrappedLineAndArgs w hw hT hC _ _ hpre hno false [] (by trivial) k
      have hD := lexes_dirs w hw hT hC false ds hds k
      rw [printSel_spread, indentLF_append, indentLF_wrap]
      have h1 := lexes_optSpace hX hD
      simpa [indentLF, Exec.selKvs, Exec.argsKvs, List.append_assoc] using h1
    | .inline tc ds ss, h =>
      unfold Exec.selWf at h
      obtain ⟨htc, hds, hssne, hss⟩ := h
      have hD := lexes_dirs w hw hT hC false ds hds k
      have hts : Exec.printSels w ss ≠ [] := by
        obtain ⟨s, r, rfl⟩ := List.exists_cons_of_ne_nil hssne
        simp [Exec.printSels]
      have hne := printSels_ne_nil w ss hss
      have hJ := lexSels ss hss (k + 2) (10 :: List.replicate (k + 2) 32) (ignorable_lf_spaces _) (by simp)
      have hB : LexOpt (indentLF k (block (Exec.printSels w ss))) (Exec.ssKvs ss) :=
        lexOpt_of_ne (indentLF_ne_nil (by rw [block_eq _ hts hne]; simp))
          (lexes_block w hw hT hC _ _ hts hne k hJ)
      have hT' : LexOpt (wrap [111, 110, 32] (indentLF k tc))
          (if tc.isEmpty then [] else [(.name, some (S "on")), (.name, some tc)]) := by
        by_cases ht : tc = []
        · subst ht; left; simp [wrap, indentLF]
        · right
          have hv : validName tc = true := htc.resolve_left ht
          have hne' : tc.isEmpty = false := by cases tc <;> simp_all
          have h1 := Lexes.append_ign (Lexes.name [111, 110] (by decide)) (sep := [32])
            (by intro x hx; simp at hx; simp [hx]) (by simp)
          have h2 := Lexes.append_l h1 (Lexes.name tc hv)
          have hw' : wrap [111, 110, 32] tc = [111, 110, 32] ++ tc := by
            cases tc <;> simp_all [wrap]
          rw [indentLF_no10 k tc (name_no10 hv), hw']
          refine ⟨by simp, ?_⟩
          simpa [hne', S_on'] using h2
      rw [printSel_inline]
      simp only [indentLF_append, indentLF_wrap]
      have h0 : Lexes true (indentLF k [46, 46, 46]) [(.spread, none)] := by
        simpa [indentLF] using (Lexes.spread.weaken true)
      have h1 := lexes_optSpace h0 hT'
      have h2 := lexes_optSpace h1 hD
      have h3 := lexes_optSpace h2 hB
      simpa [indentLF, Exec.selKvs, Exec.ssKvs, List.append_assoc] using h3
  theorem lexSels (ss : List Sel) (h : Exec.selsWf ss) (k : Nat) (sep : List Nat) (hsep : Ignorable sep)
      (hne : sep ≠ []) :
      Lexes true (joinWith sep ((Exec.printSels w ss).map (indentLF k))) (Exec.selsKvs ss) := by
    match ss, h with
    | [], _ => exact Lexes.nil.weaken true
    | s :: ss', h =>
      unfold Exec.selsWf at h
      have hv := lexSel s h.1 k
      have ih := lexSels ss' h.2 k sep hsep hne
      cases ss' with
      | nil => simpa [Exec.printSels, joinWith, Exec.selsKvs] using hv
      | cons s' rest =>
        simp only [Exec.printSels, List.map_cons, joinWith, Exec.selsKvs] at ih ⊢
        have := Lexes.append_l (Lexes.append_ign hv hsep hne) ih
        simpa [List.append_assoc] using this
end

end

end Gql.Text
