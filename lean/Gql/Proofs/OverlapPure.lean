import Gql.Proofs.OverlapSound3
/-! C14, named fragments, completeness (1): what a run that reports nothing leaves behind — pass
predicates relative to the final memo tables — and their elementary properties. -/
namespace Gql.Exec
open Overlap

def keyOf (d : Doc) (n : String) : String := (mkSpread d n).key

/-- `compared_fields_and_fragment_pairs.has(fm, key, q)` -/
def CovFF (T : St) (i : Nat) (k : String) (q : Bool) : Prop := T.cfpHas i k q = true

/-- the comparison of two fragments is skipped: same key, or `compared_fragment_pairs.has` -/
def CovFR (T : St) (k1 k2 : String) (q : Bool) : Prop := k1 = k2 ∨ T.cmpHas k1 k2 q = true

/-- `find_conflict(excl, a, b)` finds nothing, given the memo tables `T` -/
inductive PPass (s : Schema) (d : Doc) (T : St) : Bool → Spec.FieldInst → Spec.FieldInst → Prop where
  | mk {excl : Bool} {a b : Spec.FieldInst} :
      Spec.direct s ⟨a, b, !excl⟩ = false →
      (a.node.hasSub = true → b.node.hasSub = true →
        (∀ c1 ∈ selsFlat s (subP s a) a.node.sub, ∀ c2 ∈ selsFlat s (subP s b) b.node.sub,
          c1.node.responseName = c2.node.responseName →
          PPass s d T (!Spec.deeper s ⟨a, b, !excl⟩) c1 c2)) →
      (a.node.hasSub = true → b.node.hasSub = true →
        (∀ n ∈ selsDirectSpreads b.node.sub,
          CovFF T a.node.subId (keyOf d n) (!Spec.deeper s ⟨a, b, !excl⟩)) ∧
        (∀ n ∈ selsDirectSpreads a.node.sub,
          CovFF T b.node.subId (keyOf d n) (!Spec.deeper s ⟨a, b, !excl⟩)) ∧
        (∀ n1 ∈ selsDirectSpreads a.node.sub, ∀ n2 ∈ selsDirectSpreads b.node.sub,
          CovFR T (keyOf d n1) (keyOf d n2) (!Spec.deeper s ⟨a, b, !excl⟩))) →
      PPass s d T excl a b

/-- the tables only grow: what was covered stays covered -/
def TLe (T T' : St) : Prop :=
  (∀ i k q, T.cfpHas i k q = true → T'.cfpHas i k q = true) ∧
    (∀ a b q, T.cmpHas a b q = true → T'.cmpHas a b q = true)

theorem TLe.refl (T : St) : TLe T T := ⟨fun _ _ _ h => h, fun _ _ _ h => h⟩

theorem TLe.trans {A B C : St} (h1 : TLe A B) (h2 : TLe B C) : TLe A C :=
  ⟨fun i k q h => h2.1 i k q (h1.1 i k q h), fun a b q h => h2.2 a b q (h1.2 a b q h)⟩

theorem CovFF.mono {T T' : St} (h : TLe T T') {i : Nat} {k : String} {q : Bool}
    (hc : CovFF T i k q) : CovFF T' i k q := h.1 i k q hc

theorem CovFR.mono {T T' : St} (h : TLe T T') {k1 k2 : String} {q : Bool}
    (hc : CovFR T k1 k2 q) : CovFR T' k1 k2 q := by
  rcases hc with hc | hc
  · exact Or.inl hc
  · exact Or.inr (h.2 _ _ _ hc)

theorem flagHas_weaken {o : Option Bool} {q q' : Bool} (hq : q = true → q' = true)
    (h : flagHas o q = true) : flagHas o q' = true := by
  obtain ⟨r, hr, himp⟩ := (flagHas_iff _ _).1 h
  exact (flagHas_iff _ _).2 ⟨r, hr, fun h => hq (himp h)⟩

theorem CovFF.weaken {T : St} {i : Nat} {k : String} {q q' : Bool} (hq : q = true → q' = true)
    (hc : CovFF T i k q) : CovFF T i k q' := flagHas_weaken hq hc

theorem CovFR.weaken {T : St} {k1 k2 : String} {q q' : Bool} (hq : q = true → q' = true)
    (hc : CovFR T k1 k2 q) : CovFR T k1 k2 q' := by
  rcases hc with hc | hc
  · exact Or.inl hc
  · exact Or.inr (flagHas_weaken hq hc)

theorem CovFR.symm {T : St} {k1 k2 : String} {q : Bool} (hc : CovFR T k1 k2 q) :
    CovFR T k2 k1 q := by
  rcases hc with hc | hc
  · exact Or.inl hc.symm
  · exact Or.inr (by rw [cmpHas_comm]; exact hc)

theorem PPass.mono {s : Schema} {d : Doc} {T T' : St} (hT : TLe T T') {excl : Bool}
    {a b : Spec.FieldInst} (h : PPass s d T excl a b) : PPass s d T' excl a b := by
  induction h with
  | mk hd _ hcov ih =>
    refine PPass.mk hd (fun h1 h2 c1 hc1 c2 hc2 hrn => ih h1 h2 c1 hc1 c2 hc2 hrn) ?_
    intro h1 h2
    obtain ⟨x1, x2, x3⟩ := hcov h1 h2
    exact ⟨fun n hn => (x1 n hn).mono hT, fun n hn => (x2 n hn).mono hT,
      fun n1 hn1 n2 hn2 => (x3 n1 hn1 n2 hn2).mono hT⟩

/-- a comparison made under "not mutually exclusive" also passes as "mutually exclusive" -/
theorem PPass.weaken {s : Schema} {d : Doc} {T : St} {excl : Bool} {a b : Spec.FieldInst}
    (h : PPass s d T excl a b) : ∀ {excl' : Bool}, (excl = true → excl' = true) →
      PPass s d T excl' a b := by
  induction h with
  | @mk excl a b hd _ hcov ih =>
    intro excl' he
    have hfull : (!excl') = true → (!excl) = true := by
      cases excl <;> cases excl' <;> simp_all
    have hdeep : (!Spec.deeper s ⟨a, b, !excl⟩) = true → (!Spec.deeper s ⟨a, b, !excl'⟩) = true := by
      simp only [Spec.deeper]
      cases excl <;> cases excl' <;> simp_all
    refine PPass.mk ?_ (fun h1 h2 c1 hc1 c2 hc2 hrn => ih h1 h2 c1 hc1 c2 hc2 hrn hdeep) ?_
    · cases hx : Spec.direct s ⟨a, b, !excl'⟩ with
      | false => rfl
      | true =>
        have := Spec.direct_covers (s := ⟨a, b, !excl'⟩) (t := ⟨a, b, !excl⟩) ⟨rfl, rfl, hfull⟩ hx
        rw [hd] at this; cases this
    · intro h1 h2
      obtain ⟨x1, x2, x3⟩ := hcov h1 h2
      exact ⟨fun n hn => (x1 n hn).weaken hdeep, fun n hn => (x2 n hn).weaken hdeep,
        fun n1 hn1 n2 hn2 => (x3 n1 hn1 n2 hn2).weaken hdeep⟩

theorem PPass.instEq {s : Schema} {d : Doc} {T : St} {excl : Bool} {a b : Spec.FieldInst}
    (h : PPass s d T excl a b) {a' b' : Spec.FieldInst} (ha : InstEq s a a') (hb : InstEq s b b') :
    PPass s d T excl a' b' := by
  cases h with
  | mk hd hsub hcov =>
    have e1 : a'.node = a.node := ha.1.symm
    have e2 : b'.node = b.node := hb.1.symm
    refine PPass.mk (by rw [← direct_instEq ha hb]; exact hd) ?_ ?_
    · intro h1 h2 c1 hc1 c2 hc2 hrn
      rw [e1] at h1 hc1
      rw [e2] at h2 hc2
      rw [← ha.subP] at hc1
      rw [← hb.subP] at hc2
      rw [← deeper_instEq ha hb]
      exact hsub h1 h2 c1 hc1 c2 hc2 hrn
    · intro h1 h2
      rw [e1] at h1
      rw [e2] at h2
      rw [← deeper_instEq ha hb, e1, e2]
      exact hcov h1 h2

end Gql.Exec
