import Gql.Proofs.OverlapSound2
/-! C14, named fragments, soundness (3): the visitor. -/
namespace Gql.Exec
open Overlap

section sound3
variable (env : Env) (hle : LinOrd env.le) (hU : TypedIdsUnique env.s env.d)
  (hA : ∀ a, DocInst env.s env.d a → a.node.argsOK)
  (hT : ∀ a, DocInst env.s env.d a → a.node.name ≠ "__typename")
include hle hU hA hT

theorem within_snd (n : Nat) {t : Option String × SelSet} (ht : t ∈ env.d.typedSets env.s)
    {pTI : Option String} (hp : PEq env.s t.1 pTI) :
    Snd env (findConflictsWithinSelectionSet env n pTI t.2) (UWConf env.s env.d) := by
  obtain ⟨hFC, _, hFF, hFR⟩ := sound_all env hle hU hA hT n
  intro σ σ' cs hσ h
  simp only [findConflictsWithinSelectionSet] at h
  obtain ⟨g1, q', hq', ceq⟩ := getFields_nf env hU hσ ht hp
  generalize getFields env.s env.d σ pTI t.2 = r1 at g1 ceq h
  obtain ⟨σ1, fm, sps⟩ := r1
  simp only at g1 ceq h
  rw [computeFields_fmOf, Prod.mk.injEq] at ceq
  obtain ⟨rfl, rfl⟩ := ceq
  refine snd_andThen env ?_ ?_ σ1 σ' cs g1 h
  · apply snd_forEach
    intro u hu
    obtain ⟨k1, k2, c1, hc1, c2, hc2, i1, i2, hrn⟩ := within_known env ht hq' hu
    exact (hFC false u.1 u.2.1 u.2.2 k1 k2).imp'
      (fun hc => ⟨t, ht, c1, c2, Or.inl hc1, Or.inl hc2, hrn, by simpa using hc.instEq i1 i2⟩)
  · apply snd_forEach
    intro tk htk
    have hm := withinTasks_mem htk
    cases tk with
    | fieldsFrag sp =>
      obtain ⟨nm, hnm, rfl⟩ := mem_spreadsOf hm
      exact (hFF false t q' nm ht hq').imp'
        (fun ⟨c1, hc1, c2, hf, hrn, hu⟩ =>
          ⟨t, ht, c1, c2, Or.inl hc1, Or.inr ⟨nm, hnm, hf⟩, hrn, by simpa using hu⟩)
    | frags a b =>
      obtain ⟨n1, hn1, rfl⟩ := mem_spreadsOf hm.1
      obtain ⟨n2, hn2, rfl⟩ := mem_spreadsOf hm.2
      exact (hFR false n1 n2).imp'
        (fun ⟨c1, c2, hf1, hf2, hrn, hu⟩ =>
          ⟨t, ht, c1, c2, Or.inr ⟨n1, hn1, hf1⟩, Or.inr ⟨n2, hn2, hf2⟩, hrn, by simpa using hu⟩)

mutual
theorem visitSel_snd (n : Nat) : ∀ (x : Sel) (pTI q : Option String), PEq env.s q pTI →
    x.typedSets env.s q ⊆ env.d.typedSets env.s →
    (∀ a ∈ x.flat env.s q, a.node.name ≠ "__typename") →
    Snd env (visitSel env n pTI x) (UWConf env.s env.d)
  | .field id al name args st hasSub subId sub, pTI, q, hp, hsub, hname => by
    cases hasSub with
    | false =>
      intro σ σ' cs hσ h
      simp only [visitSel, Bool.false_eq_true, if_false, Option.some.injEq, Prod.mk.injEq] at h
      obtain ⟨rfl, rfl⟩ := h
      exact ⟨hσ, fun h => absurd rfl h⟩
    | true =>
      have hnm : name ≠ "__typename" := hname ⟨q, ⟨id, al, name, args, st, true, subId, sub⟩⟩
        (by simp [Sel.flat])
      have hq' : (Spec.fieldType env.s q name).map Ty.named =
          (env.s.fieldDef pTI name).map Ty.named := by
        rw [fieldType_of_ne hnm, hp.fieldDef]
      have hmem : ((Spec.fieldType env.s q name).map Ty.named, (⟨subId, sub⟩ : SelSet)) ∈
          env.d.typedSets env.s := hsub (by simp [Sel.typedSets])
      have hpc : PEq env.s ((Spec.fieldType env.s q name).map Ty.named)
          (compositeOrNone env.s ((env.s.fieldDef pTI name).map Ty.named)) := by
        rw [hq']; exact (cON_idem _ _).symm
      have R := snd_andThen env
        (within_snd env hle hU hA hT n hmem hpc)
        (visitSels_snd n sub
          (compositeOrNone env.s ((env.s.fieldDef pTI name).map Ty.named))
          ((Spec.fieldType env.s q name).map Ty.named) hpc
          (fun u hu => hsub (by simp [Sel.typedSets, hu]))
          (fun a ha => hT a ⟨_, hmem, ha⟩))
      intro σ σ' cs hσ h
      exact R σ σ' cs hσ (by simpa [visitSel] using h)
  | .inline tc ssId sels, pTI, q, hp, hsub, hname => by
    have key : ∀ (q' pc : Option String), PEq env.s q' pc →
        (q', (⟨ssId, sels⟩ : SelSet)) ∈ env.d.typedSets env.s →
        selsTypedSets env.s q' sels ⊆ env.d.typedSets env.s →
        (∀ a ∈ selsFlat env.s q' sels, a.node.name ≠ "__typename") →
        Snd env (fun σ => andThen (findConflictsWithinSelectionSet env n pc ⟨ssId, sels⟩ σ)
          (visitSels env n pc sels)) (UWConf env.s env.d) :=
      fun q' pc hpc hmem hs hnm => snd_andThen env
        (within_snd env hle hU hA hT n hmem hpc)
        (visitSels_snd n sels pc q' hpc hs hnm)
    cases tc with
    | none =>
      have R := key q pTI hp (hsub (by simp [Sel.typedSets]))
        (fun u hu => hsub (by simp [Sel.typedSets, hu])) (by simpa [Sel.flat] using hname)
      intro σ σ' cs hσ h
      exact R σ σ' cs hσ (by simpa [visitSel] using h)
    | some tn =>
      have R := key (env.s.typeFromAst tn) (compositeOrNone env.s (env.s.typeFromAst tn))
        (cON_idem _ _).symm (hsub (by simp [Sel.typedSets]))
        (fun u hu => hsub (by simp [Sel.typedSets, hu])) (by simpa [Sel.flat] using hname)
      intro σ σ' cs hσ h
      exact R σ σ' cs hσ (by simpa [visitSel] using h)
  | .spread _, pTI, q, _, _, _ => by
    intro σ σ' cs hσ h
    simp only [visitSel, Option.some.injEq, Prod.mk.injEq] at h
    obtain ⟨rfl, rfl⟩ := h
    exact ⟨hσ, fun h => absurd rfl h⟩
theorem visitSels_snd (n : Nat) : ∀ (xs : List Sel) (pTI q : Option String), PEq env.s q pTI →
    selsTypedSets env.s q xs ⊆ env.d.typedSets env.s →
    (∀ a ∈ selsFlat env.s q xs, a.node.name ≠ "__typename") →
    Snd env (visitSels env n pTI xs) (UWConf env.s env.d)
  | [], pTI, q, _, _, _ => by
    intro σ σ' cs hσ h
    simp only [visitSels, Option.some.injEq, Prod.mk.injEq] at h
    obtain ⟨rfl, rfl⟩ := h
    exact ⟨hσ, fun h => absurd rfl h⟩
  | x :: xs, pTI, q, hp, hsub, hname => by
    have R := snd_andThen env
      (visitSel_snd n x pTI q hp (fun u hu => hsub (by simp [selsTypedSets, hu]))
        (fun a ha => hname a (by simp [selsFlat, ha])))
      (visitSels_snd n xs pTI q hp (fun u hu => hsub (by simp [selsTypedSets, hu]))
        (fun a ha => hname a (by simp [selsFlat, ha])))
    intro σ σ' cs hσ h
    exact R σ σ' cs hσ (by simpa [visitSels] using h)
end

theorem visitDefn_snd (hR : RootsObject env.s env.d) (n : Nat) {df : Defn} (hdf : df ∈ env.d) :
    Snd env (visitDefn env n df) (UWConf env.s env.d) := by
  have hmem : (df.parent env.s, df.ss) ∈ env.d.typedSets env.s := by
    simp only [Doc.typedSets, List.mem_flatMap, List.mem_cons]
    exact ⟨df, hdf, Or.inl rfl⟩
  have hsub : selsTypedSets env.s (df.parent env.s) df.ss.sels ⊆ env.d.typedSets env.s :=
    Doc.typedSets_closed hmem
  have key : ∀ pc, PEq env.s (df.parent env.s) pc →
      Snd env (fun σ => andThen (findConflictsWithinSelectionSet env n pc df.ss σ)
        (visitSels env n pc df.ss.sels)) (UWConf env.s env.d) :=
    fun pc hpc => snd_andThen env
      (within_snd env hle hU hA hT n hmem hpc)
      (visitSels_snd env hle hU hA hT n df.ss.sels pc (df.parent env.s) hpc hsub
        (fun a ha => hT a ⟨_, hmem, ha⟩))
  cases df with
  | op root ss =>
    have hpc : PEq env.s root (if env.s.isObject root = true then root else none) := by
      rcases (hR _ hdf : root = none ∨ env.s.isObject root = true) with rfl | h
      · simp [PEq]
      · simp [h, PEq]
    intro σ σ' cs hσ h
    exact key _ hpc σ σ' cs hσ (by simpa [visitDefn, Defn.ss] using h)
  | frag f =>
    intro σ σ' cs hσ h
    exact key _ (cON_idem _ _).symm σ σ' cs hσ (by simpa [visitDefn, Defn.ss, Defn.parent] using h)

end sound3

/-- **Soundness of the rule, all documents**: whatever it reports is an unordered conflict of two
fields of one expanded selection set. -/
theorem implConflictsFuel_sound (le : String → String → Bool) (hle : LinOrd le) (s : Schema)
    (d : Doc) (hU : TypedIdsUnique s d) (hA : ∀ a, DocInst s d a → a.node.argsOK)
    (hT : ∀ a, DocInst s d a → a.node.name ≠ "__typename") (hR : RootsObject s d)
    (n : Nat) (cs : List Conflict) (h : implConflictsFuel le n s d = some cs) (hne : cs ≠ []) :
    UWConf s d := by
  simp only [implConflictsFuel, Option.map_eq_some_iff] at h
  obtain ⟨⟨σ', cs'⟩, e, rfl⟩ := h
  have R := snd_forEach ⟨s, d, le⟩ d (visitDefn ⟨s, d, le⟩ n) (UWConf s d)
    (fun df hdf => visitDefn_snd ⟨s, d, le⟩ hle hU hA hT hR n hdf)
  have h0 : CacheNF ⟨s, d, le⟩ {} := by
    intro i c h
    simp [assocGet] at h
  exact (R {} σ' cs' h0 e).2 hne

end Gql.Exec
