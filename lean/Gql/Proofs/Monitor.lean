import Gql.Async.Monitor
/-!
The path-addressed operations the trace monitor applies are transitions of `Step`.
-/
namespace Gql.Async

def OpSound (op : Bool → Cfg → Option Cfg) : Prop :=
  ∀ ab f f', op ab f = some f' → ∃ l, Step ab f l f'

theorem modifyAt_sound (op : Bool → Cfg → Option Cfg) (hop : OpSound op) :
    ∀ (f : Cfg) (ab : Bool) (p : Path) (f' : Cfg), modifyAt op ab f p = some f' → ∃ l, Step ab f l f'
  | .nil, _, _, _, h => by simp [modifyAt] at h
  | .cons _ _ _ _ _ _, _, [], _, h => by simp [modifyAt] at h
  | .cons nn g res st ch rest, ab, [0], f', h => by
    simp only [modifyAt] at h
    exact hop ab _ f' h
  | .cons nn g res st ch rest, ab, 0 :: j :: p, f', h => by
    simp only [modifyAt] at h
    split at h
    · rename_i hl
      cases hm : modifyAt op st.abandons ch (j :: p) with
      | none => simp [hm] at h
      | some ch' =>
        simp [hm] at h
        subst h
        obtain ⟨l, hs⟩ := modifyAt_sound op hop ch st.abandons (j :: p) ch' hm
        exact ⟨l.down, Step.child ab nn g res st ch rest l ch' hl hs⟩
    · simp at h
  | .cons nn g res st ch rest, ab, (i + 1) :: p, f', h => by
    simp only [modifyAt] at h
    cases hm : modifyAt op ab rest (i :: p) with
    | none => simp [hm] at h
    | some rest' =>
      simp [hm] at h
      subst h
      obtain ⟨l, hs⟩ := modifyAt_sound op hop rest ab (i :: p) rest' hm
      exact ⟨l.next, Step.sibling ab nn g res st ch rest l rest' hs⟩

theorem opResolve_sound : OpSound opResolve := by
  intro ab f f' h
  unfold opResolve at h
  split at h
  · simp at h; subst h; exact ⟨_, Step.resolve ab _ _ _ _ _ _⟩
  · simp at h

theorem opFire_sound : OpSound opFire := by
  intro ab f f' h
  unfold opFire at h
  split at h
  · simp at h; subst h; exact ⟨_, Step.fire ab _ _ _ _ _⟩
  · simp at h

theorem opComplete_sound : OpSound opComplete := by
  intro ab f f' h
  unfold opComplete at h
  split at h
  · rename_i nn g res ch rest
    split at h
    · rename_i hf
      simp at h; subst h; exact ⟨_, Step.fail ab nn g res ch rest hf⟩
    · split at h
      · rename_i v hv
        simp at h; subst h; exact ⟨_, Step.complete ab nn g res ch rest v hv⟩
      · simp at h
  · simp at h

theorem opCancel_sound : OpSound opCancel := by
  intro ab f f' h
  unfold opCancel at h
  split at h
  · rename_i nn g res st ch rest
    split at h
    · rename_i hc
      simp at hc
      obtain ⟨hab, hact⟩ := hc
      subst hab
      simp at h; subst h
      exact ⟨_, Step.cancel nn g res st ch rest hact⟩
    · simp at h
  · simp at h

end Gql.Async
