import Gql.Async.Monitor
/-!
The path-addressed operations the trace monitor applies are transitions of `Step` / `SStep`.
-/
namespace Gql.Async

def OpSound (op : Cfg → Option Cfg) : Prop :=
  ∀ f f', op f = some f' → ∃ l, Step f l f'

theorem modifyAt_sound (op : Cfg → Option Cfg) (hop : OpSound op) :
    ∀ (f : Cfg) (p : Path) (f' : Cfg), modifyAt op f p = some f' → ∃ l, Step f l f'
  | .nil, _, _, h => by simp [modifyAt] at h
  | .cons _ _ _ _ _ _, [], _, h => by simp [modifyAt] at h
  | .cons nn g res st ch rest, [0], f', h => by
    simp only [modifyAt] at h
    exact hop _ f' h
  | .cons nn g res st ch rest, 0 :: j :: p, f', h => by
    simp only [modifyAt] at h
    split at h
    · rename_i hl
      cases hm : modifyAt op ch (j :: p) with
      | none => simp [hm] at h
      | some ch' =>
        simp [hm] at h
        subst h
        obtain ⟨l, hs⟩ := modifyAt_sound op hop ch (j :: p) ch' hm
        exact ⟨l.down, Step.child nn g res st ch rest l ch' hl hs⟩
    · simp at h
  | .cons nn g res st ch rest, (i + 1) :: p, f', h => by
    simp only [modifyAt] at h
    cases hm : modifyAt op rest (i :: p) with
    | none => simp [hm] at h
    | some rest' =>
      simp [hm] at h
      subst h
      obtain ⟨l, hs⟩ := modifyAt_sound op hop rest (i :: p) rest' hm
      exact ⟨l.next, Step.sibling nn g res st ch rest l rest' hs⟩

theorem opResolve_sound : OpSound opResolve := by
  intro f f' h
  unfold opResolve at h
  split at h
  · simp at h; subst h; exact ⟨_, Step.resolve _ _ _ _ _ _⟩
  · simp at h

theorem opFire_sound : OpSound opFire := by
  intro f f' h
  unfold opFire at h
  split at h
  · simp at h; subst h; exact ⟨_, Step.fire _ _ _ _ _⟩
  · simp at h

theorem opComplete_sound : OpSound opComplete := by
  intro f f' h
  unfold opComplete at h
  split at h
  · rename_i nn g res ch rest
    split at h
    · rename_i v hv
      simp at h; subst h; exact ⟨_, Step.complete nn g res ch rest v hv⟩
    · simp at h
  · simp at h

theorem opFail_sound : OpSound opFail := by
  intro f f' h
  unfold opFail at h
  split at h
  · rename_i nn g res ch rest
    split at h
    · rename_i hf
      simp at h; subst h; exact ⟨_, Step.fail nn g res ch rest hf⟩
    · simp at h
  · simp at h

theorem opAbort_sound : OpSound opAbort := by
  intro f f' h
  unfold opAbort at h
  split at h
  · rename_i nn g ch rest
    split at h
    · rename_i hf
      simp at h; subst h; exact ⟨_, Step.abort nn g ch rest hf⟩
    · simp at h
  · simp at h

theorem opFailDone_sound : OpSound opFailDone := by
  intro f f' h
  unfold opFailDone at h
  split at h
  · rename_i nn g res ch rest
    split at h
    · simp at h
    · rename_i hp
      simp at h; subst h; exact ⟨_, Step.failDone nn g res ch rest (by simpa using hp)⟩
  · simp at h

theorem opUnwound_sound : OpSound opUnwound := by
  intro f f' h
  unfold opUnwound at h
  split at h
  · rename_i nn g res ch rest
    split at h
    · simp at h
    · rename_i hp
      simp at h; subst h; exact ⟨_, Step.unwound nn g res ch rest (by simpa using hp)⟩
  · simp at h

/-- The serial root's `start` move of the monitor (applied to the root wrapper, whose children
are the root fields) is the `start` transition of `SStep` on the root fields. -/
theorem opStartSerial_sound (j : Nat) (nn : Bool) (g : Nat) (res : Res) (ch rest : Cfg) (c' : Cfg)
    (h : opStartSerial j (.cons nn g res .run ch rest) = some c') :
    ∃ ch', c' = .cons nn g res .run ch' rest ∧ SStep ch (.start [j]) ch' := by
  simp only [opStartSerial] at h
  by_cases hc : (prefixDone ch && hasIdle ch && firstIdle ch == j) = true
  · rw [if_pos hc] at h
    simp at hc h
    obtain ⟨⟨hp, hi⟩, hj⟩ := hc
    subst h
    subst hj
    exact ⟨startNext ch, rfl, SStep.start ch hp hi⟩
  · rw [if_neg hc] at h
    simp at h

end Gql.Async
