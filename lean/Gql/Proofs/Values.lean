import Gql.Values.Enum
/-
Helper lemmas for the value layer (C15/C16).
-/
namespace Gql.Values
open Gql Gql.Generated.ScalarConsts

/-- What the theorems assume about CPython's conversions (spot-checked by the harness on
every generated case, never axioms: hypotheses of the theorems that need them). -/
structure PyConv.Laws (c : PyConv) : Prop where
  /-- `float(int)` returns a finite float or raises `OverflowError` (never `inf`/`nan`) -/
  floatOfInt_finite : ∀ z f, c.floatOfInt z = some f → f.isFinite = true
  /-- `float(int)` is a whole number -/
  floatOfInt_integral : ∀ z f, c.floatOfInt z = some f → f.isIntegral = true
  /-- integers up to 2^53 in magnitude convert exactly -/
  floatOfInt_small : ∀ z : Int, -(2 ^ 53) ≤ z → z ≤ 2 ^ 53 → c.floatOfInt z = some (PyFloat.ofInt z)

theorem inIntRange_iff (z : Int) : inIntRange z = true ↔ -(2 ^ 31) ≤ z ∧ z ≤ 2 ^ 31 - 1 := by
  unfold inIntRange graphqlMinInt graphqlMaxInt
  simp only [Bool.and_eq_true, decide_eq_true_eq]
  omega

theorem not_inIntRange {z : Int} (h : (!inIntRange z) = false) : -(2 ^ 31) ≤ z ∧ z ≤ 2 ^ 31 - 1 := by
  have : inIntRange z = true := by simpa using h
  exact (inIntRange_iff z).1 this

/-! ### enum lookup -/

namespace EnumType

def norm (name : List Nat) (v : PyVal) : PyVal := if v.isNullish then PyVal.str name else v

theorem lookupFind_some {lookup : List (PyVal × List Nat)} {k : PyVal} {name : List Nat}
    (h : lookupFind lookup k = some name) : ∃ k', (k', name) ∈ lookup ∧ PyVal.pyEq k' k = true := by
  induction lookup with
  | nil => simp [lookupFind] at h
  | cons hd tl ih =>
    obtain ⟨k', n'⟩ := hd
    unfold lookupFind at h
    split at h
    · rename_i heq
      simp only [Option.some.injEq] at h
      subst h
      exact ⟨k', by simp, heq⟩
    · obtain ⟨k'', hm, he⟩ := ih h
      exact ⟨k'', by simp [hm], he⟩

theorem buildLookup_mem {acc : List (PyVal × List Nat)} {vals : List (List Nat × PyVal)}
    {k : PyVal} {name : List Nat} (h : (k, name) ∈ buildLookup acc vals) :
    (k, name) ∈ acc ∨ ∃ v, (name, v) ∈ vals ∧ k = norm name v := by
  induction vals generalizing acc with
  | nil => left; simpa [buildLookup] using h
  | cons hd tl ih =>
    obtain ⟨n0, v0⟩ := hd
    unfold buildLookup at h
    simp only at h
    have hv : (if v0.isNullish = true then PyVal.str n0 else v0) = norm n0 v0 := rfl
    rw [hv] at h
    split at h
    · rcases ih h with h1 | ⟨v, hv, hk⟩
      · exact Or.inl h1
      · exact Or.inr ⟨v, by simp [hv], hk⟩
    · split at h
      · rcases ih h with h1 | ⟨v, hv, hk⟩
        · exact Or.inl h1
        · exact Or.inr ⟨v, by simp [hv], hk⟩
      · rcases ih h with h1 | ⟨v, hv, hk⟩
        · simp only [List.mem_append, List.mem_singleton, Prod.mk.injEq] at h1
          rcases h1 with h1 | ⟨rfl, rfl⟩
          · exact Or.inl h1
          · exact Or.inr ⟨v0, by simp, rfl⟩
        · exact Or.inr ⟨v, by simp [hv], hk⟩

theorem scan_some {v : PyVal} {vals : List (List Nat × PyVal)} {name : List Nat}
    (h : scan v vals = some name) : ∃ w, (name, w) ∈ vals ∧ PyVal.pyEq w v = true := by
  induction vals with
  | nil => simp [scan] at h
  | cons hd tl ih =>
    obtain ⟨n0, w0⟩ := hd
    unfold scan at h
    split at h
    · rename_i heq
      simp only [Option.some.injEq] at h
      subst h
      exact ⟨w0, by simp, heq⟩
    · obtain ⟨w, hm, he⟩ := ih h
      exact ⟨w, by simp [hm], he⟩

theorem dictGet_of_mem_nodup {kvs : List (List Nat × PyVal)} {k : List Nat} {v : PyVal}
    (hnd : (kvs.map (·.1)).Nodup) (h : (k, v) ∈ kvs) : PyVal.dictGet kvs k = some v := by
  induction kvs with
  | nil => simp at h
  | cons hd tl ih =>
    obtain ⟨k0, v0⟩ := hd
    simp only [List.map_cons, List.nodup_cons, List.mem_map, not_exists, not_and] at hnd
    unfold PyVal.dictGet
    simp only [List.mem_cons, Prod.mk.injEq] at h
    rcases h with ⟨rfl, rfl⟩ | h
    · simp
    · have hne : k0 ≠ k := by
        intro heq
        subst heq
        exact hnd.1 (k0, v) h rfl
      simp [hne, ih hnd.2 h]

/-- the serialised name and the internal value it stands for -/
theorem coerceOutputValue_ok {e : EnumType} {v r : PyVal} (h : e.coerceOutputValue v = .ok r) :
    ∃ name w, r = .str name ∧ (name, w) ∈ e.values ∧
      (PyVal.pyEq (norm name w) v = true ∨ PyVal.pyEq w v = true) := by
  unfold coerceOutputValue at h
  split at h
  · split at h
    · rename_i name hf
      obtain ⟨k', hm, he⟩ := lookupFind_some hf
      rcases buildLookup_mem hm with h1 | ⟨w, hw, hk⟩
      · simp at h1
      · simp only [Out.ok.injEq] at h
        subst hk
        exact ⟨name, w, h.symm, hw, Or.inl he⟩
    · simp at h
  · split at h
    · rename_i name hf
      obtain ⟨w, hm, he⟩ := scan_some hf
      simp only [Out.ok.injEq] at h
      exact ⟨name, w, h.symm, hm, Or.inr he⟩
    · simp at h

end EnumType
end Gql.Values
