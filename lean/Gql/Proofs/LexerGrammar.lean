import Gql.Proofs.LexerNumber
/-!
# The lexer against the lexical grammar: one token, then the whole token sequence
-/
open Gql Gql.Text
namespace Gql.Text
open Gql.Spec.Lex


/-- Hypothesis for the StringValue class on a given text: wherever the lexer calls `read_string`,
its result is the grammar's `string?` match. -/
def StringClassOK (body : List Nat) : Prop :=
  ∀ st pos, (h : pos < body.length) → body[pos] = 34 → slice body (pos + 1) (pos + 3) ≠ [34, 34] →
    TokAgree pos (readString body st pos >>= fun t => pure (t, st)) (string? (body.drop pos))

/-- Hypothesis for the BlockString class on a given text. -/
def BlockClassOK (body : List Nat) : Prop :=
  ∀ st pos, (h : pos < body.length) → body[pos] = 34 → slice body (pos + 1) (pos + 3) = [34, 34] →
    TokAgree pos (readBlockString body st pos) (blockString? (body.drop pos))

theorem slice_eq_take_drop (body : List Nat) (a n : Nat) : slice body a (a + n) = (body.drop a).take n := by
  simp [slice]

theorem string?_triple (r : List Nat) : string? (34 :: 34 :: 34 :: r) = none := rfl

theorem blockString?_not_triple (r : List Nat) (h : r.take 2 ≠ [34, 34]) : blockString? (34 :: r) = none := by
  unfold blockString?
  split
  · rename_i heq
    simp at heq
    subst heq
    simp at h
  · rfl

theorem lexToken?_quote (r : List Nat) :
    lexToken? (34 :: r) = longer (string? (34 :: r)) (blockString? (34 :: r)) := by
  unfold lexToken?
  rw [punctuator?_none _ _ (by unfold PunctStart; omega), name?_none _ _ (by decide),
    number?_none _ _ (by decide) (by decide)]
  simp only [longer_none_left]

theorem lexToken?_name (c : Nat) (r : List Nat) (h : NameStart c) :
    lexToken? (c :: r) = name? (c :: r) := by
  have hl : Letter c ∨ c = 95 := h
  unfold Letter at hl
  unfold lexToken?
  rw [punctuator?_none _ _ (by unfold PunctStart; omega),
    number?_none _ _ (by omega) (by unfold Digit; omega),
    string?_none _ _ (by omega), blockString?_none _ _ (by omega)]
  simp only [longer_none_left, longer_none_right]

theorem lexToken?_number (c : Nat) (r : List Nat) (h : Digit c ∨ c = 45) :
    lexToken? (c :: r) = number? (c :: r) := by
  unfold Digit at h
  unfold lexToken?
  rw [punctuator?_none _ _ (by unfold PunctStart; omega),
    name?_none _ _ (by unfold NameStart Letter; omega),
    string?_none _ _ (by omega), blockString?_none _ _ (by omega)]
  simp only [longer_none_left, longer_none_right]

theorem lexToken?_none (c : Nat) (r : List Nat) (h1 : ¬ PunctStart c) (h2 : ¬ NameStart c)
    (h3 : ¬ Digit c) (h4 : c ≠ 45) (h5 : c ≠ 34) : lexToken? (c :: r) = none := by
  unfold lexToken?
  rw [punctuator?_none _ _ h1, name?_none _ _ h2, number?_none _ _ h4 h3,
    string?_none _ _ h5, blockString?_none _ _ h5]
  rfl

theorem lexToken?_dot (r : List Nat) : lexToken? (46 :: r) = punctuator? (46 :: r) := by
  unfold lexToken?
  rw [name?_none _ _ (by decide), number?_none _ _ (by decide) (by decide),
    string?_none _ _ (by decide), blockString?_none _ _ (by decide)]
  simp only [longer_none_right]

theorem punctuator?_dot (r : List Nat) :
    punctuator? (46 :: r) = if r.take 2 = [46, 46] then some ⟨.spread, 3, none⟩ else none := by
  match r with
  | [] => rfl
  | [a] =>
    by_cases h : a = 46
    · subst h; rfl
    · simp [punctuator?, punctuators, List.findSome?]; try omega
  | a :: b :: r' =>
    simp [punctuator?, punctuators, List.findSome?, List.isPrefixOf]
    by_cases h : 46 = a ∧ 46 = b
    · obtain ⟨rfl, rfl⟩ := h; simp
    · have : ¬ (a = 46 ∧ b = 46) := by omega
      simp [h, this]

theorem ignoredLen_none_head {c : Nat} {r : List Nat} (h : ignoredLen (c :: r) = none) :
    c ≠ 32 ∧ c ≠ 9 ∧ c ≠ 44 ∧ c ≠ 0xFEFF ∧ c ≠ 10 ∧ c ≠ 13 ∧ c ≠ 35 := by
  refine ⟨?_, ?_, ?_, ?_, ?_, ?_, ?_⟩ <;> (intro hc; subst hc; revert h)
  · simp [ignoredLen]
  · simp [ignoredLen]
  · simp [ignoredLen]
  · simp [ignoredLen]
  · simp [ignoredLen]
  · cases r with
    | nil => simp [ignoredLen]
    | cons d r' => by_cases hd : d = 10 <;> simp [ignoredLen, hd]
  · simp [ignoredLen]

/-- One token: where the next code point starts no Ignored item, `read_next_token` returns exactly
the longest-match token of the grammar (kind, span, value), or fails exactly when no token of the
grammar starts there. -/
theorem readNextToken_tokAgree (body : List Nat) (st : LexState) (pos : Nat) (h : pos < body.length)
    (hstr : StringClassOK body) (hblk : BlockClassOK body)
    (hni : ignoredLen (body.drop pos) = none) :
    TokAgree pos (readNextToken body st pos) (lexToken? (body.drop pos)) := by
  have hdrop := drop_cons _ _ h
  rw [hdrop] at hni
  obtain ⟨n1, n2, n3, n4, n5, n6, n7⟩ := ignoredLen_none_head hni
  rw [readNextToken_unfold _ _ _ h]
  simp only []
  rw [if_neg (by omega), if_neg n5, if_neg n6, if_neg n7]
  by_cases hq : body[pos] = 34
  · rw [if_pos hq]
    rw [hdrop, hq, lexToken?_quote]
    by_cases htr : slice body (pos + 1) (pos + 3) = [34, 34]
    · rw [if_pos htr]
      have := hblk st pos h hq htr
      rw [hdrop, hq] at this
      have e : slice body (pos + 1) (pos + 3) = (body.drop (pos + 1)).take 2 := slice_eq_take_drop _ _ 2
      rw [e] at htr
      have hs : string? (34 :: body.drop (pos + 1)) = none := by
        cases hd : body.drop (pos + 1) with
        | nil => rw [hd] at htr; simp at htr
        | cons a r =>
          cases r with
          | nil => rw [hd] at htr; simp at htr
          | cons b r' =>
            rw [hd] at htr; simp at htr
            obtain ⟨rfl, rfl⟩ := htr; rfl
      rw [hs, longer_none_left]; exact this
    · rw [if_neg htr]
      have := hstr st pos h hq htr
      rw [hdrop, hq] at this
      have e : slice body (pos + 1) (pos + 3) = (body.drop (pos + 1)).take 2 := slice_eq_take_drop _ _ 2
      rw [e] at htr
      rw [blockString?_not_triple _ htr, longer_none_right]; exact this
  rw [if_neg hq]
  cases hk : punctKind body[pos] with
  | some k =>
    simp only []
    rw [hdrop, lexToken?_punct _ _ _ hk]
    refine ⟨_, rfl, ?_, by show 0 < 1; omega, punctKind_ne_eof hk, ?_⟩
    · simp [toSpec, mkToken]
    · intro hc
      rcases punctKind_cases hk with ⟨_, rfl⟩ | ⟨_, rfl⟩ | ⟨_, rfl⟩ | ⟨_, rfl⟩ | ⟨_, rfl⟩ | ⟨_, rfl⟩ |
        ⟨_, rfl⟩ | ⟨_, rfl⟩ | ⟨_, rfl⟩ | ⟨_, rfl⟩ | ⟨_, rfl⟩ | ⟨_, rfl⟩ | ⟨_, rfl⟩ <;> simp [mkToken] at hc
  | none =>
    simp only []
    by_cases hnum : isDigit body[pos] = true ∨ body[pos] = 45
    · rw [if_pos hnum]
      have hnum' : Digit body[pos] ∨ body[pos] = 45 := by
        rcases hnum with hd | hd
        · exact Or.inl ((isDigit_iff _).mp hd)
        · exact Or.inr hd
      rw [hdrop, lexToken?_number _ _ hnum', ← hdrop]
      exact readNumber_tokAgree body st pos h
    rw [if_neg hnum]
    have hnd : ¬ Digit body[pos] := fun hd => hnum (Or.inl ((isDigit_iff _).mpr hd))
    have hn45 : body[pos] ≠ 45 := fun h45 => hnum (Or.inr h45)
    by_cases hname : isNameStart body[pos] = true
    · rw [if_pos hname]
      have hns := (isNameStart_iff _).mp hname
      rw [hdrop, lexToken?_name _ _ hns]
      unfold readName
      rw [readNameLoop_eq]
      simp only [Out.bind_ok, Out.pure_eq, name?]
      rw [if_pos hns]
      refine ⟨_, rfl, ?_, by simp; omega, by simp [mkToken], by simp [mkToken]⟩
      simp only [toSpec, mkToken, kindOf]
      have e1 : pos + 1 + nameContinueLen (body.drop (pos + 1)) = pos + (1 + nameContinueLen (body.drop (pos + 1))) := by omega
      rw [e1, slice_eq_take_drop, hdrop]
    rw [if_neg hname]
    have hnns : ¬ NameStart body[pos] := fun hn => hname ((isNameStart_iff _).mpr hn)
    by_cases hdot : body[pos] = 46
    · have hlt : lexToken? (body.drop pos) =
          if (body.drop (pos + 1)).take 2 = [46, 46] then some ⟨.spread, 3, none⟩ else none := by
        rw [hdrop, hdot, lexToken?_dot, punctuator?_dot]
      rw [hlt]
      have hch1 : charAt body (pos + 1) = (body.drop (pos + 1))[0]? := by
        have := charAt_drop body (pos + 1) 0; simpa using this
      have hch2 : charAt body (pos + 2) = (body.drop (pos + 1))[1]? := by
        have := charAt_drop body (pos + 1) 1; simpa using this
      by_cases hsp : charAt body (pos + 1) = some 46 ∧ charAt body (pos + 2) = some 46
      · rw [if_pos ⟨hdot, hsp⟩]
        have : (body.drop (pos + 1)).take 2 = [46, 46] := by
          rw [hch1, hch2] at hsp
          cases hd : body.drop (pos + 1) with
          | nil => rw [hd] at hsp; simp at hsp
          | cons a r =>
            cases r with
            | nil => rw [hd] at hsp; simp at hsp
            | cons b r' => rw [hd] at hsp; simp at hsp; simp [hsp]
        rw [if_pos this]
        exact ⟨_, rfl, by simp [toSpec, mkToken, kindOf], by show 0 < 3; omega, by simp [mkToken], by simp [mkToken]⟩
      · have hsp' : ¬ (body[pos] = 46 ∧ charAt body (pos + 1) = some 46 ∧ charAt body (pos + 2) = some 46) :=
          fun hh => hsp hh.2
        rw [if_neg hsp']
        have : (body.drop (pos + 1)).take 2 ≠ [46, 46] := by
          intro ht; apply hsp
          rw [hch1, hch2]
          cases hd : body.drop (pos + 1) with
          | nil => rw [hd] at ht; simp at ht
          | cons a r =>
            cases r with
            | nil => rw [hd] at ht; simp at ht
            | cons b r' => rw [hd] at ht; simp at ht; simp [ht]
        rw [if_neg this]
        -- every remaining branch is an error
        split
        · split
          · unfold dotDigitsLoop; rw [digitsLoop_eq]; rfl
          · rfl
        · repeat' split
          all_goals rfl
    · have hsp' : ¬ (body[pos] = 46 ∧ charAt body (pos + 1) = some 46 ∧ charAt body (pos + 2) = some 46) :=
        fun hh => hdot hh.1
      rw [if_neg hsp']
      have hnp : ¬ PunctStart body[pos] := by
        rcases punctKind_none hk with hp | hp
        · exact hp
        · exact absurd hp hdot
      rw [hdrop, lexToken?_none _ _ hnp hnns hnd hn45 hq]
      rw [if_neg hdot]
      simp only []
      repeat' split
      all_goals rfl

/-- Agreement of a `lexAll` outcome with the specification's token sequence. -/
def LexAgree (r : LexOut (List Token)) (s : Option (List SpecToken)) : Prop :=
  match r with
  | .ok ts => s = some (sig ts)
  | .err _ => s = none
  | .crash _ => False

def lexStep (body : List Nat) (fuel : Nat) (acc : List Token) (r : Token × LexState) : LexOut (List Token) :=
  if r.1.kind = .eof then pure (acc ++ [r.1])
  else if r.1.kind = .comment then lexAllAux body fuel r.2 r.1.stop acc
  else lexAllAux body fuel r.2 r.1.stop (acc ++ [r.1])

theorem lexAllAux_succ (body : List Nat) (fuel : Nat) (st : LexState) (pos : Nat) (acc : List Token) :
    lexAllAux body (fuel + 1) st pos acc = readNextToken body st pos >>= lexStep body fuel acc := by
  rw [lexAllAux]; rfl

theorem commentCharsLen_le (s : List Nat) : commentCharsLen s ≤ s.length := by
  fun_induction commentCharsLen s <;> simp <;> omega

theorem ignoredLen_le {s : List Nat} {n : Nat} (h : ignoredLen s = some n) : 0 < n ∧ n ≤ s.length := by
  unfold ignoredLen at h
  split at h
  all_goals first
    | (simp at h; done)
    | (simp at h; subst h; simp; done)
    | (simp at h; subst h; simp; have := commentCharsLen_le ‹List Nat›; omega)

theorem tokenizeFrom_nil (fuel off : Nat) : tokenizeFrom fuel off [] = some [⟨.eof, off, off, none⟩] := by
  cases fuel <;> rfl

theorem tokenizeFrom_cons (fuel off c : Nat) (r : List Nat) :
    tokenizeFrom (fuel + 1) off (c :: r) =
      match ignoredLen (c :: r) with
      | some n => tokenizeFrom fuel (off + n) ((c :: r).drop n)
      | none =>
        match lexToken? (c :: r) with
        | some m =>
          if m.len = 0 then none
          else
            match tokenizeFrom fuel (off + m.len) ((c :: r).drop m.len) with
            | some ts => some (⟨m.kind, off, off + m.len, m.value⟩ :: ts)
            | none => none
        | none => none := by
  rw [tokenizeFrom]
  all_goals first | rfl | (intros; simp_all)

theorem readNextToken_eof (body : List Nat) (st : LexState) (pos : Nat) (h : body.length ≤ pos) :
    readNextToken body st pos = .ok (mkToken st .eof body.length body.length none, st) := by
  rw [readNextToken]
  have : ¬ pos < body.length := by omega
  simp only [this, dite_false]; rfl

/-- One ignored item (not a comment) is skipped inside `read_next_token`; a comment is one
`lexAllAux` step.  Both are one step of the specification's tokenizer. -/
theorem lexAllAux_agree (body : List Nat) (hstr : StringClassOK body) (hblk : BlockClassOK body) :
    ∀ (fuelS fuel : Nat) (st : LexState) (pos : Nat) (acc : List Token),
      pos ≤ body.length → body.length - pos ≤ fuelS → body.length - pos + 1 ≤ fuel →
      LexAgree (lexAllAux body fuel st pos acc)
        ((tokenizeFrom fuelS pos (body.drop pos)).map (fun ts => sig acc ++ ts)) := by
  intro fuelS
  induction fuelS with
  | zero =>
    intro fuel st pos acc hp hfs hf
    have hpe : pos = body.length := by omega
    obtain ⟨k, rfl⟩ : ∃ k, fuel = k + 1 := ⟨fuel - 1, by omega⟩
    rw [lexAllAux_succ, readNextToken_eof _ _ _ (by omega), Out.bind_ok, drop_nil _ _ (by omega),
      tokenizeFrom_nil]
    simp [lexStep, mkToken, LexAgree, sig, toSpec, kindOf, hpe]
  | succ fs ih =>
    intro fuel st pos acc hp hfs hf
    obtain ⟨k, rfl⟩ : ∃ k, fuel = k + 1 := ⟨fuel - 1, by omega⟩
    by_cases hlt : pos < body.length
    · have hdrop := drop_cons _ _ hlt
      rw [hdrop, tokenizeFrom_cons, ← hdrop]
      cases hig : ignoredLen (body.drop pos) with
      | some n =>
        simp only [List.drop_drop]
        obtain ⟨hn0, hnl⟩ := ignoredLen_le hig
        have hnl' : pos + n ≤ body.length := by simp at hnl; omega
        by_cases hc35 : body[pos] = 35
        · obtain ⟨n', hr, hn', _⟩ := ignored_comment body st pos hlt hc35
          have : n' = n := by rw [hig] at hn'; exact (Option.some.inj hn').symm
          subst this
          rw [lexAllAux_succ, hr, Out.bind_ok]
          simp only [lexStep, mkToken]
          rw [if_neg (by simp)]
          simp only [if_true]
          exact ih k st (pos + n') acc hnl' (by omega) (by omega)
        · -- white space, comma, BOM, line terminators: skipped inside `readNextToken`
          have hskip : ∃ st', readNextToken body st pos = readNextToken body st' (pos + n) := by
            by_cases hws : body[pos] = 32 ∨ body[pos] = 9 ∨ body[pos] = 44 ∨ body[pos] = 0xFEFF
            · obtain ⟨h1, h2⟩ := ignored_ws body st pos hlt hws
              have : n = 1 := by rw [hig] at h2; exact Option.some.inj h2
              subst this; exact ⟨_, h1⟩
            · by_cases hlf : body[pos] = 10
              · obtain ⟨h1, h2⟩ := ignored_lf body st pos hlt hlf
                have : n = 1 := by rw [hig] at h2; exact Option.some.inj h2
                subst this; exact ⟨_, h1⟩
              · by_cases hcr : body[pos] = 13
                · obtain ⟨n', st', h1, h2, _⟩ := ignored_cr body st pos hlt hcr
                  have : n = n' := by rw [hig] at h2; exact Option.some.inj h2
                  subst this; exact ⟨_, h1⟩
                · exfalso
                  rw [hdrop] at hig
                  revert hig
                  generalize body[pos] = c at *
                  unfold ignoredLen
                  split <;> simp_all
          obtain ⟨st', hr⟩ := hskip
          rw [lexAllAux_succ, hr, ← lexAllAux_succ]
          exact ih (k + 1) st' (pos + n) acc hnl' (by omega) (by omega)
      | none =>
        simp only []
        have hta := readNextToken_tokAgree body st pos hlt hstr hblk hig
        have hpost := readNextToken_post body st pos hp
        rw [lexAllAux_succ]
        cases hr : readNextToken body st pos with
        | ok r =>
          obtain ⟨t, st'⟩ := r
          rw [hr] at hta hpost
          obtain ⟨mm, hm, hsp, hlen, hne, hnc⟩ := hta
          rw [hm]
          simp only []
          rw [if_neg (by omega), Out.bind_ok]
          simp only [lexStep]
          rw [if_neg hne, if_neg hnc]
          have hstop : t.stop = pos + mm.len := by
            have := congrArg SpecToken.stop hsp; simpa [toSpec] using this
          have hle : t.stop ≤ body.length := by
            obtain ⟨_, h2⟩ := hpost
            rcases h2 with h2 | h2
            · exact h2.2.2
            · exact absurd h2.1 hne
          have := ih k st' t.stop (acc ++ [t]) hle (by omega) (by omega)
          rw [hstop] at this ⊢
          rw [List.drop_drop]
          cases htk : tokenizeFrom fs (pos + mm.len) (body.drop (pos + mm.len)) with
          | none => rw [htk] at this; exact this
          | some ts =>
            rw [htk] at this
            simp only [Option.map_some] at this ⊢
            cases hl : lexAllAux body k st' (pos + mm.len) (acc ++ [t]) with
            | ok ts' =>
              rw [hl] at this
              have e : some (sig (acc ++ [t]) ++ ts) = some (sig ts') := this
              show some (sig acc ++ _ :: ts) = some (sig ts')
              rw [← Option.some.inj e]
              simp [sig, hsp]
            | err e =>
              rw [hl] at this
              have h' : (some (sig (acc ++ [t]) ++ ts) : Option (List SpecToken)) = none := this
              simp at h'
            | crash c => rw [hl] at this; exact this.elim
        | err e =>
          rw [hr] at hta
          have : lexToken? (body.drop pos) = none := hta
          rw [this]; rfl
        | crash c => rw [hr] at hta; exact hta.elim
    · have hpe : pos = body.length := by omega
      rw [lexAllAux_succ, readNextToken_eof _ _ _ (by omega), Out.bind_ok, drop_nil _ _ (by omega),
        tokenizeFrom_nil]
      simp [lexStep, mkToken, LexAgree, sig, toSpec, kindOf, hpe]

/-- The whole token sequence: `lexAll` agrees with the specification's tokenizer on every text
for which the two string classes agree. -/
theorem lexAll_agree (body : List Nat) (hstr : StringClassOK body) (hblk : BlockClassOK body) :
    LexAgree (lexAll body) (specTokenize body) := by
  have := lexAllAux_agree body hstr hblk body.length (body.length + 2) {} 0 [] (by omega) (by omega) (by omega)
  unfold lexAll specTokenize
  simp only [List.drop_zero] at this
  cases h : tokenizeFrom body.length 0 body with
  | none => rw [h] at this; exact this
  | some ts => rw [h] at this; simpa [sig] using this

/-- A text without the quotation mark never reaches `read_string` / `read_block_string`. -/
theorem stringClassOK_of_noQuote (body : List Nat) (h : 34 ∉ body) : StringClassOK body := by
  intro st pos hlt hq
  exact absurd (hq ▸ List.getElem_mem hlt) h

theorem blockClassOK_of_noQuote (body : List Nat) (h : 34 ∉ body) : BlockClassOK body := by
  intro st pos hlt hq
  exact absurd (hq ▸ List.getElem_mem hlt) h

end Gql.Text
