import Gql.Text.Out
/-
Model of `graphql.language.lexer.Lexer` (src/graphql/language/lexer.py), index-based and
crash-faithful: every non-slice subscript `body[i]` is `Out.index` (an `IndexError` when out of
range), slices are total.  Source text is a `List Nat` of code points, surrogates included.

Error payload: the *kind* of syntax error and its position (message wording is not modelled).
-/
namespace Gql.Text

inductive TokKind where
  | sof | eof | bang | dollar | amp | parenL | parenR | dot | spread | colon | equals | at
  | bracketL | bracketR | braceL | pipe | braceR | name | int | float | string | blockString
  | comment
  deriving Repr, DecidableEq, Inhabited

inductive LexErrKind where
  | unexpectedDotDot          -- "Unexpected '..', did you mean '...'?"
  | digitBeforeDot            -- "Invalid number, expected digit before '.'..."
  | singleQuote               -- "Unexpected single quote character (')..."
  | unexpectedChar            -- "Unexpected character: ..."
  | invalidChar               -- "Invalid character: ..."
  | digitAfterZero            -- "Invalid number, unexpected digit after 0: ..."
  | expectedDigit             -- "Invalid number, expected digit but got: ..."
  | invalidCharInString       -- "Invalid character within String: ..."
  | unterminatedString        -- "Unterminated string."
  | invalidUnicodeEscape      -- "Invalid Unicode escape sequence: ..."
  | invalidCharEscape         -- "Invalid character escape sequence: ..."
  deriving Repr, DecidableEq, Inhabited

structure LexErr where
  kind : LexErrKind
  pos : Nat
  deriving Repr, DecidableEq

structure Token where
  kind : TokKind
  start : Nat
  stop : Nat
  line : Nat
  column : Nat
  value : Option (List Nat)
  deriving Repr, DecidableEq

/-- The lexer's mutable line bookkeeping (`self.line`, `self.line_start`). -/
structure LexState where
  line : Nat := 1
  lineStart : Nat := 0
  deriving Repr, DecidableEq

abbrev LexOut (α : Type) := Out LexErr α

/-- `body[a:b]` -/
def slice (body : List Nat) (a b : Nat) : List Nat := (body.drop a).take (b - a)

/-- `body[i:i+1]` as an optional character (`none` = the empty string). -/
def charAt (body : List Nat) (i : Nat) : Option Nat := body[i]?

def isDigit (c : Nat) : Bool := 48 ≤ c && c ≤ 57
def isLetter (c : Nat) : Bool := (65 ≤ c && c ≤ 90) || (97 ≤ c && c ≤ 122)
def isNameStart (c : Nat) : Bool := isLetter c || c = 95
def isNameContinue (c : Nat) : Bool := isLetter c || isDigit c || c = 95
def isDigitOpt : Option Nat → Bool
  | some c => isDigit c
  | none => false
def isNameStartOpt : Option Nat → Bool
  | some c => isNameStart c
  | none => false

/-- `is_unicode_scalar_value(char)` -/
def isScalar (c : Nat) : Bool := c ≤ 0xD7FF || (0xE000 ≤ c && c ≤ 0x10FFFF)
def isLeadSurrogate (c : Nat) : Bool := 0xD800 ≤ c && c ≤ 0xDBFF
def isTrailSurrogate (c : Nat) : Bool := 0xDC00 ≤ c && c ≤ 0xDFFF

/-- `is_supplementary_code_point(body, location)` (the `IndexError` is caught inside). -/
def isSupplementary (body : List Nat) (i : Nat) : Bool :=
  match body[i]?, body[i + 1]? with
  | some a, some b => isLeadSurrogate a && isTrailSurrogate b
  | _, _ => false

/-- `_KIND_FOR_PUNCT.get(char)` -/
def punctKind (c : Nat) : Option TokKind :=
  if c = 33 then some .bang else if c = 36 then some .dollar else if c = 38 then some .amp
  else if c = 40 then some .parenL else if c = 41 then some .parenR else if c = 58 then some .colon
  else if c = 61 then some .equals else if c = 64 then some .at else if c = 91 then some .bracketL
  else if c = 93 then some .bracketR else if c = 123 then some .braceL else if c = 125 then some .braceR
  else if c = 124 then some .pipe else none

/-- `_ESCAPED_CHARS.get(s)` for a one-character (or empty) string. -/
def escapedChar : Option Nat → Option Nat
  | some 34 => some 34 | some 47 => some 47 | some 92 => some 92 | some 98 => some 8
  | some 102 => some 12 | some 110 => some 10 | some 114 => some 13 | some 116 => some 9
  | _ => none

/-- `read_hex_digit(char)` for a one-character (or empty) string; `none` = -1. -/
def readHexDigit : Option Nat → Option Nat
  | some c =>
    if 48 ≤ c ∧ c ≤ 57 then some (c - 48)
    else if 65 ≤ c ∧ c ≤ 70 then some (c - 55)
    else if 97 ≤ c ∧ c ≤ 102 then some (c - 87)
    else none
  | none => none

/-- `read_16_bit_hex_code(body, position)` (slices after the fix); `none` = negative. -/
def read16 (body : List Nat) (p : Nat) : Option Nat :=
  match readHexDigit (charAt body p), readHexDigit (charAt body (p + 1)),
        readHexDigit (charAt body (p + 2)), readHexDigit (charAt body (p + 3)) with
  | some a, some b, some c, some d => some (a * 4096 + b * 256 + c * 16 + d)
  | _, _, _, _ => none

def mkToken (st : LexState) (kind : TokKind) (start stop : Nat) (value : Option (List Nat)) : Token :=
  { kind, start, stop, line := st.line, column := 1 + start - st.lineStart, value }

/-- `read_comment` loop. -/
def readCommentLoop (body : List Nat) (pos : Nat) : LexOut Nat :=
  if h : pos < body.length then do
    let c ← Out.index body pos
    if c = 13 ∨ c = 10 then pure pos
    else if isScalar c then readCommentLoop body (pos + 1)
    else if isSupplementary body pos then readCommentLoop body (pos + 2)
    else pure pos
  else pure pos
termination_by body.length - pos

def readComment (body : List Nat) (st : LexState) (start : Nat) : LexOut Token := do
  let pos ← readCommentLoop body (start + 1)
  pure (mkToken st .comment start pos (some (slice body (start + 1) pos)))

/-- `while position < body_length and is_digit(body[position])` -/
def digitsLoop (body : List Nat) (pos : Nat) : LexOut Nat :=
  if h : pos < body.length then do
    let c ← Out.index body pos
    if isDigit c then digitsLoop body (pos + 1) else pure pos
  else pure pos
termination_by body.length - pos

/-- `read_digits(start, first_char)` -/
def readDigits (body : List Nat) (start : Nat) (first : Option Nat) : LexOut Nat :=
  if !isDigitOpt first then .err ⟨.expectedDigit, start⟩
  else digitsLoop body (start + 1)

def readNumber (body : List Nat) (st : LexState) (start : Nat) (first : Nat) : LexOut Token := do
  let mut position := start
  let mut char : Option Nat := some first
  let mut isFloat := false
  if char = some 45 then
    position := position + 1
    char := charAt body position
  if char = some 48 then
    position := position + 1
    char := charAt body position
    if isDigitOpt char then
      Out.err (⟨.digitAfterZero, position⟩ : LexErr)
  else
    position ← readDigits body position char
    char := charAt body position
  if char = some 46 then
    isFloat := true
    position := position + 1
    char := charAt body position
    position ← readDigits body position char
    char := charAt body position
  if char = some 69 ∨ char = some 101 then
    isFloat := true
    position := position + 1
    char := charAt body position
    if char = some 43 ∨ char = some 45 then
      position := position + 1
      char := charAt body position
    position ← readDigits body position char
    char := charAt body position
  if char = some 46 ∨ isNameStartOpt char then
    Out.err (⟨.expectedDigit, position⟩ : LexErr)
  pure (mkToken st (if isFloat then .float else .int) start position (some (slice body start position)))

def readNameLoop (body : List Nat) (pos : Nat) : LexOut Nat :=
  if h : pos < body.length then do
    let c ← Out.index body pos
    if isNameContinue c then readNameLoop body (pos + 1) else pure pos
  else pure pos
termination_by body.length - pos

def readName (body : List Nat) (st : LexState) (start : Nat) : LexOut Token := do
  let pos ← readNameLoop body (start + 1)
  pure (mkToken st .name start pos (some (slice body start pos)))

/-- `read_escaped_unicode_variable_width` loop: returns (value, size). -/
def varWidthLoop (body : List Nat) (position : Nat) (maxSize : Nat) (size : Nat) (point : Nat) :
    LexOut (Nat × Nat) :=
  if h : size < maxSize then do
    let c ← Out.index body (position + size)
    let size' := size + 1
    if c = 125 then
      if size' < 5 ∨ ¬ (point ≤ 0xD7FF ∨ (0xE000 ≤ point ∧ point ≤ 0x10FFFF)) then
        .err ⟨.invalidUnicodeEscape, position⟩
      else pure (point, size')
    else
      match readHexDigit (some c) with
      | some d => varWidthLoop body position maxSize size' (point * 16 + d)
      | none => .err ⟨.invalidUnicodeEscape, position⟩
  else .err ⟨.invalidUnicodeEscape, position⟩
termination_by maxSize - size

def readEscapedUnicodeVariableWidth (body : List Nat) (position : Nat) : LexOut (Nat × Nat) :=
  varWidthLoop body position (min 12 (body.length - position)) 3 0

def readEscapedUnicodeFixedWidth (body : List Nat) (position : Nat) : LexOut (List Nat × Nat) :=
  match read16 body (position + 2) with
  | none => .err ⟨.invalidUnicodeEscape, position⟩
  | some code =>
    if code ≤ 0xD7FF ∨ 0xE000 ≤ code then pure ([code], 6)
    else if isLeadSurrogate code ∧ slice body (position + 6) (position + 8) = [92, 117] then
      match read16 body (position + 8) with
      | some trailing =>
        if isTrailSurrogate trailing then
          pure ([0x10000 + (code - 0xD800) * 1024 + (trailing - 0xDC00)], 12)
        else .err ⟨.invalidUnicodeEscape, position⟩
      | none => .err ⟨.invalidUnicodeEscape, position⟩
    else .err ⟨.invalidUnicodeEscape, position⟩

def readEscapedCharacter (body : List Nat) (position : Nat) : LexOut (List Nat × Nat) :=
  match escapedChar (charAt body (position + 1)) with
  | some v => pure ([v], 2)
  | none => .err ⟨.invalidCharEscape, position⟩

/-- `read_string` main loop; `acc` is the value so far, `chunkStart` the pending chunk. -/
def readStringLoop (body : List Nat) (st : LexState) (start : Nat) (pos chunkStart : Nat)
    (acc : List Nat) : LexOut Token :=
  if h : pos < body.length then do
    let c ← Out.index body pos
    if c = 34 then
      pure (mkToken st .string start (pos + 1) (some (acc ++ slice body chunkStart pos)))
    else if c = 92 then
      let acc := acc ++ slice body chunkStart pos
      let esc ←
        if charAt body (pos + 1) = some 117 then
          if charAt body (pos + 2) = some 123 then do
            let (v, size) ← readEscapedUnicodeVariableWidth body pos
            pure ([v], size)
          else readEscapedUnicodeFixedWidth body pos
        else readEscapedCharacter body pos
      -- every escape has size ≥ 2; the guard keeps the recursion well-founded without an assumption
      if esc.2 = 0 then .crash "NoProgress"
      else readStringLoop body st start (pos + esc.2) (pos + esc.2) (acc ++ esc.1)
    else if c = 13 ∨ c = 10 then .err ⟨.unterminatedString, pos⟩
    else if isScalar c then readStringLoop body st start (pos + 1) chunkStart acc
    else if isSupplementary body pos then readStringLoop body st start (pos + 2) chunkStart acc
    else .err ⟨.invalidCharInString, pos⟩
  else .err ⟨.unterminatedString, pos⟩
termination_by body.length - pos
decreasing_by all_goals omega

def readString (body : List Nat) (st : LexState) (start : Nat) : LexOut Token :=
  readStringLoop body st start (start + 1) (start + 1) []

/-- `leading_white_space(s)` -/
def leadingWhiteSpace : List Nat → Nat
  | [] => 0
  | c :: rest => if c = 32 ∨ c = 9 then leadingWhiteSpace rest + 1 else 0

/-- First loop of `dedent_block_string_lines`: (common_indent or none=maxsize,
first_non_empty_line or none, last_non_empty_line or none=-1). -/
def dedentScan : List (List Nat) → Nat → Option Nat → Option Nat → Option Nat →
    (Option Nat × Option Nat × Option Nat)
  | [], _, ci, f, l => (ci, f, l)
  | line :: rest, i, ci, f, l =>
    let indent := leadingWhiteSpace line
    if indent = line.length then dedentScan rest (i + 1) ci f l
    else
      let f' := match f with | none => some i | some x => some x
      let ci' :=
        if i ≠ 0 then
          match ci with
          | none => some indent
          | some c => if indent < c then some indent else some c
        else ci
      dedentScan rest (i + 1) ci' f' (some i)

def dropIndent (ci : Option Nat) : List (List Nat) → Nat → List (List Nat)
  | [], _ => []
  | line :: rest, i =>
    (if i ≠ 0 then (match ci with | some c => line.drop c | none => []) else line)
      :: dropIndent ci rest (i + 1)

/-- `dedent_block_string_lines(lines)` -/
def dedentBlockStringLines (lines : List (List Nat)) : List (List Nat) :=
  let (ci, f, l) := dedentScan lines 0 none none none
  let first := match f with | some x => x | none => 0
  -- slice [first : last+1] with last = -1 when there is no non-empty line
  let stop := match l with | some x => x + 1 | none => 0
  ((dropIndent ci lines 0).drop first).take (stop - first)

def joinLines : List (List Nat) → List Nat
  | [] => []
  | [l] => l
  | l :: rest => l ++ [10] ++ joinLines rest

/-- `read_block_string` main loop.  `lineStart` is the local `line_start`; `curLine` the
current line text; `blockLines` the finished lines (in order). -/
def readBlockStringLoop (body : List Nat) (st : LexState) (start : Nat) (pos chunkStart : Nat)
    (lineStart : Nat) (curLine : List Nat) (blockLines : List (List Nat)) :
    LexOut (Token × LexState) :=
  if h : pos < body.length then do
    let c ← Out.index body pos
    if c = 34 ∧ slice body (pos + 1) (pos + 3) = [34, 34] then
      let curLine := curLine ++ slice body chunkStart pos
      let blockLines := blockLines ++ [curLine]
      let tok := mkToken st .blockString start (pos + 3)
        (some (joinLines (dedentBlockStringLines blockLines)))
      pure (tok, { line := st.line + (blockLines.length - 1), lineStart := lineStart })
    else if c = 92 ∧ slice body (pos + 1) (pos + 4) = [34, 34, 34] then
      readBlockStringLoop body st start (pos + 4) (pos + 1) lineStart
        (curLine ++ slice body chunkStart pos) blockLines
    else if c = 13 ∨ c = 10 then
      let curLine := curLine ++ slice body chunkStart pos
      let blockLines := blockLines ++ [curLine]
      let pos' := if c = 13 ∧ charAt body (pos + 1) = some 10 then pos + 2 else pos + 1
      readBlockStringLoop body st start pos' pos' pos' [] blockLines
    else if isScalar c then
      readBlockStringLoop body st start (pos + 1) chunkStart lineStart curLine blockLines
    else if isSupplementary body pos then
      readBlockStringLoop body st start (pos + 2) chunkStart lineStart curLine blockLines
    else .err ⟨.invalidCharInString, pos⟩
  else .err ⟨.unterminatedString, pos⟩
termination_by body.length - pos
decreasing_by
  all_goals simp_wf
  all_goals (try split) <;> omega

def readBlockString (body : List Nat) (st : LexState) (start : Nat) : LexOut (Token × LexState) :=
  readBlockStringLoop body st start (start + 3) (start + 3) st.lineStart [] []

/-- `while end < body_length and is_digit(body[end])` of the "digit before '.'" error path. -/
def dotDigitsLoop (body : List Nat) (pos : Nat) : LexOut Nat := digitsLoop body pos

/-- `read_next_token(start)` -/
def readNextToken (body : List Nat) (st : LexState) (pos : Nat) : LexOut (Token × LexState) :=
  if h : pos < body.length then do
    let c ← Out.index body pos
    if c = 32 ∨ c = 9 ∨ c = 44 ∨ c = 0xFEFF then readNextToken body st (pos + 1)
    else if c = 10 then readNextToken body { line := st.line + 1, lineStart := pos + 1 } (pos + 1)
    else if c = 13 then
      if charAt body (pos + 1) = some 10 then
        readNextToken body { line := st.line + 1, lineStart := pos + 2 } (pos + 2)
      else readNextToken body { line := st.line + 1, lineStart := pos + 1 } (pos + 1)
    else if c = 35 then do
      let t ← readComment body st pos
      pure (t, st)
    else if c = 34 then
      if slice body (pos + 1) (pos + 3) = [34, 34] then readBlockString body st pos
      else do
        let t ← readString body st pos
        pure (t, st)
    else
      match punctKind c with
      | some k => pure (mkToken st k pos (pos + 1) none, st)
      | none =>
        if isDigit c ∨ c = 45 then do
          let t ← readNumber body st pos c
          pure (t, st)
        else if isNameStart c then do
          let t ← readName body st pos
          pure (t, st)
        else
          let dotErr : Option LexErr :=
            if c = 46 then
              let next := charAt body (pos + 1)
              if next = some 46 then
                if charAt body (pos + 2) = some 46 then none  -- handled below (spread)
                else some ⟨.unexpectedDotDot, pos⟩
              else if isDigitOpt next then some ⟨.digitBeforeDot, pos⟩
              else none
            else none
          if c = 46 ∧ charAt body (pos + 1) = some 46 ∧ charAt body (pos + 2) = some 46 then
            pure (mkToken st .spread pos (pos + 3) none, st)
          else
            match dotErr with
            | some e =>
              if e.kind = .digitBeforeDot then do
                -- the message is built with a guarded loop over the digits
                let _ ← dotDigitsLoop body (pos + 1)
                .err e
              else .err e
            | none =>
              if c = 39 then .err ⟨.singleQuote, pos⟩
              else if isScalar c ∨ isSupplementary body pos then .err ⟨.unexpectedChar, pos⟩
              else .err ⟨.invalidChar, pos⟩
  else pure (mkToken st .eof body.length body.length none, st)
termination_by body.length - pos
decreasing_by all_goals omega

/-- `Lexer.lookahead`/`advance` driven to the end: all non-comment tokens up to and including
EOF, or the first syntax error.  Fuel `body.length + 2` always suffices (`lex_progress`). -/
def lexAllAux (body : List Nat) : Nat → LexState → Nat → List Token → LexOut (List Token)
  | 0, _, _, _ => .crash "OutOfFuel"
  | fuel + 1, st, pos, acc => do
    let (t, st') ← readNextToken body st pos
    if t.kind = .eof then pure (acc ++ [t])
    else if t.kind = .comment then lexAllAux body fuel st' t.stop acc
    else lexAllAux body fuel st' t.stop (acc ++ [t])

def lexAll (body : List Nat) : LexOut (List Token) :=
  lexAllAux body (body.length + 2) {} 0 []

end Gql.Text
