import Gql.Text.Out
/-
Model of `Source.get_location` (src/graphql/language/source.py) and of the line selection of
`print_source_location` (src/graphql/language/print_location.py), plus the specification's
notion of line/column (`Spec.lineCol`).

Strings are lists of code points (`Nat`), surrogates included.
-/
namespace Gql.Text

/-- `re.split(r"\r\n|[\n\r]", s)`: always at least one element. `cur` is the reversed
current line. -/
def splitNLAux : List Nat → List Nat → List (List Nat)
  | [], cur => [cur.reverse]
  | 13 :: 10 :: rest, cur => cur.reverse :: splitNLAux rest []
  | 13 :: rest, cur => cur.reverse :: splitNLAux rest []
  | 10 :: rest, cur => cur.reverse :: splitNLAux rest []
  | c :: rest, cur => splitNLAux rest (c :: cur)

def splitNL (s : List Nat) : List (List Nat) := splitNLAux s []

/-- `Source.get_location(position)`:
```
lines = _re_newline.split(self.body[:position])
return SourceLocation(len(lines), len(lines[-1]) + 1)
```
`lines[-1]` cannot fail (`re.split` never returns an empty list); the model keeps the
crash branch so that this is a theorem (`getLocation_no_crash`), not an assumption. -/
def getLocation (body : List Nat) (position : Nat) : Out Unit (Nat × Nat) :=
  let lines := splitNL (body.take position)
  match lines.getLast? with
  | some last => .ok (lines.length, last.length + 1)
  | none => .crash "IndexError"

/-- The excerpted line of `print_source_location`: `lines[line_index]` where
`lines = _re_newline.split("".rjust(colOffset) + body)` and `line_index = line - 1`.
Python's negative index wraps (`line = 0` gives `lines[-1]`); for `line ≥ 1` the subscript
raises `IndexError` when out of range. -/
def excerptLine (body : List Nat) (colOffset : Nat) (line : Nat) : Out Unit (List Nat) :=
  let lines := splitNL (List.replicate colOffset 32 ++ body)
  if line = 0 then
    match lines.getLast? with
    | some l => .ok l
    | none => .crash "IndexError"
  else Out.index lines (line - 1)

/-- Line and column numbers `print_source_location` prints, given `location_offset`
`(offLine, offCol)` (both ≥ 1, enforced by `Source.__init__`). -/
def renderedLineCol (offLine offCol : Nat) (loc : Nat × Nat) : Nat × Nat :=
  let firstLineColumnOffset := offCol - 1
  let lineNum := loc.1 + (offLine - 1)
  let columnOffset := if loc.1 = 1 then firstLineColumnOffset else 0
  (lineNum, loc.2 + columnOffset)

namespace Spec

/-- The line terminators of `body` (LF, CR LF, CR and nothing else), left to right with
CR LF taken as one, as `(start, end)` offsets; `i` is the offset of the head of `body`. -/
def terms : List Nat → Nat → List (Nat × Nat)
  | [], _ => []
  | 13 :: 10 :: rest, i => (i, i + 2) :: terms rest (i + 2)
  | 13 :: rest, i => (i, i + 1) :: terms rest (i + 1)
  | 10 :: rest, i => (i, i + 1) :: terms rest (i + 1)
  | _ :: rest, i => terms rest (i + 1)

/-- End offset of the last terminator in a list (0 if there is none: start of text). -/
def lastEnd (ts : List (Nat × Nat)) : Nat :=
  match ts.getLast? with
  | some t => t.2
  | none => 0

/-- line = 1 + number of line terminators that end at or before the offset;
column = 1 + distance from the end of the last of them. -/
def lineCol (body : List Nat) (p : Nat) : Nat × Nat :=
  let ts := (terms body 0).filter (fun t => t.2 ≤ p)
  (1 + ts.length, 1 + (p - lastEnd ts))

/-- Offset `p` falls strictly between a CR and the LF that completes it. -/
def insideCRLF (body : List Nat) (p : Nat) : Prop :=
  0 < p ∧ body[p - 1]? = some 13 ∧ body[p]? = some 10

instance (body : List Nat) (p : Nat) : Decidable (insideCRLF body p) := by
  unfold insideCRLF; infer_instance

/-- The `k`-th line (1-based) of `body` under the same terminator set. -/
def nthLine (body : List Nat) (k : Nat) : Option (List Nat) :=
  if k = 0 then none else (splitNL body)[k - 1]?

end Spec
end Gql.Text

namespace Gql.Text.Spec

/-- `body[a:b]` -/
def sliceOf (body : List Nat) (a b : Nat) : List Nat := (body.drop a).take (b - a)

/-- The lines of `body` given its terminators: the stretches of text between the end of one
terminator (or the start of the text) and the start of the next (or the end of the text). -/
def linesOf (body : List Nat) : List (Nat × Nat) → Nat → List (List Nat)
  | [], start => [sliceOf body start body.length]
  | (s, e) :: rest, start => sliceOf body start s :: linesOf body rest e

/-- All lines of a source text under the terminator set LF / CR LF / CR. -/
def lines (body : List Nat) : List (List Nat) := linesOf body (terms body 0) 0

end Gql.Text.Spec
