import Gql.Generated.EscapeTable
/-
Model of `graphql.language.print_string.print_string` (src/graphql/language/print_string.py):

    return f'"{s.translate(escape_sequences)}"'

`str.translate(table)` maps every character whose ordinal is a key of the table to the
table's replacement text and copies every other character.  The table itself is **not**
written here: it is `Gql.Generated.escapeTable`, regenerated from the source on every run.
-/
namespace Gql.Text

/-- `escape_sequences.get(ord(c))` -/
def escapeLookup (table : List (Nat × List Nat)) (c : Nat) : Option (List Nat) :=
  match table with
  | [] => none
  | (k, v) :: rest => if k = c then some v else escapeLookup rest c

/-- `s.translate(table)` -/
def translate (table : List (Nat × List Nat)) : List Nat → List Nat
  | [] => []
  | c :: rest =>
    (match escapeLookup table c with
     | some e => e
     | none => [c]) ++ translate table rest

/-- `print_string(s)` with an explicit table. -/
def printStringWith (table : List (Nat × List Nat)) (s : List Nat) : List Nat :=
  [34] ++ translate table s ++ [34]

/-- `print_string(s)` -/
def printString (s : List Nat) : List Nat := printStringWith Generated.escapeTable s

end Gql.Text
