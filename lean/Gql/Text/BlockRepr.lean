import Gql.Text.Lexer
/-
`BlockRepresentable v`: the explicit, decidable description of the values a GraphQL block
string literal can denote (specification §2.9.4, `BlockStringValue`): the value is empty, or
  * it contains no carriage return (every CR in the raw text is a line terminator and is
    normalised to LF),
  * its first and its last line are not blank (blank = spaces and tabs only; leading and trailing
    blank lines are removed),
  * it is a single line, or some non-blank line has no leading space/tab (the common indentation
    has been removed).
`Gql/Proofs/BlockForced.lean` proves that every value the lexer produces satisfies it;
`Gql/Proofs/BlockRoundtrip.lean` proves that every such value is printed to a literal that
lexes back to it.  So the predicate is forced, not chosen.
-/
namespace Gql.Text

/-- Split at LF only (the value of a block string never contains CR). -/
def splitLF : List Nat → List (List Nat)
  | [] => [[]]
  | c :: rest =>
    if c = 10 then [] :: splitLF rest
    else
      match splitLF rest with
      | l :: ls => (c :: l) :: ls
      | [] => [[c]]

/-- A line that `dedent_block_string_lines` treats as empty: spaces and tabs only. -/
def isBlankLine (l : List Nat) : Bool := leadingWhiteSpace l == l.length

/-- A non-blank line without leading white space. -/
def startsUnindented : List Nat → Bool
  | [] => false
  | c :: _ => !(c = 32 || c = 9)

def blockRepresentableLines (ls : List (List Nat)) : Bool :=
  match ls.head?, ls.getLast? with
  | some first, some last =>
    !isBlankLine first && !isBlankLine last && (ls.length == 1 || ls.any startsUnindented)
  | _, _ => false

def blockRepresentable (v : List Nat) : Bool :=
  v == [] || (!v.contains 13 && blockRepresentableLines (splitLF v))

/-- The decidable predicate used as the hypothesis of `block_roundtrip`. -/
def BlockRepresentable (v : List Nat) : Prop := blockRepresentable v = true

instance (v : List Nat) : Decidable (BlockRepresentable v) := by
  unfold BlockRepresentable; infer_instance

end Gql.Text
