import Gql.Text.Lexer
/-
Model of `graphql.language.schema_coordinate_lexer.SchemaCoordinateLexer.read_next_token`
(src/graphql/language/schema_coordinate_lexer.py), index-based and crash-faithful like the lexer
model: `body[position]` is `Out.index`.  The coordinate lexer never changes `line`/`line_start`
(no ignored tokens), so every token is on line 1 with column `1 + start`.
-/
namespace Gql.Text

/-- `_KIND_FOR_PUNCT.get(char)` of schema_coordinate_lexer.py -/
def coordPunctKind (c : Nat) : Option TokKind :=
  if c = 46 then some .dot else if c = 40 then some .parenL else if c = 41 then some .parenR
  else if c = 58 then some .colon else if c = 64 then some .at else none

/-- `Lexer.print_code_point_at(location)` reduced to its subscripts: `body[location]` is guarded by
`location >= len(body)`; the supplementary-code-point test catches its own `IndexError`. -/
def printCodePointAt (body : List Nat) (pos : Nat) : LexOut Unit :=
  if pos ≥ body.length then pure ()
  else do
    let _ ← Out.index body pos
    pure ()

/-- `SchemaCoordinateLexer.read_next_token(start)` -/
def coordReadNextToken (body : List Nat) (pos : Nat) : LexOut Token :=
  if pos < body.length then do
    let c ← Out.index body pos
    match coordPunctKind c with
    | some k => pure (mkToken {} k pos (pos + 1) none)
    | none =>
      if isNameStart c then readName body {} pos
      else do
        printCodePointAt body pos
        .err ⟨.invalidChar, pos⟩
  else pure (mkToken {} .eof body.length body.length none)

end Gql.Text
