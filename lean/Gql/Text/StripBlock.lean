import Gql.Text.Out
/-!
Model of `graphql.language.block_string.print_block_string` (block_string.py, after the fix
`d3a6320`: lines are split on `\r\n | \n | \r` only), as used by `strip_ignored_characters`
(`minimize=True`).  Every subscript in the Python function is guarded (`value and value[0]`,
`not line or line[0]`), so the function is total and the model returns a plain list.
The width `70` is a parameter.
-/
namespace Gql.Text

/-- `value.replace('"""', '\\"""')` (left to right, non-overlapping). -/
def replaceTripleQuote : List Nat → List Nat
  | 34 :: 34 :: 34 :: rest => [92, 34, 34, 34] ++ replaceTripleQuote rest
  | c :: rest => c :: replaceTripleQuote rest
  | [] => []

/-- `re.split(r"\r\n|[\n\r]", s)` -/
def reSplitNewlineAux (cur : List Nat) : List Nat → List (List Nat)
  | [] => [cur]
  | 13 :: 10 :: rest => cur :: reSplitNewlineAux [] rest
  | 13 :: rest => cur :: reSplitNewlineAux [] rest
  | 10 :: rest => cur :: reSplitNewlineAux [] rest
  | c :: rest => reSplitNewlineAux (cur ++ [c]) rest

def reSplitNewline (s : List Nat) : List (List Nat) := reSplitNewlineAux [] s

/-- `s.endswith(suffix)` -/
def endsWith (s suffix : List Nat) : Bool :=
  suffix.length ≤ s.length && s.drop (s.length - suffix.length) == suffix

/-- `not line or line[0] in " \t"` -/
def emptyOrIndented : List Nat → Bool
  | [] => true
  | c :: _ => c = 32 || c = 9

/-- `print_block_string(value, minimize)` with the line-length constant `width` (70). -/
def printBlockString (value : List Nat) (minimize : Bool) (width : Nat := 70) : List Nat :=
  let escaped := replaceTripleQuote value
  let lines := reSplitNewline escaped
  let numLines := lines.length
  let isSingleLine := numLines == 1
  let forceLeadingNewLine := decide (numLines > 1) && lines.tail.all emptyOrIndented
  let hasTrailingTripleQuotes := endsWith escaped [92, 34, 34, 34]
  let hasTrailingQuote := endsWith value [34] && !hasTrailingTripleQuotes
  let hasTrailingSlash := endsWith value [92]
  let forceTrailingNewLine := hasTrailingQuote || hasTrailingSlash
  let printAsMultipleLines := !minimize &&
    (!isSingleLine || decide (value.length > width) || forceTrailingNewLine || forceLeadingNewLine
      || hasTrailingTripleQuotes)
  let skipLeadingNewLine := isSingleLine && (match value with
    | c :: _ => c = 32 || c = 9
    | [] => false)
  let before : List Nat :=
    if (printAsMultipleLines && !skipLeadingNewLine) || forceLeadingNewLine then [10] else []
  let after : List Nat := if printAsMultipleLines || forceTrailingNewLine then [10] else []
  [34, 34, 34] ++ before ++ escaped ++ after ++ [34, 34, 34]

end Gql.Text
