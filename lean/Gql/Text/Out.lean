/-
Outcome type shared by all models: a Python call either returns a value, raises the
library's own error (`GraphQLError`/`GraphQLSyntaxError`, payload `ε`), or *crashes* with
some other exception class (`IndexError`, `TypeError`, ...).  Lean's totality therefore
proves nothing by itself: "never a crash" is a theorem about each model.
-/
namespace Gql

inductive Out (ε : Type) (α : Type) where
  | ok (a : α)
  | err (e : ε)
  | crash (cls : String)
  deriving Repr, DecidableEq

namespace Out
variable {ε α β : Type}

def isCrash : Out ε α → Bool
  | crash _ => true
  | _ => false

def isOk : Out ε α → Bool
  | ok _ => true
  | _ => false

def isErr : Out ε α → Bool
  | err _ => true
  | _ => false

@[inline] def bind (x : Out ε α) (f : α → Out ε β) : Out ε β :=
  match x with
  | ok a => f a
  | err e => err e
  | crash c => crash c

instance : Monad (Out ε) where
  pure := ok
  bind := bind

@[simp] theorem bind_ok (a : α) (f : α → Out ε β) : (ok a >>= f) = f a := rfl
@[simp] theorem bind_err (e : ε) (f : α → Out ε β) : ((err e : Out ε α) >>= f) = err e := rfl
@[simp] theorem bind_crash (c : String) (f : α → Out ε β) :
    ((crash c : Out ε α) >>= f) = crash c := rfl
@[simp] theorem pure_eq (a : α) : (pure a : Out ε α) = ok a := rfl

/-- Python `xs[i]` on a list/str: `IndexError` when out of range (non-negative index). -/
def index (xs : List α) (i : Nat) : Out ε α :=
  match xs[i]? with
  | some a => ok a
  | none => crash "IndexError"

end Out
end Gql
