import Gql.Text.Lexer
import Gql.Text.BlockString
/-!
Model of `graphql.utilities.strip_ignored_characters` (strip_ignored_characters.py:74-100) and of
the token counter of `Parser.advance_lexer` (parser.py:1400-1412).
-/
namespace Gql.Text

/-- `is_punctuator_token_kind(kind)` (`_punctuator_token_kinds`, lexer.py). -/
def isPunctuatorKind : TokKind → Bool
  | .bang | .dollar | .amp | .parenL | .parenR | .dot | .spread | .colon | .equals | .at
  | .bracketL | .bracketR | .braceL | .pipe | .braceR => true
  | _ => false

/-- The body of the `while lexer.advance().kind != TokenKind.EOF` loop, folded over the
(non-comment) tokens; `wasNonPunct` is `was_last_added_token_non_punctuator`. -/
def stripLoop (body : List Nat) : List Token → Bool → List Nat → List Nat
  | [], _, acc => acc
  | t :: rest, wasNonPunct, acc =>
    if t.kind = .eof then acc
    else
      let isNonPunct := !isPunctuatorKind t.kind
      let acc := if wasNonPunct && (isNonPunct || t.kind = .spread) then acc ++ [32] else acc
      let acc :=
        if t.kind = .blockString then
          acc ++ printBlockString (match t.value with | some v => v | none => []) true
        else acc ++ slice body t.start t.stop
      stripLoop body rest isNonPunct acc

/-- `strip_ignored_characters(source)`: the lexer is driven to EOF (a syntax error anywhere
aborts with that error; nothing of the partial result is observable). -/
def stripIgnoredCharacters (body : List Nat) : LexOut (List Nat) := do
  let ts ← lexAll body
  pure (stripLoop body ts false [])

/-- `Parser.advance_lexer` driven over a token stream (the tokens `lexer.advance()` returns,
comments already skipped): the counter after the last token, or the "more than n tokens" error
at the start of the first token over the limit.  `maxTokens = none` is `max_tokens=None`. -/
def advanceAll (maxTokens : Option Nat) : List Token → Nat → Out Nat Nat
  | [], counter => .ok counter
  | t :: rest, counter =>
    if t.kind = .eof then .ok counter
    else
      let counter := counter + 1
      match maxTokens with
      | some n => if counter > n then .err t.start else advanceAll maxTokens rest counter
      | none => advanceAll maxTokens rest counter

end Gql.Text
