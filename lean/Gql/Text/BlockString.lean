import Gql.Generated.EscapeTable
/-
Model of `print_block_string` and `is_printable_as_block_string`
(src/graphql/language/block_string.py).  `dedent_block_string_lines` is modelled in
`Gql/Text/Lexer.lean` (`dedentBlockStringLines`), where the lexer uses it.

The width literal `70` is the parameter `width` (T1 constant `Generated.blockWidth`).
-/
namespace Gql.Text

/-- `value.replace('"""', '\\"""')` (leftmost, non-overlapping). -/
def escapeTQ : List Nat → List Nat
  | 34 :: 34 :: 34 :: rest => 92 :: 34 :: 34 :: 34 :: escapeTQ rest
  | c :: rest => c :: escapeTQ rest
  | [] => []

/-- `re.compile(r"\r\n|[\n\r]").split(s)`; always at least one element. -/
def reSplitNL : List Nat → List (List Nat)
  | [] => [[]]
  | 13 :: 10 :: rest => [] :: reSplitNL rest
  | 13 :: rest => [] :: reSplitNL rest
  | 10 :: rest => [] :: reSplitNL rest
  | c :: rest =>
    match reSplitNL rest with
    | l :: ls => (c :: l) :: ls
    | [] => [[c]]

/-- `c in " \t"` -/
def isBlankCh (c : Nat) : Bool := c = 32 || c = 9

/-- `not line or line[0] in " \t"` -/
def emptyOrIndented : List Nat → Bool
  | [] => true
  | c :: _ => isBlankCh c

/-- `value and value[0] in " \t"` -/
def startsBlank : List Nat → Bool
  | [] => false
  | c :: _ => isBlankCh c

/-- `s.endswith(suffix)` -/
def endsWith (s suffix : List Nat) : Bool := suffix.isSuffixOf s

/-- The decisions `print_block_string` takes before assembling the text. -/
structure PbsFlags where
  forceLeadingNewLine : Bool
  forceTrailingNewLine : Bool
  printAsMultipleLines : Bool
  skipLeadingNewLine : Bool
  deriving Repr, DecidableEq

def pbsFlags (width : Nat) (value : List Nat) (minimize : Bool) : PbsFlags :=
  let escaped := escapeTQ value
  let lines := reSplitNL escaped
  let numLines := lines.length
  let isSingleLine := numLines == 1
  -- `num_lines > 1 and all(not line or line[0] in " \t" for line in lines[1:])`
  let forceLeadingNewLine := decide (numLines > 1) && (lines.drop 1).all emptyOrIndented
  let hasTrailingTripleQuotes := endsWith escaped [92, 34, 34, 34]
  let hasTrailingQuote := endsWith value [34] && !hasTrailingTripleQuotes
  let hasTrailingSlash := endsWith value [92]
  let forceTrailingNewLine := hasTrailingQuote || hasTrailingSlash
  let printAsMultipleLines := !minimize &&
    (!isSingleLine || decide (value.length > width) || forceTrailingNewLine
      || forceLeadingNewLine || hasTrailingTripleQuotes)
  -- `is_single_line and value and value[0] in " \t"`
  let skipLeadingNewLine := isSingleLine && startsBlank value
  { forceLeadingNewLine, forceTrailingNewLine, printAsMultipleLines, skipLeadingNewLine }

/-- `before` -/
def pbsBefore (f : PbsFlags) : List Nat :=
  if (f.printAsMultipleLines && !f.skipLeadingNewLine) || f.forceLeadingNewLine then [10] else []

/-- `after` -/
def pbsAfter (f : PbsFlags) : List Nat :=
  if f.printAsMultipleLines || f.forceTrailingNewLine then [10] else []

/-- `print_block_string(value, minimize)`: `f'"""{before}{escaped_value}{after}"""'` -/
def printBlockStringW (width : Nat) (value : List Nat) (minimize : Bool) : List Nat :=
  let f := pbsFlags width value minimize
  [34, 34, 34] ++ pbsBefore f ++ escapeTQ value ++ pbsAfter f ++ [34, 34, 34]

def printBlockString (value : List Nat) (minimize : Bool) : List Nat :=
  printBlockStringW Generated.blockWidth value minimize

/-- Loop state of `is_printable_as_block_string`. -/
structure PrintableSt where
  isEmptyLine : Bool := true
  hasIndent : Bool := false
  hasCommonIndent : Bool := true
  seenNonEmptyLine : Bool := false
  deriving Repr, DecidableEq

/-- The `for c in value` loop; `none` = an early `return False`. -/
def printableLoop : List Nat → PrintableSt → Option PrintableSt
  | [], st => some st
  | c :: rest, st =>
    if c = 10 then
      if st.isEmptyLine && !st.seenNonEmptyLine then none
      else printableLoop rest { st with seenNonEmptyLine := true, isEmptyLine := true, hasIndent := false }
    else if c = 32 ∨ c = 9 then
      printableLoop rest { st with hasIndent := st.hasIndent || st.isEmptyLine }
    else if c ≤ 15 then none
    else
      printableLoop rest { st with hasCommonIndent := st.hasCommonIndent && st.hasIndent, isEmptyLine := false }

/-- `is_printable_as_block_string(value)` -/
def isPrintableAsBlockString (value : List Nat) : Bool :=
  match value with
  | [] => true
  | _ =>
    match printableLoop value {} with
    | none => false
    | some st =>
      if st.isEmptyLine then false
      else if st.hasCommonIndent && st.seenNonEmptyLine then false
      else true

end Gql.Text
