import Gql.Text.Out
import Gql.Syntax.Ast
import Gql.Text.PrintString
import Gql.Text.BlockString
/-
Model of `print_ast` (src/graphql/language/printer.py) over the generic AST.

`print_ast` is `visit(ast, PrintAstVisitor())`: the visitor replaces, bottom-up, every child
node by the string its `leave_*` method returned, then calls `leave_*` of the parent on the
node whose node-valued fields now hold strings.  The model does the same: `pr` prints all
fields of a node (`Printed`), then the non-recursive `leave` assembles the text.

Width literals (`80` in `leave_list_value`, `MAX_LINE_LENGTH` in `leave_object_value` and
`wrapped_line_and_args`, `70` in `print_block_string`) are the parameter `Widths`.

A field of the wrong shape (a node where a tuple is expected, a missing required field, an
unknown class) is `crash "Shape"`: such trees are outside the domain (the Python printer would
render `None`, raise `TypeError`, ...; not modelled).  Falsy optional fields — `None`, `()` —
print alike, as in Python (`join`/`wrap` test truthiness).
-/
namespace Gql.Syntax
open Gql Gql.Text

structure Widths where
  list : Nat
  object : Nat
  args : Nat
  block : Nat
  deriving Repr

def Widths.generated : Widths :=
  ⟨Generated.listWidth, Generated.objectWidth, Generated.argsWidth, Generated.blockWidth⟩

/-- A field of a node after its children have been visited. -/
inductive Printed where
  | text (s : List Nat)            -- a child node, printed
  | texts (ss : List (List Nat))   -- a tuple of child nodes, printed
  | raw (s : List Nat)             -- a `str` field (also `OperationType.value`)
  | bool (b : Bool)
  | none
  deriving Repr, Inhabited

abbrev POut (α : Type) := Out Unit α

def S (s : String) : List Nat := s.toList.map Char.toNat

/-- `join(strings, separator)`: `separator.join(s for s in strings if s) if strings else ""` -/
def joinWith (sep : List Nat) : List (List Nat) → List Nat
  | [] => []
  | [x] => x
  | x :: rest => x ++ sep ++ joinWith sep rest

def join (strings : List (List Nat)) (sep : List Nat := []) : List Nat :=
  joinWith sep (strings.filter (fun s => !s.isEmpty))

/-- `wrap(start, string, end)` -/
def wrap (start string : List Nat) (stop : List Nat := []) : List Nat :=
  if string.isEmpty then [] else start ++ string ++ stop

/-- `string.replace("\n", "\n  ")` -/
def indentNL : List Nat → List Nat
  | [] => []
  | c :: rest => if c = 10 then 10 :: 32 :: 32 :: indentNL rest else c :: indentNL rest

/-- `indent(string)` -/
def indent (string : List Nat) : List Nat := wrap [32, 32] (indentNL string)

/-- `block(strings)` -/
def block (strings : List (List Nat)) : List Nat :=
  wrap [123, 10] (indent (join strings [10])) [10, 125]

def isMultiline (s : List Nat) : Bool := s.contains 10

def hasMultilineItems (strings : List (List Nat)) : Bool := strings.any isMultiline

/-- `wrapped_line_and_args(prefix, args)` -/
def wrappedLineAndArgs (w : Widths) (pre : List Nat) (args : List (List Nat)) : List Nat :=
  let argsLine := pre ++ wrap [40] (join args [44, 32]) [41]
  if argsLine.length > w.args then pre ++ wrap [40, 10] (indent (join args [10])) [10, 41]
  else argsLine

/-! ### field access -/

def fld (fs : List (String × Printed)) (k : String) : Option Printed :=
  (fs.find? (fun p => p.1 == k)).map (·.2)

/-- A required printed child. -/
def reqText (fs : List (String × Printed)) (k : String) : POut (List Nat) :=
  match fld fs k with
  | some (.text t) => .ok t
  | _ => .crash "Shape"

/-- An optional printed child (`None` -> ""). -/
def optText (fs : List (String × Printed)) (k : String) : POut (List Nat) :=
  match fld fs k with
  | some (.text t) => .ok t
  | some .none => .ok []
  | Option.none => .ok []
  | _ => .crash "Shape"

/-- An optional tuple of printed children (`None`/`()` -> no items). -/
def optTexts (fs : List (String × Printed)) (k : String) : POut (List (List Nat)) :=
  match fld fs k with
  | some (.texts ts) => .ok ts
  | some .none => .ok []
  | Option.none => .ok []
  | _ => .crash "Shape"

def reqRaw (fs : List (String × Printed)) (k : String) : POut (List Nat) :=
  match fld fs k with
  | some (.raw t) => .ok t
  | _ => .crash "Shape"

/-- A bool-or-None field by truthiness. -/
def optBool (fs : List (String × Printed)) (k : String) : POut Bool :=
  match fld fs k with
  | some (.bool b) => .ok b
  | some .none => .ok false
  | Option.none => .ok false
  | _ => .crash "Shape"

def reqBool (fs : List (String × Printed)) (k : String) : POut Bool :=
  match fld fs k with
  | some (.bool b) => .ok b
  | _ => .crash "Shape"

/-- `Node.kind` without the snake-casing: the class name without `Const` prefix. -/
def baseClass (cls : String) : String :=
  if cls.startsWith "Const" then (cls.drop 5).toString else cls

/-- `leave_document` (after the fix e7002aa): a shorthand query that follows a definition not
ending with a block gets the `query` keyword. -/
def documentDefs : Option (List Nat) → List (List Nat) → List (List Nat)
  | _, [] => []
  | prev, d :: rest =>
    let d' :=
      match prev with
      | some p => if d.head? = some 123 ∧ p.getLast? ≠ some 125 then S "query " ++ d else d
      | Option.none => d
    d' :: documentDefs (some d) rest

/-- The argument list of `leave_field_definition` / `leave_directive_definition`. -/
def argDefs (args : List (List Nat)) : List Nat :=
  if hasMultilineItems args then wrap [40, 10] (indent (join args [10])) [10, 41]
  else wrap [40] (join args [44, 32]) [41]

/-- All `leave_*` methods. -/
def leave (w : Widths) (cls : String) (fs : List (String × Printed)) : POut (List Nat) :=
  let sp : List Nat := [32]
  let dirs : POut (List Nat) := do let ds ← optTexts fs "directives"; pure (join ds sp)
  let desc : POut (List Nat) := do let d ← optText fs "description"; pure (wrap [] d [10])
  match baseClass cls with
  | "NameNode" => reqRaw fs "value"
  | "VariableNode" => do let n ← reqText fs "name"; pure (36 :: n)
  | "DocumentNode" => do
    let ds ← optTexts fs "definitions"
    pure (join (documentDefs Option.none ds) [10, 10])
  | "OperationDefinitionNode" => do
    let vds ← optTexts fs "variable_definitions"
    let varDefs :=
      if hasMultilineItems vds then wrap [40, 10] (join vds [10]) [10, 41]
      else wrap [40] (join vds [44, 32]) [41]
    let op ← reqRaw fs "operation"
    let name ← optText fs "name"
    let pre := (← desc) ++ join [op, join [name, varDefs], ← dirs] sp
    let ss ← reqText fs "selection_set"
    pure ((if pre = S "query" then [] else pre ++ sp) ++ ss)
  | "VariableDefinitionNode" => do
    let v ← reqText fs "variable"
    let t ← reqText fs "type"
    let dv ← optText fs "default_value"
    pure ((← desc) ++ v ++ S ": " ++ t ++ wrap (S " = ") dv ++ wrap sp (← dirs))
  | "SelectionSetNode" => do let ss ← optTexts fs "selections"; pure (block ss)
  | "FieldNode" => do
    let alias ← optText fs "alias"
    let name ← reqText fs "name"
    let pre := join [wrap [] alias (S ": "), name]
    let args ← optTexts fs "arguments"
    let ss ← optText fs "selection_set"
    pure (join [wrappedLineAndArgs w pre args, wrap sp (← dirs), wrap sp ss])
  | "ArgumentNode" | "FragmentArgumentNode" | "ObjectFieldNode" => do
    let n ← reqText fs "name"
    let v ← reqText fs "value"
    pure (n ++ S ": " ++ v)
  | "FragmentSpreadNode" => do
    let n ← reqText fs "name"
    let args ← optTexts fs "arguments"
    pure (wrappedLineAndArgs w (S "..." ++ n) args ++ wrap sp (← dirs))
  | "InlineFragmentNode" => do
    let tc ← optText fs "type_condition"
    let ss ← reqText fs "selection_set"
    pure (join [S "...", wrap (S "on ") tc, ← dirs, ss] sp)
  | "FragmentDefinitionNode" => do
    let n ← reqText fs "name"
    let vds ← optTexts fs "variable_definitions"
    let tc ← reqText fs "type_condition"
    let ss ← reqText fs "selection_set"
    pure ((← desc) ++ S "fragment " ++ n ++ wrap [40] (join vds [44, 32]) [41] ++ S " on " ++ tc
      ++ sp ++ wrap [] (← dirs) sp ++ ss)
  | "IntValueNode" | "FloatValueNode" | "EnumValueNode" => reqRaw fs "value"
  | "StringValueNode" => do
    let v ← reqRaw fs "value"
    let b ← optBool fs "block"
    pure (if b then printBlockStringW w.block v false else printString v)
  | "BooleanValueNode" => do
    let b ← reqBool fs "value"
    pure (if b then S "true" else S "false")
  | "NullValueNode" => pure (S "null")
  | "ListValueNode" => do
    let vs ← optTexts fs "values"
    let line := [91] ++ join vs [44, 32] ++ [93]
    pure (if line.length > w.list then [91] ++ [10] ++ indent (join vs [10]) ++ [10] ++ [93] else line)
  | "ObjectValueNode" => do
    let fields ← optTexts fs "fields"
    let line := [123, 32] ++ join fields [44, 32] ++ [32, 125]
    pure (if line.length > w.object then block fields else line)
  | "DirectiveNode" => do
    let n ← reqText fs "name"
    let args ← optTexts fs "arguments"
    pure (64 :: n ++ wrap [40] (join args [44, 32]) [41])
  | "NamedTypeNode" => reqText fs "name"
  | "ListTypeNode" => do let t ← reqText fs "type"; pure ([91] ++ t ++ [93])
  | "NonNullTypeNode" => do let t ← reqText fs "type"; pure (t ++ [33])
  | "SchemaDefinitionNode" => do
    let ots ← optTexts fs "operation_types"
    pure ((← desc) ++ join [S "schema", ← dirs, block ots] sp)
  | "OperationTypeDefinitionNode" => do
    let op ← reqRaw fs "operation"
    let t ← reqText fs "type"
    pure (op ++ S ": " ++ t)
  | "ScalarTypeDefinitionNode" => do
    let n ← reqText fs "name"
    pure ((← desc) ++ join [S "scalar", n, ← dirs] sp)
  | "ObjectTypeDefinitionNode" => do
    let n ← reqText fs "name"
    let ifs ← optTexts fs "interfaces"
    let fields ← optTexts fs "fields"
    pure ((← desc) ++ join [S "type", n, wrap (S "implements ") (join ifs (S " & ")), ← dirs, block fields] sp)
  | "InterfaceTypeDefinitionNode" => do
    let n ← reqText fs "name"
    let ifs ← optTexts fs "interfaces"
    let fields ← optTexts fs "fields"
    pure ((← desc) ++ join [S "interface", n, wrap (S "implements ") (join ifs (S " & ")), ← dirs, block fields] sp)
  | "FieldDefinitionNode" => do
    let n ← reqText fs "name"
    let args ← optTexts fs "arguments"
    let t ← reqText fs "type"
    pure ((← desc) ++ n ++ argDefs args ++ S ": " ++ t ++ wrap sp (← dirs))
  | "InputValueDefinitionNode" => do
    let n ← reqText fs "name"
    let t ← reqText fs "type"
    let dv ← optText fs "default_value"
    pure ((← desc) ++ join [n ++ S ": " ++ t, wrap (S "= ") dv, ← dirs] sp)
  | "UnionTypeDefinitionNode" => do
    let n ← reqText fs "name"
    let types ← optTexts fs "types"
    pure ((← desc) ++ join [S "union", n, ← dirs, wrap (S "= ") (join types (S " | "))] sp)
  | "EnumTypeDefinitionNode" => do
    let n ← reqText fs "name"
    let vs ← optTexts fs "values"
    pure ((← desc) ++ join [S "enum", n, ← dirs, block vs] sp)
  | "EnumValueDefinitionNode" => do
    let n ← reqText fs "name"
    pure ((← desc) ++ join [n, ← dirs] sp)
  | "InputObjectTypeDefinitionNode" => do
    let n ← reqText fs "name"
    let fields ← optTexts fs "fields"
    pure ((← desc) ++ join [S "input", n, ← dirs, block fields] sp)
  | "DirectiveDefinitionNode" => do
    let n ← reqText fs "name"
    let args ← optTexts fs "arguments"
    let rep ← optBool fs "repeatable"
    let locs ← optTexts fs "locations"
    pure ((← desc) ++ S "directive @" ++ n ++ argDefs args ++ wrap sp (← dirs)
      ++ (if rep then S " repeatable" else []) ++ S " on " ++ join locs (S " | "))
  | "SchemaExtensionNode" => do
    let ots ← optTexts fs "operation_types"
    pure (join [S "extend schema", ← dirs, block ots] sp)
  | "DirectiveExtensionNode" => do
    let n ← reqText fs "name"
    pure (join [S "extend directive @" ++ n, ← dirs] sp)
  | "ScalarTypeExtensionNode" => do
    let n ← reqText fs "name"
    pure (join [S "extend scalar", n, ← dirs] sp)
  | "ObjectTypeExtensionNode" => do
    let n ← reqText fs "name"
    let ifs ← optTexts fs "interfaces"
    let fields ← optTexts fs "fields"
    pure (join [S "extend type", n, wrap (S "implements ") (join ifs (S " & ")), ← dirs, block fields] sp)
  | "InterfaceTypeExtensionNode" => do
    let n ← reqText fs "name"
    let ifs ← optTexts fs "interfaces"
    let fields ← optTexts fs "fields"
    pure (join [S "extend interface", n, wrap (S "implements ") (join ifs (S " & ")), ← dirs, block fields] sp)
  | "UnionTypeExtensionNode" => do
    let n ← reqText fs "name"
    let types ← optTexts fs "types"
    pure (join [S "extend union", n, ← dirs, wrap (S "= ") (join types (S " | "))] sp)
  | "EnumTypeExtensionNode" => do
    let n ← reqText fs "name"
    let vs ← optTexts fs "values"
    pure (join [S "extend enum", n, ← dirs, block vs] sp)
  | "InputObjectTypeExtensionNode" => do
    let n ← reqText fs "name"
    let fields ← optTexts fs "fields"
    pure (join [S "extend input", n, ← dirs, block fields] sp)
  | "TypeCoordinateNode" => reqText fs "name"
  | "MemberCoordinateNode" => do
    let n ← reqText fs "name"
    let m ← optText fs "member_name"
    pure (join [n, wrap [46] m])
  | "ArgumentCoordinateNode" => do
    let n ← reqText fs "name"
    let f ← optText fs "field_name"
    let a ← optText fs "argument_name"
    pure (join [n, wrap [46] f, wrap [40] a (S ":)")])
  | "DirectiveCoordinateNode" => do let n ← reqText fs "name"; pure (64 :: n)
  | "DirectiveArgumentCoordinateNode" => do
    let n ← reqText fs "name"
    let a ← optText fs "argument_name"
    pure (64 :: n ++ wrap [40] a (S ":)"))
  | _ => .crash "Shape"

mutual
  /-- Visit a field value: nodes are printed, tuples element-wise, scalars stay. -/
  def pr (w : Widths) : Ast → POut Printed
    | .node cls fs => do
      let pfs ← prFields w fs
      let t ← leave w cls pfs
      pure (.text t)
    | .list xs => do
      let ts ← prList w xs
      pure (.texts ts)
    | .str s => pure (.raw s)
    | .bool b => pure (.bool b)
    | .none => pure .none
  def prList (w : Widths) : List Ast → POut (List (List Nat))
    | [] => pure []
    | x :: xs => do
      let p ← pr w x
      match p with
      | .text t => do
        let ts ← prList w xs
        pure (t :: ts)
      | _ => .crash "Shape"
  def prFields (w : Widths) : List (String × Ast) → POut (List (String × Printed))
    | [] => pure []
    | (k, v) :: rest => do
      let p ← pr w v
      let ps ← prFields w rest
      pure ((k, p) :: ps)
end

/-- `print_ast(ast)` -/
def printAst (w : Widths) (a : Ast) : POut (List Nat) := do
  match ← pr w a with
  | .text t => pure t
  | _ => .crash "Shape"

end Gql.Syntax
