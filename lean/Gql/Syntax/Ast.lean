/-
Generic AST used by the parser / printer models and by the line protocol.

`node cls fields` mirrors a `graphql.language.ast.Node` dataclass instance: `cls` is the Python
class name (`FieldNode`, `ConstDirectiveNode`, ...), `fields` are the dataclass fields in
declaration order **without** `loc`.  A field value is a node, a tuple of nodes (`list`), a
`str` (code points; also used for `OperationType` values), a `bool`, or `None`.

Wire format (tokens separated by single blanks):
  node  `( Cls f1 v1 f2 v2 ... )`    tuple `[ v ... ]`    str `s:104,105` (`s:` when empty)
  bool  `#t` / `#f`                   None  `~`
-/
namespace Gql.Syntax

inductive Ast where
  | node (cls : String) (fields : List (String × Ast))
  | list (items : List Ast)
  | str (s : List Nat)
  | bool (b : Bool)
  | none
  deriving Repr, Inhabited

namespace Ast

mutual
  def beq : Ast → Ast → Bool
    | node c fs, node c' fs' => c == c' && beqFields fs fs'
    | list xs, list ys => beqList xs ys
    | str a, str b => a == b
    | bool a, bool b => a == b
    | none, none => true
    | _, _ => false
  def beqList : List Ast → List Ast → Bool
    | [], [] => true
    | x :: xs, y :: ys => beq x y && beqList xs ys
    | _, _ => false
  def beqFields : List (String × Ast) → List (String × Ast) → Bool
    | [], [] => true
    | (k, x) :: xs, (k', y) :: ys => k == k' && beq x y && beqFields xs ys
    | _, _ => false
end

instance : BEq Ast := ⟨beq⟩

def showCps (s : List Nat) : String :=
  "s:" ++ ",".intercalate (s.map toString)

mutual
  partial def toWire : Ast → String
    | node c fs => "( " ++ c ++ fieldsWire fs ++ " )"
    | list xs => "[" ++ listWire xs ++ " ]"
    | str s => showCps s
    | bool true => "#t"
    | bool false => "#f"
    | none => "~"
  partial def fieldsWire : List (String × Ast) → String
    | [] => ""
    | (k, v) :: rest => " " ++ k ++ " " ++ toWire v ++ fieldsWire rest
  partial def listWire : List Ast → String
    | [] => ""
    | x :: rest => " " ++ toWire x ++ listWire rest
end

def parseCps (w : String) : Option (List Nat) :=
  let body := (w.drop 2).toString
  if body.isEmpty then some [] else (body.splitOn ",").mapM (fun x => x.toNat?)

/-- Parse one value from a token list (fuel = number of tokens). -/
def parseWire : Nat → List String → Option (Ast × List String)
  | 0, _ => Option.none
  | fuel + 1, toks =>
    match toks with
    | [] => Option.none
    | "~" :: rest => some (none, rest)
    | "#t" :: rest => some (bool true, rest)
    | "#f" :: rest => some (bool false, rest)
    | "[" :: rest =>
      let rec items (f : Nat) (ts : List String) (acc : List Ast) : Option (Ast × List String) :=
        match f with
        | 0 => Option.none
        | f + 1 =>
          match ts with
          | "]" :: rest => some (list acc.reverse, rest)
          | _ =>
            match parseWire fuel ts with
            | some (v, rest) => if rest.length < ts.length then items f rest (v :: acc) else Option.none
            | Option.none => Option.none
      items (rest.length + 1) rest []
    | "(" :: cls :: rest =>
      let rec flds (f : Nat) (ts : List String) (acc : List (String × Ast)) :
          Option (Ast × List String) :=
        match f with
        | 0 => Option.none
        | f + 1 =>
          match ts with
          | ")" :: rest => some (node cls acc.reverse, rest)
          | k :: ts' =>
            match parseWire fuel ts' with
            | some (v, rest) => flds f rest ((k, v) :: acc)
            | Option.none => Option.none
          | [] => Option.none
      flds (rest.length + 1) rest []
    | w :: rest =>
      if w.startsWith "s:" then (parseCps w).map (fun s => (str s, rest)) else Option.none

def ofWire (toks : List String) : Option Ast :=
  match parseWire (toks.length + 1) toks with
  | some (a, []) => some a
  | _ => Option.none

def field? (fs : List (String × Ast)) (k : String) : Option Ast :=
  (fs.find? (fun p => p.1 == k)).map (·.2)

end Ast
end Gql.Syntax
