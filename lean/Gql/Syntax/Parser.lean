import Gql.Text.Lexer
import Gql.Text.CoordLexer
import Gql.Syntax.Ast
import Gql.Generated.ParserTables
/-
Model of `graphql.language.parser` (src/graphql/language/parser.py): the recursive-descent parser
over the *lazily lexed* token stream, crash-faithful and fuel-indexed.

* `Stream` is what the lexer yields after the current token: a non-comment token and the rest, the
  `<EOF>` token, a lexical error (raised only when the parser *reaches* it: `Lexer.advance` /
  `Lexer.lookahead`), or a crash of the lexer (excluded by `lex_no_crash`, kept so that the parser
  theorems assume nothing about the lexer).
* `P α = PS → Out PErr (α × PS)`: parser state = current token, the stream behind it and the token
  counter of `advance_lexer` (`max_tokens`).
* The `getattr(self, f"parse_{name}")` dispatch goes through the tables regenerated from the source
  (`Gql.Generated.ParserTables`); a name the model does not know is `crash "AttributeError"`.
* AST nodes are `Ast.node cls fields` with the fields in `dataclasses.fields` order (from the
  generated `nodeClasses`), `loc` omitted (so `no_location` does not change the model's result).
* Fuel: every loop (`many`/`any`/`optional_many`/`delimited_many`/`parse_directives`) and every
  recursive knot (value literal, type reference, selection set) takes fuel; exhaustion is
  `crash "OutOfFuel"` and stands for CPython's recursion limit.  `Gql.Props.C01.parse_fuel_sufficient`
  proves that `Stream.length + 3` is never exhausted.
-/
namespace Gql.Syntax
open Gql Gql.Text
open Gql.Generated

inductive SynKind where
  | expected                 -- "Expected X, found Y."
  | unexpected               -- "Unexpected Y."
  | unexpectedDescription    -- "Unexpected description, ..."
  | unexpectedVariable       -- "Unexpected variable '$x' in constant value."
  | reservedEnumValue        -- "Name 'true' is reserved and cannot be used for an enum value."
  | tooManyTokens            -- "Document contains more than N tokens. Parsing aborted."
  deriving Repr, DecidableEq, Inhabited

inductive PErr where
  | lex (e : LexErr)
  | syn (kind : SynKind) (pos : Nat)
  deriving Repr, DecidableEq

/-- What `Lexer.lookahead()` finds behind the current token. -/
inductive Stream where
  | eof (start line column : Nat)
  | lexErr (e : LexErr)
  | crash (cls : String)
  | cons (t : Token) (rest : Stream)
  deriving Repr

namespace Stream
def length : Stream → Nat
  | cons _ r => r.length + 1
  | _ => 0

def NoCrash : Stream → Prop
  | cons _ r => r.NoCrash
  | crash _ => False
  | _ => True
end Stream

/-- Parser options (`no_location` only affects `loc`, which the model omits). -/
structure Cfg where
  maxTokens : Option Int := none
  fragArgs : Bool := false       -- experimental_fragment_arguments
  dirOnDir : Bool := false       -- experimental_directives_on_directive_definitions
  deriving Repr

structure PS where
  cur : Token
  rest : Stream
  count : Nat

def P (α : Type) := PS → Out PErr (α × PS)

namespace P
@[inline] def pure' {α} (a : α) : P α := fun s => .ok (a, s)
@[inline] def bind' {α β} (p : P α) (f : α → P β) : P β := fun s =>
  match p s with
  | .ok (a, s') => f a s'
  | .err e => .err e
  | .crash c => .crash c
instance : Monad P where
  pure := pure'
  bind := bind'
def fail {α} (e : PErr) : P α := fun _ => .err e
def crash {α} (c : String) : P α := fun _ => .crash c
/-- `self._lexer.token` -/
def cur : P Token := fun s => .ok (s.cur, s)
end P

def sofToken : Token := { kind := .sof, start := 0, stop := 0, line := 0, column := 0, value := none }
def eofToken (start line column : Nat) : Token :=
  { kind := .eof, start, stop := start, line, column, value := none }

/-- `TokenKind` member names (keys of `_parse_value_literal_method_names`). -/
def kindPyName : TokKind → String
  | .sof => "SOF" | .eof => "EOF" | .bang => "BANG" | .dollar => "DOLLAR" | .amp => "AMP"
  | .parenL => "PAREN_L" | .parenR => "PAREN_R" | .dot => "DOT" | .spread => "SPREAD"
  | .colon => "COLON" | .equals => "EQUALS" | .at => "AT" | .bracketL => "BRACKET_L"
  | .bracketR => "BRACKET_R" | .braceL => "BRACE_L" | .pipe => "PIPE" | .braceR => "BRACE_R"
  | .name => "NAME" | .int => "INT" | .float => "FLOAT" | .string => "STRING"
  | .blockString => "BLOCK_STRING" | .comment => "COMMENT"

def strCps (s : String) : List Nat := s.toList.map Char.toNat

/-- `token.value == "<s>"` -/
def valueIs (t : Token) (s : String) : Bool := t.value == some (strCps s)

/-- `table.get(token.value)` for a `Mapping[str, str]` -/
def lookupKw (tbl : List (String × String)) (v : Option (List Nat)) : Option String :=
  match v with
  | none => none
  | some v => (tbl.find? (fun p => strCps p.1 == v)).map (·.2)

/-- A node instance: fields in `dataclasses.fields` order, absent keyword = its default `None`
(`ctor_calls_wellformed` proves from the generated call table that only fields with a default are
ever omitted and that no unknown keyword is passed). -/
def mkNode (cls : String) (given : List (String × Ast)) : Ast :=
  match ParserTables.nodeClasses.lookup cls with
  | some fs => .node cls (fs.map fun kd => (kd.1, (given.lookup kd.1).getD .none))
  | none => .node cls given

/-- One `XxxNode(kw=…)` call of parser.py against the dataclass it constructs (`kw_only=True`): the
class exists, every keyword is `loc` or a field, every field without a default is passed, no keyword
twice — otherwise the call raises `TypeError`. -/
def ctorCallOk (c : String × List String) : Bool :=
  match ParserTables.nodeClasses.lookup c.1 with
  | some fs =>
    c.2.all (fun k => k == "loc" || fs.any (fun f => f.1 == k)) &&
    fs.all (fun f => f.2 || c.2.contains f.1) &&
    decide c.2.Nodup
  | none => false

def tokVal (t : Token) : Ast :=
  match t.value with
  | some v => .str v
  | none => .none

/-- `token.value or ""` -/
def tokValOrEmpty (t : Token) : Ast :=
  match t.value with
  | some v => .str v
  | none => .str []

def optList (xs : List Ast) : Ast := if xs.isEmpty then .none else .list xs
def optAst : Option Ast → Ast
  | some a => a
  | none => .none
def optListO : Option (List Ast) → Ast
  | some xs => .list xs
  | none => .none
/-- Python truthiness of an optional tuple (`None` and `()` are falsy). -/
def truthyO : Option (List Ast) → Bool
  | some xs => !xs.isEmpty
  | none => false

/-! ### Core utilities (parser.py 1243-1412) -/

/-- `Lexer.lookahead()` -/
def lookahead : P Token := fun s =>
  if s.cur.kind = .eof then .ok (s.cur, s)
  else
    match s.rest with
    | .cons t _ => .ok (t, s)
    | .eof a l c => .ok (eofToken a l c, s)
    | .lexErr e => .err (.lex e)
    | .crash c => .crash c

/-- `Parser.advance_lexer()`: `Lexer.advance()` then the `max_tokens` accounting. -/
def advanceLexer (cfg : Cfg) : P Unit := fun s =>
  if s.cur.kind = .eof then .ok ((), s)
  else
    match s.rest with
    | .cons t r =>
      if t.kind = .eof then .ok ((), { s with cur := t, rest := r })
      else
        let count := s.count + 1
        match cfg.maxTokens with
        | some m =>
          if (count : Int) > m then .err (.syn .tooManyTokens t.start)
          else .ok ((), { cur := t, rest := r, count := count })
        | none => .ok ((), { cur := t, rest := r, count := count })
    | .eof a l c => .ok ((), { s with cur := eofToken a l c })
    | .lexErr e => .err (.lex e)
    | .crash c => .crash c

/-- `Parser.peek(kind)` -/
def peek (k : TokKind) : P Bool := fun s => .ok (s.cur.kind == k, s)

/-- `Parser.expect_token(kind)` -/
def expectToken (cfg : Cfg) (k : TokKind) : P Token := do
  let t ← P.cur
  if t.kind = k then do
    advanceLexer cfg
    pure t
  else P.fail (.syn .expected t.start)

/-- `Parser.expect_optional_token(kind)` -/
def expectOptionalToken (cfg : Cfg) (k : TokKind) : P Bool := do
  let t ← P.cur
  if t.kind = k then do
    advanceLexer cfg
    pure true
  else pure false

/-- `Parser.expect_keyword(value)` -/
def expectKeyword (cfg : Cfg) (v : String) : P Unit := do
  let t ← P.cur
  if t.kind = .name ∧ valueIs t v = true then advanceLexer cfg
  else P.fail (.syn .expected t.start)

/-- `Parser.expect_optional_keyword(value)` -/
def expectOptionalKeyword (cfg : Cfg) (v : String) : P Bool := do
  let t ← P.cur
  if t.kind = .name ∧ valueIs t v = true then do
    advanceLexer cfg
    pure true
  else pure false

/-- `raise self.unexpected(at_token)` (a `Token` is always truthy) -/
def unexpected {α} (at? : Option Token) : P α := do
  let t ← P.cur
  P.fail (.syn .unexpected (match at? with | some a => a.start | none => t.start))

/-- the `while not expect_optional_token(close_kind): append(parse_fn())` loop -/
def untilClose (cfg : Cfg) (close : TokKind) (item : P Ast) : Nat → List Ast → P (List Ast)
  | 0, _ => P.crash "OutOfFuel"
  | n + 1, acc => do
    let closed ← expectOptionalToken cfg close
    if closed then pure acc
    else do
      let x ← item
      untilClose cfg close item n (acc ++ [x])

/-- `Parser.any(open, parse_fn, close)` -/
def parseAny (cfg : Cfg) (n : Nat) (open_ : TokKind) (item : P Ast) (close : TokKind) : P (List Ast) := do
  let _ ← expectToken cfg open_
  untilClose cfg close item n []

/-- `Parser.many(open, parse_fn, close)` -/
def parseMany (cfg : Cfg) (n : Nat) (open_ : TokKind) (item : P Ast) (close : TokKind) : P (List Ast) := do
  let _ ← expectToken cfg open_
  let x ← item
  untilClose cfg close item n [x]

/-- `Parser.optional_many(open, parse_fn, close)`; `none` = Python `None` -/
def parseOptionalMany (cfg : Cfg) (n : Nat) (open_ : TokKind) (item : P Ast) (close : TokKind) :
    P (Option (List Ast)) := do
  let opened ← expectOptionalToken cfg open_
  if opened then do
    let x ← item
    let xs ← untilClose cfg close item n [x]
    pure (some xs)
  else pure none

/-- the `while True: append(parse_fn()); if not expect_optional_token(delimiter): break` loop -/
def delimitedLoop (cfg : Cfg) (delim : TokKind) (item : P Ast) : Nat → List Ast → P (List Ast)
  | 0, _ => P.crash "OutOfFuel"
  | n + 1, acc => do
    let x ← item
    let more ← expectOptionalToken cfg delim
    if more then delimitedLoop cfg delim item n (acc ++ [x])
    else pure (acc ++ [x])

/-- `Parser.delimited_many(delimiter, parse_fn)` -/
def parseDelimitedMany (cfg : Cfg) (n : Nat) (delim : TokKind) (item : P Ast) : P (List Ast) := do
  let _ ← expectOptionalToken cfg delim
  delimitedLoop cfg delim item n []

/-! ### Names, strings, descriptions -/

/-- `parse_name` -/
def parseName (cfg : Cfg) : P Ast := do
  let t ← expectToken cfg .name
  pure (mkNode "NameNode" [("value", tokVal t)])

/-- `parse_named_type` -/
def parseNamedType (cfg : Cfg) : P Ast := do
  let name ← parseName cfg
  pure (mkNode "NamedTypeNode" [("name", name)])

/-- `parse_string_literal` -/
def parseStringLiteral (cfg : Cfg) : P Ast := do
  let t ← P.cur
  advanceLexer cfg
  pure (mkNode "StringValueNode" [("value", tokValOrEmpty t), ("block", .bool (t.kind == .blockString))])

/-- `peek_description` -/
def peekDescription : P Bool := do
  let t ← P.cur
  pure (t.kind == .string || t.kind == .blockString)

/-- `parse_description`; `Ast.none` = Python `None` -/
def parseDescription (cfg : Cfg) : P Ast := do
  let d ← peekDescription
  if d then parseStringLiteral cfg else pure .none

/-- `parse_variable` -/
def parseVariable (cfg : Cfg) : P Ast := do
  let _ ← expectToken cfg .dollar
  let name ← parseName cfg
  pure (mkNode "VariableNode" [("name", name)])

/-! ### Values (parser.py 626-720) -/

/-- method names the value-literal `getattr` can resolve in the model -/
def knownValueMethods : List String :=
  ["list", "object", "int", "float", "string_literal", "named_values", "variable_value"]

/-- `parse_int` / `parse_float` -/
def parseNumber (cfg : Cfg) (cls : String) : P Ast := do
  let t ← P.cur
  advanceLexer cfg
  pure (mkNode cls [("value", tokValOrEmpty t)])

/-- `parse_named_values` -/
def parseNamedValues (cfg : Cfg) : P Ast := do
  let t ← P.cur
  advanceLexer cfg
  if valueIs t "true" then pure (mkNode "BooleanValueNode" [("value", .bool true)])
  else if valueIs t "false" then pure (mkNode "BooleanValueNode" [("value", .bool false)])
  else if valueIs t "null" then pure (mkNode "NullValueNode" [])
  else pure (mkNode "EnumValueNode" [("value", tokValOrEmpty t)])

/-- `parse_variable_value(is_const)` -/
def parseVariableValue (cfg : Cfg) (isConst : Bool) : P Ast :=
  if isConst then do
    let varTok ← expectToken cfg .dollar
    let t ← P.cur
    if t.kind = .name then P.fail (.syn .unexpectedVariable varTok.start)
    else unexpected (some varTok)
  else parseVariable cfg

/-- `parse_object_field(is_const)` given the value parser -/
def parseObjectField (cfg : Cfg) (value : P Ast) : P Ast := do
  let name ← parseName cfg
  let _ ← expectToken cfg .colon
  let v ← value
  pure (mkNode "ObjectFieldNode" [("name", name), ("value", v)])

/-- `getattr(self, f"parse_{method_name}")(is_const)` for the value-literal table; `value` is the
recursive `parse_value_literal(is_const)` one level down. -/
def dispatchValue (cfg : Cfg) (n : Nat) (isConst : Bool) (value : P Ast) (m : String) : P Ast :=
  if m = "list" then do
    let vs ← parseAny cfg n .bracketL value .bracketR
    pure (mkNode "ListValueNode" [("values", .list vs)])
  else if m = "object" then do
    let fs ← parseAny cfg n .braceL (parseObjectField cfg value) .braceR
    pure (mkNode "ObjectValueNode" [("fields", .list fs)])
  else if m = "int" then parseNumber cfg "IntValueNode"
  else if m = "float" then parseNumber cfg "FloatValueNode"
  else if m = "string_literal" then parseStringLiteral cfg
  else if m = "named_values" then parseNamedValues cfg
  else if m = "variable_value" then parseVariableValue cfg isConst
  else P.crash "AttributeError"

/-- `_parse_value_literal_method_names.get(kind)`; an empty name is falsy -/
def valueMethodOf (k : TokKind) : Option String :=
  match ParserTables.valueLiteralMethods.lookup (kindPyName k) with
  | some m => if m = "" then none else some m
  | none => none

/-- `parse_value_literal(is_const)` -/
def valueLit : Nat → Cfg → Bool → P Ast
  | 0, _, _ => P.crash "OutOfFuel"
  | n + 1, cfg, isConst => do
    let t ← P.cur
    match valueMethodOf t.kind with
    | some m => dispatchValue cfg n isConst (valueLit n cfg isConst) m
    | none => unexpected none

/-! ### Types -/

/-- `parse_type_reference` -/
def typeRef : Nat → Cfg → P Ast
  | 0, _ => P.crash "OutOfFuel"
  | n + 1, cfg => do
    let isList ← expectOptionalToken cfg .bracketL
    let ty ←
      (if isList then do
        let inner ← typeRef n cfg
        let _ ← expectToken cfg .bracketR
        pure (mkNode "ListTypeNode" [("type", inner)])
      else parseNamedType cfg)
    let bang ← expectOptionalToken cfg .bang
    if bang then pure (mkNode "NonNullTypeNode" [("type", ty)]) else pure ty

/-! ### Arguments, directives, variable definitions -/

/-- `parse_argument(is_const)` / `parse_const_argument` / `parse_fragment_argument` -/
def parseArgument (cfg : Cfg) (n : Nat) (cls : String) (isConst : Bool) : P Ast := do
  let name ← parseName cfg
  let _ ← expectToken cfg .colon
  let v ← valueLit n cfg isConst
  pure (mkNode cls [("name", name), ("value", v)])

/-- `parse_arguments(is_const)` -/
def parseArguments (cfg : Cfg) (n : Nat) (isConst : Bool) : P (Option (List Ast)) :=
  parseOptionalMany cfg n .parenL (parseArgument cfg n "ArgumentNode" isConst) .parenR

/-- `parse_fragment_arguments` -/
def parseFragmentArguments (cfg : Cfg) (n : Nat) : P (Option (List Ast)) :=
  parseOptionalMany cfg n .parenL (parseArgument cfg n "FragmentArgumentNode" false) .parenR

/-- `parse_directive(is_const)` -/
def parseDirective (cfg : Cfg) (n : Nat) (isConst : Bool) : P Ast := do
  let _ ← expectToken cfg .at
  let name ← parseName cfg
  let args ← parseArguments cfg n isConst
  pure (mkNode "DirectiveNode" [("name", name), ("arguments", optListO args)])

/-- the `while self.peek(TokenKind.AT)` loop of `parse_directives` -/
def directivesLoop (cfg : Cfg) (n : Nat) (isConst : Bool) : Nat → List Ast → P (List Ast)
  | 0, _ => P.crash "OutOfFuel"
  | k + 1, acc => do
    let at_ ← peek .at
    if at_ then do
      let d ← parseDirective cfg n isConst
      directivesLoop cfg n isConst k (acc ++ [d])
    else pure acc

/-- `parse_directives(is_const)`: `None` when there is none -/
def parseDirectives (cfg : Cfg) (n : Nat) (isConst : Bool) : P (Option (List Ast)) := do
  let ds ← directivesLoop cfg n isConst n []
  pure (if ds.isEmpty then none else some ds)

/-- `parse_variable_definition` -/
def parseVariableDefinition (cfg : Cfg) (n : Nat) : P Ast := do
  let description ← parseDescription cfg
  let var_ ← parseVariable cfg
  let _ ← expectToken cfg .colon
  let ty ← typeRef n cfg
  let hasDefault ← expectOptionalToken cfg .equals
  let dflt ← (if hasDefault then valueLit n cfg true else pure .none)
  let directives ← parseDirectives cfg n true
  pure (mkNode "VariableDefinitionNode"
    [("description", description), ("variable", var_), ("type", ty), ("default_value", dflt),
     ("directives", optListO directives)])

/-- `parse_variable_definitions` -/
def parseVariableDefinitions (cfg : Cfg) (n : Nat) : P (Option (List Ast)) :=
  parseOptionalMany cfg n .parenL (parseVariableDefinition cfg n) .parenR

/-! ### Selections (parser.py 477-622) -/

/-- `parse_fragment_name` -/
def parseFragmentName (cfg : Cfg) : P Ast := do
  let t ← P.cur
  if valueIs t "on" then unexpected none else parseName cfg

/-- `parse_field`, `ss` = `parse_selection_set` one level down -/
def parseField (cfg : Cfg) (n : Nat) (ss : P Ast) : P Ast := do
  let nameOrAlias ← parseName cfg
  let hasAlias ← expectOptionalToken cfg .colon
  let name ← (if hasAlias then parseName cfg else pure nameOrAlias)
  let args ← parseArguments cfg n false
  let directives ← parseDirectives cfg n false
  let hasSel ← peek .braceL
  let sel ← (if hasSel then ss else pure .none)
  pure (mkNode "FieldNode"
    [("alias", if hasAlias then nameOrAlias else .none), ("name", name),
     ("arguments", optListO args), ("directives", optListO directives), ("selection_set", sel)])

/-- `parse_fragment` -/
def parseFragment (cfg : Cfg) (n : Nat) (ss : P Ast) : P Ast := do
  let _ ← expectToken cfg .spread
  let hasTypeCondition ← expectOptionalKeyword cfg "on"
  let isName ← peek .name
  if !hasTypeCondition && isName then do
    let name ← parseFragmentName cfg
    let paren ← peek .parenL
    if paren && cfg.fragArgs then do
      let args ← parseFragmentArguments cfg n
      let directives ← parseDirectives cfg n false
      pure (mkNode "FragmentSpreadNode"
        [("name", name), ("arguments", optListO args), ("directives", optListO directives)])
    else do
      let directives ← parseDirectives cfg n false
      pure (mkNode "FragmentSpreadNode" [("name", name), ("directives", optListO directives)])
  else do
    let tc ← (if hasTypeCondition then parseNamedType cfg else pure .none)
    let directives ← parseDirectives cfg n false
    let sel ← ss
    pure (mkNode "InlineFragmentNode"
      [("type_condition", tc), ("directives", optListO directives), ("selection_set", sel)])

/-- `parse_selection` -/
def parseSelection (cfg : Cfg) (n : Nat) (ss : P Ast) : P Ast := do
  let spread ← peek .spread
  if spread then parseFragment cfg n ss else parseField cfg n ss

/-- `parse_selection_set` -/
def selectionSet : Nat → Cfg → P Ast
  | 0, _ => P.crash "OutOfFuel"
  | n + 1, cfg => do
    let sels ← parseMany cfg n .braceL (parseSelection cfg n (selectionSet n cfg)) .braceR
    pure (mkNode "SelectionSetNode" [("selections", .list sels)])

/-! ### Executable definitions -/

/-- `parse_operation_type`: `OperationType(token.value)`, `ValueError` → `unexpected(token)` -/
def parseOperationType (cfg : Cfg) : P Ast := do
  let t ← expectToken cfg .name
  if ParserTables.operationTypes.any (fun o => valueIs t o) then pure (tokVal t)
  else unexpected (some t)

/-- `parse_operation_definition` -/
def parseOperationDefinition (cfg : Cfg) (n : Nat) : P Ast := do
  let brace ← peek .braceL
  if brace then do
    let sel ← selectionSet n cfg
    pure (mkNode "OperationDefinitionNode"
      [("operation", .str (strCps "query")), ("description", .none), ("name", .none),
       ("variable_definitions", .none), ("directives", .none), ("selection_set", sel)])
  else do
    let description ← parseDescription cfg
    let operation ← parseOperationType cfg
    let isName ← peek .name
    let name ← (if isName then parseName cfg else pure .none)
    let vds ← parseVariableDefinitions cfg n
    let directives ← parseDirectives cfg n false
    let sel ← selectionSet n cfg
    pure (mkNode "OperationDefinitionNode"
      [("operation", operation), ("description", description), ("name", name),
       ("variable_definitions", optListO vds), ("directives", optListO directives),
       ("selection_set", sel)])

/-- `parse_type_condition` -/
def parseTypeCondition (cfg : Cfg) : P Ast := do
  expectKeyword cfg "on"
  parseNamedType cfg

/-- `parse_fragment_definition` -/
def parseFragmentDefinition (cfg : Cfg) (n : Nat) : P Ast := do
  let description ← parseDescription cfg
  expectKeyword cfg "fragment"
  let name ← parseFragmentName cfg
  let vds ← (if cfg.fragArgs then do
      let v ← parseVariableDefinitions cfg n
      pure (optListO v)
    else pure (.list []))
  let tc ← parseTypeCondition cfg
  let directives ← parseDirectives cfg n false
  let sel ← selectionSet n cfg
  pure (mkNode "FragmentDefinitionNode"
    [("description", description), ("name", name), ("variable_definitions", vds),
     ("type_condition", tc), ("directives", optListO directives), ("selection_set", sel)])

/-! ### Type system definitions (parser.py 803-1195) -/

/-- `parse_operation_type_definition` -/
def parseOperationTypeDefinition (cfg : Cfg) : P Ast := do
  let operation ← parseOperationType cfg
  let _ ← expectToken cfg .colon
  let ty ← parseNamedType cfg
  pure (mkNode "OperationTypeDefinitionNode" [("operation", operation), ("type", ty)])

/-- `parse_schema_definition` -/
def parseSchemaDefinition (cfg : Cfg) (n : Nat) : P Ast := do
  let description ← parseDescription cfg
  expectKeyword cfg "schema"
  let directives ← parseDirectives cfg n true
  let ots ← parseMany cfg n .braceL (parseOperationTypeDefinition cfg) .braceR
  pure (mkNode "SchemaDefinitionNode"
    [("description", description), ("directives", optListO directives), ("operation_types", .list ots)])

/-- `parse_scalar_type_definition` -/
def parseScalarTypeDefinition (cfg : Cfg) (n : Nat) : P Ast := do
  let description ← parseDescription cfg
  expectKeyword cfg "scalar"
  let name ← parseName cfg
  let directives ← parseDirectives cfg n true
  pure (mkNode "ScalarTypeDefinitionNode"
    [("description", description), ("name", name), ("directives", optListO directives)])

/-- `parse_implements_interfaces` -/
def parseImplementsInterfaces (cfg : Cfg) (n : Nat) : P (Option (List Ast)) := do
  let impl ← expectOptionalKeyword cfg "implements"
  if impl then do
    let xs ← parseDelimitedMany cfg n .amp (parseNamedType cfg)
    pure (some xs)
  else pure none

/-- `parse_input_value_def` -/
def parseInputValueDef (cfg : Cfg) (n : Nat) : P Ast := do
  let description ← parseDescription cfg
  let name ← parseName cfg
  let _ ← expectToken cfg .colon
  let ty ← typeRef n cfg
  let hasDefault ← expectOptionalToken cfg .equals
  let dflt ← (if hasDefault then valueLit n cfg true else pure .none)
  let directives ← parseDirectives cfg n true
  pure (mkNode "InputValueDefinitionNode"
    [("description", description), ("name", name), ("type", ty), ("default_value", dflt),
     ("directives", optListO directives)])

/-- `parse_argument_defs` -/
def parseArgumentDefs (cfg : Cfg) (n : Nat) : P (Option (List Ast)) :=
  parseOptionalMany cfg n .parenL (parseInputValueDef cfg n) .parenR

/-- `parse_field_definition` -/
def parseFieldDefinition (cfg : Cfg) (n : Nat) : P Ast := do
  let description ← parseDescription cfg
  let name ← parseName cfg
  let args ← parseArgumentDefs cfg n
  let _ ← expectToken cfg .colon
  let ty ← typeRef n cfg
  let directives ← parseDirectives cfg n true
  pure (mkNode "FieldDefinitionNode"
    [("description", description), ("name", name), ("arguments", optListO args), ("type", ty),
     ("directives", optListO directives)])

/-- `parse_fields_definition` -/
def parseFieldsDefinition (cfg : Cfg) (n : Nat) : P (Option (List Ast)) :=
  parseOptionalMany cfg n .braceL (parseFieldDefinition cfg n) .braceR

/-- `parse_object_type_definition` / `parse_interface_type_definition` (same body up to the keyword
and the node class) -/
def parseObjectLikeDefinition (cfg : Cfg) (n : Nat) (kw cls : String) : P Ast := do
  let description ← parseDescription cfg
  expectKeyword cfg kw
  let name ← parseName cfg
  let interfaces ← parseImplementsInterfaces cfg n
  let directives ← parseDirectives cfg n true
  let fields ← parseFieldsDefinition cfg n
  pure (mkNode cls
    [("description", description), ("name", name), ("interfaces", optListO interfaces),
     ("directives", optListO directives), ("fields", optListO fields)])

/-- `parse_union_member_types` -/
def parseUnionMemberTypes (cfg : Cfg) (n : Nat) : P (Option (List Ast)) := do
  let eq ← expectOptionalToken cfg .equals
  if eq then do
    let xs ← parseDelimitedMany cfg n .pipe (parseNamedType cfg)
    pure (some xs)
  else pure none

/-- `parse_union_type_definition` -/
def parseUnionTypeDefinition (cfg : Cfg) (n : Nat) : P Ast := do
  let description ← parseDescription cfg
  expectKeyword cfg "union"
  let name ← parseName cfg
  let directives ← parseDirectives cfg n true
  let types ← parseUnionMemberTypes cfg n
  pure (mkNode "UnionTypeDefinitionNode"
    [("description", description), ("name", name), ("directives", optListO directives),
     ("types", optListO types)])

/-- `parse_enum_value_name` -/
def parseEnumValueName (cfg : Cfg) : P Ast := do
  let t ← P.cur
  if valueIs t "true" || valueIs t "false" || valueIs t "null" then
    P.fail (.syn .reservedEnumValue t.start)
  else parseName cfg

/-- `parse_enum_value_definition` -/
def parseEnumValueDefinition (cfg : Cfg) (n : Nat) : P Ast := do
  let description ← parseDescription cfg
  let name ← parseEnumValueName cfg
  let directives ← parseDirectives cfg n true
  pure (mkNode "EnumValueDefinitionNode"
    [("description", description), ("name", name), ("directives", optListO directives)])

/-- `parse_enum_values_definition` -/
def parseEnumValuesDefinition (cfg : Cfg) (n : Nat) : P (Option (List Ast)) :=
  parseOptionalMany cfg n .braceL (parseEnumValueDefinition cfg n) .braceR

/-- `parse_enum_type_definition` -/
def parseEnumTypeDefinition (cfg : Cfg) (n : Nat) : P Ast := do
  let description ← parseDescription cfg
  expectKeyword cfg "enum"
  let name ← parseName cfg
  let directives ← parseDirectives cfg n true
  let values ← parseEnumValuesDefinition cfg n
  pure (mkNode "EnumTypeDefinitionNode"
    [("description", description), ("name", name), ("directives", optListO directives),
     ("values", optListO values)])

/-- `parse_input_fields_definition` -/
def parseInputFieldsDefinition (cfg : Cfg) (n : Nat) : P (Option (List Ast)) :=
  parseOptionalMany cfg n .braceL (parseInputValueDef cfg n) .braceR

/-- `parse_input_object_type_definition` -/
def parseInputObjectTypeDefinition (cfg : Cfg) (n : Nat) : P Ast := do
  let description ← parseDescription cfg
  expectKeyword cfg "input"
  let name ← parseName cfg
  let directives ← parseDirectives cfg n true
  let fields ← parseInputFieldsDefinition cfg n
  pure (mkNode "InputObjectTypeDefinitionNode"
    [("description", description), ("name", name), ("directives", optListO directives),
     ("fields", optListO fields)])

/-- `parse_directive_location` -/
def parseDirectiveLocation (cfg : Cfg) : P Ast := do
  let start ← P.cur
  let name ← parseName cfg
  if ParserTables.directiveLocations.any (fun l => valueIs start l) then pure name
  else unexpected (some start)

/-- `parse_directive_definition` -/
def parseDirectiveDefinition (cfg : Cfg) (n : Nat) : P Ast := do
  let description ← parseDescription cfg
  expectKeyword cfg "directive"
  let _ ← expectToken cfg .at
  let name ← parseName cfg
  let args ← parseArgumentDefs cfg n
  let directives ← (if cfg.dirOnDir then parseDirectives cfg n true else pure none)
  let repeatable ← expectOptionalKeyword cfg "repeatable"
  expectKeyword cfg "on"
  let locations ← parseDelimitedMany cfg n .pipe (parseDirectiveLocation cfg)
  pure (mkNode "DirectiveDefinitionNode"
    [("description", description), ("name", name), ("arguments", optListO args),
     ("directives", optListO directives), ("repeatable", .bool repeatable),
     ("locations", .list locations)])

/-! ### Type system extensions (parser.py 1035-1157) -/

/-- `parse_schema_extension` -/
def parseSchemaExtension (cfg : Cfg) (n : Nat) : P Ast := do
  expectKeyword cfg "extend"
  expectKeyword cfg "schema"
  let directives ← parseDirectives cfg n true
  let ots ← parseOptionalMany cfg n .braceL (parseOperationTypeDefinition cfg) .braceR
  if !truthyO directives && !truthyO ots then unexpected none
  else pure (mkNode "SchemaExtensionNode"
    [("directives", optListO directives), ("operation_types", optListO ots)])

/-- `parse_scalar_type_extension` -/
def parseScalarTypeExtension (cfg : Cfg) (n : Nat) : P Ast := do
  expectKeyword cfg "extend"
  expectKeyword cfg "scalar"
  let name ← parseName cfg
  let directives ← parseDirectives cfg n true
  if !truthyO directives then unexpected none
  else pure (mkNode "ScalarTypeExtensionNode" [("name", name), ("directives", optListO directives)])

/-- `parse_object_type_extension` / `parse_interface_type_extension` -/
def parseObjectLikeExtension (cfg : Cfg) (n : Nat) (kw cls : String) : P Ast := do
  expectKeyword cfg "extend"
  expectKeyword cfg kw
  let name ← parseName cfg
  let interfaces ← parseImplementsInterfaces cfg n
  let directives ← parseDirectives cfg n true
  let fields ← parseFieldsDefinition cfg n
  if !(truthyO interfaces || truthyO directives || truthyO fields) then unexpected none
  else pure (mkNode cls
    [("name", name), ("interfaces", optListO interfaces), ("directives", optListO directives),
     ("fields", optListO fields)])

/-- `parse_union_type_extension` -/
def parseUnionTypeExtension (cfg : Cfg) (n : Nat) : P Ast := do
  expectKeyword cfg "extend"
  expectKeyword cfg "union"
  let name ← parseName cfg
  let directives ← parseDirectives cfg n true
  let types ← parseUnionMemberTypes cfg n
  if !(truthyO directives || truthyO types) then unexpected none
  else pure (mkNode "UnionTypeExtensionNode"
    [("name", name), ("directives", optListO directives), ("types", optListO types)])

/-- `parse_enum_type_extension` -/
def parseEnumTypeExtension (cfg : Cfg) (n : Nat) : P Ast := do
  expectKeyword cfg "extend"
  expectKeyword cfg "enum"
  let name ← parseName cfg
  let directives ← parseDirectives cfg n true
  let values ← parseEnumValuesDefinition cfg n
  if !(truthyO directives || truthyO values) then unexpected none
  else pure (mkNode "EnumTypeExtensionNode"
    [("name", name), ("directives", optListO directives), ("values", optListO values)])

/-- `parse_input_object_type_extension` -/
def parseInputObjectTypeExtension (cfg : Cfg) (n : Nat) : P Ast := do
  expectKeyword cfg "extend"
  expectKeyword cfg "input"
  let name ← parseName cfg
  let directives ← parseDirectives cfg n true
  let fields ← parseInputFieldsDefinition cfg n
  if !(truthyO directives || truthyO fields) then unexpected none
  else pure (mkNode "InputObjectTypeExtensionNode"
    [("name", name), ("directives", optListO directives), ("fields", optListO fields)])

/-- `parse_directive_definition_extension` -/
def parseDirectiveDefinitionExtension (cfg : Cfg) (n : Nat) : P Ast := do
  expectKeyword cfg "extend"
  expectKeyword cfg "directive"
  let _ ← expectToken cfg .at
  let name ← parseName cfg
  let directives ← parseDirectives cfg n true
  if !truthyO directives then unexpected none
  else pure (mkNode "DirectiveExtensionNode" [("name", name), ("directives", optListO directives)])

/-- method names the type-extension `getattr` can resolve in the model -/
def knownExtensionMethods : List String :=
  ["schema_extension", "scalar_type_extension", "object_type_extension",
   "interface_type_extension", "union_type_extension", "enum_type_extension",
   "input_object_type_extension"]

/-- `getattr(self, f"parse_{method_name}")()` for `_parse_type_extension_method_names` -/
def dispatchExtension (cfg : Cfg) (n : Nat) (m : String) : P Ast :=
  if m = "schema_extension" then parseSchemaExtension cfg n
  else if m = "scalar_type_extension" then parseScalarTypeExtension cfg n
  else if m = "object_type_extension" then
    parseObjectLikeExtension cfg n "type" "ObjectTypeExtensionNode"
  else if m = "interface_type_extension" then
    parseObjectLikeExtension cfg n "interface" "InterfaceTypeExtensionNode"
  else if m = "union_type_extension" then parseUnionTypeExtension cfg n
  else if m = "enum_type_extension" then parseEnumTypeExtension cfg n
  else if m = "input_object_type_extension" then parseInputObjectTypeExtension cfg n
  else P.crash "AttributeError"

/-- `table.get(name)` followed by `if method_name:` -/
def methodFor (tbl : List (String × String)) (v : Option (List Nat)) : Option String :=
  match lookupKw tbl v with
  | some m => if m = "" then none else some m
  | none => none

/-- `parse_type_system_extension` -/
def parseTypeSystemExtension (cfg : Cfg) (n : Nat) : P Ast := do
  let kwTok ← lookahead
  if kwTok.kind = .name then
    match methodFor ParserTables.typeExtensionMethods kwTok.value with
    | some m => dispatchExtension cfg n m
    | none =>
      if valueIs kwTok "directive" && cfg.dirOnDir then parseDirectiveDefinitionExtension cfg n
      else unexpected (some kwTok)
  else unexpected (some kwTok)

/-- method names the definition `getattr`s can resolve in the model -/
def knownDefinitionMethods : List String :=
  ["schema_definition", "scalar_type_definition", "object_type_definition",
   "interface_type_definition", "union_type_definition", "enum_type_definition",
   "input_object_type_definition", "directive_definition", "operation_definition",
   "fragment_definition", "type_system_extension"]

/-- `getattr(self, f"parse_{method_name}")()` of `parse_definition` -/
def dispatchDefinition (cfg : Cfg) (n : Nat) (m : String) : P Ast :=
  if m = "schema_definition" then parseSchemaDefinition cfg n
  else if m = "scalar_type_definition" then parseScalarTypeDefinition cfg n
  else if m = "object_type_definition" then
    parseObjectLikeDefinition cfg n "type" "ObjectTypeDefinitionNode"
  else if m = "interface_type_definition" then
    parseObjectLikeDefinition cfg n "interface" "InterfaceTypeDefinitionNode"
  else if m = "union_type_definition" then parseUnionTypeDefinition cfg n
  else if m = "enum_type_definition" then parseEnumTypeDefinition cfg n
  else if m = "input_object_type_definition" then parseInputObjectTypeDefinition cfg n
  else if m = "directive_definition" then parseDirectiveDefinition cfg n
  else if m = "operation_definition" then parseOperationDefinition cfg n
  else if m = "fragment_definition" then parseFragmentDefinition cfg n
  else if m = "type_system_extension" then parseTypeSystemExtension cfg n
  else P.crash "AttributeError"

/-- `parse_definition` -/
def parseDefinition (cfg : Cfg) (n : Nat) : P Ast := do
  let brace ← peek .braceL
  if brace then parseOperationDefinition cfg n
  else do
    let hasDescription ← peekDescription
    let tok ← P.cur
    let kwTok ← (if hasDescription then lookahead else pure tok)
    if hasDescription && kwTok.kind == .braceL then P.fail (.syn .unexpectedDescription tok.start)
    else if kwTok.kind = .name then
      match methodFor ParserTables.typeSystemDefinitionMethods kwTok.value with
      | some m => dispatchDefinition cfg n m
      | none =>
        match methodFor ParserTables.executableDefinitionMethods kwTok.value with
        | some m => dispatchDefinition cfg n m
        | none =>
          if hasDescription then P.fail (.syn .unexpectedDescription tok.start)
          else
            match methodFor ParserTables.otherDefinitionMethods kwTok.value with
            | some m => dispatchDefinition cfg n m
            | none => unexpected (some kwTok)
    else unexpected (some kwTok)

/-- `parse_document` -/
def parseDocument (cfg : Cfg) (n : Nat) : P Ast := do
  let defs ← parseMany cfg n .sof (parseDefinition cfg n) .eof
  pure (mkNode "DocumentNode" [("definitions", .list defs)])

/-! ### Schema coordinates (parser.py 1199-1239) -/

/-- `Parser.parse_schema_coordinate` -/
def parseSchemaCoordinateBody (cfg : Cfg) : P Ast := do
  let ofDirective ← expectOptionalToken cfg .at
  let name ← parseName cfg
  let dot ← (if ofDirective then pure false else expectOptionalToken cfg .dot)
  let member ← (if dot then do
      let m ← parseName cfg
      pure (some m)
    else pure none)
  let paren ← (if ofDirective || member.isSome then expectOptionalToken cfg .parenL else pure false)
  let argName ← (if paren then do
      let a ← parseName cfg
      let _ ← expectToken cfg .colon
      let _ ← expectToken cfg .parenR
      pure (some a)
    else pure none)
  if ofDirective then
    match argName with
    | some a => pure (mkNode "DirectiveArgumentCoordinateNode" [("name", name), ("argument_name", a)])
    | none => pure (mkNode "DirectiveCoordinateNode" [("name", name)])
  else
    match member with
    | some m =>
      match argName with
      | some a =>
        pure (mkNode "ArgumentCoordinateNode" [("name", name), ("field_name", m), ("argument_name", a)])
      | none => pure (mkNode "MemberCoordinateNode" [("name", name), ("member_name", m)])
    | none => pure (mkNode "TypeCoordinateNode" [("name", name)])

/-! ### Entry points (parser.py 95-268) -/

inductive Entry where
  | document | value | constValue | type | schemaCoordinate
  deriving Repr, DecidableEq

/-- the body of `parse`, `parse_value`, `parse_const_value`, `parse_type`, `parse_schema_coordinate`
after the `Parser` has been constructed -/
def runEntry (e : Entry) (cfg : Cfg) (n : Nat) : P Ast :=
  match e with
  | .document => parseDocument cfg n
  | .value => do
    let _ ← expectToken cfg .sof
    let v ← valueLit n cfg false
    let _ ← expectToken cfg .eof
    pure v
  | .constValue => do
    let _ ← expectToken cfg .sof
    let v ← valueLit n cfg true
    let _ ← expectToken cfg .eof
    pure v
  | .type => do
    let _ ← expectToken cfg .sof
    let t ← typeRef n cfg
    let _ ← expectToken cfg .eof
    pure t
  | .schemaCoordinate => do
    let _ ← expectToken cfg .sof
    let c ← parseSchemaCoordinateBody cfg
    let _ ← expectToken cfg .eof
    pure c

def initState (strm : Stream) : PS := { cur := sofToken, rest := strm, count := 0 }

/-- fuel that is provably never exhausted -/
def parseFuel (strm : Stream) : Nat := strm.length + 3

def parseStreamWith (e : Entry) (cfg : Cfg) (strm : Stream) (fuel : Nat) : Out PErr Ast :=
  match runEntry e cfg fuel (initState strm) with
  | .ok (a, _) => .ok a
  | .err x => .err x
  | .crash c => .crash c

def parseStream (e : Entry) (cfg : Cfg) (strm : Stream) : Out PErr Ast :=
  parseStreamWith e cfg strm (parseFuel strm)

/-! ### From source text to the lazily lexed stream -/

/-- The stream the `Lexer` produces after `<SOF>`: comments skipped, cut at the first lexical error. -/
def streamAux (body : List Nat) : Nat → LexState → Nat → Stream
  | 0, _, _ => .crash "OutOfFuel"
  | fuel + 1, st, pos =>
    match readNextToken body st pos with
    | .ok (t, st') =>
      if t.kind = .eof then .eof t.start t.line t.column
      else if t.kind = .comment then streamAux body fuel st' t.stop
      else .cons t (streamAux body fuel st' t.stop)
    | .err e => .lexErr e
    | .crash c => .crash c

def streamOf (body : List Nat) : Stream := streamAux body (body.length + 2) {} 0

/-- The stream of the `SchemaCoordinateLexer` (no ignored tokens). -/
def coordStreamAux (body : List Nat) : Nat → Nat → Stream
  | 0, _ => .crash "OutOfFuel"
  | fuel + 1, pos =>
    match coordReadNextToken body pos with
    | .ok t =>
      if t.kind = .eof then .eof t.start t.line t.column
      else .cons t (coordStreamAux body fuel t.stop)
    | .err e => .lexErr e
    | .crash c => .crash c

def coordStreamOf (body : List Nat) : Stream := coordStreamAux body (body.length + 2) 0

/-- `parse(source, …)` etc. on source text -/
def parseSource (e : Entry) (cfg : Cfg) (body : List Nat) : Out PErr Ast :=
  parseStream e cfg (if e = .schemaCoordinate then coordStreamOf body else streamOf body)

end Gql.Syntax
