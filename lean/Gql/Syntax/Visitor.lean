import Gql.Text.Out
import Gql.Syntax.Tree
/-
Model of `graphql.language.visitor.visit` (visitor.py:161-300) as the iterative stack machine
it is, of `ParallelVisitor` (visitor.py:303-370), and — in namespace `Spec` — the documented
contract of `visit` as a recursion over the tree.

The model mirrors the code *after* the three repairs in `repo_patches/`:
  F5  (`enter` returning SKIP / REMOVE on the root: leave the loop instead of `path.pop()` on an
       empty list; a removed root yields `None`),
  F9  (a removed single-valued child becomes `None` in the rebuilt parent, not the sentinel),
  F10 (`leave` returning SKIP — documented "no action" — keeps the node rebuilt from its
       edited children, like IDLE).
The pinned behaviour of F5 is kept behind `pinnedF5 := true` so that the witness is an
`example` in `Props/C11.lean`.

Representation notes (all observable values are the Python ones):
* `idx` in `St` is Python's `idx` *after* the `idx += 1` at the top of the coming iteration;
  `Frame.idx` is Python's `stack.idx` (so restoring sets `idx := frame.idx + 1`).
* `path` and `ancestors` are stored most-recent-first (`rpath`, `ranc`): `append` is cons,
  `pop()` is tail (crash-capable), `path[-1]` is head; they are reversed when handed to a visitor.
* visitors are state-passing functions; a visitor without an `enter`/`leave` method is one that
  returns `idle` (visitor.py:254/273 give `result = None` in both cases).
-/
namespace Gql.Syntax
open Gql

inductive Phase where
  | enter | leave
  deriving DecidableEq, Repr

/-- what a visitor method returns: `None`, `SKIP`, `BREAK`, `REMOVE`, or an AST node -/
inductive Action where
  | idle | skip | brk | remove
  | replace (n : Node)

def Action.isEdit : Action → Bool
  | .remove | .replace _ => true
  | _ => false

/-- the arguments of one `enter`/`leave` call: `(node, key, parent, path, ancestors)` -/
structure Call where
  phase : Phase
  node : Node
  key : Key
  parent : Option Val
  path : List Key
  ancestors : List Val

abbrev Visitor (σ : Type) := σ → Call → Action × σ

/-- value part of an entry of `edits`: the `REMOVE` sentinel or a node / rebuilt tuple -/
inductive EVal where
  | rm
  | val (v : Val)

abbrev Edits := List (Key × EVal)

/-- Python's `keys`: the attribute names of a node, or (when `in_array`, and for the initial
`(root,)`) a tuple of nodes -/
inductive Keys where
  | names (ks : List String)
  | items (ns : List Node)

def Keys.length : Keys → Nat
  | .names ks => ks.length
  | .items ns => ns.length

/-- `class Stack(NamedTuple)` without `prev` (the stack is a list, `None` is `[]`) -/
structure Frame where
  inArray : Bool
  idx : Nat
  keys : Keys
  edits : Edits

structure St (σ : Type) where
  stack : List Frame
  inArray : Bool
  keys : Keys
  idx : Nat
  edits : Edits
  node : Option Val
  key : Key
  parent : Option Val
  rpath : List Key
  ranc : List Val
  vs : σ

/-- Python truthiness of `parent` (`None`, a node — dataclass instances are truthy —, a tuple) -/
def truthy : Option Val → Bool
  | none => false
  | some (.node _) => true
  | some (.arr ns) => !ns.isEmpty

abbrev O := Out Unit

/-- visitor.py:216-225: apply the edits of an array level to a copy of the tuple -/
def applyArr : Edits → List Node → Nat → O (List Node)
  | [], cur, _ => .ok cur
  | (k, e) :: rest, cur, off =>
    match k with
    | .idx i =>
      -- `array_key = edit_key - edit_offset`; a negative index would silently address from the
      -- end in Python: reported as a crash here so that `no_crash` excludes it
      if i < off then .crash "NegativeIndex" else
      let j := i - off
      if j < cur.length then
        match e with
        | .rm => applyArr rest (cur.eraseIdx j) (off + 1)
        | .val (.node n) => applyArr rest (cur.set j n) off
        | .val (.arr _) => .crash "TupleInTuple"   -- never produced: tuples are not tuple items
      else .crash "IndexError"
    | _ => .crash "TypeError"

/-- `values[edit_key] = None if removed else edit_value` on the node-valued attributes -/
def setField (fs : List (String × Child)) (k : String) (c : Child) : O (List (String × Child)) :=
  match fs with
  | [] => .crash "TypeError"   -- `__init__() got an unexpected keyword argument`
  | (k', c') :: r => if k' = k then .ok ((k', c) :: r) else do
      let r' ← setField r k c
      .ok ((k', c') :: r')

def EVal.toChild : EVal → Child
  | .rm => .absent
  | .val (.node n) => .one n
  | .val (.arr ns) => .many ns

/-- visitor.py:226-236: rebuild a (frozen) node from its attributes and the edits -/
def applyNode : Edits → List (String × Child) → O (List (String × Child))
  | [], fs => .ok fs
  | (k, e) :: rest, fs =>
    match k with
    | .name s => do
      let fs' ← setField fs s e.toChild
      applyNode rest fs'
    | _ => .crash "TypeError"

def rebuild (m : Node) (edits : Edits) : O Node := do
  let fs ← applyNode edits m.fields
  .ok (Node.mk m.kind 0 m.payload fs)

inductive Next (σ : Type) where
  | cont (st : St σ)
  | stop (result : Option Val) (vs : σ)

/-- visitor.py:297-302: `edits[-1][1]` (a removed root gives `None`), else `root` -/
def finish (root : Node) (st : St σ) : Next σ :=
  match st.edits.getLast? with
  | some (_, .rm) => .stop none st.vs
  | some (_, .val v) => .stop (some v) st.vs
  | none => .stop (some (.node root)) st.vs

inductive Fetched (σ : Type) where
  | cont (st : St σ)                     -- `continue` (child is `None`)
  | got (st : St σ) (isLeaving isEdited : Bool)

/-- `key = path[-1] if ancestors else None` (visitor.py:211) -/
def lastKey (ranc : List Val) (rpath : List Key) : O Key :=
  match ranc with
  | [] => .ok Key.none
  | _ :: _ =>
    match rpath with
    | k :: _ => .ok k
    | [] => .crash "IndexError"

/-- `parent = ancestors_pop() if ancestors else None` (visitor.py:213) -/
def popAnc (ranc : List Val) : Option Val × List Val :=
  match ranc with
  | [] => (none, [])
  | p :: r => (some p, r)

/-- visitor.py:214-236: the edited copy of the level that is being left -/
def applyEdits (inArray : Bool) (node : Option Val) (edits : Edits) : O (Option Val) :=
  if inArray then
    match node with
    | some (.arr ns) => do let ns' ← applyArr edits ns 0; .ok (some (Val.arr ns'))
    | _ => .crash "TypeError"                                -- list(node) on a non-iterable
  else
    match node with
    | some (.node m) => do let m' ← rebuild m edits; .ok (some (Val.node m'))
    | _ => .crash "AttributeError"                           -- node.keys

/-- visitor.py:207-247: the part of the loop body that determines `node`, `key`, `parent` -/
def fetch (st : St σ) : O (Fetched σ) :=
  let isLeaving := st.idx == st.keys.length
  let isEdited := isLeaving && !st.edits.isEmpty
  if isLeaving then do
    let key ← lastKey st.ranc st.rpath
    let node := st.parent
    let parent := (popAnc st.ranc).1
    let ranc := (popAnc st.ranc).2
    let node ← (if isEdited then applyEdits st.inArray node st.edits else .ok node)
    match st.stack with
    | [] => .crash "AttributeError"                          -- stack.idx with stack = None
    | fr :: rest =>
      .ok (.got { st with idx := fr.idx, keys := fr.keys, edits := fr.edits, inArray := fr.inArray,
                          stack := rest, node := node, key := key, parent := parent, ranc := ranc }
                true isEdited)
  else if truthy st.parent then
    if st.inArray then
      match st.parent with
      | some (.arr ns) =>
        match ns[st.idx]? with
        | some c => .ok (.got { st with key := .idx st.idx, node := some (.node c),
                                        rpath := .idx st.idx :: st.rpath } false false)
        | none => .crash "IndexError"
      | _ => .crash "TypeError"                              -- node[int]
    else
      match st.keys with
      | .names ks =>
        match ks[st.idx]? with
        | none => .crash "IndexError"
        | some k =>
          match st.parent with
          | some (.node m) =>
            match m.attr k with
            | .absent => .ok (.cont { st with key := .name k, node := none, idx := st.idx + 1 })
            | .one c => .ok (.got { st with key := .name k, node := some (.node c),
                                            rpath := .name k :: st.rpath } false false)
            | .many cs => .ok (.got { st with key := .name k, node := some (.arr cs),
                                              rpath := .name k :: st.rpath } false false)
          | _ => .crash "TypeError"                          -- attribute of a tuple: not modelled
      | .items _ => .crash "TypeError"                       -- getattr(parent, <node>)
  else .ok (.got st false false)

/-- visitor.py:279-296: the tail of the loop body (`result is None` / not, push or pop) -/
def tail (root : Node) (vk : String → List String) (st : St σ) (isLeaving isEdited : Bool)
    (nd : Val) (noAction : Bool) : O (Next σ) :=
  let edits := if noAction && isEdited then st.edits ++ [(st.key, EVal.val nd)] else st.edits
  if isLeaving then
    let st' := { st with edits := edits, rpath := st.rpath.tail, idx := st.idx + 1 }
    .ok (if st'.stack.isEmpty then finish root st' else .cont st')
  else
    let fr : Frame := ⟨st.inArray, st.idx, st.keys, edits⟩
    let (inArr, keys) := (match nd with
      | .arr ns => (true, Keys.items ns)
      | .node n => (false, Keys.names (vk n.kind)))
    .ok (.cont { st with stack := fr :: st.stack, inArray := inArr, keys := keys, idx := 0, edits := [],
                         ranc := (if truthy st.parent then
                                    match st.parent with | some p => p :: st.ranc | none => st.ranc
                                  else st.ranc),
                         parent := some nd, node := some nd })

/-- visitor.py:249-278: dispatch to the visitor and act on its result -/
def process (pinnedF5 : Bool) (root : Node) (vk : String → List String) (v : Visitor σ)
    (st : St σ) (isLeaving isEdited : Bool) : O (Next σ) :=
  match st.node with
  | none => .crash "TypeError"                               -- "Invalid AST Node: None"
  | some (.arr ns) => tail root vk st isLeaving isEdited (.arr ns) true
  | some (.node n) =>
    let (a, vs) := v st.vs ⟨if isLeaving then .leave else .enter, n, st.key, st.parent,
                             st.rpath.reverse, st.ranc.reverse⟩
    let st := { st with vs := vs }
    match a with
    | .brk => .ok (finish root st)
    | .idle => tail root vk st isLeaving isEdited (.node n) true
    | .skip =>
      if isLeaving then tail root vk st isLeaving isEdited (.node n) true   -- F10: "no action"
      else if !pinnedF5 && st.stack.isEmpty then .ok (finish root st)       -- F5
      else match st.rpath with
        | [] => .crash "IndexError"                          -- path.pop() on an empty list
        | _ :: r => .ok (.cont { st with rpath := r, idx := st.idx + 1 })
    | .remove =>
      let st := { st with edits := st.edits ++ [(st.key, EVal.rm)] }
      if isLeaving then tail root vk st isLeaving isEdited (.node n) false
      else if !pinnedF5 && st.stack.isEmpty then .ok (finish root st)       -- F5
      else match st.rpath with
        | [] => .crash "IndexError"
        | _ :: r => .ok (.cont { st with rpath := r, idx := st.idx + 1 })
    | .replace r =>
      let st := { st with edits := st.edits ++ [(st.key, EVal.val (.node r))] }
      if isLeaving then tail root vk st isLeaving isEdited (.node n) false
      else tail root vk { st with node := some (.node r) } isLeaving isEdited (.node r) false

/-- one iteration of `while True:` -/
def step (pinnedF5 : Bool) (root : Node) (vk : String → List String) (v : Visitor σ)
    (st : St σ) : O (Next σ) :=
  match fetch st with
  | .crash c => .crash c
  | .err e => .err e
  | .ok (.cont st') => .ok (.cont st')
  | .ok (.got st' l e) => process pinnedF5 root vk v st' l e

def iter (pinnedF5 : Bool) (root : Node) (vk : String → List String) (v : Visitor σ) :
    Nat → St σ → O (Next σ)
  | 0, st => .ok (.cont st)
  | k + 1, st =>
    match step pinnedF5 root vk v st with
    | .ok (.cont st') => iter pinnedF5 root vk v k st'
    | r => r

def St.init (root : Node) (s : σ) : St σ :=
  { stack := [], inArray := false, keys := .items [root], idx := 0, edits := [],
    node := some (.node root), key := .none, parent := none, rpath := [], ranc := [], vs := s }

/-- `visit(root, visitor, visitor_keys)` run for at most `fuel` loop iterations: `none` = still
running, `some (ok (result, final visitor state))`, `some (crash cls)`.  The result is `None`
(`none`) or a node / tuple. -/
def visitFuel (root : Node) (vk : String → List String) (v : Visitor σ) (s : σ) (fuel : Nat)
    (pinnedF5 : Bool := false) : Option (O (Option Val × σ)) :=
  match iter pinnedF5 root vk v fuel (St.init root s) with
  | .ok (.cont _) => none
  | .ok (.stop r s') => some (.ok (r, s'))
  | .err e => some (.err e)
  | .crash c => some (.crash c)

/-! ### ParallelVisitor (visitor.py:303-370) -/

/-- an entry of `self.skipping`: `None`, the node being skipped, or `BREAK` -/
inductive Skipping where
  | no
  | at (n : Node)
  | brk

/-- `ParallelVisitor(vs)`: the state is the list of (member state, `skipping[i]`) -/
def parallelEnter (call : Call) : List (Visitor σ) → List (σ × Skipping) → Action × List (σ × Skipping)
  | v :: vs, (s, .no) :: ms =>
    let (a, s') := v s call
    match a with
    | .skip => let (r, ms') := parallelEnter call vs ms; (r, (s', .at call.node) :: ms')
    | .brk => let (r, ms') := parallelEnter call vs ms; (r, (s', .brk) :: ms')
    | .idle => let (r, ms') := parallelEnter call vs ms; (r, (s', .no) :: ms')
    | a => (a, (s', .no) :: ms)                              -- an edit: `return result`
  | _ :: vs, m :: ms => let (r, ms') := parallelEnter call vs ms; (r, m :: ms')
  | _, ms => (.idle, ms)

def parallelLeave (call : Call) : List (Visitor σ) → List (σ × Skipping) → Action × List (σ × Skipping)
  | v :: vs, (s, .no) :: ms =>
    let (a, s') := v s call
    match a with
    | .brk => let (r, ms') := parallelLeave call vs ms; (r, (s', .brk) :: ms')
    | .idle | .skip => let (r, ms') := parallelLeave call vs ms; (r, (s', .no) :: ms')
    | a => (a, (s', .no) :: ms)
  | _ :: vs, (s, .at n) :: ms =>
    let (r, ms') := parallelLeave call vs ms
    (r, (s, if n.same call.node then .no else .at n) :: ms')      -- `skipping[i] is node`
  | _ :: vs, m :: ms => let (r, ms') := parallelLeave call vs ms; (r, m :: ms')
  | _, ms => (.idle, ms)

def parallel (vs : List (Visitor σ)) : Visitor (List (σ × Skipping)) := fun ms call =>
  match call.phase with
  | .enter => parallelEnter call vs ms
  | .leave => parallelLeave call vs ms

def parallelInit (ss : List σ) : List (σ × Skipping) := ss.map (fun s => (s, .no))

/-! ### The documented contract -/
namespace Spec

/-- documented effect of visiting one position: unchanged, deleted, holds another node -/
inductive Slot where
  | keep
  | gone
  | put (n : Node)

/-- threaded through the traversal: visitor state, number of loop iterations the reference
implementation needs (nodes entered + nodes left + tuples entered + tuples left + absent
attributes skipped), and whether any edit has been requested so far -/
structure W (σ : Type) where
  s : σ
  iters : Nat
  edited : Bool

inductive Res (σ : Type) (α : Type) where
  | brk (w : W σ)
  | done (w : W σ) (r : α)

/-- children in a tuple, in index order; a `gone` item disappears, a `put` item is replaced -/
def specItems (rec : W σ → Node → Key → Option Val → List Val → List Key → Option (Res σ Slot))
    (parent : Option Val) (ancestors : List Val) (path : List Key) :
    W σ → List Node → Nat → Option (Res σ (List Node × Bool))
  | w, [], _ => some (.done w ([], false))
  | w, c :: cs, i =>
    match rec w c (.idx i) parent ancestors (path ++ [.idx i]) with
    | none => none
    | some (.brk w) => some (.brk w)
    | some (.done w slot) =>
      match specItems rec parent ancestors path w cs (i + 1) with
      | none => none
      | some (.brk w) => some (.brk w)
      | some (.done w (cs', ch)) =>
        some (.done w (match slot with
          | .keep => (c :: cs', ch)
          | .gone => (cs', true)
          | .put c' => (c' :: cs', true)))

/-- the node-valued attributes of `m` in the order of `keys`; returns the attributes of the
rebuilt node (given as the edits to apply: attribute, new child) -/
def specKeys (rec : W σ → Node → Key → Option Val → List Val → List Key → Option (Res σ Slot))
    (m : Node) (ancestors : List Val) (path : List Key) :
    W σ → List String → Option (Res σ (List (String × Child)))
  | w, [] => some (.done w [])
  | w, k :: ks =>
    let r : Option (Res σ (Option Child)) :=
      match m.attr k with
      | .absent => some (.done { w with iters := w.iters + 1 } none)
      | .one c =>
        match rec w c (.name k) (some (.node m)) ancestors (path ++ [.name k]) with
        | none => none
        | some (.brk w) => some (.brk w)
        | some (.done w .keep) => some (.done w none)
        | some (.done w .gone) => some (.done w (some .absent))
        | some (.done w (.put c')) => some (.done w (some (.one c')))
      | .many cs =>
        match specItems rec (some (.arr cs)) (ancestors ++ [.node m]) (path ++ [.name k])
                { w with iters := w.iters + 1 } cs 0 with
        | none => none
        | some (.brk w) => some (.brk w)
        | some (.done w (cs', ch)) =>
          some (.done { w with iters := w.iters + 1 } (if ch then some (.many cs') else none))
    match r with
    | none => none
    | some (.brk w) => some (.brk w)
    | some (.done w e) =>
      match specKeys rec m ancestors path w ks with
      | none => none
      | some (.brk w) => some (.brk w)
      | some (.done w es) => some (.done w (match e with | some c => (k, c) :: es | none => es))

/-- the attribute `k` now holds `c` -/
def setAttr (fs : List (String × Child)) (k : String) (c : Child) : List (String × Child) :=
  match fs with
  | [] => []
  | (k', c') :: r => if k' = k then (k', c) :: r else (k', c') :: setAttr r k c

/-- replace the listed attributes, in the order the children were visited (documented: the result
is a copy of the node with the edited children) -/
def withFields (fs : List (String × Child)) (es : List (String × Child)) : List (String × Child) :=
  es.foldl (fun fs e => setAttr fs e.1 e.2) fs

/-- the children of `m` in key order, then `leave` (`replaced`: `m` is a replacement returned by
`enter`, so the position changes even if nothing below does) -/
def specBody (vk : String → List String) (v : Visitor σ)
    (rec : W σ → Node → Key → Option Val → List Val → List Key → Option (Res σ Slot))
    (key : Key) (parent : Option Val) (ancestors : List Val) (path : List Key)
    (w : W σ) (m : Node) (replaced : Bool) : Option (Res σ Slot) :=
  match specKeys rec m (ancestors ++ parent.toList) path w (vk m.kind) with
  | none => none
  | some (.brk w) => some (.brk w)
  | some (.done w es) =>
    let m' := if es.isEmpty then m else Node.mk m.kind 0 m.payload (withFields m.fields es)
    let (a, s) := v w.s ⟨.leave, m', key, parent, path, ancestors⟩
    let w := { w with s := s, iters := w.iters + 1 }
    match a with
    | .brk => some (.brk w)
    | .remove => some (.done { w with edited := true } .gone)
    | .replace r => some (.done { w with edited := true } (.put r))
    | .idle | .skip =>
      some (.done w (if !es.isEmpty then .put m' else if replaced then .put m else .keep))

/-- `enter`, then the children in key order, then `leave` — `d` bounds the nesting depth of the
traversal (`none` = bound exceeded; replacement nodes are traversed too, so no bound can be read
off the input tree alone) -/
def specNode (vk : String → List String) (v : Visitor σ) :
    Nat → W σ → Node → Key → Option Val → List Val → List Key → Option (Res σ Slot)
  | 0, _, _, _, _, _, _ => none
  | d + 1, w, n, key, parent, ancestors, path =>
    let (a, s) := v w.s ⟨.enter, n, key, parent, path, ancestors⟩
    let w := { w with s := s, iters := w.iters + 1 }
    match a with
    | .brk => some (.brk w)
    | .skip => some (.done w .keep)
    | .remove => some (.done { w with edited := true } .gone)
    | .idle => specBody vk v (specNode vk v d) key parent ancestors path w n false
    | .replace r => specBody vk v (specNode vk v d) key parent ancestors path { w with edited := true } r true

/-- What `visit(root, v)` must produce. `result`: `some (some x)` — the returned value is `x`
(`root` itself when nothing was edited), `some none` — `None` (the root was removed), `none` —
not documented (BREAK after an edit). -/
structure Outcome (σ : Type) where
  state : σ
  iters : Nat
  result : Option (Option Val)

def specVisit (vk : String → List String) (v : Visitor σ) (d : Nat) (root : Node) (s : σ) :
    Option (Outcome σ) :=
  match specNode vk v d ⟨s, 0, false⟩ root .none none [] [] with
  | none => none
  | some (.brk w) => some ⟨w.s, w.iters, if w.edited then none else some (some (.node root))⟩
  | some (.done w .keep) => some ⟨w.s, w.iters, some (some (.node root))⟩
  | some (.done w .gone) => some ⟨w.s, w.iters, some none⟩
  | some (.done w (.put x)) => some ⟨w.s, w.iters, some (some (.node x))⟩

end Spec
end Gql.Syntax
