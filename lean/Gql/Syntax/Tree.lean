/-
Generic AST model for the visitor (C11; shared with C08/C12).

A Python AST node (`graphql.language.ast.Node`, a frozen dataclass) is modelled by
* its `kind` (the class attribute `kind`, e.g. `"field"`),
* a `serial` — the allocation serial standing for *object identity* (DESIGN §3).  Serial `0`
  is reserved for "an object freshly allocated by `visit()`" (a rebuilt node); input nodes
  and replacement nodes handed in by a visitor carry serials ≥ 1,
* a `payload` — everything that is not a node-valued field (scalar attributes, `loc`),
  irrelevant to traversal but copied when a node is rebuilt,
* its node-valued attributes as an ordered association list `(attribute name, child)`,
  where a child is absent (`None`), a single node, or a tuple of nodes.

`Child.absent`/`Child.one n` together are the `single (Option Node)` of the design note;
`Child.many ns` is `many (List Node)`.
-/
namespace Gql.Syntax

mutual
inductive Node where
  | mk (kind : String) (serial : Nat) (payload : String) (fields : List (String × Child))
inductive Child where
  | absent
  | one (n : Node)
  | many (ns : List Node)
end

namespace Node
def kind : Node → String | .mk k _ _ _ => k
def serial : Node → Nat | .mk _ s _ _ => s
def payload : Node → String | .mk _ _ p _ => p
def fields : Node → List (String × Child) | .mk _ _ _ f => f

@[simp] theorem kind_mk (k s p f) : (Node.mk k s p f).kind = k := rfl
@[simp] theorem serial_mk (k s p f) : (Node.mk k s p f).serial = s := rfl
@[simp] theorem payload_mk (k s p f) : (Node.mk k s p f).payload = p := rfl
@[simp] theorem fields_mk (k s p f) : (Node.mk k s p f).fields = f := rfl

/-- `getattr(node, key, None)` restricted to node-valued attributes: a missing attribute and an
attribute holding `None` both give `None`. -/
def attr (n : Node) (key : String) : Child :=
  match n.fields.lookup key with
  | some c => c
  | none => .absent

/-- Python `a is b` for two AST nodes: same allocation serial. -/
def same (a b : Node) : Bool := a.serial == b.serial
end Node

/-! ### sizes (number of loop iterations `visit` spends on a subtree is `≤ 2 * size`) -/
mutual
/-- nodes + tuples + absent attribute slots, each counted once -/
def Node.size : Node → Nat
  | .mk _ _ _ fs => 1 + sizeFields fs
def sizeFields : List (String × Child) → Nat
  | [] => 0
  | (_, c) :: r => c.size + sizeFields r
def Child.size : Child → Nat
  | .absent => 1
  | .one n => n.size
  | .many ns => 1 + sizeNodes ns
def sizeNodes : List Node → Nat
  | [] => 0
  | n :: r => n.size + sizeNodes r
end

/-! ### object identities
In a tree of Python objects no node is its own descendant, so the serial of a node differs from
the serials of all nodes below it (`Node.idsOK`; sharing of a sub-object between two places is
allowed). -/
mutual
def Node.serials : Node → List Nat
  | .mk _ s _ fs => s :: serialsFields fs
def serialsFields : List (String × Child) → List Nat
  | [] => []
  | (_, c) :: r => c.serials ++ serialsFields r
def Child.serials : Child → List Nat
  | .absent => []
  | .one n => n.serials
  | .many ns => serialsNodes ns
def serialsNodes : List Node → List Nat
  | [] => []
  | n :: r => n.serials ++ serialsNodes r
end

mutual
def Node.idsOK : Node → Bool
  | .mk _ s _ fs => !(serialsFields fs).contains s && idsOKFields fs
def idsOKFields : List (String × Child) → Bool
  | [] => true
  | (_, c) :: r => c.idsOK && idsOKFields r
def Child.idsOK : Child → Bool
  | .absent => true
  | .one n => n.idsOK
  | .many ns => idsOKNodes ns
def idsOKNodes : List Node → Bool
  | [] => true
  | n :: r => n.idsOK && idsOKNodes r
end

/-! ### trees whose nodes carry exactly the traversed attributes
`Node.keyed vk`: every node lists the attributes `vk kind` (the `QUERY_DOCUMENT_KEYS` entry of its
kind), each once and in that order — what the harness' serialiser produces. -/
mutual
def Node.keyed (vk : String → List String) : Node → Bool
  | .mk k _ _ fs => decide (vk k = fs.map Prod.fst) && decide (fs.map Prod.fst).Nodup && keyedFields vk fs
def keyedFields (vk : String → List String) : List (String × Child) → Bool
  | [] => true
  | (_, c) :: r => c.keyed vk && keyedFields vk r
def Child.keyed (vk : String → List String) : Child → Bool
  | .absent => true
  | .one n => n.keyed vk
  | .many ns => keyedNodes vk ns
def keyedNodes (vk : String → List String) : List Node → Bool
  | [] => true
  | n :: r => n.keyed vk && keyedNodes vk r
end

/-! ### structural equality (used by the driver and by `example`s only) -/
mutual
def Node.beq : Node → Node → Bool
  | .mk k s p f, .mk k' s' p' f' => k == k' && s == s' && p == p' && beqFields f f'
def beqFields : List (String × Child) → List (String × Child) → Bool
  | [], [] => true
  | (k, c) :: r, (k', c') :: r' => k == k' && c.beq c' && beqFields r r'
  | _, _ => false
def Child.beq : Child → Child → Bool
  | .absent, .absent => true
  | .one a, .one b => a.beq b
  | .many as, .many bs => beqNodes as bs
  | _, _ => false
def beqNodes : List Node → List Node → Bool
  | [], [] => true
  | a :: r, b :: r' => a.beq b && beqNodes r r'
  | _, _ => false
end

instance : BEq Node := ⟨Node.beq⟩
instance : BEq Child := ⟨Child.beq⟩

/-- A Python value that can sit in `node` / `parent` / `ancestors`: an AST node or a tuple of
AST nodes. -/
inductive Val where
  | node (n : Node)
  | arr (ns : List Node)

def Val.beq : Val → Val → Bool
  | .node a, .node b => a.beq b
  | .arr as, .arr bs => beqNodes as bs
  | _, _ => false
instance : BEq Val := ⟨Val.beq⟩

/-- A key handed to a visitor / stored in `path`: `None` (root), a tuple index, an attribute. -/
inductive Key where
  | none
  | idx (i : Nat)
  | name (s : String)
  deriving DecidableEq, Repr

end Gql.Syntax
