/-
Spec: the GraphQL response format (GraphQL specification, October 2021, §7.1 "Response Format":
§7.1.1 Data, §7.1.2 Errors), transcribed as a decidable predicate on JSON-shaped values.  Independent
of the implementation: it is evaluated, through the driver, on `ExecutionResult.formatted` of the
real library, and `Gql.Props.C01.response_wf` proves it of the model of `graphql_impl`.
-/
namespace Gql.Spec

/-- A JSON-shaped value as far as the response format cares: string contents and float values are
irrelevant, `other` is anything that is not JSON (an object that leaked into the response). -/
inductive J where
  | null
  | bool (b : Bool)
  | int (i : Int)
  | float
  | str
  | list (xs : List J)
  | obj (kvs : List (String × J))
  | other (ty : String)
  deriving Repr, Inhabited

namespace J
def get? (kvs : List (String × J)) (k : String) : Option J := kvs.lookup k
def keys (kvs : List (String × J)) : List String := kvs.map (·.1)
end J

def allowedKeys (allowed : List String) (kvs : List (String × J)) : Bool :=
  (J.keys kvs).all (fun k => allowed.contains k) && (J.keys kvs).Nodup

/-- "each location is a map with the keys `line` and `column`, both positive numbers starting from 1" -/
def wfLocation : J → Bool
  | .obj kvs =>
    allowedKeys ["line", "column"] kvs &&
    (match J.get? kvs "line" with | some (.int l) => decide (1 ≤ l) | _ => false) &&
    (match J.get? kvs "column" with | some (.int c) => decide (1 ≤ c) | _ => false)
  | _ => false

/-- "path segments that represent fields should be strings, and path segments that represent list
indices should be 0-indexed integers" -/
def wfPathSeg : J → Bool
  | .str => true
  | .int i => decide (0 ≤ i)
  | _ => false

/-- §7.1.2: "Every error must contain an entry with the key `message` with a string description";
`locations`, `path`, `extensions` optional, no other entries. -/
def wfError (pre : Bool) : J → Bool
  | .obj kvs =>
    allowedKeys ["message", "locations", "path", "extensions"] kvs &&
    (match J.get? kvs "message" with | some .str => true | _ => false) &&
    (match J.get? kvs "locations" with
      | none => true
      | some (.list ls) => ls.all wfLocation
      | _ => false) &&
    (match J.get? kvs "path" with
      | none => true
      | some (.list ps) => !pre && ps.all wfPathSeg   -- request errors (before execution) carry no path
      | _ => false) &&
    (match J.get? kvs "extensions" with
      | none => true
      | some (.obj _) => true
      | _ => false)
  | _ => false

/-- §7.1: the response is a map; `errors`, if present, is a non-empty list of errors; "If the data
entry in the response is not present, the errors entry must be present"; `data` is a map or null,
and null (or absent) only together with errors; `pre` = the request failed before execution began
(then "the data entry should not be present" — `null` is what graphql-core/graphql-js emit and is
accepted — and no error has a `path`). -/
def wfResponse (pre : Bool) : J → Bool
  | .obj kvs =>
    allowedKeys ["data", "errors", "extensions"] kvs &&
    (match J.get? kvs "errors" with
      | none => true
      | some (.list es) => !es.isEmpty && es.all (wfError pre)
      | _ => false) &&
    (match J.get? kvs "data" with
      | none => (J.get? kvs "errors").isSome
      | some .null => (J.get? kvs "errors").isSome
      | some (.obj _) => !pre
      | _ => false) &&
    (match J.get? kvs "extensions" with
      | none => true
      | some (.obj _) => true
      | _ => false)
  | _ => false

/-- First clause that fails, for the driver's diagnostics. -/
def wfWhy (pre : Bool) : J → String
  | .obj kvs =>
    if !allowedKeys ["data", "errors", "extensions"] kvs then "response-keys"
    else if !(match J.get? kvs "errors" with
      | none => true
      | some (.list es) => !es.isEmpty
      | _ => false) then "errors-empty-or-not-list"
    else if !(match J.get? kvs "errors" with
      | some (.list es) => es.all (wfError pre)
      | _ => true) then "error-entry-malformed"
    else if !(match J.get? kvs "data" with
      | none => (J.get? kvs "errors").isSome
      | some .null => (J.get? kvs "errors").isSome
      | some (.obj _) => !pre
      | _ => false) then "data-shape"
    else if !(match J.get? kvs "extensions" with
      | none => true
      | some (.obj _) => true
      | _ => false) then "extensions-not-map"
    else "ok"
  | _ => "response-not-map"

end Gql.Spec
