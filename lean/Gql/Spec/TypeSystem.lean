import Gql.Types.RawSchema
/-
`Spec.TypeSystemValid`: the "Type Validation" rules of the GraphQL specification's Type System
section (§3.3 Schema / root operation types, §3.5 reserved names, §3.6 Objects,
§3.7 Interfaces, §3.8 Unions, §3.9 Enums, §3.10 Input Objects incl. OneOf and the two
circular-reference rules, §3.13 Directives, and "default values must be compatible with the
type as per its coercion rules"), written per type kind as a decidable predicate over a
`RawSchema`.  It is written from the specification text, not from validate.py: no error
lists, no visited-set bookkeeping, no reporting order.

Conventions where the specification presupposes well-formed input that a raw schema need not
have: an object literal with a repeated key denotes the map in which the last entry wins;
a reference to something that is not a type of the schema satisfies no "must be a … type" rule.
-/
namespace Gql.Types.Spec
open Gql.Types

/-! ### §3.5 reserved names -/

/-- "must not have a name which begins with the characters `__` (two underscores)" -/
def nameOk (n : Str) : Bool := !startsWithDunder n

/-! ### input coercion of const literals (§3.5.x "Input Coercion", §3.9, §3.10, §3.11, §3.12) -/

/-- Input coercion of a literal by a built-in scalar (custom scalars define their own
coercion; the library's default accepts every literal). -/
def scalarCoerces : ScalarKind → Lit → Bool
  | .int, .int i => decide (-(2 ^ 31 : Int) ≤ i) && decide (i < (2 ^ 31 : Int))
  | .float, .int _ | .float, .float => true
  | .string, .str => true
  | .boolean, .bool => true
  | .id, .str | .id, .int _ => true
  | .custom, _ => true
  | _, _ => false

/-- the entry of an object literal for a field name (last one wins on repetition) -/
def entryOf {α : Type} : List (Str × α) → Str → Option α
  | [], _ => none
  | e :: rest, k => (entryOf rest k).or (if e.1 = k then some e.2 else none)

/-- The expected type once Non-Null wrappers, and List wrappers a non-list value is promoted
through ("a list of size one"), are removed; `none` when the value is `null` at a Non-Null. -/
def expected (isNull isList : Bool) : TRef → Option TRef
  | .nonNull t => if isNull then none else expected isNull isList t
  | .list t => if isNull || isList then some (.list t) else expected isNull isList t
  | .named n => some (.named n)

def litIsNull : Lit → Bool | .null => true | _ => false
def litIsList : Lit → Bool | .list _ => true | _ => false

/-- exactly one entry, and its value is not null -/
def oneNonNullEntry (fs : List (Str × Lit)) : Bool :=
  match fs with
  | [e] => !litIsNull e.2
  | _ => false

/-- Input coercion of an object literal `fs` by an input object type (§3.10), given per entry
whether its value coerces to a type (`byField`). -/
def objectCoerces (fields : List InputValue) (oneOf : Bool) (fs : List (Str × Lit))
    (byField : List (Str × (TRef → Bool))) : Bool :=
  -- every entry names a defined field
  fs.all (fun e => fields.any (fun fd => fd.name = e.1))
  -- every defined field: the provided value coerces to its type; an omitted field must have
  -- a default or be nullable
  && fields.all (fun fd =>
      match entryOf byField fd.name with
      | some ok => ok fd.type
      | none => fd.default.isSome || fd.legacyDefault || !fd.type.isNonNull)
  -- OneOf: exactly one entry, and it is not null
  && (!oneOf || oneNonNullEntry fs)

mutual
/-- "the value is compatible with the type as per the coercion rules for that type" -/
def coercible (s : RawSchema) : Lit → TRef → Bool
  | .null, t => (expected true false t).isSome
  | .list xs, t =>
    match expected false true t with
    | some (.list item) => allCoercible s xs item
    | some (.named n) =>
      -- a list literal at a named type: only a custom scalar takes it
      (match s.lookup n with | some (.scalar k) => scalarCoerces k (.list []) | _ => false)
    | _ => false
  | .obj fs, t =>
    match expected false false t with
    | some (.named n) =>
      match s.lookup n with
      | some (.input fields oneOf) => objectCoerces fields oneOf fs (entryCoercible s fs)
      | some (.scalar k) => scalarCoerces k (.obj [])
      | _ => false
    | _ => false
  | .enum v, t =>
    match expected false false t with
    | some (.named n) =>
      (match s.lookup n with
       | some (.enum vs) => vs.contains v
       | some (.scalar k) => scalarCoerces k (.enum v)
       | _ => false)
    | _ => false
  | .int i, t => leafCoercible s (.int i) (expected false false t)
  | .float, t => leafCoercible s .float (expected false false t)
  | .str, t => leafCoercible s .str (expected false false t)
  | .bool, t => leafCoercible s .bool (expected false false t)
def allCoercible (s : RawSchema) : List Lit → TRef → Bool
  | [], _ => true
  | x :: xs, t => coercible s x t && allCoercible s xs t
def entryCoercible (s : RawSchema) : List (Str × Lit) → List (Str × (TRef → Bool))
  | [] => []
  | e :: rest => (e.1, coercible s e.2) :: entryCoercible s rest
/-- a number / string / boolean literal: only scalars take it -/
def leafCoercible (s : RawSchema) (v : Lit) : Option TRef → Bool
  | some (.named n) => (match s.lookup n with | some (.scalar k) => scalarCoerces k v | _ => false)
  | _ => false
end

/-! ### arguments and input fields -/

/-- required: Non-Null type and no default value -/
def required (a : InputValue) : Bool :=
  a.type.isNonNull && !(a.default.isSome || a.legacyDefault)

/-- "If the argument / input field has a default value, it must be compatible with the type
as per the coercion rules for that type." -/
def defaultOk (s : RawSchema) (a : InputValue) : Bool :=
  match a.default with
  | some v => coercible s v a.type
  | none => true

/-- Rules every argument definition (of a field or a directive) and every input field obeys:
reserved name, input type, "a required argument/input field must not be deprecated",
a default value coerces to the type. -/
def inputValueOk (s : RawSchema) (a : InputValue) : Bool :=
  nameOk a.name
  && s.isInputType a.type
  && !(required a && a.deprecated)
  && defaultOk s a

/-! ### §3.6 / §3.7 fields of objects and interfaces -/

def fieldOk (s : RawSchema) (f : Field) : Bool :=
  nameOk f.name && s.isOutputType f.type && f.args.all (inputValueOk s)

/-- "must define one or more fields", and each field is fine -/
def fieldsOk (s : RawSchema) (fields : List Field) : Bool :=
  !fields.isEmpty && fields.all (fieldOk s)

/-! ### IsValidImplementation -/

/-- IsSubType(possibleSubType, superType) on named types -/
def isSubType (s : RawSchema) (sub sup : Str) : Bool :=
  sub = sup
  || ((s.isObject sub || s.isInterface sub) && s.isInterface sup && (s.ifacesOf sub).contains sup)
  || (s.isObject sub && (match s.lookup sup with | some (.union ms) => ms.contains sub | _ => false))

/-- IsValidImplementationFieldType(fieldType, implementedFieldType) -/
def validImplementationFieldType (s : RawSchema) : TRef → TRef → Bool
  | .nonNull a, .nonNull b => validImplementationFieldType s a b
  | .nonNull a, b => validImplementationFieldType s a b
  | .list a, .list b => validImplementationFieldType s a b
  | .named a, .named b => isSubType s a b
  | _, _ => false

/-- "field must include an argument of the same name for every argument defined in
implementedField; that argument must accept the same type (invariant)" -/
def hasSameArg (fArgs : List InputValue) (ia : InputValue) : Bool :=
  match fArgs.find? (fun a => a.name = ia.name) with
  | some a => a.type = ia.type
  | none => false

/-- IsValidImplementation(type, implementedType), the fields part, for one interface field -/
def implementsField (s : RawSchema) (tFields : List Field) (ifld : Field) : Bool :=
  match tFields.find? (fun f => f.name = ifld.name) with
  | none => false
  | some f =>
    -- same arguments, same (invariant) types
    ifld.args.all (hasSameArg f.args)
    -- additional arguments are not required
    && f.args.all (fun a => ifld.args.any (fun ia => ia.name = a.name) || !required a)
    -- covariant return type
    && validImplementationFieldType s f.type ifld.type
    -- a deprecated implementation needs a deprecated interface field
    && (!f.deprecated || ifld.deprecated)

/-- The "implements" clause of an object or interface type `tn`. -/
def implementsOk (s : RawSchema) (tn : Str) (ifaces : List Str) (tFields : List Field) : Bool :=
  -- only interface types, each once, never itself
  ifaces.all s.isInterface && ifaces.Nodup && !ifaces.contains tn
  && ifaces.all (fun i =>
      -- whatever the interface implements, the type declares too
      (s.ifacesOf i).all ifaces.contains
      -- and every field of the interface is implemented
      && (match s.fieldsOf i with
          | some ifs => ifs.all (implementsField s tFields)
          | none => false))

/-! ### §3.10 circular references of input objects -/

/-- fields of `tn` whose type is Non-Null of an input object (not a list): the references a
value cannot break -/
def unbreakableRefs (s : RawSchema) (tn : Str) : List Str :=
  match s.lookup tn with
  | some (.input fields _) =>
    fields.filterMap (fun f =>
      match f.type with
      | .nonNull (.named m) => if s.isInputObject m then some m else none
      | _ => none)
  | _ => []

/-- everything reachable from `xs` in at most `n` further steps -/
def reachable (s : RawSchema) : Nat → List Str → List Str
  | 0, xs => xs
  | n + 1, xs => reachable s n (xs ++ xs.flatMap (unbreakableRefs s)).eraseDups

/-- "If an Input Object references itself either directly or through referenced Input Objects, at
least one of the fields in the chain of references must be either a nullable or a List type." -/
def noUnbreakableCycle (s : RawSchema) (tn : Str) : Bool :=
  !(reachable s s.types.length (unbreakableRefs s tn)).contains tn

/-! InputObjectDefaultValueHasCycle / InputFieldDefaultValueHasCycle, transcribed. `budget`
bounds the nesting of *field defaults* (each level adds a field to `visitedFields`, which is a
subset of the schema's input fields). -/

/-- the loop "for each field in inputObject: if InputFieldDefaultValueHasCycle(...)" given the
per-entry answers for the provided entries -/
def objectHasCycle (s : RawSchema) (fieldDefault : InputValue → Str → Str → Bool) (tn : Str)
    (entries : List (Str × (Str → Bool))) : Bool :=
  match s.lookup tn with
  | some (.input fields _) =>
    fields.any (fun f =>
      let m := f.type.namedType
      s.isInputObject m &&
        (match entryOf entries f.name with
         | some sub => sub m
         | none => fieldDefault f m (tn ++ [46] ++ f.name)))
  | _ => false

mutual
/-- InputObjectDefaultValueHasCycle(inputObject, defaultValue, visitedFields) -/
def valueHasCycle (s : RawSchema) (fieldDefault : InputValue → Str → Str → Bool) : Lit → Str → Bool
  | .list xs, tn => anyHasCycle s fieldDefault xs tn
  | .obj fs, tn => objectHasCycle s fieldDefault tn (entriesHaveCycle s fieldDefault fs)
  | _, _ => false
def anyHasCycle (s : RawSchema) (fieldDefault : InputValue → Str → Str → Bool) : List Lit → Str → Bool
  | [], _ => false
  | x :: xs, tn => valueHasCycle s fieldDefault x tn || anyHasCycle s fieldDefault xs tn
def entriesHaveCycle (s : RawSchema) (fieldDefault : InputValue → Str → Str → Bool) :
    List (Str × Lit) → List (Str × (Str → Bool))
  | [] => []
  | e :: rest => (e.1, valueHasCycle s fieldDefault e.2) :: entriesHaveCycle s fieldDefault rest
end

/-- the "Otherwise" branch of InputFieldDefaultValueHasCycle: the field's own default -/
def fieldDefaultHasCycle (s : RawSchema) : Nat → List Str → InputValue → Str → Str → Bool
  | 0, _, _, _, _ => true
  | budget + 1, visited, f, m, coord =>
    match f.default with
    | none => false
    | some v =>
      visited.contains coord
      || valueHasCycle s (fieldDefaultHasCycle s budget (coord :: visited)) v m

def inputFieldCount (s : RawSchema) : Nat :=
  (s.types.map (fun t => match t.defn with | .input fs _ => fs.length | _ => 0)).sum

/-- InputObjectDefaultValueHasCycle(inputObject) with the empty map and no visited fields -/
def defaultValueHasCycle (s : RawSchema) (tn : Str) : Bool :=
  objectHasCycle s (fieldDefaultHasCycle s (inputFieldCount s + 1) []) tn []

/-! ### per kind -/

def inputFieldOk (s : RawSchema) (oneOf : Bool) (f : InputValue) : Bool :=
  inputValueOk s f
  -- OneOf: nullable, no default
  && (!oneOf || (!f.type.isNonNull && !(f.default.isSome || f.legacyDefault)))

def typeOk (s : RawSchema) (t : NamedType) : Bool :=
  (isIntrospectionName t.name || nameOk t.name)
  && (match t.defn with
      | .scalar _ => true
      | .object is fs => fieldsOk s fs && implementsOk s t.name is fs
      | .interface is fs => fieldsOk s fs && implementsOk s t.name is fs
      | .union ms => !ms.isEmpty && ms.Nodup && ms.all s.isObject
      | .enum vs => !vs.isEmpty && vs.all nameOk
      | .input fs oneOf =>
        !fs.isEmpty && fs.all (inputFieldOk s oneOf)
        && noUnbreakableCycle s t.name && !defaultValueHasCycle s t.name)

def directiveOk (s : RawSchema) (d : Directive) : Bool :=
  nameOk d.name && d.locations ≠ 0 && d.args.all (inputValueOk s)

/-- §3.3: the query root is required; every provided root is an Object type; all different. -/
def rootsOk (s : RawSchema) : Bool :=
  (match s.query with | some q => s.isObject q | none => false)
  && (match s.mutation with | some m => s.isObject m | none => true)
  && (match s.subscription with | some m => s.isObject m | none => true)
  && [s.query, s.mutation, s.subscription].reduceOption.Nodup

end Spec

/-! ### inhabitation of input objects (newer specification text; NOT part of `TypeSystemValid`)

Every input object type must have at least one finite value.  For ordinary input objects this is
the unbreakable-cycle rule above; for OneOf input objects — where exactly one field must be set to
a non-null value — the transcribed revision only requires "nullable, no default", newer text also
requires a value to exist.  `uninhabited` is the oracle the check uses to recognise that gap. -/

/-- a non-null value of type `t` exists, given the input objects already known to have one -/
def Spec.hasNonNullValue (s : RawSchema) (known : List Str) : TRef → Bool
  | .nonNull t => Spec.hasNonNullValue s known t
  | .list _ => true
  | .named n => !s.isInputObject n || known.contains n

/-- one round of the least fixpoint: the input objects that have a value built from `known` -/
def Spec.inhabitedStep (s : RawSchema) (known : List Str) : List Str :=
  s.types.filterMap (fun t =>
    match t.defn with
    | .input fs oneOf =>
      let ok :=
        if oneOf then fs.any (fun f => Spec.hasNonNullValue s known f.type)
        else fs.all (fun f => !Spec.required f || Spec.hasNonNullValue s known f.type)
      if ok then some t.name else none
    | _ => none)

def Spec.inhabitedIter (s : RawSchema) : Nat → List Str → List Str
  | 0, known => known
  | n + 1, known => Spec.inhabitedIter s n (Spec.inhabitedStep s known)

/-- the input object types of the schema that have no finite value -/
def Spec.uninhabited (s : RawSchema) : List Str :=
  let known := Spec.inhabitedIter s (s.types.length + 1) []
  s.types.filterMap (fun t =>
    match t.defn with
    | .input _ _ => if known.contains t.name then none else some t.name
    | _ => none)

/-- The schema satisfies the specification's type-system validation rules. -/
def Spec.TypeSystemValid (s : RawSchema) : Bool :=
  Spec.rootsOk s && s.directives.all (Spec.directiveOk s) && s.types.all (Spec.typeOk s)

end Gql.Types
