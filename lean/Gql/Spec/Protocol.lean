/-
# The incremental delivery protocol (specification side of C05)

Transcribed from the property text (properties.jsonl, C05) and the incremental delivery
response format (`pending` / `incremental` / `completed` / `hasNext`), *not* from the
implementation.  `check` is a decision procedure over a whole response stream (the initial
result followed by the subsequent results); it returns the first violated clause.

Clauses (names used in verdicts):
* P1  a pending id is announced at most once, and before any data for it;
* P2  ids are never reused (an id that was ever announced, or that ever appeared in
      `completed`, is never announced again);
* P3  every incremental entry targets a currently pending id (P3a) and `path ++ subPath`
      resolves to an object (defer) / `path` resolves to a list (stream) of the data assembled
      so far (P3b);
* P4  every announced id is completed exactly once: never twice (P4a), and none is left
      pending when the stream ends (P4b);
* P5  a nested fragment is never announced while an announced enclosing fragment is still
      pending (judged per payload: an enclosing fragment completed by the same payload is not
      "still pending");
* P6  stream items arrive in list order without gaps or repeats: an item whose source index
      is known must land at exactly that position of the assembled list;
* P7  `hasNext` is true on every payload except the last; nothing follows the last.

A *failed* `completed` entry (one with errors) for an id that was never announced is what the
implementation emits in observation O1 of DESIGN §7; no clause forbids it, so it is accepted
and the id is marked as used.  A successful completion of a never-announced id is data for
something that was not announced (P1).
-/
namespace Gql.Spec.Protocol

/-- JSON-like response data.  Object keys and scalar leaves are interned to numbers by the
harness (only equality of keys matters to the protocol). -/
inductive J where
  | null
  | leaf (n : Nat)
  | obj (kvs : List (Nat × J))
  | arr (xs : List J)
  deriving Repr, Inhabited

/-- A response path: keys and list indices, interned (`2*k+1` for the k-th distinct string
key, `2*i` for the list index `i`). -/
abbrev Path := List Nat

structure Pending where
  id : Nat
  path : Path
  label : Option Nat
  deriving Repr, DecidableEq

inductive Incr where
  /-- `{id, subPath, data}`; an absent `subPath` is `[]`. -/
  | defer (id : Nat) (subPath : Path) (data : J)
  /-- `{id, items}`; each item with its index in the source list when the harness knows it. -/
  | stream (id : Nat) (items : List (Option Nat × J))
  deriving Repr

def Incr.id : Incr → Nat
  | .defer i _ _ => i
  | .stream i _ => i

structure Completed where
  id : Nat
  failed : Bool
  deriving Repr, DecidableEq

structure Payload where
  pending : List Pending := []
  incremental : List Incr := []
  completed : List Completed := []
  hasNext : Bool := true
  deriving Repr

/-! ## Assembling data (only as far as P3b / P6 need it) -/

def isIndex (k : Nat) : Bool := k % 2 == 0

def objGet : List (Nat × J) → Nat → Option J
  | [], _ => none
  | (k', v) :: r, k => if k' = k then some v else objGet r k

def objSet : List (Nat × J) → Nat → J → List (Nat × J)
  | [], k, v => [(k, v)]
  | (k', v') :: r, k, v => if k' = k then (k, v) :: r else (k', v') :: objSet r k v

/-- Follow a path; `none` when it does not resolve. -/
def resolve : J → Path → Option J
  | j, [] => some j
  | .obj kvs, k :: r => if isIndex k then none else (objGet kvs k).bind (resolve · r)
  | .arr xs, k :: r => if isIndex k then (xs[k / 2]?).bind (resolve · r) else none
  | _, _ :: _ => none

/-- Replace the value at a path that resolves (`none` otherwise). -/
def update : J → Path → (J → Option J) → Option J
  | j, [], f => f j
  | .obj kvs, k :: r, f =>
    if isIndex k then none else
    match objGet kvs k with
    | none => none
    | some v => (update v r f).map (fun v' => .obj (objSet kvs k v'))
  | .arr xs, k :: r, f =>
    if isIndex k then
      match xs[k / 2]? with
      | none => none
      | some v => (update v r f).map (fun v' => .arr (xs.set (k / 2) v'))
    else none
  | _, _ :: _, _ => none

/-- Merge the keys of a deferred fragment's data into the target object. -/
def mergeObj (target : J) (data : J) : Option J :=
  match target, data with
  | .obj kvs, .obj add => some (.obj (add.foldl (fun acc kv => objSet acc kv.1 kv.2) kvs))
  | .obj kvs, _ => some (.obj kvs)   -- malformed data is not the protocol's business
  | _, _ => none

/-! ## The validator -/

inductive Clause where
  | P1 | P2 | P3a | P3b | P4a | P4b | P5 | P6 | P7
  deriving Repr, DecidableEq

def Clause.name : Clause → String
  | .P1 => "P1" | .P2 => "P2" | .P3a => "P3a" | .P3b => "P3b" | .P4a => "P4a"
  | .P4b => "P4b" | .P5 => "P5" | .P6 => "P6" | .P7 => "P7"

structure Verdict where
  clause : Clause
  payload : Nat      -- index in the stream (0 = initial result)
  id : Nat           -- the id concerned (0 when none)
  deriving Repr, DecidableEq

structure VState where
  data : J
  /-- announced and not yet completed -/
  openP : List Pending := []
  /-- every id that was ever announced or ever appeared in `completed` -/
  used : List Nat := []
  /-- ids that were announced at some point -/
  announced : List Nat := []
  finished : Bool := false
  index : Nat := 0

def findOpen (ps : List Pending) (id : Nat) : Option Pending :=
  ps.find? (fun p => p.id == id)

/-- Step 1: announcements. -/
def announce (st : VState) : List Pending → Except Verdict VState
  | [] => .ok st
  | p :: r =>
    if p.id ∈ st.announced then .error ⟨.P1, st.index, p.id⟩
    else if p.id ∈ st.used then .error ⟨.P2, st.index, p.id⟩
    else announce { st with openP := st.openP ++ [p], used := p.id :: st.used,
                            announced := p.id :: st.announced } r

/-- Append stream items to a list, checking each known source index against the position
it lands at (P6). -/
def appendItems (xs : List J) : List (Option Nat × J) → Option (List J)
  | [] => some xs
  | (some i, v) :: r => if i = xs.length then appendItems (xs ++ [v]) r else none
  | (none, v) :: r => appendItems (xs ++ [v]) r

/-- Step 2: incremental entries, in order.  `withData = false` skips P3b and checks P6 only
as far as the payloads alone allow (nothing), for streams whose data is not a real tree. -/
def applyIncr (withData : Bool) (st : VState) : List Incr → Except Verdict VState
  | [] => .ok st
  | e :: r =>
    match findOpen st.openP e.id with
    | none =>
      -- data for an id that is not pending: never announced (P1) or already completed (P3a)
      if e.id ∈ st.announced then .error ⟨.P3a, st.index, e.id⟩ else .error ⟨.P1, st.index, e.id⟩
    | some p =>
      if !withData then applyIncr withData st r else
      match e with
      | .defer _ sub data =>
        match update st.data (p.path ++ sub) (fun t => mergeObj t data) with
        | none => .error ⟨.P3b, st.index, p.id⟩
        | some d => applyIncr withData { st with data := d } r
      | .stream _ items =>
        match resolve st.data p.path with
        | some (.arr xs) =>
          match appendItems xs items with
          | none => .error ⟨.P6, st.index, p.id⟩
          | some ys =>
            match update st.data p.path (fun _ => some (.arr ys)) with
            | none => .error ⟨.P3b, st.index, p.id⟩
            | some d => applyIncr withData { st with data := d } r
        | _ => .error ⟨.P3b, st.index, p.id⟩

/-- Step 3: completions. -/
def complete (st : VState) : List Completed → Except Verdict VState
  | [] => .ok st
  | c :: r =>
    match findOpen st.openP c.id with
    | some _ => complete { st with openP := st.openP.filter (fun p => p.id != c.id) } r
    | none =>
      if c.id ∈ st.used then .error ⟨.P4a, st.index, c.id⟩
      else if c.failed then complete { st with used := c.id :: st.used } r   -- O1: tolerated
      else .error ⟨.P1, st.index, c.id⟩   -- a *successful* completion of something never announced

/-- Step 4: P5, judged on the pending set left by this payload. -/
def nestingOk (encl : Pending → Pending → Bool) (st : VState) : List Pending → Except Verdict Unit
  | [] => .ok ()
  | b :: r =>
    if st.openP.any (fun a => a.id != b.id && encl a b) then .error ⟨.P5, st.index, b.id⟩
    else nestingOk encl st r

def stepPayload (withData : Bool) (encl : Pending → Pending → Bool) (st : VState) (p : Payload) :
    Except Verdict VState := do
  if st.finished then throw ⟨.P7, st.index, 0⟩
  let st ← announce st p.pending
  let st ← applyIncr withData st p.incremental
  let st ← complete st p.completed
  nestingOk encl st p.pending
  if !p.hasNext then
    match st.openP with
    | q :: _ => throw ⟨.P4b, st.index, q.id⟩
    | [] => pure { st with finished := true, index := st.index + 1 }
  else pure { st with index := st.index + 1 }

def runPayloads (withData : Bool) (encl : Pending → Pending → Bool) (st : VState) :
    List Payload → Except Verdict VState
  | [] => .ok st
  | p :: r =>
    match stepPayload withData encl st p with
    | .error v => .error v
    | .ok st' => runPayloads withData encl st' r

/-- First violated clause of a (prefix of a) response stream; `none` if it is a legal prefix. -/
def checkPrefix (withData : Bool) (encl : Pending → Pending → Bool) (initData : J)
    (ps : List Payload) : Option Verdict :=
  match runPayloads withData encl { data := initData } ps with
  | .error v => some v
  | .ok _ => none

/-- First violated clause of a *complete* response stream (the last payload must carry
`hasNext = false`). -/
def check (withData : Bool) (encl : Pending → Pending → Bool) (initData : J)
    (ps : List Payload) : Option Verdict :=
  match runPayloads withData encl { data := initData } ps with
  | .error v => some v
  | .ok st => if st.finished then none else some ⟨.P7, st.index, 0⟩

/-- "Enclosing" from static nesting of labels plus the response paths: `a` encloses `b` when
`a`'s label is a proper ancestor of `b`'s label in `parentOf` (child label ↦ parent label)
and `a`'s path is a prefix of `b`'s path. -/
def ancestorLabel (parentOf : List (Nat × Nat)) : Nat → Nat → Nat → Bool
  | 0, _, _ => false
  | fuel + 1, a, b =>
    match parentOf.find? (fun kv => kv.1 == b) with
    | none => false
    | some (_, p) => p == a || ancestorLabel parentOf fuel a p

def enclByLabels (parentOf : List (Nat × Nat)) (a b : Pending) : Bool :=
  match a.label, b.label with
  | some la, some lb => ancestorLabel parentOf (parentOf.length + 1) la lb && a.path.isPrefixOf b.path
  | _, _ => false

def protocolOk (parentOf : List (Nat × Nat)) (initData : J) (ps : List Payload) : Bool :=
  (check true (enclByLabels parentOf) initData ps).isNone

/-! ## Data-free clause predicates (used by the theorems about the model) -/

def announcedIds (ps : List Payload) : List Nat :=
  ps.flatMap (fun p => p.pending.map (·.id))

def completedIds (ps : List Payload) : List Nat :=
  ps.flatMap (fun p => p.completed.map (·.id))

/-- P1 (at most once) + P2 restricted to announcements: no id is announced twice. -/
def AnnouncedOnce (ps : List Payload) : Prop := (announcedIds ps).Nodup

/-- P4a: no id appears twice in `completed`. -/
def CompletedOnce (ps : List Payload) : Prop := (completedIds ps).Nodup

/-- P2 ("never reused after deletion"): no payload announces an id that an *earlier* payload
(or the set `retired`) already completed. -/
def NoReuse : List Nat → List Payload → Prop
  | _, [] => True
  | retired, p :: r =>
    (∀ a ∈ p.pending, a.id ∉ retired) ∧ NoReuse (retired ++ p.completed.map (·.id)) r

/-- P3a across payloads ("targets a currently pending id", the part about completion): no
incremental entry targets an id that an *earlier* payload (or `retired`) already completed. -/
def NoLateData : List Nat → List Payload → Prop
  | _, [] => True
  | retired, p :: r =>
    (∀ e ∈ p.incremental, e.id ∉ retired) ∧ NoLateData (retired ++ p.completed.map (·.id)) r

/-- P7 on a prefix: every payload but the last has `hasNext = true`. -/
def HasNextOk : List Payload → Prop
  | [] => True
  | [_] => True
  | p :: q :: r => p.hasNext = true ∧ HasNextOk (q :: r)

end Gql.Spec.Protocol
