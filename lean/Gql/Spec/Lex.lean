/-!
# The lexical grammar of GraphQL (specification §2.1), independent of the lexer's code

Source text is a list of Python code points.  Convention (DESIGN §6 C09): a *SourceCharacter* is a
Unicode scalar value, or a lead surrogate immediately followed by a trail surrogate (Python
strings can hold surrogate code points; the lexer is a port of a UTF-16 implementation); a lone
surrogate is not source text.

Two layers:

* **recognisers** – for every lexical class a function on a *suffix* of the text returning the
  longest match of that class (length, and the semantic value where the class has one), written
  by structural recursion on the suffix; `lexToken?` takes the longest match over all classes,
  `specTokenize` splits a text into `Ignored* (Token Ignored*)* ` and returns the tokens with
  their spans, `none` when the text is not in the language;
* **relations** – the grammar productions as inductive predicates (`IsName`, `IsIntegerPart`, …,
  `Ignored1`, `SpecTokens`), the reference reading of the recognisers.

Deviation recorded: `EscapedUnicode :: { HexDigit+ }` has no length bound in the specification;
the reference implementation (GraphQL.js, and graphql-core after it) reads at most
`maxEscapeHexDigits = 8` digits (`\u{00000000}`), so a scalar written with 9+ digits (leading
zeros) is rejected.  The spec below carries that bound as an explicit parameter-like constant.
-/
namespace Gql.Spec.Lex

/-! ## Character classes (spec §2.1.1–2.1.9) -/

def Digit (c : Nat) : Prop := 48 ≤ c ∧ c ≤ 57
def NonZeroDigit (c : Nat) : Prop := 49 ≤ c ∧ c ≤ 57
def Letter (c : Nat) : Prop := (65 ≤ c ∧ c ≤ 90) ∨ (97 ≤ c ∧ c ≤ 122)
def NameStart (c : Nat) : Prop := Letter c ∨ c = 95
def NameContinue (c : Nat) : Prop := Letter c ∨ Digit c ∨ c = 95
def HexDigit (c : Nat) : Prop := (48 ≤ c ∧ c ≤ 57) ∨ (65 ≤ c ∧ c ≤ 70) ∨ (97 ≤ c ∧ c ≤ 102)
/-- Unicode scalar value. -/
def Scalar (c : Nat) : Prop := c ≤ 0xD7FF ∨ (0xE000 ≤ c ∧ c ≤ 0x10FFFF)
def LeadSurrogate (c : Nat) : Prop := 0xD800 ≤ c ∧ c ≤ 0xDBFF
def TrailSurrogate (c : Nat) : Prop := 0xDC00 ≤ c ∧ c ≤ 0xDFFF
/-- First code point of a LineTerminator (`LF`, `CR`). -/
def LineTerm (c : Nat) : Prop := c = 10 ∨ c = 13

instance : DecidablePred Digit := fun c => by unfold Digit; exact inferInstance
instance : DecidablePred NonZeroDigit := fun c => by unfold NonZeroDigit; exact inferInstance
instance : DecidablePred Letter := fun c => by unfold Letter; exact inferInstance
instance : DecidablePred NameStart := fun c => by unfold NameStart; exact inferInstance
instance : DecidablePred NameContinue := fun c => by unfold NameContinue; exact inferInstance
instance : DecidablePred HexDigit := fun c => by unfold HexDigit; exact inferInstance
instance : DecidablePred Scalar := fun c => by unfold Scalar; exact inferInstance
instance : DecidablePred LeadSurrogate := fun c => by unfold LeadSurrogate; exact inferInstance
instance : DecidablePred TrailSurrogate := fun c => by unfold TrailSurrogate; exact inferInstance
instance : DecidablePred LineTerm := fun c => by unfold LineTerm; exact inferInstance

/-- Length (1 or 2 code points) of the SourceCharacter at the head of the suffix, if there is one. -/
def sourceCharLen : List Nat → Option Nat
  | [] => none
  | c :: rest =>
    if Scalar c then some 1
    else match rest with
      | d :: _ => if LeadSurrogate c ∧ TrailSurrogate d then some 2 else none
      | [] => none

/-! ## Tokens -/

inductive Kind where
  | bang | dollar | amp | parenL | parenR | spread | colon | equals | at
  | bracketL | bracketR | braceL | pipe | braceR
  | name | int | float | string | blockString | eof
  /-- not a token of the lexical grammar (the implementation's SOF, COMMENT and the
  schema-coordinate DOT map here); never produced by the recognisers below -/
  | other
  deriving Repr, DecidableEq, Inhabited

structure SpecToken where
  kind : Kind
  start : Nat
  stop : Nat
  value : Option (List Nat)
  deriving Repr, DecidableEq

/-- A match of a lexical class at the head of a suffix: its kind, its length and its value. -/
structure Match where
  kind : Kind
  len : Nat
  value : Option (List Nat)
  deriving Repr, DecidableEq

/-! ### Ignored (§2.1.7): UnicodeBOM | WhiteSpace | LineTerminator | Comment | Comma -/

/-- `CommentChar* [lookahead != CommentChar]`: the length of the longest run of
SourceCharacters that are not line terminators. -/
def commentCharsLen : List Nat → Nat
  | [] => 0
  | c :: rest =>
    if LineTerm c then 0
    else if Scalar c then commentCharsLen rest + 1
    else match rest with
      | d :: rest' => if LeadSurrogate c ∧ TrailSurrogate d then commentCharsLen rest' + 2 else 0
      | [] => 0

/-- One `Ignored` item at the head of the suffix: its length. -/
def ignoredLen : List Nat → Option Nat
  | 0xFEFF :: _ => some 1              -- UnicodeBOM
  | 9 :: _ => some 1                   -- WhiteSpace: horizontal tab
  | 32 :: _ => some 1                  -- WhiteSpace: space
  | 10 :: _ => some 1                  -- LineTerminator: new line
  | 13 :: 10 :: _ => some 2            -- LineTerminator: carriage return, new line
  | 13 :: _ => some 1                  -- LineTerminator: carriage return [lookahead != new line]
  | 44 :: _ => some 1                  -- Comma
  | 35 :: rest => some (1 + commentCharsLen rest)  -- Comment
  | _ => none

/-! ### Punctuator (§2.1.8): `! $ & ( ) ... : = @ [ ] { | }` -/

/-- The punctuators with their source text. -/
def punctuators : List (List Nat × Kind) :=
  [([33], .bang), ([36], .dollar), ([38], .amp), ([40], .parenL), ([41], .parenR),
   ([46, 46, 46], .spread), ([58], .colon), ([61], .equals), ([64], .at), ([91], .bracketL),
   ([93], .bracketR), ([123], .braceL), ([124], .pipe), ([125], .braceR)]

/-- The punctuator whose text is a prefix of the suffix (no punctuator is a prefix of another). -/
def punctuator? (s : List Nat) : Option Match :=
  punctuators.findSome? (fun p => if p.1.isPrefixOf s then some ⟨p.2, p.1.length, none⟩ else none)

/-! ### Name (§2.1.9): `NameStart NameContinue* [lookahead != NameContinue]` -/

def nameContinueLen : List Nat → Nat
  | [] => 0
  | c :: rest => if NameContinue c then nameContinueLen rest + 1 else 0

def name? : List Nat → Option Match
  | c :: rest =>
    if NameStart c then
      let n := 1 + nameContinueLen rest
      some ⟨.name, n, some ((c :: rest).take n)⟩
    else none
  | [] => none

/-! ### IntValue, FloatValue (§2.9.1, §2.9.2) -/

def digitsLen : List Nat → Nat
  | [] => 0
  | c :: rest => if Digit c then digitsLen rest + 1 else 0

/-- `Digit+` – length. -/
def digits1? (s : List Nat) : Option Nat :=
  if digitsLen s = 0 then none else some (digitsLen s)

/-- `0 | NonZeroDigit Digit*` – length. -/
def unsignedIntegerPart? : List Nat → Option Nat
  | [] => none
  | c :: rest =>
    if c = 48 then some 1
    else if NonZeroDigit c then some (1 + digitsLen rest) else none

/-- `IntegerPart :: NegativeSign? 0 | NegativeSign? NonZeroDigit Digit*` – length. -/
def integerPart? : List Nat → Option Nat
  | [] => none
  | c :: rest =>
    if c = 45 then (unsignedIntegerPart? rest).map (· + 1) else unsignedIntegerPart? (c :: rest)

/-- `FractionalPart :: . Digit+` – length. -/
def fractionalPart? : List Nat → Option Nat
  | [] => none
  | c :: rest => if c = 46 then (digits1? rest).map (· + 1) else none

/-- `ExponentPart :: ExponentIndicator Sign? Digit+` – length. -/
def exponentPart? : List Nat → Option Nat
  | [] => none
  | e :: rest =>
    if e = 69 ∨ e = 101 then
      match rest with
      | [] => none
      | c :: rest' =>
        if c = 43 ∨ c = 45 then (digits1? rest').map (· + 2) else (digits1? rest).map (· + 1)
    else none

/-- The lookahead restriction of both number productions: `[lookahead != {Digit, `.`, NameStart}]`. -/
def numberLookaheadOk : List Nat → Bool
  | [] => true
  | c :: _ => ¬ Digit c ∧ c ≠ 46 ∧ ¬ NameStart c

/-- The number productions that continue after the first `n` code points (`s` is the rest of the
text, `isFloat` says whether a FractionalPart has been read), as (isFloat, length):
the production ending here, and the production with an `ExponentPart`, each with its lookahead
restriction. -/
def expCandidates (s : List Nat) (n : Nat) (isFloat : Bool) : List (Bool × Nat) :=
  (if numberLookaheadOk s then [(isFloat, n)] else []) ++
  (match exponentPart? s with
   | some e => if numberLookaheadOk (s.drop e) then [(true, n + e)] else []
   | none => [])

/-- All the ways the suffix starts with a number production, as (isFloat, length):
`IntegerPart`, `IntegerPart ExponentPart`, `IntegerPart FractionalPart`,
`IntegerPart FractionalPart ExponentPart`, each with its lookahead restriction. -/
def numberCandidates (s : List Nat) : List (Bool × Nat) :=
  match integerPart? s with
  | none => []
  | some i =>
    expCandidates (s.drop i) i false ++
    (match fractionalPart? (s.drop i) with
     | some f => expCandidates (s.drop (i + f)) (i + f) true
     | none => [])

/-- Longest of a list of candidates. -/
def longest : List (Bool × Nat) → Option (Bool × Nat)
  | [] => none
  | c :: rest =>
    match longest rest with
    | none => some c
    | some d => if d.2 > c.2 then some d else some c

def number? (s : List Nat) : Option Match :=
  match longest (numberCandidates s) with
  | some (isFloat, n) => some ⟨if isFloat then .float else .int, n, some (s.take n)⟩
  | none => none

/-! ### StringValue (§2.9.4) -/

/-- The reference implementation's bound on `\u{…}` (see the header). -/
def maxEscapeHexDigits : Nat := 8

def hexVal (c : Nat) : Nat :=
  if 48 ≤ c ∧ c ≤ 57 then c - 48 else if 65 ≤ c ∧ c ≤ 70 then c - 55 else c - 87

def hexDigitsLen : List Nat → Nat
  | [] => 0
  | c :: rest => if HexDigit c then hexDigitsLen rest + 1 else 0

def hexNumber (ds : List Nat) : Nat := ds.foldl (fun acc d => acc * 16 + hexVal d) 0

/-- `EscapedCharacter :: one of " \ / b f n r t` and its value. -/
def escapedCharacter? (c : Nat) : Option Nat :=
  if c = 34 then some 34 else if c = 92 then some 92 else if c = 47 then some 47
  else if c = 98 then some 8 else if c = 102 then some 12 else if c = 110 then some 10
  else if c = 114 then some 13 else if c = 116 then some 9 else none

/-- Four hex digits at the head: their value. -/
def hex4? : List Nat → Option Nat
  | a :: b :: c :: d :: _ =>
    if HexDigit a ∧ HexDigit b ∧ HexDigit c ∧ HexDigit d then some (hexNumber [a, b, c, d]) else none
  | _ => none

/-- `\u{ HexDigit+ }` after the `\u{` (argument: the text after the brace): the escape denotes a
Unicode scalar value written with 1 to `maxEscapeHexDigits` digits. (length of the whole escape, value) -/
def escapedUnicodeBraced? (rest : List Nat) : Option (Nat × List Nat) :=
  let n := hexDigitsLen rest
  if 1 ≤ n ∧ n ≤ maxEscapeHexDigits ∧ (rest.drop n).head? = some 125 ∧ Scalar (hexNumber (rest.take n))
  then some (n + 4, [hexNumber (rest.take n)]) else none

/-- `\u HexDigit×4` after the `\u` (argument: the text after the `u`): a scalar value, or a lead
surrogate followed by `\u HexDigit×4` denoting a trail surrogate (one supplementary code point). -/
def escapedUnicodeFixed? (rest : List Nat) : Option (Nat × List Nat) :=
  match hex4? rest with
  | none => none
  | some code =>
    if Scalar code then some (6, [code])
    else if LeadSurrogate code ∧ (rest.drop 4).take 2 = [92, 117] then
      match hex4? (rest.drop 6) with
      | some trail =>
        if TrailSurrogate trail then some (12, [0x10000 + (code - 0xD800) * 0x400 + (trail - 0xDC00)])
        else none
      | none => none
    else none

/-- One `StringCharacter` at the head of the suffix: (length, code points of its value).
* `SourceCharacter but not " or \ or LineTerminator`
* `\u{ HexDigit+ }` – must denote a Unicode scalar value
* `\u HexDigit×4` – a scalar value, or a lead surrogate followed by `\u HexDigit×4` trail surrogate
* `\ EscapedCharacter` -/
def stringCharacter? : List Nat → Option (Nat × List Nat)
  | [] => none
  | c :: rest =>
    if c = 92 then
      match rest with
      | [] => none
      | d :: rest1 =>
        if d = 117 then
          if rest1.head? = some 123 then escapedUnicodeBraced? rest1.tail
          else escapedUnicodeFixed? rest1
        else
          match escapedCharacter? d with
          | some v => some (2, [v])
          | none => none
    else if c = 34 ∨ LineTerm c then none
    else
      match sourceCharLen (c :: rest) with
      | some n => some (n, (c :: rest).take n)
      | none => none

/-- `StringCharacter* "` after the opening quote: (length including the closing quote, value).
`fuel` bounds the number of characters (`|s|` always suffices). -/
def stringRest : Nat → List Nat → Option (Nat × List Nat)
  | _, 34 :: _ => some (1, [])
  | 0, _ => none
  | fuel + 1, s =>
    match stringCharacter? s with
    | none => none
    | some (n, v) =>
      match stringRest fuel (s.drop n) with
      | none => none
      | some (m, w) => some (n + m, v ++ w)

/-- `StringValue :: "" [lookahead != "] | " StringCharacter+ "` (the BlockString alternative is
`blockString?`). -/
def string? : List Nat → Option Match
  | 34 :: 34 :: 34 :: _ => none
  | 34 :: rest =>
    match stringRest rest.length rest with
    | some (n, v) => some ⟨.string, n + 1, some v⟩
    | none => none
  | _ => none

/-! ### BlockString (§2.9.4) and `BlockStringValue()` -/

/-- `BlockStringCharacter* """` after the opening `"""`: (length including the closing quotes,
raw value with `\"""` read as `"""`).
`BlockStringCharacter :: SourceCharacter but not """ or \""" | \"""`.
`fuel` bounds the number of characters (`|s|` always suffices). -/
def blockRest : Nat → List Nat → Option (Nat × List Nat)
  | 0, _ => none
  | fuel + 1, s =>
    if s.take 3 = [34, 34, 34] then some (3, [])
    else if s.take 4 = [92, 34, 34, 34] then
      match blockRest fuel (s.drop 4) with
      | some (m, w) => some (m + 4, [34, 34, 34] ++ w)
      | none => none
    else
      match sourceCharLen s with
      | some n =>
        match blockRest fuel (s.drop n) with
        | some (m, w) => some (m + n, s.take n ++ w)
        | none => none
      | none => none

/-- Split a text at every LineTerminator (`LF`, `CR LF`, `CR`). -/
def splitLinesAux (cur : List Nat) : List Nat → List (List Nat)
  | [] => [cur]
  | 13 :: 10 :: rest => cur :: splitLinesAux [] rest
  | 13 :: rest => cur :: splitLinesAux [] rest
  | 10 :: rest => cur :: splitLinesAux [] rest
  | c :: rest => splitLinesAux (cur ++ [c]) rest

def splitLines (s : List Nat) : List (List Nat) := splitLinesAux [] s

def WhiteSpace (c : Nat) : Prop := c = 9 ∨ c = 32
instance : DecidablePred WhiteSpace := fun c => by unfold WhiteSpace; exact inferInstance

def leadingWhiteSpace (l : List Nat) : Nat := (l.takeWhile (fun c => decide (WhiteSpace c))).length

def isBlank (l : List Nat) : Bool := l.all (fun c => decide (WhiteSpace c))

def minOpt : Option Nat → Nat → Option Nat
  | none, n => some n
  | some m, n => some (if n < m then n else m)

def joinLF : List (List Nat) → List Nat
  | [] => []
  | [l] => l
  | l :: rest => l ++ [10] ++ joinLF rest

/-- Steps 2–6 of the specification's `BlockStringValue(rawValue)` on the list of lines. -/
def dedentLines (lines : List (List Nat)) : List (List Nat) :=
  -- 2.–3. commonIndent over all lines but the first that contain a non-WhiteSpace character.
  let commonIndent : Option Nat :=
    lines.tail.foldl
      (fun ci line =>
        let indent := leadingWhiteSpace line
        if indent < line.length then minOpt ci indent else ci)
      none
  -- 4. If commonIndent is not null: remove commonIndent characters from every line but the first.
  let lines := match commonIndent, lines with
    | some ci, first :: rest => first :: rest.map (fun (l : List Nat) => l.drop ci)
    | _, ls => ls
  -- 5. While the first line contains only WhiteSpace, remove it.
  let lines := lines.dropWhile isBlank
  -- 6. While the last line contains only WhiteSpace, remove it.
  (lines.reverse.dropWhile isBlank).reverse

/-- The specification's `BlockStringValue(rawValue)` algorithm, step by step. -/
def blockStringValue (raw : List Nat) : List Nat :=
  -- 1. Let lines be the result of splitting rawValue by LineTerminator.
  -- 7.–8. Join the dedented lines with LF.
  joinLF (dedentLines (splitLines raw))

def blockString? : List Nat → Option Match
  | 34 :: 34 :: 34 :: rest =>
    match blockRest rest.length rest with
    | some (n, raw) => some ⟨.blockString, n + 3, some (blockStringValue raw)⟩
    | none => none
  | _ => none

/-! ## Token, longest match, token sequence -/

/-- The longer of two optional matches (the first on a tie; ties do not occur between classes). -/
def longer : Option Match → Option Match → Option Match
  | none, b => b
  | a, none => a
  | some a, some b => if b.len > a.len then some b else some a

/-- `Token :: Punctuator | Name | IntValue | FloatValue | StringValue`: the longest match over
all token classes at the head of the suffix. -/
def lexToken? (s : List Nat) : Option Match :=
  longer (punctuator? s) (longer (name? s) (longer (number? s) (longer (string? s) (blockString? s))))

/-- `Ignored* (Token Ignored*)*` from offset `off`; the list ends with the EOF token. -/
def tokenizeFrom : Nat → Nat → List Nat → Option (List SpecToken)
  | _, off, [] => some [⟨.eof, off, off, none⟩]
  | 0, _, _ :: _ => none
  | fuel + 1, off, s@(_ :: _) =>
    match ignoredLen s with
    | some n => tokenizeFrom fuel (off + n) (s.drop n)
    | none =>
      match lexToken? s with
      | some m =>
        if m.len = 0 then none
        else
          match tokenizeFrom fuel (off + m.len) (s.drop m.len) with
          | some ts => some (⟨m.kind, off, off + m.len, m.value⟩ :: ts)
          | none => none
      | none => none

/-- The token sequence of a source text according to the lexical grammar (spans are offsets into
the text; the last token is `<EOF>`), or `none` when the text is not in the language. -/
def specTokenize (body : List Nat) : Option (List SpecToken) :=
  tokenizeFrom body.length 0 body

/-- Number of significant (non-EOF) tokens. -/
def tokenCount (body : List Nat) : Option Nat :=
  (specTokenize body).map (fun ts => ts.length - 1)

end Gql.Spec.Lex
