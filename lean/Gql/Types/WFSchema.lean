import Gql.Types.ClientSchema
/-
`wfSchema env depth s` — the explicit, decidable well-formedness under which introspection can rebuild
a schema.  It is what `validate_schema == []` plus the constructors of the type classes guarantee for a
`GraphQLSchema` (names are GraphQL names and unique per scope, references resolve to types of the right
category, only the components that belong to a kind are present, reserved names denote the standard
types), plus the one limit of the standard query itself: no type reference is wrapped more than
`type_depth` times.  The driver evaluates it on every generated schema (checks/c18.py).
-/
namespace Gql.Types

def kindMapOf {V : Type} (types : List (TypeDef V)) : KindMap := types.map fun t => (t.name, t.kind)

def nodupNames : List (List Nat) → Bool
  | [] => true
  | n :: ns => !ns.contains n && nodupNames ns

/-- A reference the standard query transmits completely and `get_type` resolves. -/
def wfRef (km : KindMap) (depth : Nat) (r : TypeRef) : Bool :=
  decide (r.depth ≤ depth) && r.wellWrapped && !r.namedName.isEmpty && km.lookup r.namedName == some r.namedKind

def wfNamedRef (km : KindMap) (want : Kind) : TypeRef → Bool
  | .named n k => k == want && !n.isEmpty && km.lookup n == some want
  | _ => false

def wfInputValue {V : Type} (km : KindMap) (depth : Nat) (iv : InputValue V) : Bool :=
  isName iv.name && wfRef km depth iv.type && iv.type.namedKind.isInput

def wfInputValues {V : Type} (km : KindMap) (depth : Nat) (ivs : List (InputValue V)) : Bool :=
  ivs.all (wfInputValue km depth) && nodupNames (ivs.map InputValue.name)

def wfField {V : Type} (km : KindMap) (depth : Nat) (f : Field V) : Bool :=
  isName f.name && wfRef km depth f.type && f.type.namedKind.isOutput && wfInputValues km depth f.args

/-- The components a kind does not have are empty. -/
def wfShape {V : Type} (t : TypeDef V) : Bool :=
  match t.kind with
  | .scalar => t.fields.isEmpty && t.interfaces.isEmpty && t.members.isEmpty && t.enumValues.isEmpty &&
      t.inputFields.isEmpty && !t.isOneOf
  | .object | .interface => t.specifiedByURL.isNone && t.members.isEmpty && t.enumValues.isEmpty &&
      t.inputFields.isEmpty && !t.isOneOf
  | .union => t.specifiedByURL.isNone && t.fields.isEmpty && t.interfaces.isEmpty && t.enumValues.isEmpty &&
      t.inputFields.isEmpty && !t.isOneOf
  | .enum => t.specifiedByURL.isNone && t.fields.isEmpty && t.interfaces.isEmpty && t.members.isEmpty &&
      t.inputFields.isEmpty && !t.isOneOf
  | .inputObject => t.specifiedByURL.isNone && t.fields.isEmpty && t.interfaces.isEmpty && t.members.isEmpty &&
      t.enumValues.isEmpty

def wfType {V : Type} [DecidableEq V] (env : ClientEnv V) (km : KindMap) (depth : Nat) (t : TypeDef V) : Bool :=
  match env.reserved.find? fun r => r.name = t.name with
  | some r => r == t && (t.kind == .scalar || t.kind == .object || t.kind == .enum)
  | none =>
    isName t.name && wfShape t &&
    t.fields.all (wfField km depth) && nodupNames (t.fields.map Field.name) &&
    t.interfaces.all (wfNamedRef km .interface) &&
    t.members.all (wfNamedRef km .object) &&
    nodupNames (t.enumValues.map EnumValue.name) &&
    wfInputValues km depth t.inputFields

def wfDirective {V : Type} (env : ClientEnv V) (km : KindMap) (depth : Nat) (d : Directive V) : Bool :=
  isName d.name && d.locations.all env.locOk && wfInputValues km depth d.args

def wfRoot (km : KindMap) : Option (List Nat × Kind) → Bool
  | none => true
  | some (n, k) => k == .object && !n.isEmpty && km.lookup n == some .object

def wfSchema {V : Type} [DecidableEq V] (env : ClientEnv V) (depth : Nat) (s : Schema V) : Bool :=
  let km := kindMapOf s.types
  decide (depth < env.limit) &&
  nodupNames (s.types.map TypeDef.name) &&
  s.types.all (wfType env km depth) &&
  s.directives.all (wfDirective env km depth) &&
  wfRoot km s.query && wfRoot km s.mutation && wfRoot km s.subscription

/-- Well-formed schemas (decidable: a boolean check). -/
def WFSchema {V : Type} [DecidableEq V] (env : ClientEnv V) (depth : Nat) (s : Schema V) : Prop :=
  wfSchema env depth s = true

instance {V : Type} [DecidableEq V] (env : ClientEnv V) (depth : Nat) (s : Schema V) :
    Decidable (WFSchema env depth s) := by unfold WFSchema; infer_instance

end Gql.Types
