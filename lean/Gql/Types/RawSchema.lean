import Gql.Text.Out
/-
A *raw* schema: what `GraphQLSchema(...)` holds after construction when nothing has been
validated yet (`build_schema(sdl, assume_valid_sdl=True)` or programmatic construction).
References between types are by name (the constructor guarantees that names are unique in the
type map, so object identity and name equality coincide) and may point at a type of the wrong
kind, or — for the theorems, which quantify over *all* raw schemas — at nothing at all
(`lookup = none`: "not a GraphQL type").

Strings are lists of code points (`List Nat`).
-/
namespace Gql.Types

/-- A name or message fragment: code points. -/
abbrev Str := List Nat

/-- Type references as written in a field / argument position. -/
inductive TRef where
  | named (n : Str)
  | list (t : TRef)
  | nonNull (t : TRef)
  deriving Repr, DecidableEq, Inhabited

/-- Const value literals (`ConstValueNode`): what SDL default values are. -/
inductive Lit where
  | null
  | int (i : Int)
  | float
  | str
  | bool
  | enum (n : Str)
  | list (xs : List Lit)
  | obj (fs : List (Str × Lit))
  deriving Repr, Inhabited

/-- Which coercion a scalar applies to literals. Custom scalars (the default
`parse_literal` = `value_from_ast_untyped`) accept every const literal. -/
inductive ScalarKind where
  | int | float | string | boolean | id | custom
  deriving Repr, DecidableEq, Inhabited

/-- An argument or an input field (`GraphQLArgument` / `GraphQLInputField`). -/
structure InputValue where
  name : Str
  type : TRef
  /-- `default` (a `GraphQLDefaultInput` holding a literal) -/
  default : Option Lit
  /-- the deprecated `default_value=` (an internal value) is set -/
  legacyDefault : Bool
  /-- `deprecation_reason is not None` -/
  deprecated : Bool
  deriving Repr, Inhabited

structure Field where
  name : Str
  type : TRef
  args : List InputValue
  deprecated : Bool
  deriving Repr, Inhabited

inductive TypeDef where
  | scalar (k : ScalarKind)
  | object (ifaces : List Str) (fields : List Field)
  | interface (ifaces : List Str) (fields : List Field)
  | union (members : List Str)
  | enum (values : List Str)
  | input (fields : List InputValue) (oneOf : Bool)
  deriving Repr, Inhabited

structure NamedType where
  name : Str
  defn : TypeDef
  deriving Repr, Inhabited

structure Directive where
  name : Str
  /-- number of locations -/
  locations : Nat
  args : List InputValue
  repeatable : Bool
  deriving Repr, Inhabited

structure RawSchema where
  query : Option Str
  mutation : Option Str
  subscription : Option Str
  /-- `schema.type_map.values()` in insertion order -/
  types : List NamedType
  directives : List Directive
  deriving Repr, Inhabited

namespace RawSchema

/-- The type object a reference denotes (`none`: not a GraphQL named type). -/
def lookup (s : RawSchema) (n : Str) : Option TypeDef :=
  (s.types.find? (fun t => t.name == n)).map (·.defn)

def isObject (s : RawSchema) (n : Str) : Bool :=
  match s.lookup n with | some (.object _ _) => true | _ => false
def isInterface (s : RawSchema) (n : Str) : Bool :=
  match s.lookup n with | some (.interface _ _) => true | _ => false
def isUnion (s : RawSchema) (n : Str) : Bool :=
  match s.lookup n with | some (.union _) => true | _ => false
def isInputObject (s : RawSchema) (n : Str) : Bool :=
  match s.lookup n with | some (.input _ _) => true | _ => false

/-- scalar, enum or input object (`is_input_type` on a named type) -/
def isInputNamed (s : RawSchema) (n : Str) : Bool :=
  match s.lookup n with
  | some (.scalar _) | some (.enum _) | some (.input _ _) => true
  | _ => false

/-- scalar, object, interface, union or enum (`is_output_type` on a named type) -/
def isOutputNamed (s : RawSchema) (n : Str) : Bool :=
  match s.lookup n with
  | some (.scalar _) | some (.object _ _) | some (.interface _ _) | some (.union _)
  | some (.enum _) => true
  | _ => false

/-- `is_input_type`: wrappers are looked through. -/
def isInputType (s : RawSchema) : TRef → Bool
  | .named n => s.isInputNamed n
  | .list t => isInputType s t
  | .nonNull t => isInputType s t

/-- `is_output_type` -/
def isOutputType (s : RawSchema) : TRef → Bool
  | .named n => s.isOutputNamed n
  | .list t => isOutputType s t
  | .nonNull t => isOutputType s t

/-- `type_.fields` of an object or interface type (`none` for other kinds) -/
def fieldsOf (s : RawSchema) (n : Str) : Option (List Field) :=
  match s.lookup n with
  | some (.object _ fs) | some (.interface _ fs) => some fs
  | _ => none

/-- `type_.interfaces` of an object or interface type -/
def ifacesOf (s : RawSchema) (n : Str) : List Str :=
  match s.lookup n with
  | some (.object is _) | some (.interface is _) => is
  | _ => []

def root (s : RawSchema) : Nat → Option Str
  | 0 => s.query
  | 1 => s.mutation
  | _ => s.subscription

end RawSchema

/-- `get_named_type` -/
def TRef.namedType : TRef → Str
  | .named n => n
  | .list t => t.namedType
  | .nonNull t => t.namedType

def TRef.isNonNull : TRef → Bool
  | .nonNull _ => true
  | _ => false

/-- `is_required_argument` / `is_required_input_field` -/
def InputValue.isRequired (a : InputValue) : Bool :=
  a.type.isNonNull && a.default.isNone && !a.legacyDefault

/-- `name.startswith("__")` -/
def startsWithDunder : Str → Bool
  | 95 :: 95 :: _ => true
  | _ => false

/-- `is_introspection_type`: membership of the name in the fixed table. -/
def introspectionNames : List Str :=
  [ [95, 95, 83, 99, 104, 101, 109, 97],                                  -- __Schema
    [95, 95, 68, 105, 114, 101, 99, 116, 105, 118, 101],                  -- __Directive
    [95, 95, 68, 105, 114, 101, 99, 116, 105, 118, 101, 76, 111, 99, 97, 116, 105, 111, 110],
    [95, 95, 84, 121, 112, 101],                                          -- __Type
    [95, 95, 70, 105, 101, 108, 100],                                     -- __Field
    [95, 95, 73, 110, 112, 117, 116, 86, 97, 108, 117, 101],              -- __InputValue
    [95, 95, 69, 110, 117, 109, 86, 97, 108, 117, 101],                   -- __EnumValue
    [95, 95, 84, 121, 112, 101, 75, 105, 110, 100] ]                      -- __TypeKind

def isIntrospectionName (n : Str) : Bool := introspectionNames.contains n

end Gql.Types
