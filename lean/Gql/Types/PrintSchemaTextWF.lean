import Gql.Types.PrintSchemaText
import Gql.Text.Lexer
import Gql.Text.BlockRepr
import Gql.Spec.Lex
import Gql.Generated.ParserTables
/-!
# `textWFb` — the decidable domain of the text round trip of `print_schema` (C17)

A `Bool` predicate on schema *content* that says when the text `print_schema` prints can be read
back by the lexer and the parser.  It is checked by the driver (`textwf <schema>`) on every schema
the harness generates that `validate_schema` accepts, and `Gql/Proofs/SchemaText7.lean` proves
that it implies the hypothesis `TextWF` of the text theorems.

What it asks, item by item (and why the implementation guarantees it for a valid schema):
* every name (types, fields, arguments, enum values, directives, interfaces, union members, roots,
  the names inside type references and default values) is lexically a `Name` — `assert_name`;
* every printed string (descriptions, deprecation reasons, specifiedBy URLs, string defaults) is a
  sequence of Unicode scalar values — a Python `str` may hold lone surrogates, the lexer rejects
  them: assumption of the check;
* a description that `print_description` prints in block form (`is_printable_as_block_string`) is
  block-representable (`blockRepresentable` of C08: always true, checked here instead of proved);
* default values are proper const literals: `lcons … vnil` / `fcons … vnil` chains, number texts in
  the `IntValue` / `FloatValue` grammar (`numOk`: the specification's number grammar of
  `Gql/Spec/Lex.lean` consumes the whole text), enum literals that are names other than
  `true` / `false` / `null`, block strings block-representable — they come from the parser or from
  `value_to_literal`;
* type references are parser-shaped (no `T!!`) — `GraphQLNonNull` refuses a non-null argument;
* enum values are not `true` / `false` / `null` — `assert_enum_value_name`;
* directive locations are in the parser's table and there is at least one — `DirectiveLocation`;
* a deprecated directive definition needs `dd`
  (`experimental_directives_on_directive_definitions`).
-/
namespace Gql.Types.PrintSchema
open Gql Gql.Generated
open Gql.Syntax (S)

/-- Lexically a `Name` (the lexer's own character classes). -/
def nameOk : List Nat → Bool
  | [] => false
  | c :: r => Gql.Text.isNameStart c && r.all Gql.Text.isNameContinue

/-- Unicode scalar values only. -/
def scalarStr (s : Str) : Bool := s.all Gql.Text.isScalar

/-- The whole text is one `IntValue` (`fl = false`) / `FloatValue` (`fl = true`) production of the
specification's number grammar. -/
def numOk (fl : Bool) (s : Str) : Bool := (Gql.Spec.Lex.numberCandidates s).contains (fl, s.length)

def notKeyword (n : Str) : Bool := n != S "true" && n != S "false" && n != S "null"

/-- A description: scalar values; block-representable where the block form is chosen. -/
def descOk : Option Str → Bool
  | none => true
  | some v => scalarStr v && (!isPrintableAsBlockString v || Gql.Text.blockRepresentable v)

/-- A string printed through `print_string` (deprecation reason, specifiedBy URL). -/
def strOk : Option Str → Bool
  | none => true
  | some v => scalarStr v

mutual
  def valueOk : Value → Bool
    | .int s => numOk false s
    | .float s => numOk true s
    | .str s b => scalarStr s && (!b || Gql.Text.blockRepresentable s)
    | .bool _ => true
    | .null => true
    | .enum n => nameOk n && notKeyword n
    | .list items => itemsOk items
    | .obj fields => fieldsOk fields
    | .vnil => false
    | .lcons _ _ => false
    | .fcons _ _ _ => false
  def itemsOk : Value → Bool
    | .lcons v rest => valueOk v && itemsOk rest
    | .vnil => true
    | _ => false
  def fieldsOk : Value → Bool
    | .fcons n v rest => nameOk n && valueOk v && fieldsOk rest
    | .vnil => true
    | _ => false
end

/-- Names valid, no non-null directly inside a non-null. -/
def typeOk : TypeRef → Bool
  | .named n => nameOk n
  | .list t => typeOk t
  | .nonNull t => (match t with | .nonNull _ => false | _ => true) && typeOk t

def defaultOk : Option Value → Bool
  | none => true
  | some v => valueOk v

def argOk (a : Arg) : Bool :=
  descOk a.desc && nameOk a.name && typeOk a.type && defaultOk a.default && strOk a.depr

def fieldOk (f : Field) : Bool :=
  descOk f.desc && nameOk f.name && f.args.all argOk && typeOk f.type && strOk f.depr

def enumValOk (v : EnumVal) : Bool :=
  descOk v.desc && nameOk v.name && notKeyword v.name && strOk v.depr

def typeDefOk : TypeDef → Bool
  | .scalar n d u => descOk d && nameOk n && strOk u
  | .object n d is fs => descOk d && nameOk n && is.all nameOk && fs.all fieldOk
  | .interface n d is fs => descOk d && nameOk n && is.all nameOk && fs.all fieldOk
  | .union n d ms => descOk d && nameOk n && ms.all nameOk
  | .enum n d vs => descOk d && nameOk n && vs.all enumValOk
  | .input n d _ fs => descOk d && nameOk n && fs.all argOk

def locationOk (l : Str) : Bool := (ParserTables.directiveLocations.map S).contains l

def directiveOk (dd : Bool) (d : Directive) : Bool :=
  descOk d.desc && nameOk d.name && d.args.all argOk && strOk d.depr && (d.depr.isNone || dd) &&
    !d.locations.isEmpty && d.locations.all locationOk

def rootNameOk : Option Str → Bool
  | none => true
  | some n => nameOk n

def schemaBlockOk (s : Schema) : Bool :=
  descOk s.desc && rootNameOk s.query && rootNameOk s.mutation && rootNameOk s.subscription

/-- The decidable hypothesis of the text theorems.  `fa` (`experimental_fragment_arguments`) plays
no role: a printed schema has no fragments; it is kept so that the signature is that of `TextWF`. -/
def textWFb (_fa dd : Bool) (s : Schema) : Bool :=
  schemaBlockOk s && s.directives.all (directiveOk dd) && s.types.all typeDefOk

end Gql.Types.PrintSchema
