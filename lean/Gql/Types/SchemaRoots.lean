import Gql.Types.SchemaAst
/-!
# Root stability of an extension document over a base document (C19-1)

`build_ast_schema` picks the roots by the names `Query` / `Mutation` / `Subscription` *after*
`extend_schema_args` ran over the whole document; `extend_schema` never does.  `rootsStable A B`
is the decidable condition, on the two definition lists alone, under which "pick by name, then
extend with `B`" and "extend with `B`, then pick by name" agree (proved in
`Gql/Proofs/SchemaExt5-8`).  Model-side definitions only (used by the driver as well).
-/
namespace Gql.Types
open Gql Gql.Generated

/-- The document part `p` defines a (non-reserved) type called `c`. -/
def definesType (p : Parts) (c : Str) : Bool := ((newTypeDefs p).map (fun dn => dn.2.name)).contains c

/-- The roots the schema extensions of `p` set, on an otherwise empty schema
(`operation_types.update(get_operation_types(schema_extensions))`). -/
def extRoots (p : Parts) : Schema := p.schemaExts.foldl applyOps Schema.empty

/-- One root, conventional name `c`: `inA` / `inB` — the base / the extension document defines a
type called `c`; `x` — the root the extension document's schema extensions set.  The order
"pick by name, then extend" agrees with "extend, then pick by name". -/
def rootStableFor (inA inB : Bool) (x : Option Str) (c : Str) : Bool :=
  match x with
  | none => !inB || inA
  | some n => n == c || (!inA && !inB)

/-- `rootStableFor` for the three roots; `inA` says which type names the base defines. -/
def rootsStableParts (inA : Str → Bool) (pb : Parts) : Bool :=
  rootStableFor (inA SchemaConsts.queryName) (definesType pb SchemaConsts.queryName)
    (extRoots pb).query SchemaConsts.queryName &&
  rootStableFor (inA SchemaConsts.mutationName) (definesType pb SchemaConsts.mutationName)
    (extRoots pb).mutation SchemaConsts.mutationName &&
  rootStableFor (inA SchemaConsts.subscriptionName) (definesType pb SchemaConsts.subscriptionName)
    (extRoots pb).subscription SchemaConsts.subscriptionName

/-- **Root stability** of an extension document `B` over a base document `A` (decidable, on the
documents alone): `A` has a schema definition, or for each of `Query` / `Mutation` /
`Subscription`: if `B`'s schema extensions do not set that root, `B` defines a type of that name
only if `A` does; if they set it to `n`, then `n` is that name or neither document defines a type
of that name. -/
def rootsStable (A B : List Def) : Bool :=
  (collect A).schemaDef.isSome || rootsStableParts (definesType (collect A)) (collect B)

end Gql.Types
