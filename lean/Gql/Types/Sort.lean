import Std
import Gql.Types.Diff
/-!
# `lexicographic_sort_schema` on schema content (C19)

Natural-order (`natural_comparison_key`) stable sort of: the type map, the directives, the
interfaces / fields / arguments of object and interface types, union members, enum values,
input fields, directive locations and directive arguments.  Root operation types, descriptions,
deprecations and default values are untouched (default value literals are *not* sorted).
-/
namespace Gql.Types

/-- `sorted(xs, key=natural_comparison_key ∘ key)` (stable). -/
def sortByName {α : Type} (key : α → Str) (xs : List α) : List α :=
  xs.mergeSort (fun a b => natLe (key a) (key b))

def sortArgs (as : List Arg) : List Arg := sortByName Arg.name as

def sortField (f : Field) : Field := { f with args := sortArgs f.args }

def sortFields (fs : List Field) : List Field := sortByName Field.name (fs.map sortField)

def sortType : TypeDef → TypeDef
  | .scalar n d u => .scalar n d u
  | .object n d is fs => .object n d (sortByName id is) (sortFields fs)
  | .interface n d is fs => .interface n d (sortByName id is) (sortFields fs)
  | .union n d ms => .union n d (sortByName id ms)
  | .enum n d vs => .enum n d (sortByName EnumVal.name vs)
  | .input n d o fs => .input n d o (sortArgs fs)

def sortDirective (d : Directive) : Directive :=
  { d with locations := sortByName id d.locations, args := sortArgs d.args }

def sortSchema (s : Schema) : Schema :=
  { s with
    types := sortByName TypeDef.name (s.types.map sortType)
    directives := sortByName Directive.name (s.directives.map sortDirective) }

end Gql.Types
