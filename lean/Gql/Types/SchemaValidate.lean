import Gql.Types.RawSchema
/-
Model of `src/graphql/type/validate.py` (`validate_schema`) on a `RawSchema`, rule family by
rule family and in the order the code reports its errors, together with what it calls:
`is_equal_type` / `is_type_sub_type_of` (utilities/type_comparators.py, `schema.is_sub_type`),
`validate_input_literal` (utilities/validate_input_value.py) as used by
`validate_default_value`, the two input-object circular-reference validators, the
`_validation_errors` cache and the early return of `graphql_impl`.

Crash-faithful: the one place where validate_schema can raise something that is not a
reported error is `assert_leaf_type` at the bottom of `validate_input_literal_impl`
(`TypeError`).  The model keeps that branch (`vLeaf`); that it is unreachable is the theorem
`validateSchema_no_crash`.  The model is of the *repaired* code
(repo_patches/F6_default_value_non_input_type.diff): `validate_default_value` returns when
the declared type is not an input type, and the input-object branch of the literal/value
validators skips a provided field whose declared type is not an input type.  `Pinned.*`
below is the unrepaired variant, kept to state the defect.
-/
namespace Gql.Types
open Gql

/-- Rule kinds: one per `report_error` call site of validate.py. -/
inductive Kind where
  | queryMissing | rootNotObject | rootsNotDistinct
  | directiveNoLocations | reservedName | notInputType | notOutputType
  | requiredArgDeprecated | badDefault
  | noFields
  | implementsNonInterface | implementsSelf | implementsTwice
  | missingTransitive | implementsCircular
  | ifaceFieldMissing | ifaceFieldType | ifaceArgMissing | ifaceArgType
  | extraRequiredArg | implDeprecated
  | unionEmpty | unionDup | unionNonObject
  | enumEmpty
  | inputEmpty | requiredInputFieldDeprecated | oneOfNonNull | oneOfDefault
  | nonNullCycle | defaultCycle
  deriving Repr, DecidableEq, Inhabited

structure Err where
  kind : Kind
  subj : Str
  deriving Repr, DecidableEq, Inhabited

/-! ### coordinates used as error subjects -/

/-- `T.f` -/
def dot (a b : Str) : Str := a ++ [46] ++ b
/-- `base(a:)` -/
def argCoord (base a : Str) : Str := base ++ [40] ++ a ++ [58, 41]
/-- `@d` -/
def dirCoord (d : Str) : Str := 64 :: d
/-- `a|b` -/
def bar (a b : Str) : Str := a ++ [124] ++ b

def opName : Nat → Str
  | 0 => [113, 117, 101, 114, 121]                                   -- query
  | 1 => [109, 117, 116, 97, 116, 105, 111, 110]                     -- mutation
  | _ => [115, 117, 98, 115, 99, 114, 105, 112, 116, 105, 111, 110]  -- subscription

/-! ### `Out`-valued loops -/

/-- `for x in xs: errors += f(x)` where `f` may raise. -/
def outFlatMap {α β : Type} (f : α → Out Unit (List β)) : List α → Out Unit (List β)
  | [] => .ok []
  | x :: xs =>
    match f x with
    | .ok e =>
      match outFlatMap f xs with
      | .ok es => .ok (e ++ es)
      | r => r
    | .err u => .err u
    | .crash c => .crash c

def Out.mapOk {α β : Type} (g : α → β) : Out Unit α → Out Unit β
  | .ok a => .ok (g a)
  | .err u => .err u
  | .crash c => .crash c

/-! ### `validate_input_literal` (static: no variables) -/

inductive Seg where
  | idx (i : Nat)
  | key (k : Str)
  deriving Repr, DecidableEq

/-- One reported input-validation error: its path. -/
abbrev VErr := List Seg

/-- What remains of the declared type once the wrappers that do not consume the literal have
been walked (`NonNull` always, `List` when the literal is not a list). -/
inductive Peel where
  | nullAtNonNull
  | done
  | items (t : TRef)
  | named (n : Str)
  deriving Repr, DecidableEq

def peel (vNull vList : Bool) : TRef → Peel
  | .nonNull t => if vNull then .nullAtNonNull else peel vNull vList t
  | .list t => if vNull then .done else if vList then .items t else peel vNull vList t
  | .named n => if vNull then .done else .named n

inductive Shape where
  | null | int (i : Int) | float | str | bool | enum (n : Str) | list | obj
  deriving Repr, DecidableEq

def Lit.shape : Lit → Shape
  | .null => .null | .int i => .int i | .float => .float | .str => .str | .bool => .bool
  | .enum n => .enum n | .list _ => .list | .obj _ => .obj

def Lit.isNull : Lit → Bool
  | .null => true
  | _ => false

/-- `coerce_input_literal` of the specified scalars succeeds (custom scalars: always). -/
def scalarAccepts : ScalarKind → Shape → Bool
  | .int, .int i => decide (-2147483648 ≤ i ∧ i ≤ 2147483647)
  | .float, .int _ => true
  | .float, .float => true
  | .string, .str => true
  | .boolean, .bool => true
  | .id, .str => true
  | .id, .int _ => true
  | .custom, _ => true
  | _, _ => false

/-- The last branches of `validate_input_literal_impl` for a non-null literal at a named type:
a non-object literal at an input object type ("to be an object"), or
`leaf_type = assert_leaf_type(type_)` followed by the leaf coercion. -/
def vLeaf (s : RawSchema) (n : Str) (sh : Shape) : Out Unit (List VErr) :=
  match s.lookup n with
  | some (.input _ _) => .ok [[]]
  | some (.scalar k) => .ok (if scalarAccepts k sh then [] else [[]])
  | some (.enum vs) =>
    .ok (match sh with
      | .enum v => if vs.contains v then [] else [[]]
      | _ => [[]])
  | _ => .crash "TypeError"

/-- `{field.name.value: field for field in value_node.fields}` then `.get(k)`: last wins. -/
def lookupLast {α : Type} : List (Str × α) → Str → Option α
  | [], _ => none
  | (k', v) :: rest, k =>
    match lookupLast rest k with
    | some x => some x
    | none => if k' == k then some v else none

/-- the body of `for field_name, field in field_defs.items()` of the input-object branch;
`subs` are the validators of the provided entries' values. `guardFields = true` is the repaired
code (skip a provided field whose declared type is not an input type). -/
def vObjField (s : RawSchema) (guardFields : Bool)
    (subs : List (Str × (TRef → Out Unit (List VErr)))) (fd : InputValue) : Out Unit (List VErr) :=
  match lookupLast subs fd.name with
  | none => .ok (if fd.isRequired then [[]] else [])
  | some g =>
    if guardFields && !s.isInputType fd.type then .ok []
    else Out.mapOk (fun es => es.map (fun p => Seg.key fd.name :: p)) (g fd.type)

/-- "Ensure every provided field is defined": one error per unknown entry -/
def vObjUnknown (fields : List InputValue) (entries : List (Str × Bool)) : List VErr :=
  entries.flatMap (fun e => if fields.any (fun fd => fd.name == e.1) then [] else [[]])

/-- the OneOf part: exactly one known entry, and it is not null -/
def vObjOneOf (fields : List InputValue) (oneOf : Bool) (entries : List (Str × Bool)) : List VErr :=
  if oneOf then
    match entries.filter (fun e => fields.any (fun fd => fd.name == e.1)) with
    | [e] => if e.2 then [[Seg.key e.1]] else []
    | _ => [[]]
  else []

/-- The input-object branch, given for every provided entry the validator of its value
(`subs`, in literal order) and the entries' names and null-ness (`entries`). -/
def vObject (s : RawSchema) (guardFields : Bool) (fields : List InputValue) (oneOf : Bool)
    (entries : List (Str × Bool)) (subs : List (Str × (TRef → Out Unit (List VErr)))) :
    Out Unit (List VErr) :=
  match outFlatMap (vObjField s guardFields subs) fields with
  | .ok part1 => .ok (part1 ++ vObjUnknown fields entries ++ vObjOneOf fields oneOf entries)
  | .err u => .err u
  | .crash c => .crash c

mutual
/-- `validate_input_literal_impl(context, value_node, type_, …)` for a const literal. -/
def vLit (s : RawSchema) (g : Bool) : Lit → TRef → Out Unit (List VErr)
  | .list xs, t =>
    match peel false true t with
    | .items t' => vLits s g xs t' 0
    | .named n => vLeaf s n .list
    | _ => .ok []
  | .obj fs, t =>
    match peel false false t with
    | .named n =>
      match s.lookup n with
      | some (.input fields oneOf) =>
        vObject s g fields oneOf (fs.map (fun e => (e.1, e.2.isNull))) (vEntries s g fs)
      | _ => vLeaf s n .obj
    | _ => .ok []
  | .null, t =>
    match peel true false t with
    | .nullAtNonNull => .ok [[]]
    | _ => .ok []
  | .int i, t => match peel false false t with | .named n => vLeaf s n (.int i) | _ => .ok []
  | .float, t => match peel false false t with | .named n => vLeaf s n .float | _ => .ok []
  | .str, t => match peel false false t with | .named n => vLeaf s n .str | _ => .ok []
  | .bool, t => match peel false false t with | .named n => vLeaf s n .bool | _ => .ok []
  | .enum v, t => match peel false false t with | .named n => vLeaf s n (.enum v) | _ => .ok []
/-- `for index, item_node in enumerate(value_node.values)` -/
def vLits (s : RawSchema) (g : Bool) : List Lit → TRef → Nat → Out Unit (List VErr)
  | [], _, _ => .ok []
  | x :: xs, t, i =>
    match vLit s g x t with
    | .ok e =>
      match vLits s g xs t (i + 1) with
      | .ok es => .ok (e.map (fun p => Seg.idx i :: p) ++ es)
      | r => r
    | r => r
/-- the validators of the provided entries' values, by entry -/
def vEntries (s : RawSchema) (g : Bool) : List (Str × Lit) → List (Str × (TRef → Out Unit (List VErr)))
  | [] => []
  | e :: rest => (e.1, vLit s g e.2) :: vEntries s g rest
end

/-! ### `validate_default_value` -/

/-- Repaired code: nothing to validate without a default or when the declared type is not an
input type (that is reported separately); a literal default skips the "uncoerce" hint. -/
def validateDefault (s : RawSchema) (iv : InputValue) (coord : Str) : Out Unit (List Err) :=
  match iv.default with
  | none => .ok []
  | some lit =>
    if !s.isInputType iv.type then .ok []
    else Out.mapOk (fun es => es.map (fun _ => (⟨.badDefault, coord⟩ : Err))) (vLit s true lit iv.type)

namespace Pinned
/-- The pinned (unrepaired) `validate_default_value`: validates whenever a default exists. -/
def validateDefault (s : RawSchema) (iv : InputValue) (coord : Str) : Out Unit (List Err) :=
  match iv.default with
  | none => .ok []
  | some lit =>
    Out.mapOk (fun es => es.map (fun _ => (⟨.badDefault, coord⟩ : Err))) (vLit s false lit iv.type)
end Pinned

/-! ### names -/

/-- `validate_name` -/
def validateName (n : Str) : List Err :=
  if startsWithDunder n then [⟨.reservedName, n⟩] else []

/-! ### root types -/

/-- `root_types_map[root_type].append(operation_type)` on an insertion-ordered dict -/
def groupAdd : List (Str × List Nat) → Str → Nat → List (Str × List Nat)
  | [], n, op => [(n, [op])]
  | (k, ops) :: rest, n, op =>
    if k == n then (k, ops ++ [op]) :: rest else (k, ops) :: groupAdd rest n op

/-- the loop over `OperationType`: (errors, root_types_map) -/
def rootsLoop (s : RawSchema) : List Nat → List (Str × List Nat) → List Err × List (Str × List Nat)
  | [], m => ([], m)
  | op :: ops, m =>
    match s.root op with
    | none => rootsLoop s ops m
    | some n =>
      if s.isObject n then rootsLoop s ops (groupAdd m n op)
      else
        let r := rootsLoop s ops m
        ((⟨.rootNotObject, opName op⟩ : Err) :: r.1, r.2)

def validateRootTypes (s : RawSchema) : List Err :=
  let e1 : List Err := if s.query.isNone then [⟨.queryMissing, []⟩] else []
  let r := rootsLoop s [0, 1, 2] []
  e1 ++ r.1 ++ r.2.flatMap (fun g => if g.2.length > 1 then [(⟨.rootsNotDistinct, g.1⟩ : Err)] else [])

/-! ### arguments (shared by directives and fields) -/

/-- the body of `for arg_name, arg in ….args.items()` -/
def validateArg (s : RawSchema) (dflt : RawSchema → InputValue → Str → Out Unit (List Err))
    (base : Str) (a : InputValue) : Out Unit (List Err) :=
  let c := argCoord base a.name
  Out.mapOk (fun d =>
    validateName a.name
    ++ (if !s.isInputType a.type then [(⟨.notInputType, c⟩ : Err)] else [])
    ++ (if a.isRequired && a.deprecated then [(⟨.requiredArgDeprecated, c⟩ : Err)] else [])
    ++ d) (dflt s a c)

/-! ### directives -/

def validateDirective (s : RawSchema) (dflt : RawSchema → InputValue → Str → Out Unit (List Err))
    (d : Directive) : Out Unit (List Err) :=
  Out.mapOk (fun as =>
    validateName d.name
    ++ (if d.locations == 0 then [(⟨.directiveNoLocations, dirCoord d.name⟩ : Err)] else [])
    ++ as) (outFlatMap (validateArg s dflt (dirCoord d.name)) d.args)

def validateDirectives (s : RawSchema) (dflt : RawSchema → InputValue → Str → Out Unit (List Err)) :
    Out Unit (List Err) :=
  outFlatMap (validateDirective s dflt) s.directives

/-! ### object / interface fields -/

def validateField (s : RawSchema) (dflt : RawSchema → InputValue → Str → Out Unit (List Err))
    (tn : Str) (f : Field) : Out Unit (List Err) :=
  Out.mapOk (fun as =>
    validateName f.name
    ++ (if !s.isOutputType f.type then [(⟨.notOutputType, dot tn f.name⟩ : Err)] else [])
    ++ as) (outFlatMap (validateArg s dflt (dot tn f.name)) f.args)

/-- `validate_fields` -/
def validateFields (s : RawSchema) (dflt : RawSchema → InputValue → Str → Out Unit (List Err))
    (tn : Str) (fields : List Field) : Out Unit (List Err) :=
  Out.mapOk (fun fs => (if fields.isEmpty then [(⟨.noFields, tn⟩ : Err)] else []) ++ fs)
    (outFlatMap (validateField s dflt tn) fields)

/-! ### type comparators -/

/-- `is_equal_type` -/
def isEqualType : TRef → TRef → Bool
  | .named a, .named b => a == b
  | .nonNull a, .nonNull b => isEqualType a b
  | .list a, .list b => isEqualType a b
  | _, _ => false

/-- `schema.is_sub_type(abstract_type, maybe_sub_type)` preceded by
`is_abstract_type(super) and (is_interface_type(sub) or is_object_type(sub))`. -/
def isNamedSubType (s : RawSchema) (sub sup : Str) : Bool :=
  match s.lookup sup with
  | some (.union members) => (s.isObject sub || s.isInterface sub) && members.contains sub
  | some (.interface _ _) => (s.isObject sub || s.isInterface sub) && (s.ifacesOf sub).contains sup
  | _ => false

/-- `is_type_sub_type_of(schema, maybe_subtype, super_type)` -/
def isTypeSubTypeOf (s : RawSchema) : TRef → TRef → Bool
  | .nonNull a, .nonNull b => isTypeSubTypeOf s a b
  | .named _, .nonNull _ => false
  | .list _, .nonNull _ => false
  | .nonNull a, .named b => isTypeSubTypeOf s a (.named b)
  | .nonNull a, .list b => isTypeSubTypeOf s a (.list b)
  | .list a, .list b => isTypeSubTypeOf s a b
  | .named _, .list _ => false
  | .list _, .named _ => false
  | .named a, .named b => a == b || isNamedSubType s a b

/-! ### interfaces -/

/-- `validate_type_implements_ancestors` -/
def validateAncestors (s : RawSchema) (tn : Str) (tIfaces : List Str) (iface : Str) : List Err :=
  (s.ifacesOf iface).flatMap (fun tr =>
    if tIfaces.contains tr then []
    else if tr == tn then [(⟨.implementsCircular, bar tn iface⟩ : Err)]
    else [(⟨.missingTransitive, bar (bar tn tr) iface⟩ : Err)])

/-- the body of `for arg_name, iface_arg in iface_field.args.items()`: the implementing field
has the argument, with an equal type -/
def validateIfaceArg (tn : Str) (ic : Str) (tfArgs : List InputValue) (ia : InputValue) : List Err :=
  match tfArgs.find? (fun a => a.name == ia.name) with
  | none => [⟨.ifaceArgMissing, bar (argCoord ic ia.name) tn⟩]
  | some ta =>
    if !isEqualType ia.type ta.type then [⟨.ifaceArgType, bar (argCoord ic ia.name) tn⟩] else []

/-- the body of `for arg_name, type_arg in type_field.args.items()`: an additional argument
must not be required -/
def validateExtraArg (tn iface : Str) (tfName : Str) (ifldArgs : List InputValue) (ta : InputValue) :
    List Err :=
  if (ifldArgs.find? (fun a => a.name == ta.name)).isNone && ta.isRequired then
    [⟨.extraRequiredArg, bar (argCoord (dot tn tfName) ta.name) iface⟩]
  else []

/-- the body of `for field_name, iface_field in iface_fields.items()` -/
def validateIfaceField (s : RawSchema) (tn iface : Str) (tFields : List Field) (ifld : Field) :
    List Err :=
  let ic := dot iface ifld.name
  match tFields.find? (fun f => f.name == ifld.name) with
  | none => [⟨.ifaceFieldMissing, bar ic tn⟩]
  | some tf =>
    (if !isTypeSubTypeOf s tf.type ifld.type then [(⟨.ifaceFieldType, bar ic tn⟩ : Err)] else [])
    ++ ifld.args.flatMap (validateIfaceArg tn ic tf.args)
    ++ tf.args.flatMap (validateExtraArg tn iface tf.name ifld.args)
    ++ (if tf.deprecated && !ifld.deprecated then [(⟨.implDeprecated, bar ic tn⟩ : Err)] else [])

/-- `validate_type_implements_interface` (the interface is known to be an interface type) -/
def validateImplements (s : RawSchema) (tn iface : Str) (tFields : List Field) : List Err :=
  match s.fieldsOf iface with
  | some ifs => ifs.flatMap (validateIfaceField s tn iface tFields)
  | none => []

/-- the loop of `validate_interfaces`; `seen` is `iface_type_names` -/
def validateIfacesLoop (s : RawSchema) (tn : Str) (tIfaces : List Str) (tFields : List Field) :
    List Str → List Str → List Err
  | [], _ => []
  | i :: rest, seen =>
    if !s.isInterface i then
      (⟨.implementsNonInterface, bar tn i⟩ : Err) :: validateIfacesLoop s tn tIfaces tFields rest seen
    else
      let e1 : List Err := if tn == i then [⟨.implementsSelf, tn⟩] else []
      if seen.contains i then
        e1 ++ (⟨.implementsTwice, bar tn i⟩ : Err) :: validateIfacesLoop s tn tIfaces tFields rest seen
      else
        e1 ++ validateAncestors s tn tIfaces i ++ validateImplements s tn i tFields
          ++ validateIfacesLoop s tn tIfaces tFields rest (i :: seen)

/-- `validate_interfaces` -/
def validateInterfaces (s : RawSchema) (tn : Str) (ifaces : List Str) (fields : List Field) : List Err :=
  validateIfacesLoop s tn ifaces fields ifaces []

/-! ### unions, enums -/

/-- the member loop of `validate_union_members`; `seen` is `included_type_names` -/
def unionLoop (s : RawSchema) (un : Str) : List Str → List Str → List Err
  | [], _ => []
  | m :: rest, seen =>
    if s.isObject m then
      if seen.contains m then (⟨.unionDup, bar un m⟩ : Err) :: unionLoop s un rest seen
      else unionLoop s un rest (m :: seen)
    else (⟨.unionNonObject, bar un m⟩ : Err) :: unionLoop s un rest seen

def validateUnion (s : RawSchema) (un : Str) (members : List Str) : List Err :=
  (if members.isEmpty then [(⟨.unionEmpty, un⟩ : Err)] else []) ++ unionLoop s un members []

def validateEnum (en : Str) (values : List Str) : List Err :=
  (if values.isEmpty then [(⟨.enumEmpty, en⟩ : Err)] else []) ++ values.flatMap validateName

/-! ### input objects -/

/-- the body of the loop of `validate_input_fields` (with `validate_one_of_input_object_field`) -/
def validateInputField (s : RawSchema) (dflt : RawSchema → InputValue → Str → Out Unit (List Err))
    (tn : Str) (oneOf : Bool) (f : InputValue) : Out Unit (List Err) :=
  let c := dot tn f.name
  Out.mapOk (fun d =>
    validateName f.name
    ++ (if !s.isInputType f.type then [(⟨.notInputType, c⟩ : Err)] else [])
    ++ (if f.isRequired && f.deprecated then [(⟨.requiredInputFieldDeprecated, c⟩ : Err)] else [])
    ++ d
    ++ (if oneOf then
          (if f.type.isNonNull then [(⟨.oneOfNonNull, c⟩ : Err)] else [])
          ++ (if f.default.isSome || f.legacyDefault then [(⟨.oneOfDefault, c⟩ : Err)] else [])
        else [])) (dflt s f c)

def validateInputFields (s : RawSchema) (dflt : RawSchema → InputValue → Str → Out Unit (List Err))
    (tn : Str) (fields : List InputValue) (oneOf : Bool) : Out Unit (List Err) :=
  Out.mapOk (fun fs => (if fields.isEmpty then [(⟨.inputEmpty, tn⟩ : Err)] else []) ++ fs)
    (outFlatMap (validateInputField s dflt tn oneOf) fields)

/-! ### `InputObjectNonNullCircularRefsValidator` -/

structure NNState where
  /-- `visited_types` -/
  visited : List Str
  /-- `field_path` (the `"T.f"` strings) -/
  path : List Str
  /-- `field_path_index_by_type_name` -/
  index : List (Str × Nat)
  errs : List Err
  /-- the model's recursion budget ran out (never, see `cycle_validators_terminate`) -/
  outOfFuel : Bool
  deriving Repr, Inhabited

/-- the type a field refers to when it is `NonNull(<input object>)` -/
def nonNullInputTarget (s : RawSchema) (f : InputValue) : Option Str :=
  match f.type with
  | .nonNull (.named m) => if s.isInputObject m then some m else none
  | _ => none

/-- the body of `for field_name, field in input_obj.fields.items()`; `call` is `self(...)` -/
def nnField (s : RawSchema) (call : Str → NNState → NNState) (tn : Str) (st : NNState)
    (f : InputValue) : NNState :=
  match nonNullInputTarget s f with
  | none => st
  | some m =>
    let st1 := { st with path := st.path ++ [dot tn f.name] }
    let st2 :=
      match st1.index.find? (fun e => e.1 == m) with
      | none => call m st1
      | some _ => { st1 with errs := st1.errs ++ [(⟨.nonNullCycle, m⟩ : Err)] }
    { st2 with path := st2.path.dropLast }

/-- `InputObjectNonNullCircularRefsValidator.__call__` -/
def nnCall (s : RawSchema) : Nat → Str → NNState → NNState
  | 0, _, st => { st with outOfFuel := true }
  | fuel + 1, tn, st =>
    if st.visited.contains tn then st
    else
      match s.lookup tn with
      | some (.input fields _) =>
        let st1 := { st with visited := tn :: st.visited, index := (tn, st.path.length) :: st.index }
        let st2 := fields.foldl (nnField s (nnCall s fuel) tn) st1
        { st2 with index := st2.index.filter (fun e => !(e.1 == tn)) }
      | _ => st

/-- recursion budget that always suffices: every recursive call visits a new type -/
def nnFuel (s : RawSchema) : Nat := s.types.length + 1

/-! ### `InputObjectDefaultValueCircularRefsValidator` -/

structure DCState where
  /-- keys of `visited_fields` -/
  visited : List Str
  /-- `field_path` (the `"T.f"` strings) -/
  path : List Str
  /-- `field_path_index` entries that are not `None` -/
  index : List (Str × Nat)
  errs : List Err
  outOfFuel : Bool
  deriving Repr, Inhabited

/-- the loop over `input_obj.fields.items()` shared by the literal and the value variant, given
the detectors of the provided entries (`subs`); `fieldCall` is `detect_field_default_value_cycle` -/
def dcObject (s : RawSchema) (fieldCall : InputValue → Str → Str → DCState → DCState)
    (tn : Str) (subs : List (Str × (Str → DCState → DCState))) (st : DCState) : DCState :=
  match s.lookup tn with
  | some (.input fields _) =>
    fields.foldl (fun st f =>
      let m := f.type.namedType
      if !s.isInputObject m then st
      else
        match lookupLast subs f.name with
        | some g => g m st
        | none => fieldCall f m (dot tn f.name) st) st
  | _ => st

mutual
/-- `detect_literal_default_value_cycle(input_obj, default_value)` -/
def dcLit (s : RawSchema) (fieldCall : InputValue → Str → Str → DCState → DCState) :
    Lit → Str → DCState → DCState
  | .list xs, tn, st => dcLits s fieldCall xs tn st
  | .obj fs, tn, st => dcObject s fieldCall tn (dcEntries s fieldCall fs) st
  | _, _, st => st
def dcLits (s : RawSchema) (fieldCall : InputValue → Str → Str → DCState → DCState) :
    List Lit → Str → DCState → DCState
  | [], _, st => st
  | x :: xs, tn, st => dcLits s fieldCall xs tn (dcLit s fieldCall x tn st)
def dcEntries (s : RawSchema) (fieldCall : InputValue → Str → Str → DCState → DCState) :
    List (Str × Lit) → List (Str × (Str → DCState → DCState))
  | [] => []
  | e :: rest => (e.1, dcLit s fieldCall e.2) :: dcEntries s fieldCall rest
end

/-- `detect_field_default_value_cycle(field, field_type, field_str)` -/
def dcField (s : RawSchema) : Nat → InputValue → Str → Str → DCState → DCState
  | 0, _, _, _, st => { st with outOfFuel := true }
  | fuel + 1, f, m, fieldStr, st =>
    match f.default with
    | none => st
    | some lit =>
      match st.index.find? (fun e => e.1 == fieldStr) with
      | some _ => { st with errs := st.errs ++ [(⟨.defaultCycle, fieldStr⟩ : Err)] }
      | none =>
        if st.visited.contains fieldStr then st
        else
          let st1 := { st with visited := fieldStr :: st.visited, path := st.path ++ [fieldStr] }
          let st2 := { st1 with index := (fieldStr, st1.path.length) :: st1.index }
          let st3 := dcLit s (dcField s fuel) lit m st2
          { st3 with path := st3.path.dropLast, index := st3.index.filter (fun e => !(e.1 == fieldStr)) }

/-- every recursive call of `dcField` marks a new `T.f` visited -/
def dcFuel (s : RawSchema) : Nat :=
  (s.types.map (fun t => match t.defn with | .input fs _ => fs.length | _ => 0)).sum + 1

/-- `InputObjectDefaultValueCircularRefsValidator.__call__`:
`detect_value_default_value_cycle(input_obj, {})` -/
def dcCall (s : RawSchema) (tn : Str) (st : DCState) : DCState :=
  dcObject s (dcField s (dcFuel s)) tn [] st

/-! ### `validate_types` -/

/-- the two validators' memory that survives from one type to the next -/
structure VState where
  nnVisited : List Str
  dcVisited : List Str
  outOfFuel : Bool
  deriving Repr, Inhabited

def runNN (s : RawSchema) (tn : Str) (st : VState) : List Err × VState :=
  let r := nnCall s (nnFuel s) tn ⟨st.nnVisited, [], [], [], false⟩
  (r.errs, { st with nnVisited := r.visited, outOfFuel := st.outOfFuel || r.outOfFuel })

def runDC (s : RawSchema) (tn : Str) (st : VState) : List Err × VState :=
  let r := dcCall s tn ⟨st.dcVisited, [], [], [], false⟩
  (r.errs, { st with dcVisited := r.visited, outOfFuel := st.outOfFuel || r.outOfFuel })

/-- the body of `for type_ in self.schema.type_map.values()` -/
def validateType (s : RawSchema) (dflt : RawSchema → InputValue → Str → Out Unit (List Err))
    (t : NamedType) (st : VState) : Out Unit (List Err × VState) :=
  let nameErrs := if isIntrospectionName t.name then [] else validateName t.name
  match t.defn with
  | .scalar _ => .ok (nameErrs, st)
  | .object is fs =>
    Out.mapOk (fun e => (nameErrs ++ e ++ validateInterfaces s t.name is fs, st))
      (validateFields s dflt t.name fs)
  | .interface is fs =>
    Out.mapOk (fun e => (nameErrs ++ e ++ validateInterfaces s t.name is fs, st))
      (validateFields s dflt t.name fs)
  | .union ms => .ok (nameErrs ++ validateUnion s t.name ms, st)
  | .enum vs => .ok (nameErrs ++ validateEnum t.name vs, st)
  | .input fs oneOf =>
    Out.mapOk (fun e =>
      let r1 := runNN s t.name st
      let r2 := runDC s t.name r1.2
      (nameErrs ++ e ++ r1.1 ++ r2.1, r2.2))
      (validateInputFields s dflt t.name fs oneOf)

def validateTypesLoop (s : RawSchema) (dflt : RawSchema → InputValue → Str → Out Unit (List Err)) :
    List NamedType → VState → Out Unit (List Err × VState)
  | [], st => .ok ([], st)
  | t :: ts, st =>
    match validateType s dflt t st with
    | .ok (e, st1) =>
      match validateTypesLoop s dflt ts st1 with
      | .ok (es, st2) => .ok (e ++ es, st2)
      | r => r
    | r => r

/-! ### `validate_schema`, its cache, and `graphql_impl` -/

/-- `validate_root_types(); validate_directives(); validate_types()` with a given
`validate_default_value`. -/
def validateSchemaWith (dflt : RawSchema → InputValue → Str → Out Unit (List Err)) (s : RawSchema) :
    Out Unit (List Err × VState) :=
  match validateDirectives s dflt with
  | .ok ds =>
    match validateTypesLoop s dflt s.types ⟨[], [], false⟩ with
    | .ok (ts, st) => .ok (validateRootTypes s ++ ds ++ ts, st)
    | .err u => .err u
    | .crash c => .crash c
  | .err u => .err u
  | .crash c => .crash c

/-- `validate_schema(schema)` on a schema that has not been validated yet (repaired code). -/
def validateSchema (s : RawSchema) : Out Unit (List Err) :=
  Out.mapOk (·.1) (validateSchemaWith validateDefault s)

/-- whether the model's recursion budget for the cycle validators ran out -/
def validateSchemaOutOfFuel (s : RawSchema) : Bool :=
  match validateSchemaWith validateDefault s with
  | .ok r => r.2.outOfFuel
  | _ => false

namespace Pinned
/-- `validate_schema` of the pinned tree (before the F6 repair). -/
def validateSchema (s : RawSchema) : Out Unit (List Err) :=
  Out.mapOk (·.1) (validateSchemaWith Pinned.validateDefault s)
end Pinned

/-- `validate_schema` with the `schema._validation_errors` cache (`none`: not validated yet).
Returns the result and the new cache content; a raise leaves the cache untouched. -/
def validateSchemaCached (s : RawSchema) (cache : Option (List Err)) :
    Out Unit (List Err) × Option (List Err) :=
  match cache with
  | some errs => (.ok errs, some errs)
  | none =>
    match validateSchema s with
    | .ok errs => (.ok errs, some errs)
    | r => (r, none)

/-- What `graphql_impl` returns: the schema errors (`data=None`), or whatever parsing,
document validation and execution produce (`rest`, not modelled here). -/
inductive Response (ρ : Type) where
  | schemaErrors (errs : List Err)
  | continued (r : ρ)
  deriving Repr

/-- `graphql_impl`: `if schema_validation_errors := validate_schema(schema): return
ExecutionResult(data=None, errors=schema_validation_errors)`; otherwise go on. -/
def graphqlImpl {ρ : Type} (s : RawSchema) (rest : Unit → Out Unit ρ) : Out Unit (Response ρ) :=
  match validateSchema s with
  | .ok [] => Out.mapOk Response.continued (rest ())
  | .ok errs => .ok (.schemaErrors errs)
  | .err u => .err u
  | .crash c => .crash c

end Gql.Types
