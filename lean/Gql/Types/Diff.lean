import Std
import Gql.Types.Schema
/-!
# `find_schema_changes` on schema content (C19; `changes_refl` is also a C17 clause)

Mirrors find_schema_changes.py function by function, in its order.  A change is its kind and
the names its description mentions first (the subject path, in message order); message
wording is not modelled.  The type map compared by the implementation also holds the
specified scalars that are referenced (`Int`, `Float`, `ID`; `String`/`Boolean` always, via
the introspection types) — `diffTypes` appends them after the defined types (the
correspondence compares `TYPE_ADDED`/`TYPE_REMOVED` up to order).  Introspection types are
identical on both sides and never produce a change.
-/
namespace Gql.Types
open Gql.Generated

inductive ChangeKind where
  | TYPE_REMOVED | TYPE_CHANGED_KIND | TYPE_REMOVED_FROM_UNION | VALUE_REMOVED_FROM_ENUM
  | REQUIRED_INPUT_FIELD_ADDED | IMPLEMENTED_INTERFACE_REMOVED | FIELD_REMOVED | FIELD_CHANGED_KIND
  | REQUIRED_ARG_ADDED | ARG_REMOVED | ARG_CHANGED_KIND | DIRECTIVE_REMOVED | DIRECTIVE_ARG_REMOVED
  | REQUIRED_DIRECTIVE_ARG_ADDED | DIRECTIVE_REPEATABLE_REMOVED | DIRECTIVE_LOCATION_REMOVED
  | VALUE_ADDED_TO_ENUM | TYPE_ADDED_TO_UNION | OPTIONAL_INPUT_FIELD_ADDED | OPTIONAL_ARG_ADDED
  | IMPLEMENTED_INTERFACE_ADDED | ARG_DEFAULT_VALUE_CHANGE
  | TYPE_ADDED | DIRECTIVE_ADDED | FIELD_ADDED | DIRECTIVE_REPEATABLE_ADDED | DIRECTIVE_LOCATION_ADDED
  | OPTIONAL_DIRECTIVE_ARG_ADDED | FIELD_CHANGED_KIND_SAFE | ARG_CHANGED_KIND_SAFE
  | ARG_DEFAULT_VALUE_ADDED | DESCRIPTION_CHANGED
  deriving DecidableEq, Repr, Inhabited

structure Change where
  kind : ChangeKind
  subject : List Str
  deriving DecidableEq, Repr, Inhabited

/-! ## helpers -/

def lookupBy {α : Type} (key : α → Str) (n : Str) (xs : List α) : Option α :=
  xs.find? (fun x => key x == n)

/-- `dict_diff(...).removed` / `list_diff(...).removed`: old items whose name is not in new. -/
def removedBy {α : Type} (key : α → Str) (old new : List α) : List α :=
  old.filter (fun o => (lookupBy key (key o) new).isNone)

def addedBy {α : Type} (key : α → Str) (old new : List α) : List α :=
  new.filter (fun n => (lookupBy key (key n) old).isNone)

/-- persisted pairs in the order of `old` -/
def persistedBy {α : Type} (key : α → Str) (old new : List α) : List (α × α) :=
  old.filterMap (fun o => (lookupBy key (key o) new).map (fun n => (o, n)))

/-- `sort_value_node`: object fields in natural order (stable insertion), recursively. -/
def natKeyAux : List Nat → List Nat → List (List Nat) → Bool → List (List Nat)
  -- cur (reversed) = the part being read, acc (reversed) = finished parts, inDigits
  | [], cur, acc, inDigits =>
      if inDigits then ([] :: cur.reverse :: [cur.reverse.foldl (fun n c => 10 * n + (c - 48)) 0] :: acc).reverse
      else (cur.reverse :: acc).reverse
  | c :: cs, cur, acc, inDigits =>
      let d := 48 ≤ c && c ≤ 57
      if d == inDigits then natKeyAux cs (c :: cur) acc inDigits
      else if d then natKeyAux cs [c] (cur.reverse :: acc) true
      else natKeyAux cs [c] (cur.reverse :: [cur.reverse.foldl (fun n x => 10 * n + (x - 48)) 0] :: acc) false

/-- `natural_comparison_key` (pyutils/natural_compare.py) for ASCII digits: the string is split
into alternating non-digit / digit runs (`re.split(r"(\d+)")`, so it starts and ends with a
possibly empty non-digit run); a digit run `r` contributes `(int(r), r)`, encoded here as the
two consecutive entries `[int r]`, `r`.  Tuples compare lexicographically, as do the lists. -/
def natKey (s : Str) : List (List Nat) := natKeyAux s [] [] false

def natLe (a b : Str) : Bool := (compare (natKey a) (natKey b)).isLE

def insertField (n : Str) (v : Value) : Value → Value
  | .fcons m w rest => if natLe n m then .fcons n v (.fcons m w rest) else .fcons m w (insertField n v rest)
  | other => .fcons n v other

def sortValue : Value → Value
  | .list items => .list (sortValue items)
  | .obj fields => .obj (sortValue fields)
  | .lcons v rest => .lcons (sortValue v) (sortValue rest)
  | .fcons n v rest => insertField n (sortValue v) (sortValue rest)
  | v => v

/-- `get_default_value`: the printed sorted literal; literals print injectively (C08), so the
sorted literal itself is compared. -/
def defaultKey (a : Arg) : Option Value := a.default.map sortValue

def isRequiredArg (a : Arg) : Bool := a.type.isNonNull && a.default.isNone

/-- `is_change_safe_for_object_or_interface_field` -/
def safeOutputChange (old : TypeRef) : TypeRef → Bool
  | .nonNull n =>
    match old with
    | .nonNull o => safeOutputChange o n
    | _ => safeOutputChange old n
  | .list n =>
    match old with
    | .list o => safeOutputChange o n
    | _ => false
  | .named b =>
    match old with
    | .named a => a == b
    | _ => false

/-- `is_change_safe_for_input_object_field_or_field_arg` -/
def safeInputChange : TypeRef → TypeRef → Bool
  | .list o, new =>
    match new with
    | .list n => safeInputChange o n
    | _ => false
  | .nonNull o, new =>
    match new with
    | .nonNull n => safeInputChange o n
    | _ => safeInputChange o new
  | .named a, new =>
    match new with
    | .named b => a == b
    | _ => false

/-- The per-argument block shared by `find_arg_changes` and `find_directive_changes`. -/
def argPairChanges (path descPath : List Str) (old new : Arg) : List Change :=
  (if !safeInputChange old.type new.type then [⟨.ARG_CHANGED_KIND, path⟩]
   else if (defaultKey old).isSome then
     (if (defaultKey new).isNone then [⟨.ARG_DEFAULT_VALUE_CHANGE, path⟩]
      else if defaultKey old != defaultKey new then [⟨.ARG_DEFAULT_VALUE_CHANGE, path⟩]
      else [])
   else if (defaultKey new).isSome then [⟨.ARG_DEFAULT_VALUE_ADDED, path⟩]
   else if old.type != new.type then [⟨.ARG_CHANGED_KIND_SAFE, path⟩]
   else [])
  ++ (if old.desc != new.desc then [⟨.DESCRIPTION_CHANGED, descPath⟩] else [])

/-- `find_arg_changes` -/
def fieldArgChanges (t f : Str) (old new : List Arg) : List Change :=
  (removedBy Arg.name old new).map (fun a => ⟨.ARG_REMOVED, [t, f, a.name]⟩)
  ++ (persistedBy Arg.name old new).flatMap
      (fun p => argPairChanges [t, f, p.1.name] [t, f, p.1.name] p.1 p.2)
  ++ (addedBy Arg.name old new).map (fun a =>
      if isRequiredArg a then ⟨.REQUIRED_ARG_ADDED, [t, f, a.name]⟩ else ⟨.OPTIONAL_ARG_ADDED, [t, f, a.name]⟩)

def fieldPairChanges (t : Str) (old new : Field) : List Change :=
  fieldArgChanges t old.name old.args new.args
  ++ (if !safeOutputChange old.type new.type then [⟨.FIELD_CHANGED_KIND, [t, old.name]⟩]
      else if old.type != new.type then [⟨.FIELD_CHANGED_KIND_SAFE, [t, old.name]⟩]
      else [])
  ++ (if old.desc != new.desc then [⟨.DESCRIPTION_CHANGED, [t, old.name]⟩] else [])

/-- `find_field_changes` -/
def fieldChanges (t : Str) (old new : List Field) : List Change :=
  (removedBy Field.name old new).map (fun f => ⟨.FIELD_REMOVED, [t, f.name]⟩)
  ++ (addedBy Field.name old new).map (fun f => ⟨.FIELD_ADDED, [t, f.name]⟩)
  ++ (persistedBy Field.name old new).flatMap (fun p => fieldPairChanges t p.1 p.2)

/-- `find_implemented_interfaces_changes` (`list_diff` by name) -/
def interfaceChanges (t : Str) (old new : List Str) : List Change :=
  (addedBy id old new).map (fun i => ⟨.IMPLEMENTED_INTERFACE_ADDED, [i, t]⟩)
  ++ (removedBy id old new).map (fun i => ⟨.IMPLEMENTED_INTERFACE_REMOVED, [t, i]⟩)

/-- `find_union_type_changes` -/
def unionChanges (t : Str) (old new : List Str) : List Change :=
  (addedBy id old new).map (fun m => ⟨.TYPE_ADDED_TO_UNION, [m, t]⟩)
  ++ (removedBy id old new).map (fun m => ⟨.TYPE_REMOVED_FROM_UNION, [m, t]⟩)

/-- `find_enum_type_changes` -/
def enumChanges (t : Str) (old new : List EnumVal) : List Change :=
  (addedBy EnumVal.name old new).map (fun v => ⟨.VALUE_ADDED_TO_ENUM, [t, v.name]⟩)
  ++ (removedBy EnumVal.name old new).map (fun v => ⟨.VALUE_REMOVED_FROM_ENUM, [t, v.name]⟩)
  ++ (persistedBy EnumVal.name old new).flatMap (fun p =>
      if p.1.desc != p.2.desc then [⟨.DESCRIPTION_CHANGED, [t, p.1.name]⟩] else [])

/-- `find_input_object_type_changes` (default values of input fields are not compared there) -/
def inputChanges (t : Str) (old new : List Arg) : List Change :=
  (addedBy Arg.name old new).map (fun a =>
      if isRequiredArg a then ⟨.REQUIRED_INPUT_FIELD_ADDED, [t, a.name]⟩
      else ⟨.OPTIONAL_INPUT_FIELD_ADDED, [t, a.name]⟩)
  ++ (removedBy Arg.name old new).map (fun a => ⟨.FIELD_REMOVED, [t, a.name]⟩)
  ++ (persistedBy Arg.name old new).flatMap (fun p =>
      (if !safeInputChange p.1.type p.2.type then [⟨.FIELD_CHANGED_KIND, [t, p.1.name]⟩]
       else if p.1.type != p.2.type then [⟨.FIELD_CHANGED_KIND_SAFE, [t, p.1.name]⟩]
       else [])
      ++ (if p.1.desc != p.2.desc then [⟨.DESCRIPTION_CHANGED, [t, p.1.name]⟩] else []))

/-- The body of the `persisted` loop of `find_type_changes`. -/
def typePairChanges (old new : TypeDef) : List Change :=
  (if old.desc != new.desc then [⟨.DESCRIPTION_CHANGED, [old.name]⟩] else [])
  ++ (match old, new with
      | .enum n _ vs, .enum _ _ ws => enumChanges n vs ws
      | .union n _ ms, .union _ _ ns => unionChanges n ms ns
      | .input n _ _ fs, .input _ _ _ gs => inputChanges n fs gs
      | .object n _ is fs, .object _ _ js gs => fieldChanges n fs gs ++ interfaceChanges n is js
      | .interface n _ is fs, .interface _ _ js gs => fieldChanges n fs gs ++ interfaceChanges n is js
      | o, n => if o.kind != n.kind then [⟨.TYPE_CHANGED_KIND, [o.name]⟩] else [])

def argRefs (as : List Arg) : List Str := as.map (fun a => a.type.base)

def typeRefNames : TypeDef → List Str
  | .object _ _ _ fs | .interface _ _ _ fs => fs.flatMap (fun f => f.type.base :: argRefs f.args)
  | .input _ _ _ fs => argRefs fs
  | _ => []

/-- Names referenced from field, argument and input field types of the defined types and
from the arguments of the (non-specified) directives. -/
def referencedNames (s : Schema) : List Str :=
  s.types.flatMap typeRefNames ++ s.directives.flatMap (fun d => argRefs d.args)

/-- The type map as `find_type_changes` sees it (without the introspection types): the
defined types, then the specified scalars present in the map (those referenced, and those
every type map contains through the introspection types and the specified directives). -/
def diffTypes (s : Schema) : List TypeDef :=
  s.types ++ (SchemaConsts.specifiedScalarNames.filter
      (fun n => (referencedNames s).contains n || SchemaConsts.alwaysPresentScalarNames.contains n)).map
    (fun n => .scalar n none none)

/-- `find_type_changes` -/
def typeChanges (a b : Schema) : List Change :=
  (removedBy TypeDef.name (diffTypes a) (diffTypes b)).map (fun t => ⟨.TYPE_REMOVED, [t.name]⟩)
  ++ (addedBy TypeDef.name (diffTypes a) (diffTypes b)).map (fun t => ⟨.TYPE_ADDED, [t.name]⟩)
  ++ (persistedBy TypeDef.name (diffTypes a) (diffTypes b)).flatMap (fun p => typePairChanges p.1 p.2)

def directivePairChanges (old new : Directive) : List Change :=
  (addedBy Arg.name old.args new.args).map (fun a =>
      if isRequiredArg a then ⟨.REQUIRED_DIRECTIVE_ARG_ADDED, [old.name, a.name]⟩
      else ⟨.OPTIONAL_DIRECTIVE_ARG_ADDED, [old.name, a.name]⟩)
  ++ (removedBy Arg.name old.args new.args).map (fun a => ⟨.DIRECTIVE_ARG_REMOVED, [old.name, a.name]⟩)
  ++ (persistedBy Arg.name old.args new.args).flatMap
      (fun p => argPairChanges [old.name, p.1.name] [old.name, old.name] p.1 p.2)
  ++ (if old.repeatable && !new.repeatable then [⟨.DIRECTIVE_REPEATABLE_REMOVED, [old.name]⟩]
      else if new.repeatable && !old.repeatable then [⟨.DIRECTIVE_REPEATABLE_ADDED, [old.name]⟩]
      else [])
  ++ (if old.desc != new.desc then [⟨.DESCRIPTION_CHANGED, [old.name]⟩] else [])
  ++ (old.locations.filter (fun l => !new.locations.contains l)).map
      (fun _ => ⟨.DIRECTIVE_LOCATION_REMOVED, [new.name]⟩)
  ++ (new.locations.filter (fun l => !old.locations.contains l)).map
      (fun _ => ⟨.DIRECTIVE_LOCATION_ADDED, [old.name]⟩)

/-- `find_directive_changes` (the specified directives are the same objects on both sides) -/
def directiveChanges (a b : Schema) : List Change :=
  (removedBy Directive.name a.directives b.directives).map (fun d => ⟨.DIRECTIVE_REMOVED, [d.name]⟩)
  ++ (addedBy Directive.name a.directives b.directives).map (fun d => ⟨.DIRECTIVE_ADDED, [d.name]⟩)
  ++ (persistedBy Directive.name a.directives b.directives).flatMap (fun p => directivePairChanges p.1 p.2)

/-- `find_schema_changes` -/
def changes (a b : Schema) : List Change := typeChanges a b ++ directiveChanges a b

end Gql.Types
