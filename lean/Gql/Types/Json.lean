/-
JSON values as they come out of `execute_sync(...).data` for an introspection query and go into
`build_client_schema`: ordered objects (Python dicts keep insertion order), strings as code points.
Object keys of the introspection vocabulary are an enumeration (`Key`) so that the kernel can decide
key equality; any other key is `Key.other`.
-/
namespace Gql.Types

inductive Key where
  | schema | description | queryType | mutationType | subscriptionType | types | directives | name | kind
  | isRepeatable | isDeprecated | deprecationReason | locations | args | specifiedByURL | isOneOf | fields
  | inputFields | interfaces | enumValues | possibleTypes | type | defaultValue | ofType
  | other (s : List Nat)
  deriving DecidableEq, Repr

inductive Json where
  | null
  | bool (b : Bool)
  | str (s : List Nat)
  | num (n : Int)
  | arr (xs : List Json)
  | obj (kvs : List (Key × Json))
  deriving Repr

namespace Json

/-- Python `d.get(k)` on a dict (`none` also when the value is not a dict: callers decide whether that is a crash). -/
def get? (k : Key) : Json → Option Json
  | obj kvs => kvs.lookup k
  | _ => none

def isObj : Json → Bool
  | obj _ => true
  | _ => false

/-- Python truthiness of a decoded JSON value. -/
def truthy : Json → Bool
  | null => false
  | bool b => b
  | str s => !s.isEmpty
  | num n => n != 0
  | arr xs => !xs.isEmpty
  | obj kvs => !kvs.isEmpty

def ofOptStr : Option (List Nat) → Json
  | none => null
  | some s => str s

/-- Keep an object's entries whose key is not in `ks` (identity on non-objects). -/
def dropKeys (ks : List Key) : Json → Json
  | obj kvs => obj (kvs.filter fun kv => !ks.contains kv.1)
  | j => j

/-- Apply `f` to the value stored under `k` (identity when absent / on non-objects). -/
def mapKey (k : Key) (f : Json → Json) : Json → Json
  | obj kvs => obj (kvs.map fun kv => if kv.1 = k then (kv.1, f kv.2) else kv)
  | j => j

def mapArr (f : Json → Json) : Json → Json
  | arr xs => arr (xs.map f)
  | j => j

def filterArr (p : Json → Bool) : Json → Json
  | arr xs => arr (xs.filter p)
  | j => j

end Json
end Gql.Types
