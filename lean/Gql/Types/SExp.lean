import Gql.Types.SchemaAst
import Gql.Types.Diff
/-!
S-expression codec for the C17/C19 line protocol (driver only; no theorem depends on it).
Tokens are separated by blanks: `(` `)` open/close a list, `[` n₁ n₂ … `]` is a string of code
points, anything else is an atom.  Format documented in tools/c17_gen.py.
-/
namespace Gql.Types.SExp
open Gql Gql.Types

inductive SX where
  | atom (a : String)
  | str (s : List Nat)
  | list (xs : List SX)
  deriving Repr, Inhabited

/-- Parse a token stream into a sequence of S-expressions (stack machine, no recursion on input depth). -/
def parseToks (toks : List String) : Option (List SX) :=
  let rec go (toks : List String) (stack : List (List SX)) (cur : List SX) (inStr : Option (List Nat)) :
      Option (List SX) :=
    match toks with
    | [] => match stack, inStr with
      | [], none => some cur.reverse
      | _, _ => none
    | t :: rest =>
      match inStr with
      | some acc =>
        if t == "]" then go rest stack (SX.str acc.reverse :: cur) none
        else match t.toNat? with
          | some n => go rest stack cur (some (n :: acc))
          | none => none
      | none =>
        if t == "(" then go rest (cur :: stack) [] none
        else if t == ")" then
          match stack with
          | [] => none
          | top :: stack' => go rest stack' (SX.list cur.reverse :: top) none
        else if t == "[" then go rest stack cur (some [])
        else go rest stack (SX.atom t :: cur) none
  go toks [] [] none

partial def render : SX → String
  | .atom a => a
  | .str s => "[ " ++ String.join (s.map (fun n => toString n ++ " ")) ++ "]"
  | .list xs => "( " ++ String.join (xs.map (fun x => render x ++ " ")) ++ ")"

/-! ### encoders -/
def eOpt {α : Type} (f : α → SX) : Option α → SX
  | none => .atom "N"
  | some x => .list [.atom "S", f x]
def eList {α : Type} (f : α → SX) (xs : List α) : SX := .list (.atom "L" :: xs.map f)
def eBool (b : Bool) : SX := .atom (if b then "T" else "F")

partial def eValue : Value → SX
  | .int s => .list [.atom "int", .str s]
  | .float s => .list [.atom "float", .str s]
  | .str s b => .list [.atom "str", .str s, eBool b]
  | .bool b => .list [.atom "bool", eBool b]
  | .null => .list [.atom "null"]
  | .enum n => .list [.atom "enum", .str n]
  | .list items => .list [.atom "list", .list (.atom "L" :: chain items)]
  | .obj fields => .list [.atom "obj", .list (.atom "L" :: chain fields)]
  | .vnil => .atom "vnil"
  | .lcons v rest => .list [.atom "lcons", eValue v, eValue rest]
  | .fcons n v rest => .list [.atom "fcons", .str n, eValue v, eValue rest]
where
  chain : Value → List SX
    | .lcons v rest => eValue v :: chain rest
    | .fcons n v rest => .list [.atom "of", .str n, eValue v] :: chain rest
    | _ => []

def eTypeRef : TypeRef → SX
  | .named n => .list [.atom "named", .str n]
  | .list t => .list [.atom "listT", eTypeRef t]
  | .nonNull t => .list [.atom "nn", eTypeRef t]

def eArg (a : Arg) : SX :=
  .list [.atom "arg", .str a.name, eOpt .str a.desc, eTypeRef a.type, eOpt eValue a.default, eOpt .str a.depr]
def eField (f : Field) : SX :=
  .list [.atom "field", .str f.name, eOpt .str f.desc, eList eArg f.args, eTypeRef f.type, eOpt .str f.depr]
def eEnumVal (v : EnumVal) : SX := .list [.atom "ev", .str v.name, eOpt .str v.desc, eOpt .str v.depr]
def eType : TypeDef → SX
  | .scalar n d u => .list [.atom "scalar", .str n, eOpt .str d, eOpt .str u]
  | .object n d is fs => .list [.atom "object", .str n, eOpt .str d, eList .str is, eList eField fs]
  | .interface n d is fs => .list [.atom "interface", .str n, eOpt .str d, eList .str is, eList eField fs]
  | .union n d ms => .list [.atom "union", .str n, eOpt .str d, eList .str ms]
  | .enum n d vs => .list [.atom "enum", .str n, eOpt .str d, eList eEnumVal vs]
  | .input n d o fs => .list [.atom "input", .str n, eOpt .str d, eBool o, eList eArg fs]
def strAtom (s : Str) : SX := .atom (String.ofList (s.map Char.ofNat))
def eDirective (d : Directive) : SX :=
  .list [.atom "dir", .str d.name, eOpt .str d.desc, eList eArg d.args, eBool d.repeatable,
    eList strAtom d.locations, eOpt .str d.depr]
def eSchema (s : Schema) : SX :=
  .list [.atom "schema", eOpt .str s.desc, eOpt .str s.query, eOpt .str s.mutation, eOpt .str s.subscription,
    eList eDirective s.directives, eList eType s.types]

def eDesc (d : Option DescNode) : SX := eOpt (fun d => .list [.atom "d", .str d.value, eBool d.block]) d
def eDirApp (d : DirApp) : SX :=
  .list [.atom "da", .str d.name, eList (fun p => .list [.atom "ar", .str p.1, eValue p.2]) d.args]
def eIVD (a : IVD) : SX :=
  .list [.atom "ivd", eDesc a.desc, .str a.name, eTypeRef a.type, eOpt eValue a.default, eList eDirApp a.dirs]
def eFD (f : FD) : SX :=
  .list [.atom "fd", eDesc f.desc, .str f.name, eList eIVD f.args, eTypeRef f.type, eList eDirApp f.dirs]
def eEVD (v : EVD) : SX := .list [.atom "evd", eDesc v.desc, .str v.name, eList eDirApp v.dirs]
def eOp (p : Op × Str) : SX :=
  .list [.atom "op", .atom (match p.1 with | .query => "query" | .mutation => "mutation" | .subscription => "subscription"), .str p.2]
def eNode (pre : String) (head : List SX) (n : TypeNode) : SX :=
  match n.body with
  | .scalar => .list (.atom (pre ++ "scalar") :: head ++ [.str n.name, eList eDirApp n.dirs])
  | .object is fs => .list (.atom (pre ++ "object") :: head ++ [.str n.name, eList .str is, eList eDirApp n.dirs, eList eFD fs])
  | .interface is fs => .list (.atom (pre ++ "interface") :: head ++ [.str n.name, eList .str is, eList eDirApp n.dirs, eList eFD fs])
  | .union ms => .list (.atom (pre ++ "union") :: head ++ [.str n.name, eList eDirApp n.dirs, eList .str ms])
  | .enum vs => .list (.atom (pre ++ "enum") :: head ++ [.str n.name, eList eDirApp n.dirs, eList eEVD vs])
  | .input fs => .list (.atom (pre ++ "input") :: head ++ [.str n.name, eList eDirApp n.dirs, eList eIVD fs])
def eDef : Def → SX
  | .schemaDef d ds ops => .list [.atom "schema", eDesc d, eList eDirApp ds, eList eOp ops]
  | .schemaExt ds ops => .list [.atom "xschema", eList eDirApp ds, eList eOp ops]
  | .directiveDef d n as ds r ls =>
      .list [.atom "directive", eDesc d, .str n, eList eIVD as, eList eDirApp ds, eBool r, eList strAtom ls]
  | .directiveExt n ds => .list [.atom "xdirective", .str n, eList eDirApp ds]
  | .typeDef d node => eNode "" [eDesc d] node
  | .typeExt node => eNode "x" [] node
  | .other => .atom "other"
def eDefs (ds : List Def) : SX := eList eDef ds

/-! ### decoders -/
def dStr : SX → Option Str
  | .str s => some s
  | _ => none
def dBool : SX → Option Bool
  | .atom "T" => some true
  | .atom "F" => some false
  | _ => none
def dOpt {α : Type} (f : SX → Option α) : SX → Option (Option α)
  | .atom "N" => some none
  | .list [.atom "S", x] => (f x).map some
  | _ => none
def dList {α : Type} (f : SX → Option α) : SX → Option (List α)
  | .list (.atom "L" :: xs) => xs.mapM f
  | _ => none

partial def dValue : SX → Option Value
  | .list [.atom "int", .str s] => some (.int s)
  | .list [.atom "float", .str s] => some (.float s)
  | .list [.atom "str", .str s, b] => (dBool b).map (.str s)
  | .list [.atom "bool", b] => (dBool b).map .bool
  | .list [.atom "null"] => some .null
  | .list [.atom "enum", .str n] => some (.enum n)
  | .list [.atom "list", .list (.atom "L" :: xs)] => do
      let vs ← xs.mapM dValue
      some (.list (vs.foldr (fun v acc => .lcons v acc) .vnil))
  | .list [.atom "obj", .list (.atom "L" :: xs)] => do
      let fs ← xs.mapM (fun x => match x with
        | .list [.atom "of", .str n, v] => (dValue v).map (fun w => (n, w))
        | _ => none)
      some (.obj (fs.foldr (fun p acc => .fcons p.1 p.2 acc) .vnil))
  | _ => none

partial def dTypeRef : SX → Option TypeRef
  | .list [.atom "named", .str n] => some (.named n)
  | .list [.atom "listT", t] => (dTypeRef t).map .list
  | .list [.atom "nn", t] => (dTypeRef t).map .nonNull
  | _ => none

def dArg : SX → Option Arg
  | .list [.atom "arg", .str n, d, t, v, r] => do
      some ⟨n, ← dOpt dStr d, ← dTypeRef t, ← dOpt dValue v, ← dOpt dStr r⟩
  | _ => none
def dField : SX → Option Field
  | .list [.atom "field", .str n, d, as, t, r] => do
      some ⟨n, ← dOpt dStr d, ← dList dArg as, ← dTypeRef t, ← dOpt dStr r⟩
  | _ => none
def dEnumVal : SX → Option EnumVal
  | .list [.atom "ev", .str n, d, r] => do some ⟨n, ← dOpt dStr d, ← dOpt dStr r⟩
  | _ => none
def dType : SX → Option TypeDef
  | .list [.atom "scalar", .str n, d, u] => do some (.scalar n (← dOpt dStr d) (← dOpt dStr u))
  | .list [.atom "object", .str n, d, is, fs] => do some (.object n (← dOpt dStr d) (← dList dStr is) (← dList dField fs))
  | .list [.atom "interface", .str n, d, is, fs] => do some (.interface n (← dOpt dStr d) (← dList dStr is) (← dList dField fs))
  | .list [.atom "union", .str n, d, ms] => do some (.union n (← dOpt dStr d) (← dList dStr ms))
  | .list [.atom "enum", .str n, d, vs] => do some (.enum n (← dOpt dStr d) (← dList dEnumVal vs))
  | .list [.atom "input", .str n, d, o, fs] => do some (.input n (← dOpt dStr d) (← dBool o) (← dList dArg fs))
  | _ => none
def dAtomStr : SX → Option Str
  | .atom a => some (a.toList.map Char.toNat)
  | _ => none
def dDirective : SX → Option Directive
  | .list [.atom "dir", .str n, d, as, r, ls, dep] => do
      some ⟨n, ← dOpt dStr d, ← dList dArg as, ← dBool r, ← dList dAtomStr ls, ← dOpt dStr dep⟩
  | _ => none
def dSchema : SX → Option Schema
  | .list [.atom "schema", d, q, m, s, ds, ts] => do
      some ⟨← dOpt dStr d, ← dOpt dStr q, ← dOpt dStr m, ← dOpt dStr s, ← dList dDirective ds, ← dList dType ts⟩
  | _ => none

def dDesc : SX → Option (Option DescNode) :=
  dOpt (fun x => match x with
    | .list [.atom "d", .str v, b] => (dBool b).map (fun b => ⟨v, b⟩)
    | _ => none)
def dDirApp : SX → Option DirApp
  | .list [.atom "da", .str n, as] => do
      let args ← dList (fun x => match x with
        | .list [.atom "ar", .str k, v] => (dValue v).map (fun w => (k, w))
        | _ => none) as
      some ⟨n, args⟩
  | _ => none
def dIVD : SX → Option IVD
  | .list [.atom "ivd", d, .str n, t, v, ds] => do
      some ⟨← dDesc d, n, ← dTypeRef t, ← dOpt dValue v, ← dList dDirApp ds⟩
  | _ => none
def dFD : SX → Option FD
  | .list [.atom "fd", d, .str n, as, t, ds] => do
      some ⟨← dDesc d, n, ← dList dIVD as, ← dTypeRef t, ← dList dDirApp ds⟩
  | _ => none
def dEVD : SX → Option EVD
  | .list [.atom "evd", d, .str n, ds] => do some ⟨← dDesc d, n, ← dList dDirApp ds⟩
  | _ => none
def dOp : SX → Option (Op × Str)
  | .list [.atom "op", .atom "query", .str n] => some (.query, n)
  | .list [.atom "op", .atom "mutation", .str n] => some (.mutation, n)
  | .list [.atom "op", .atom "subscription", .str n] => some (.subscription, n)
  | _ => none

/-- body of a type node after the (optional description and) name -/
def dNode (kind : String) (rest : List SX) : Option TypeNode :=
  match kind, rest with
  | "scalar", [.str n, ds] => do some ⟨n, ← dList dDirApp ds, .scalar⟩
  | "object", [.str n, is, ds, fs] => do some ⟨n, ← dList dDirApp ds, .object (← dList dStr is) (← dList dFD fs)⟩
  | "interface", [.str n, is, ds, fs] => do some ⟨n, ← dList dDirApp ds, .interface (← dList dStr is) (← dList dFD fs)⟩
  | "union", [.str n, ds, ms] => do some ⟨n, ← dList dDirApp ds, .union (← dList dStr ms)⟩
  | "enum", [.str n, ds, vs] => do some ⟨n, ← dList dDirApp ds, .enum (← dList dEVD vs)⟩
  | "input", [.str n, ds, fs] => do some ⟨n, ← dList dDirApp ds, .input (← dList dIVD fs)⟩
  | _, _ => none

def dDef : SX → Option Def
  | .atom "other" => some .other
  | .list [.atom "schema", d, ds, ops] => do some (.schemaDef (← dDesc d) (← dList dDirApp ds) (← dList dOp ops))
  | .list [.atom "xschema", ds, ops] => do some (.schemaExt (← dList dDirApp ds) (← dList dOp ops))
  | .list [.atom "directive", d, .str n, as, ds, r, ls] => do
      some (.directiveDef (← dDesc d) n (← dList dIVD as) (← dList dDirApp ds) (← dBool r) (← dList dAtomStr ls))
  | .list [.atom "xdirective", .str n, ds] => do some (.directiveExt n (← dList dDirApp ds))
  | .list (.atom k :: rest) =>
    if k.startsWith "x" then (dNode (k.drop 1).toString rest).map .typeExt
    else match rest with
      | d :: rest' => do
          let desc ← dDesc d
          let node ← dNode k rest'
          some (.typeDef desc node)
      | [] => none
  | _ => none
def dDefs : SX → Option (List Def) := dList dDef

end Gql.Types.SExp
