import Gql.Types.Json
import Gql.Types.IntroSchema
/-
`introspect printV s o` — the `data` of executing `get_introspection_query(**o)` on schema `s`:
each object lists the response keys in the order of the query text, each value is what the resolver
of type/introspection.py returns.  `restrict o` — what switching options off removes from the
full-options result.  The executor itself (collecting fields, completing values over the meta-schema)
is not modelled; that the query validates and executes without errors is observed on the implementation.
-/
namespace Gql.Types
open Json

/-- The boolean parameters of `get_introspection_query` in signature order, and `type_depth`. -/
structure Options where
  descriptions : Bool
  specifiedByUrl : Bool
  directiveIsRepeatable : Bool
  schemaDescription : Bool
  inputValueDeprecation : Bool
  directiveDeprecation : Bool
  oneOf : Bool
  typeDepth : Nat
  deriving DecidableEq, Repr

namespace Options

def full (depth : Nat) : Options := ⟨true, true, true, true, true, true, true, depth⟩

/-- Python parameter names, in signature order (checked against the T1 table in Props/C18). -/
def names : List String :=
  ["descriptions", "specified_by_url", "directive_is_repeatable", "schema_description",
   "input_value_deprecation", "experimental_directive_deprecation", "one_of"]

def ofBits (depth : Nat) : List Bool → Option Options
  | [a, b, c, d, e, f, g] => some ⟨a, b, c, d, e, f, g, depth⟩
  | _ => none

def toBits (o : Options) : List Bool :=
  [o.descriptions, o.specifiedByUrl, o.directiveIsRepeatable, o.schemaDescription,
   o.inputValueDeprecation, o.directiveDeprecation, o.oneOf]

/-- All bit vectors of length `n`. -/
def bitLists : Nat → List (List Bool)
  | 0 => [[]]
  | n + 1 => (bitLists n).flatMap fun bs => [true :: bs, false :: bs]

/-- The `2^n` option sets over the option list. -/
def all (depth : Nat) : List Options :=
  (bitLists names.length).filterMap (ofBits depth)

end Options

def cSCALAR : List Nat := [83, 67, 65, 76, 65, 82]
def cOBJECT : List Nat := [79, 66, 74, 69, 67, 84]
def cINTERFACE : List Nat := [73, 78, 84, 69, 82, 70, 65, 67, 69]
def cUNION : List Nat := [85, 78, 73, 79, 78]
def cENUM : List Nat := [69, 78, 85, 77]
def cINPUT_OBJECT : List Nat := [73, 78, 80, 85, 84, 95, 79, 66, 74, 69, 67, 84]
def cLIST : List Nat := [76, 73, 83, 84]
def cNON_NULL : List Nat := [78, 79, 78, 95, 78, 85, 76, 76]

/-- `TypeFields.kind`: the name of the `__TypeKind` value. -/
def Kind.name : Kind → List Nat
  | .scalar => cSCALAR
  | .object => cOBJECT
  | .interface => cINTERFACE
  | .union => cUNION
  | .enum => cENUM
  | .inputObject => cINPUT_OBJECT

/-- `{maybe_description}` -/
def descPart (o : Options) (d : Option (List Nat)) : List (Key × Json) :=
  if o.descriptions then [(.description, ofOptStr d)] else []

/-- fragment `TypeRef`: `kind name` and `of_type(level)` more levels of `ofType { kind name … }`. -/
def refJson : Nat → TypeRef → Json
  | 0, .named n k => obj [(.kind, str k.name), (.name, str n)]
  | 0, .list _ => obj [(.kind, str cLIST), (.name, null)]
  | 0, .nonNull _ => obj [(.kind, str cNON_NULL), (.name, null)]
  | _ + 1, .named n k => obj [(.kind, str k.name), (.name, str n), (.ofType, null)]
  | d + 1, .list r => obj [(.kind, str cLIST), (.name, null), (.ofType, refJson d r)]
  | d + 1, .nonNull r => obj [(.kind, str cNON_NULL), (.name, null), (.ofType, refJson d r)]

section
variable {V : Type} (printV : V → List Nat)

/-- fragment `InputValue` (resolvers of `__InputValue`; `defaultValue` = `print_ast(get_default_value_ast(..))`). -/
def ivJson (o : Options) (iv : InputValue V) : Json :=
  obj ([(.name, str iv.name)] ++ descPart o iv.description ++
    [(.type, refJson o.typeDepth iv.type), (.defaultValue, ofOptStr (iv.default.map printV))] ++
    (if o.inputValueDeprecation then
      [(.isDeprecated, Json.bool iv.deprecationReason.isSome), (.deprecationReason, ofOptStr iv.deprecationReason)]
     else []))

/-- `args` / `inputFields` with `(includeDeprecated: true)` only under `input_value_deprecation`;
otherwise the resolver's default `includeDeprecated=False` keeps the entries without a deprecation reason. -/
def visibleInputs (o : Options) (ivs : List (InputValue V)) : List (InputValue V) :=
  if o.inputValueDeprecation then ivs else ivs.filter fun iv => iv.deprecationReason.isNone

def ivsJson (o : Options) (ivs : List (InputValue V)) : Json :=
  arr ((visibleInputs o ivs).map (ivJson printV o))

/-- `fields(includeDeprecated: true) { name description args type isDeprecated deprecationReason }` -/
def fieldJson (o : Options) (f : Field V) : Json :=
  obj ([(.name, str f.name)] ++ descPart o f.description ++
    [(.args, ivsJson printV o f.args), (.type, refJson o.typeDepth f.type),
     (.isDeprecated, Json.bool f.deprecationReason.isSome), (.deprecationReason, ofOptStr f.deprecationReason)])

/-- `enumValues(includeDeprecated: true) { name description isDeprecated deprecationReason }` -/
def enumValueJson (o : Options) (e : EnumValue) : Json :=
  obj ([(.name, str e.name)] ++ descPart o e.description ++
    [(.isDeprecated, Json.bool e.deprecationReason.isSome), (.deprecationReason, ofOptStr e.deprecationReason)])

/-- `GraphQLSchema.get_possible_types` of an interface: `_implementations_map[name].objects` — the object
types in type-map order, once per occurrence of the interface in their `interfaces`. -/
def implementors (types : List (TypeDef V)) (iname : List Nat) : List TypeRef :=
  types.flatMap fun t =>
    if t.kind = .object then
      (t.interfaces.filter fun r => r = .named iname .interface).map fun _ => .named t.name .object
    else []

/-- fragment `FullType` (resolvers of `__Type` on a named type). -/
def typeJson (types : List (TypeDef V)) (o : Options) (t : TypeDef V) : Json :=
  obj ([(.kind, str t.kind.name), (.name, str t.name)] ++ descPart o t.description ++
    (if o.specifiedByUrl then [(.specifiedByURL, ofOptStr t.specifiedByURL)] else []) ++
    (if o.oneOf then [(.isOneOf, if t.kind = .inputObject then Json.bool t.isOneOf else null)] else []) ++
    [(.fields, if t.kind = .object ∨ t.kind = .interface then arr (t.fields.map (fieldJson printV o)) else null),
     (.inputFields, if t.kind = .inputObject then ivsJson printV o t.inputFields else null),
     (.interfaces, if t.kind = .object ∨ t.kind = .interface then arr (t.interfaces.map (refJson o.typeDepth)) else null),
     (.enumValues, if t.kind = .enum then arr (t.enumValues.map (enumValueJson o)) else null),
     (.possibleTypes,
        if t.kind = .union then arr (t.members.map (refJson o.typeDepth))
        else if t.kind = .interface then arr ((implementors types t.name).map (refJson o.typeDepth))
        else null)])

/-- `directives { name description isRepeatable isDeprecated deprecationReason locations args }` -/
def directiveJson (o : Options) (d : Directive V) : Json :=
  obj ([(.name, str d.name)] ++ descPart o d.description ++
    (if o.directiveIsRepeatable then [(.isRepeatable, Json.bool d.isRepeatable)] else []) ++
    (if o.directiveDeprecation then
      [(.isDeprecated, Json.bool d.deprecationReason.isSome), (.deprecationReason, ofOptStr d.deprecationReason)]
     else []) ++
    [(.locations, arr (d.locations.map str)), (.args, ivsJson printV o d.args)])

/-- `directives(includeDeprecated: true)` only under `experimental_directive_deprecation`. -/
def visibleDirectives (o : Options) (ds : List (Directive V)) : List (Directive V) :=
  if o.directiveDeprecation then ds else ds.filter fun d => d.deprecationReason.isNone

/-- `queryType { name kind }` -/
def rootJson : Option (List Nat × Kind) → Json
  | none => null
  | some (n, k) => obj [(.name, str n), (.kind, str k.name)]

def schemaJson (s : Schema V) (o : Options) : Json :=
  obj ((if o.descriptions && o.schemaDescription then [(.description, ofOptStr s.description)] else []) ++
    [(.queryType, rootJson s.query), (.mutationType, rootJson s.mutation),
     (.subscriptionType, rootJson s.subscription),
     (.types, arr (s.types.map (typeJson printV s.types o))),
     (.directives, arr ((visibleDirectives o s.directives).map (directiveJson printV o)))])

/-- Result (`data`) of the standard introspection query with options `o`. -/
def introspect (s : Schema V) (o : Options) : Json :=
  obj [(.schema, schemaJson printV s o)]

/-- Result of `{ __type(name: n) { ...FullType } }` (`schema.get_type(name)`, then the same resolvers). -/
def typeLookup (s : Schema V) (o : Options) (n : List Nat) : Json :=
  match s.types.find? (fun t => t.name = n) with
  | some t => typeJson printV s.types o t
  | none => null

end

/-! ### What switching options off removes from the full result -/

def isDeprecatedEntry (j : Json) : Bool :=
  match j.get? .isDeprecated with
  | some (.bool true) => true
  | _ => false

def descKeys (o : Options) : List Key := if o.descriptions then [] else [.description]

def restrictInputValue (o : Options) (j : Json) : Json :=
  dropKeys (descKeys o ++ if o.inputValueDeprecation then [] else [.isDeprecated, .deprecationReason]) j

def restrictInputValues (o : Options) (j : Json) : Json :=
  mapArr (restrictInputValue o) (if o.inputValueDeprecation then j else filterArr (fun e => !isDeprecatedEntry e) j)

def restrictField (o : Options) (j : Json) : Json :=
  dropKeys (descKeys o) (mapKey .args (restrictInputValues o) j)

def restrictEnumValue (o : Options) (j : Json) : Json :=
  dropKeys (descKeys o) j

def restrictType (o : Options) (j : Json) : Json :=
  dropKeys (descKeys o ++ (if o.specifiedByUrl then [] else [.specifiedByURL]) ++ (if o.oneOf then [] else [.isOneOf]))
    (mapKey .fields (mapArr (restrictField o))
      (mapKey .inputFields (restrictInputValues o)
        (mapKey .enumValues (mapArr (restrictEnumValue o)) j)))

def restrictDirective (o : Options) (j : Json) : Json :=
  dropKeys (descKeys o ++ (if o.directiveIsRepeatable then [] else [.isRepeatable]) ++
      (if o.directiveDeprecation then [] else [.isDeprecated, .deprecationReason]))
    (mapKey .args (restrictInputValues o) j)

def restrictDirectives (o : Options) (j : Json) : Json :=
  mapArr (restrictDirective o) (if o.directiveDeprecation then j else filterArr (fun e => !isDeprecatedEntry e) j)

def restrictSchema (o : Options) (j : Json) : Json :=
  dropKeys (if o.descriptions && o.schemaDescription then [] else [.description])
    (mapKey .types (mapArr (restrictType o)) (mapKey .directives (restrictDirectives o) j))

/-- The full-options result minus exactly the attributes and the deprecated input values / directives
that the switched-off options omit. -/
def restrict (o : Options) (j : Json) : Json :=
  mapKey .schema (restrictSchema o) j

/-! ### Reading a result back -/

def typeEntries (j : Json) : List Json :=
  match (j.get? .schema).bind (Json.get? .types) with
  | some (.arr xs) => xs
  | _ => []

def hasName (n : List Nat) (e : Json) : Bool :=
  match e.get? .name with
  | some (.str m) => m = n
  | _ => false

/-- The entry of `__schema.types` named `n` (`null` when there is none). -/
def findTypeEntry (n : List Nat) (j : Json) : Json :=
  match (typeEntries j).find? (hasName n) with
  | some e => e
  | none => null

end Gql.Types
