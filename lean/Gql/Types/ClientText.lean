import Gql.Syntax.Printer
import Gql.Syntax.Parser
import Gql.Types.ClientSchema
/-
C18 with default values at the level of TEXT: the two parameters of the introspection / client-schema model
(`printV`, `env.parseV`) instantiated with the printer model (`Gql.Syntax.printAst`, = `print_ast`) and the
parser model (`Gql.Syntax.parseSource .constValue`, = `parse_const_value`).  The default value of an argument /
input field is represented by its literal tree (`Gql.Syntax.Ast`: what `ast_from_value` hands to `print_ast` in
the `defaultValue` resolver and what `parse_const_value` hands to `value_from_ast` in `build_client_schema`).
-/
namespace Gql.Syntax

mutual
  /-- Decidable equality of literal trees (needed by `WFSchema`, which compares reserved types). -/
  def Ast.decEq : (a b : Ast) → Decidable (a = b)
    | .node c fs, .node c' fs' =>
      if hc : c = c' then
        match Ast.decEqFields fs fs' with
        | isTrue h => isTrue (by rw [hc, h])
        | isFalse h => isFalse (fun e => h (Ast.node.inj e).2)
      else isFalse (fun e => hc (Ast.node.inj e).1)
    | .list xs, .list ys =>
      match Ast.decEqList xs ys with
      | isTrue h => isTrue (by rw [h])
      | isFalse h => isFalse (fun e => h (Ast.list.inj e))
    | .str a, .str b => if h : a = b then isTrue (by rw [h]) else isFalse (fun e => h (Ast.str.inj e))
    | .bool a, .bool b => if h : a = b then isTrue (by rw [h]) else isFalse (fun e => h (Ast.bool.inj e))
    | .none, .none => isTrue rfl
    | .node _ _, .list _ | .node _ _, .str _ | .node _ _, .bool _ | .node _ _, .none
    | .list _, .node _ _ | .list _, .str _ | .list _, .bool _ | .list _, .none
    | .str _, .node _ _ | .str _, .list _ | .str _, .bool _ | .str _, .none
    | .bool _, .node _ _ | .bool _, .list _ | .bool _, .str _ | .bool _, .none
    | .none, .node _ _ | .none, .list _ | .none, .str _ | .none, .bool _ => isFalse nofun
  def Ast.decEqList : (a b : List Ast) → Decidable (a = b)
    | [], [] => isTrue rfl
    | [], _ :: _ | _ :: _, [] => isFalse nofun
    | x :: xs, y :: ys =>
      match Ast.decEq x y, Ast.decEqList xs ys with
      | isTrue h, isTrue h' => isTrue (by rw [h, h'])
      | isFalse h, _ => isFalse (fun e => h (List.cons.inj e).1)
      | _, isFalse h => isFalse (fun e => h (List.cons.inj e).2)
  def Ast.decEqFields : (a b : List (String × Ast)) → Decidable (a = b)
    | [], [] => isTrue rfl
    | [], _ :: _ | _ :: _, [] => isFalse nofun
    | (k, x) :: xs, (k', y) :: ys =>
      if hk : k = k' then
        match Ast.decEq x y, Ast.decEqFields xs ys with
        | isTrue h, isTrue h' => isTrue (by rw [hk, h, h'])
        | isFalse h, _ => isFalse (fun e => h (Prod.mk.inj (List.cons.inj e).1).2)
        | _, isFalse h => isFalse (fun e => h (List.cons.inj e).2)
      else isFalse (fun e => hk (Prod.mk.inj (List.cons.inj e).1).1)
end

instance : DecidableEq Ast := Ast.decEq

end Gql.Syntax

namespace Gql.Types
open Gql.Syntax

/-- The `defaultValue` resolver's `print_ast(value_ast)`.  `print_ast` raises nothing on a value literal
(`Gql.Props.C18.printDefault_ok`); on a tree that is no value literal (outside `DefaultsWf`) the parameter of
the introspection model — a total function — is given the empty text. -/
def printDefault (w : Widths) (d : Ast) : List Nat :=
  match printAst w d with
  | .ok t => t
  | _ => []

/-- `parse_const_value(default_value_str)` of `build_client_schema` (its `GraphQLSyntaxError` is the `err`). -/
def parseDefaultText (cfg : Cfg) (text : List Nat) : R Ast :=
  match parseSource .constValue cfg text with
  | .ok d => .ok d
  | .err _ => .err "GraphQLSyntaxError"
  | .crash c => .crash c

/-- The environment of `build_client_schema` with the real parser model for default values. -/
def textEnv (cfg : Cfg) (reserved : List (TypeDef Ast)) (locOk : List Nat → Bool) (limit : Nat) : ClientEnv Ast :=
  ⟨parseDefaultText cfg, reserved, locOk, limit⟩

end Gql.Types
