/-
The introspection-relevant content of a `GraphQLSchema`: exactly what the resolvers of
type/introspection.py read.  `V` is the type of default values (a const literal); the model never
looks inside one, it only prints it (`printV`, = `print_ast`) and re-parses it (`parseV`,
= `parse_const_value`).  Type references carry the kind of the named type they point to, as a Python
reference is an object whose class the `kind` resolver inspects.
-/
namespace Gql.Types

inductive Kind where
  | scalar | object | interface | union | enum | inputObject
  deriving DecidableEq, Repr

inductive TypeRef where
  | named (name : List Nat) (kind : Kind)
  | list (of : TypeRef)
  | nonNull (of : TypeRef)
  deriving DecidableEq, Repr

namespace TypeRef

/-- Number of list / non-null wrappers. -/
def depth : TypeRef → Nat
  | named _ _ => 0
  | list r => r.depth + 1
  | nonNull r => r.depth + 1

def namedKind : TypeRef → Kind
  | named _ k => k
  | list r => r.namedKind
  | nonNull r => r.namedKind

def namedName : TypeRef → List Nat
  | named n _ => n
  | list r => r.namedName
  | nonNull r => r.namedName

def isNonNull : TypeRef → Bool
  | nonNull _ => true
  | _ => false

/-- No `NonNull(NonNull(..))` anywhere (`GraphQLNonNull` refuses it). -/
def wellWrapped : TypeRef → Bool
  | named _ _ => true
  | list r => r.wellWrapped
  | nonNull r => !r.isNonNull && r.wellWrapped

end TypeRef

def Kind.isOutput : Kind → Bool
  | .inputObject => false
  | _ => true

def Kind.isInput : Kind → Bool
  | .scalar | .enum | .inputObject => true
  | _ => false

structure InputValue (V : Type) where
  name : List Nat
  description : Option (List Nat)
  type : TypeRef
  default : Option V
  deprecationReason : Option (List Nat)
  deriving DecidableEq, Repr

structure Field (V : Type) where
  name : List Nat
  description : Option (List Nat)
  args : List (InputValue V)
  type : TypeRef
  deprecationReason : Option (List Nat)
  deriving DecidableEq, Repr

structure EnumValue where
  name : List Nat
  description : Option (List Nat)
  deprecationReason : Option (List Nat)
  deriving DecidableEq, Repr

/-- One named type.  Components that do not apply to the kind are empty (`WFType`). -/
structure TypeDef (V : Type) where
  kind : Kind
  name : List Nat
  description : Option (List Nat)
  specifiedByURL : Option (List Nat)
  fields : List (Field V)
  interfaces : List TypeRef
  members : List TypeRef
  enumValues : List EnumValue
  inputFields : List (InputValue V)
  isOneOf : Bool
  deriving DecidableEq, Repr

structure Directive (V : Type) where
  name : List Nat
  description : Option (List Nat)
  isRepeatable : Bool
  deprecationReason : Option (List Nat)
  locations : List (List Nat)
  args : List (InputValue V)
  deriving DecidableEq, Repr

/-- `types` is `schema.type_map` in its (insertion) order, built-in scalars and introspection types included. -/
structure Schema (V : Type) where
  description : Option (List Nat)
  query : Option (List Nat × Kind)
  mutation : Option (List Nat × Kind)
  subscription : Option (List Nat × Kind)
  types : List (TypeDef V)
  directives : List (Directive V)
  deriving DecidableEq, Repr

end Gql.Types
