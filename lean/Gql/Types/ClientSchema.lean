import Gql.Text.Out
import Gql.Types.Introspection
/-
`buildClient` — build_client_schema.py followed by the part of `GraphQLSchema.__init__` that forces the
lazily built fields / interfaces / member types (so every error the call can raise is raised here).
Outcomes: `ok schema`; `err cls` — the function's own `TypeError`s and the `GraphQLError`s of
`assert_name` / `parse_const_value` (`cls` = exception class); `crash cls` — anything else CPython
raises (`KeyError` on `d["k"]`, `TypeError` on subscripting / iterating a non-container,
`AttributeError` on `.get` of a non-dict, `RecursionError`).
-/
namespace Gql.Types
open Json

abbrev R := Out String

def eTypeError {α : Type} : R α := .err "TypeError"
def eGraphQLError {α : Type} : R α := .err "GraphQLError"

/-- What the harness / theorems supply about the environment of `build_client_schema`. -/
structure ClientEnv (V : Type) where
  /-- `parse_const_value` (raises `GraphQLSyntaxError`) -/
  parseV : List Nat → R V
  /-- `GraphQLNamedType.reserved_types`: specified scalars and introspection types -/
  reserved : List (TypeDef V)
  /-- names of `DirectiveLocation` members -/
  locOk : List Nat → Bool
  /-- CPython's recursion limit (for `get_type` following `ofType`) -/
  limit : Nat

/-- Python `d[k]`. -/
def index (k : Key) : Json → R Json
  | .obj kvs =>
    match kvs.lookup k with
    | some v => .ok v
    | none => .crash "KeyError"
  | _ => .crash "TypeError"

/-- Python `d.get(k)` where `d` is expected to be a dict (`None` = `null`). -/
def dget (k : Key) : Json → R Json
  | .obj kvs => .ok ((kvs.lookup k).getD .null)
  | _ => .crash "AttributeError"

/-- A value stored into a `str | None` attribute.  Other JSON values would be stored as they are by
Python; the model's schema cannot hold them (outside the domain the correspondence feeds). -/
def optStrOf : Json → R (Option (List Nat))
  | .null => .ok none
  | .str s => .ok (some s)
  | _ => .err "Unrepresentable"

def strOf : Json → R (List Nat)
  | .str s => .ok s
  | _ => .err "Unrepresentable"

/-- A value used as a name: `assert_name` raises `TypeError` for `None` and for non-strings. -/
def nameOf : Json → R (List Nat)
  | .str s => .ok s
  | _ => .err "TypeError"

def mapMOut {α β : Type} (f : α → R β) : List α → R (List β)
  | [] => .ok []
  | a :: as =>
    match f a with
    | .ok b =>
      match mapMOut f as with
      | .ok bs => .ok (b :: bs)
      | .err e => .err e
      | .crash c => .crash c
    | .err e => .err e
    | .crash c => .crash c

/-- Iterating a JSON value that should be a list. -/
def items : Json → R (List Json)
  | .arr xs => .ok xs
  | .obj kvs => if kvs.isEmpty then .ok [] else .err "Unrepresentable"
  | .str s => if s.isEmpty then .ok [] else .err "Unrepresentable"
  | _ => .crash "TypeError"

/-! dict semantics of `{k: v for …}`: first position, last value -/

def dictInsert {α : Type} (key : α → List Nat) (a : α) : List α → List α
  | [] => [a]
  | b :: bs => if key b = key a then a :: bs else b :: dictInsert key a bs

def dictOfList {α : Type} (key : α → List Nat) (xs : List α) : List α :=
  xs.foldl (fun acc a => dictInsert key a acc) []

/-! names -/

def isNameStart (c : Nat) : Bool := c = 95 || (65 ≤ c && c ≤ 90) || (97 ≤ c && c ≤ 122)
def isNameContinue (c : Nat) : Bool := isNameStart c || (48 ≤ c && c ≤ 57)

def isName : List Nat → Bool
  | [] => false
  | c :: cs => cs.all isNameContinue && isNameStart c

/-- `assert_name` (on a `str`). -/
def assertName (n : List Nat) : R Unit := if isName n then .ok () else eGraphQLError

def kindOfName (s : List Nat) : Option Kind :=
  if s = cSCALAR then some .scalar
  else if s = cOBJECT then some .object
  else if s = cINTERFACE then some .interface
  else if s = cUNION then some .union
  else if s = cENUM then some .enum
  else if s = cINPUT_OBJECT then some .inputObject
  else none

abbrev KindMap := List (List Nat × Kind)

/-- `get_named_type`. -/
def getNamedType (km : KindMap) (j : Json) : R TypeRef :=
  match j.get? .name with
  | some (.str n) =>
    if n.isEmpty then eTypeError
    else match km.lookup n with
      | some k => .ok (.named n k)
      | none => eTypeError
  | some .null | none => eTypeError
  | some _ => .err "Unrepresentable"

/-- `get_type`: follows `ofType` for `LIST` / `NON_NULL`; `fuel` is the interpreter's recursion limit. -/
def getType (km : KindMap) : Nat → Json → R TypeRef
  | 0, _ => .crash "RecursionError"
  | fuel + 1, j =>
    match j with
    | .obj _ =>
      match j.get? .kind with
      | some (.str k) =>
        if k = cLIST then
          match j.get? .ofType with
          | some item =>
            if item.truthy then
              match getType km fuel item with
              | .ok r => .ok (.list r)
              | e => e
            else eTypeError
          | none => eTypeError
        else if k = cNON_NULL then
          match j.get? .ofType with
          | some item =>
            if item.truthy then
              match getType km fuel item with
              | .ok r => if r.isNonNull then eTypeError else .ok (.nonNull r)
              | e => e
            else eTypeError
          | none => eTypeError
        else getNamedType km j
      | _ => getNamedType km j
    | _ => .crash "AttributeError"

/-- `get_object_type` / `get_interface_type`: `assert_*_type(get_type(ref))`. -/
def getTypeOfKind (km : KindMap) (fuel : Nat) (want : Kind) (j : Json) : R TypeRef :=
  match getType km fuel j with
  | .ok (.named n k) => if k = want then .ok (.named n k) else eTypeError
  | .ok _ => eTypeError
  | e => e

/-- An exception escaping a `fields` / `interfaces` / `types` thunk is re-raised as `GraphQLError` if it
is one (also a `GraphQLSyntaxError`), else as `TypeError`. -/
def wrapThunk {α : Type} : R α → R α
  | .ok a => .ok a
  | .err e => if e = "GraphQLError" ∨ e = "GraphQLSyntaxError" then .err "GraphQLError" else
      if e = "Unrepresentable" then .err e else .err "TypeError"
  | .crash _ => .err "TypeError"

section
variable {V : Type} (env : ClientEnv V) (km : KindMap)

def parseDefault : Json → R (Option V)
  | .null => .ok none
  | .str s =>
    match env.parseV s with
    | .ok v => .ok (some v)
    | .err _ => .err "GraphQLSyntaxError"
    | .crash c => .crash c
  | _ => .crash "TypeError"

/-- `build_argument` / `build_input_value` (same code twice in the source), keyed by `["name"]` first. -/
def buildInputValue (j : Json) : R (InputValue V) :=
  match index .name j with
  | .ok nameJ =>
    match index .type j with
    | .ok typeJ =>
      match getType km env.limit typeJ with
      | .ok t =>
        if t.namedKind.isInput then
          match dget .defaultValue j with
          | .ok dvJ =>
            match parseDefault env dvJ with
            | .ok dv =>
              match dget .description j with
              | .ok dJ =>
                match optStrOf dJ with
                | .ok d =>
                  match dget .deprecationReason j with
                  | .ok rJ =>
                    match optStrOf rJ with
                    | .ok r =>
                      match nameOf nameJ with
                      | .ok name => .ok ⟨name, d, t, dv, r⟩
                      | .err e => .err e
                      | .crash c => .crash c
                    | .err e => .err e
                    | .crash c => .crash c
                  | .err e => .err e
                  | .crash c => .crash c
                | .err e => .err e
                | .crash c => .crash c
              | .err e => .err e
              | .crash c => .crash c
            | .err e => .err e
            | .crash c => .crash c
          | .err e => .err e
          | .crash c => .crash c
        else eTypeError
      | .err e => .err e
      | .crash c => .crash c
    | .err e => .err e
    | .crash c => .crash c
  | .err e => .err e
  | .crash c => .crash c

def checkNames {α : Type} (name : α → List Nat) (xs : List α) : R Unit :=
  if xs.all fun x => isName (name x) then .ok () else eGraphQLError

/-- `build_argument_def_map` / `build_input_value_def_map`, then the `assert_name` over the keys done by
the constructor receiving the map. -/
def buildInputValues (j : Json) : R (List (InputValue V)) :=
  match items j with
  | .ok xs =>
    match mapMOut (buildInputValue env km) xs with
    | .ok ivs =>
      let d := dictOfList InputValue.name ivs
      match checkNames InputValue.name d with
      | .ok _ => .ok d
      | .err e => .err e
      | .crash c => .crash c
    | .err e => .err e
    | .crash c => .crash c
  | .err e => .err e
  | .crash c => .crash c

/-- `build_field`, keyed by `["name"]` first. -/
def buildField (j : Json) : R (Field V) :=
  match index .name j with
  | .ok nameJ =>
    match index .type j with
    | .ok typeJ =>
      match getType km env.limit typeJ with
      | .ok t =>
        if t.namedKind.isOutput then
          match dget .args j with
          | .ok .null => eTypeError
          | .ok argsJ =>
            match buildInputValues env km argsJ with
            | .ok args =>
              match dget .description j with
              | .ok dJ =>
                match optStrOf dJ with
                | .ok d =>
                  match dget .deprecationReason j with
                  | .ok rJ =>
                    match optStrOf rJ with
                    | .ok r =>
                      match nameOf nameJ with
                      | .ok name => .ok ⟨name, d, args, t, r⟩
                      | .err e => .err e
                      | .crash c => .crash c
                    | .err e => .err e
                    | .crash c => .crash c
                  | .err e => .err e
                  | .crash c => .crash c
                | .err e => .err e
                | .crash c => .crash c
              | .err e => .err e
              | .crash c => .crash c
            | .err e => .err e
            | .crash c => .crash c
          | .err e => .err e
          | .crash c => .crash c
        else eTypeError
      | .err e => .err e
      | .crash c => .crash c
    | .err e => .err e
    | .crash c => .crash c
  | .err e => .err e
  | .crash c => .crash c

/-- `build_field_def_map` inside the `fields` thunk. -/
def buildFields (j : Json) : R (List (Field V)) :=
  match dget .fields j with
  | .ok .null => eTypeError
  | .ok fsJ =>
    match items fsJ with
    | .ok xs =>
      match mapMOut (buildField env km) xs with
      | .ok fs => .ok (dictOfList Field.name fs)
      | .err e => .err e
      | .crash c => .crash c
    | .err e => .err e
    | .crash c => .crash c
  | .err e => .err e
  | .crash c => .crash c

/-- `build_implementations_list` inside the `interfaces` thunk. -/
def buildInterfaces (kind : Kind) (j : Json) : R (List TypeRef) :=
  match dget .interfaces j with
  | .ok .null => if kind = .interface then .ok [] else eTypeError
  | .ok isJ =>
    match items isJ with
    | .ok xs => mapMOut (getTypeOfKind km env.limit .interface) xs
    | .err e => .err e
    | .crash c => .crash c
  | .err e => .err e
  | .crash c => .crash c

def buildEnumValue (j : Json) : R EnumValue :=
  match index .name j with
  | .ok nameJ =>
    match dget .description j with
    | .ok dJ =>
      match optStrOf dJ with
      | .ok d =>
        match dget .deprecationReason j with
        | .ok rJ =>
          match optStrOf rJ with
          | .ok r =>
            match nameOf nameJ with
            | .ok name => .ok ⟨name, d, r⟩
            | .err e => .err e
            | .crash c => .crash c
          | .err e => .err e
          | .crash c => .crash c
        | .err e => .err e
        | .crash c => .crash c
      | .err e => .err e
      | .crash c => .crash c
    | .err e => .err e
    | .crash c => .crash c
  | .err e => .err e
  | .crash c => .crash c

def boolOf : Json → Bool
  | .bool b => b
  | _ => false

/-- The definition built for a non-reserved entry `(name, kind, json)`: the per-kind `build_*_def` plus the
forcing of its thunks by `GraphQLSchema.__init__` (`interfaces` before `fields`). -/
def buildTypeDef (name : List Nat) (kind : Kind) (j : Json) : R (TypeDef V) :=
  match dget .description j with
  | .ok dJ =>
    match optStrOf dJ with
    | .ok d =>
      match kind with
      | .scalar =>
        match dget .specifiedByURL j with
        | .ok uJ =>
          match optStrOf uJ with
          | .ok u => .ok ⟨.scalar, name, d, u, [], [], [], [], [], false⟩
          | .err e => .err e
          | .crash c => .crash c
        | .err e => .err e
        | .crash c => .crash c
      | .object | .interface =>
        match wrapThunk (buildInterfaces env km kind j) with
        | .ok is =>
          match wrapThunk (buildFields env km j) with
          | .ok fs =>
            match checkNames Field.name fs with
            | .ok _ => .ok ⟨kind, name, d, none, fs, is, [], [], [], false⟩
            | .err e => .err e
            | .crash c => .crash c
          | .err e => .err e
          | .crash c => .crash c
        | .err e => .err e
        | .crash c => .crash c
      | .union =>
        match dget .possibleTypes j with
        | .ok psJ =>
          match wrapThunk (match items psJ with
              | .ok xs => mapMOut (getTypeOfKind km env.limit .object) xs
              | .err e => .err e
              | .crash c => .crash c) with
          | .ok ms => .ok ⟨.union, name, d, none, [], [], ms, [], [], false⟩
          | .err e => .err e
          | .crash c => .crash c
        | .err e => .err e
        | .crash c => .crash c
      | .enum =>
        match dget .enumValues j with
        | .ok evJ =>
          match items evJ with
          | .ok xs =>
            match mapMOut buildEnumValue xs with
            | .ok evs => .ok ⟨.enum, name, d, none, [], [], [], dictOfList EnumValue.name evs, [], false⟩
            | .err e => .err e
            | .crash c => .crash c
          | .err e => .err e
          | .crash c => .crash c
        | .err e => .err e
        | .crash c => .crash c
      | .inputObject =>
        match dget .inputFields j with
        | .ok ifJ =>
          match wrapThunk (buildInputValues env km ifJ) with
          | .ok ifs =>
            match dget .isOneOf j with
            | .ok oJ => .ok ⟨.inputObject, name, d, none, [], [], [], [], ifs, boolOf oJ⟩
            | .err e => .err e
            | .crash c => .crash c
          | .err e => .err e
          | .crash c => .crash c
        | .err e => .err e
        | .crash c => .crash c
    | .err e => .err e
    | .crash c => .crash c
  | .err e => .err e
  | .crash c => .crash c

/-- One element of `__schema.types` after the eager part of `build_type`. -/
structure Entry where
  name : List Nat
  kind : Kind
  json : Json

def isReserved (n : List Nat) : Bool := env.reserved.any fun r => r.name = n

/-- The dict-comprehension step `type_introspection["name"]: build_type(type_introspection)`: everything
that is evaluated eagerly (key first, then the checks of `build_type` and of the per-kind builder up to
the constructor call). -/
def eagerEntry (j : Json) : R Entry :=
  match index .name j with
  | .ok nameJ =>
    match j.get? .kind with
    | some (.str ks) =>
      match kindOfName ks with
      | some kind =>
        match nameOf nameJ with
        | .ok name =>
          let ctor : R Entry :=
            if isReserved env name then eTypeError   -- `__new__`: redefinition of a reserved type
            else match assertName name with
              | .ok _ => .ok ⟨name, kind, j⟩
              | .err e => .err e
              | .crash c => .crash c
          match kind with
          | .scalar | .object => if isReserved env name then .ok ⟨name, kind, j⟩ else ctor
          | .interface => ctor
          | .union =>
            match j.get? .possibleTypes with
            | some .null | none => eTypeError
            | some _ => ctor
          | .enum =>
            match j.get? .enumValues with
            | some .null | none => eTypeError
            | some evJ =>
              if isReserved env name then .ok ⟨name, kind, j⟩
              else match items evJ with
                | .ok xs =>
                  match mapMOut (index .name) xs with
                  | .ok _ => ctor
                  | .err e => .err e
                  | .crash c => .crash c
                | .err e => .err e
                | .crash c => .crash c
          | .inputObject =>
            match j.get? .inputFields with
            | some .null | none => eTypeError
            | some _ => ctor
        | .err e => .err e
        | .crash c => .crash c
      | none => eTypeError
    | _ => eTypeError
  | .err e => .err e
  | .crash c => .crash c

/-- The kind an entry has in the final type map (standard types replace same-named entries). -/
def entryKind (e : Entry) : Kind :=
  match env.reserved.find? fun r => r.name = e.name with
  | some r => r.kind
  | none => e.kind

def finishEntry (e : Entry) : R (TypeDef V) :=
  match env.reserved.find? fun r => r.name = e.name with
  | some r => .ok r
  | none => buildTypeDef env km e.name e.kind e.json

/-- `get_object_type(ref)` for a root operation type (`None` when absent). -/
def buildRoot (j : Json) : R (Option (List Nat × Kind)) :=
  match j with
  | .null => .ok none
  | _ =>
    match getTypeOfKind km env.limit .object j with
    | .ok (.named n k) => .ok (some (n, k))
    | .ok _ => eTypeError
    | .err e => .err e
    | .crash c => .crash c

def buildLocation (j : Json) : R (List Nat) :=
  match j with
  | .str s => if env.locOk s then .ok s else eTypeError
  | _ => eTypeError

/-- `build_directive` and `GraphQLDirective.__init__`. -/
def buildDirective (j : Json) : R (Directive V) :=
  match dget .args j with
  | .ok .null => eTypeError
  | .ok argsJ =>
    match dget .locations j with
    | .ok .null => eTypeError
    | .ok locsJ =>
      match index .name j with
      | .ok nameJ =>
        match items argsJ with
        | .ok xs =>
          match mapMOut (buildInputValue env km) xs with
          | .ok ivs =>
            match nameOf nameJ with
            | .ok name =>
              match assertName name with
              | .ok _ =>
                match items locsJ with
                | .ok ls =>
                  match mapMOut (buildLocation env) ls with
                  | .ok locs =>
                    let args := dictOfList InputValue.name ivs
                    match checkNames InputValue.name args with
                    | .ok _ =>
                      match dget .description j with
                      | .ok dJ =>
                        match optStrOf dJ with
                        | .ok d =>
                          match dget .deprecationReason j with
                          | .ok rJ =>
                            match optStrOf rJ with
                            | .ok r =>
                              match dget .isRepeatable j with
                              | .ok repJ => .ok ⟨name, d, boolOf repJ, r, locs, args⟩
                              | .err e => .err e
                              | .crash c => .crash c
                            | .err e => .err e
                            | .crash c => .crash c
                          | .err e => .err e
                          | .crash c => .crash c
                        | .err e => .err e
                        | .crash c => .crash c
                      | .err e => .err e
                      | .crash c => .crash c
                    | .err e => .err e
                    | .crash c => .crash c
                  | .err e => .err e
                  | .crash c => .crash c
                | .err e => .err e
                | .crash c => .crash c
              | .err e => .err e
              | .crash c => .crash c
            | .err e => .err e
            | .crash c => .crash c
          | .err e => .err e
          | .crash c => .crash c
        | .err e => .err e
        | .crash c => .crash c
      | .err e => .err e
      | .crash c => .crash c
    | .err e => .err e
    | .crash c => .crash c
  | .err e => .err e
  | .crash c => .crash c

def buildDirectives (j : Json) : R (List (Directive V)) :=
  if j.truthy then
    match items j with
    | .ok xs => mapMOut (buildDirective env km) xs
    | .err e => .err e
    | .crash c => .crash c
  else .ok []

end

/-- `build_client_schema(introspection)`. -/
def buildClient {V : Type} (env : ClientEnv V) (j : Json) : R (Schema V) :=
  match j.get? .schema with
  | some (.obj skvs) =>
    let sj := Json.obj skvs
    match index .types sj with
    | .ok typesJ =>
      match items typesJ with
      | .ok ts =>
        match mapMOut (eagerEntry env) ts with
        | .ok es =>
          let dict := dictOfList Entry.name es
          let km : KindMap := dict.map fun e => (e.name, entryKind env e)
          match dget .queryType sj with
          | .ok qJ =>
            match buildRoot env km qJ with
            | .ok q =>
              match dget .mutationType sj with
              | .ok mJ =>
                match buildRoot env km mJ with
                | .ok m =>
                  match dget .subscriptionType sj with
                  | .ok sJ =>
                    match buildRoot env km sJ with
                    | .ok s =>
                      match dget .directives sj with
                      | .ok dsJ =>
                        match buildDirectives env km dsJ with
                        | .ok ds =>
                          match mapMOut (finishEntry env km) dict with
                          | .ok types =>
                            match dget .description sj with
                            | .ok dJ =>
                              match optStrOf dJ with
                              | .ok d => .ok ⟨d, q, m, s, types, ds⟩
                              | .err e => .err e
                              | .crash c => .crash c
                            | .err e => .err e
                            | .crash c => .crash c
                          | .err e => .err e
                          | .crash c => .crash c
                        | .err e => .err e
                        | .crash c => .crash c
                      | .err e => .err e
                      | .crash c => .crash c
                    | .err e => .err e
                    | .crash c => .crash c
                  | .err e => .err e
                  | .crash c => .crash c
                | .err e => .err e
                | .crash c => .crash c
              | .err e => .err e
              | .crash c => .crash c
            | .err e => .err e
            | .crash c => .crash c
          | .err e => .err e
          | .crash c => .crash c
        | .err e => .err e
        | .crash c => .crash c
      | .err e => .err e
      | .crash c => .crash c
    | .err e => .err e
    | .crash c => .crash c
  | _ => eTypeError

end Gql.Types
