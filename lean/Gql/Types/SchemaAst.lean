import Gql.Types.Schema
/-!
# Type-system definitions ⇄ schema content (C17, C19)

* `Def` — the structured type-system definition AST (what `parse(..., no_location=True)`
  returns for an SDL document, restricted to the parts the builder reads).
* `schemaToDefs` — the definitions `print_schema` emits, in its order, with its filtering and
  its rule for omitting the `schema { … }` block (print_schema.py).  The text layer
  (definitions ⇄ SDL text) is C08's print/parse round trip and is tied here by the
  correspondence run only.
* `extendCore` — `ExtendSchemaImpl.extend_schema_args` + `map_schema_config` + the lazily
  evaluated builders, on schema content; `buildFromDefs` — `build_ast_schema`
  (`assume_valid_sdl=True`: the SDL validation rules are not part of this model).

Crash-faithfulness: an unknown type name is `TypeError` (`get_named_type`), an unknown
directive location `KeyError` (`DirectiveLocation[...]`), an ill-typed `@deprecated(reason:)`
/`@specifiedBy(url:)` argument is the library's own `GraphQLError` (`err`).
Evaluation is eager here (Python evaluates field thunks when the schema is constructed); for
documents with duplicate type names *and* an ill-typed directive argument the real code may
skip the shadowed definition — such documents are rejected by SDL validation anyway.
-/
namespace Gql.Types
open Gql Gql.Generated

/-! ## Definition AST -/

structure DescNode where
  value : Str
  block : Bool
  deriving DecidableEq, Repr, Inhabited

structure DirApp where
  name : Str
  args : List (Str × Value)
  deriving DecidableEq, Repr, Inhabited

/-- InputValueDefinition -/
structure IVD where
  desc : Option DescNode
  name : Str
  type : TypeRef
  default : Option Value
  dirs : List DirApp
  deriving DecidableEq, Repr, Inhabited

/-- FieldDefinition -/
structure FD where
  desc : Option DescNode
  name : Str
  args : List IVD
  type : TypeRef
  dirs : List DirApp
  deriving DecidableEq, Repr, Inhabited

/-- EnumValueDefinition -/
structure EVD where
  desc : Option DescNode
  name : Str
  dirs : List DirApp
  deriving DecidableEq, Repr, Inhabited

inductive Op where
  | query | mutation | subscription
  deriving DecidableEq, Repr, Inhabited

/-- Kind-specific content of a type definition or type extension node. -/
inductive Body where
  | scalar
  | object (interfaces : List Str) (fields : List FD)
  | interface (interfaces : List Str) (fields : List FD)
  | union (members : List Str)
  | enum (values : List EVD)
  | input (fields : List IVD)
  deriving DecidableEq, Repr, Inhabited

namespace Body
def kind : Body → Nat
  | scalar => 0
  | object .. => 1
  | interface .. => 2
  | union .. => 3
  | enum .. => 4
  | input .. => 5
def interfaces : Body → List Str
  | object is _ | interface is _ => is
  | _ => []
def fields : Body → List FD
  | object _ fs | interface _ fs => fs
  | _ => []
def members : Body → List Str
  | union ms => ms
  | _ => []
def values : Body → List EVD
  | enum vs => vs
  | _ => []
def inputFields : Body → List IVD
  | input fs => fs
  | _ => []
end Body

structure TypeNode where
  name : Str
  dirs : List DirApp
  body : Body
  deriving DecidableEq, Repr, Inhabited

inductive Def where
  | schemaDef (desc : Option DescNode) (dirs : List DirApp) (ops : List (Op × Str))
  | schemaExt (dirs : List DirApp) (ops : List (Op × Str))
  | directiveDef (desc : Option DescNode) (name : Str) (args : List IVD) (dirs : List DirApp)
      (repeatable : Bool) (locations : List Str)
  | directiveExt (name : Str) (dirs : List DirApp)
  | typeDef (desc : Option DescNode) (node : TypeNode)
  | typeExt (node : TypeNode)
  /-- an executable definition (operation / fragment): skipped by the builder -/
  | other
  deriving DecidableEq, Repr, Inhabited

/-! ## `is_printable_as_block_string` (block_string.py) -/

/-- State of the scan: `isEmptyLine hasIndent hasCommonIndent seenNonEmptyLine`. -/
def blockScan : Str → Bool → Bool → Bool → Bool → Bool
  | [], isEmptyLine, _, hasCommonIndent, seenNonEmptyLine =>
      if isEmptyLine then false
      else if hasCommonIndent && seenNonEmptyLine then false
      else true
  | c :: cs, isEmptyLine, hasIndent, hasCommonIndent, seenNonEmptyLine =>
      if c = 10 then
        if isEmptyLine && !seenNonEmptyLine then false
        else blockScan cs true false hasCommonIndent true
      else if c = 32 ∨ c = 9 then
        blockScan cs isEmptyLine (hasIndent || isEmptyLine) hasCommonIndent seenNonEmptyLine
      else if c ≤ 15 then false
      else blockScan cs false hasIndent (hasCommonIndent && hasIndent) seenNonEmptyLine

def isPrintableAsBlockString (value : Str) : Bool :=
  match value with
  | [] => true
  | _ => blockScan value true false true false

/-! ## Schema content → definitions (`print_schema`) -/

def descNode (d : Option Str) : Option DescNode :=
  d.map fun v => ⟨v, isPrintableAsBlockString v⟩

/-- `print_deprecated` -/
def deprDirs : Option Str → List DirApp
  | none => []
  | some r =>
    if r = SchemaConsts.defaultDeprecationReason then [⟨SchemaConsts.deprecatedName, []⟩]
    else [⟨SchemaConsts.deprecatedName, [(SchemaConsts.reasonArg, .str r false)]⟩]

/-- `print_specified_by_url` -/
def specifiedByDirs : Option Str → List DirApp
  | none => []
  | some u => [⟨SchemaConsts.specifiedByName, [(SchemaConsts.urlArg, .str u false)]⟩]

def argToIVD (a : Arg) : IVD := ⟨descNode a.desc, a.name, a.type, a.default, deprDirs a.depr⟩
def fieldToFD (f : Field) : FD := ⟨descNode f.desc, f.name, f.args.map argToIVD, f.type, deprDirs f.depr⟩
def enumValToEVD (v : EnumVal) : EVD := ⟨descNode v.desc, v.name, deprDirs v.depr⟩

def typeToDef : TypeDef → Def
  | .scalar n d u => .typeDef (descNode d) ⟨n, specifiedByDirs u, .scalar⟩
  | .object n d is fs => .typeDef (descNode d) ⟨n, [], .object is (fs.map fieldToFD)⟩
  | .interface n d is fs => .typeDef (descNode d) ⟨n, [], .interface is (fs.map fieldToFD)⟩
  | .union n d ms => .typeDef (descNode d) ⟨n, [], .union ms⟩
  | .enum n d vs => .typeDef (descNode d) ⟨n, [], .enum (vs.map enumValToEVD)⟩
  | .input n d oneOf fs =>
      .typeDef (descNode d) ⟨n, if oneOf then [⟨SchemaConsts.oneOfName, []⟩] else [], .input (fs.map argToIVD)⟩

def directiveToDef (d : Directive) : Def :=
  .directiveDef (descNode d.desc) d.name (d.args.map argToIVD) (deprDirs d.depr) d.repeatable d.locations

/-- `schema.X_type is schema.get_type("X")`: both absent, or the root is the type called `X`. -/
def rootIsConventional (s : Schema) (root : Option Str) (conv : Str) : Bool :=
  match root with
  | none => !s.hasType conv
  | some n => n == conv && s.hasType conv

/-- `has_default_root_operation_types` -/
def hasDefaultRoots (s : Schema) : Bool :=
  rootIsConventional s s.query SchemaConsts.queryName &&
  rootIsConventional s s.mutation SchemaConsts.mutationName &&
  rootIsConventional s s.subscription SchemaConsts.subscriptionName

def opEntry (o : Op) : Option Str → List (Op × Str)
  | none => []
  | some n => [(o, n)]

/-- `print_schema_definition` -/
def schemaDefOf (s : Schema) : List Def :=
  if s.query.isNone && s.mutation.isNone && s.subscription.isNone then []
  else if s.desc.isNone && hasDefaultRoots s then []
  else [.schemaDef (descNode s.desc) []
    (opEntry .query s.query ++ opEntry .mutation s.mutation ++ opEntry .subscription s.subscription)]

/-- The definitions `print_schema` emits: schema block (if needed), the non-specified
directives, the defined types in type-map order. -/
def schemaToDefs (s : Schema) : List Def :=
  schemaDefOf s ++ s.directives.map directiveToDef ++ s.types.map typeToDef

/-! ## Definitions → schema content (`extend_schema_args`, `build_ast_schema`) -/

inductive BErr where
  | badDirectiveArgs
  deriving DecidableEq, Repr, Inhabited

abbrev B := Out BErr

def mapMOut {α β : Type} (f : α → B β) : List α → B (List β)
  | [] => .ok []
  | x :: xs =>
    match f x with
    | .ok y =>
      match mapMOut f xs with
      | .ok ys => .ok (y :: ys)
      | .err e => .err e
      | .crash c => .crash c
    | .err e => .err e
    | .crash c => .crash c

/-- dict assignment `d[key x] = x`: replace in place if the key is present, else append. -/
def upsert {α : Type} (key : α → Str) : List α → α → List α
  | [], x => [x]
  | y :: ys, x => if key y = key x then x :: ys else y :: upsert key ys x

def upsertAll {α : Type} (key : α → Str) (xs ys : List α) : List α := ys.foldl (upsert key) xs

def findDir (n : Str) (ds : List DirApp) : Option DirApp := ds.find? (fun d => d.name == n)

/-- `{arg.name.value: arg for arg in node.arguments}.get(n)` — the last one wins. -/
def lookupArg (n : Str) : List (Str × Value) → Option Value
  | [] => none
  | (k, v) :: rest =>
    match lookupArg n rest with
    | some w => some w
    | none => if k = n then some v else none

/-- `get_deprecation_reason` -/
def deprecationOf (ds : List DirApp) : B (Option Str) :=
  match findDir SchemaConsts.deprecatedName ds with
  | none => .ok none
  | some d =>
    match lookupArg SchemaConsts.reasonArg d.args with
    | none => .ok (some SchemaConsts.defaultDeprecationReason)
    | some (.str s _) => .ok (some s)
    | some _ => .err .badDirectiveArgs

/-- `get_specified_by_url` -/
def specifiedByOf (ds : List DirApp) : B (Option Str) :=
  match findDir SchemaConsts.specifiedByName ds with
  | none => .ok none
  | some d =>
    match lookupArg SchemaConsts.urlArg d.args with
    | some (.str s _) => .ok (some s)
    | _ => .err .badDirectiveArgs

/-- `is_one_of` -/
def isOneOf (ds : List DirApp) : Bool := (findDir SchemaConsts.oneOfName ds).isSome

def descValue (d : Option DescNode) : Option Str := d.map DescNode.value

def ivdToArg (n : IVD) : B Arg :=
  match deprecationOf n.dirs with
  | .ok r => .ok ⟨n.name, descValue n.desc, n.type, n.default, r⟩
  | .err e => .err e
  | .crash c => .crash c

/-- `build_argument_map` / `build_input_field_map` (one node list): a dict keyed by name. -/
def buildArgs (ns : List IVD) : B (List Arg) :=
  match mapMOut ivdToArg ns with
  | .ok as => .ok (upsertAll Arg.name [] as)
  | .err e => .err e
  | .crash c => .crash c

def fdToField (n : FD) : B Field :=
  match buildArgs n.args with
  | .ok as =>
    match deprecationOf n.dirs with
    | .ok r => .ok ⟨n.name, descValue n.desc, as, n.type, r⟩
    | .err e => .err e
    | .crash c => .crash c
  | .err e => .err e
  | .crash c => .crash c

def evdToEnumVal (n : EVD) : B EnumVal :=
  match deprecationOf n.dirs with
  | .ok r => .ok ⟨n.name, descValue n.desc, r⟩
  | .err e => .err e
  | .crash c => .crash c

/-- `get_specified_by_url(extension_node) or specified_by_url` over the extension nodes. -/
def foldSpecifiedBy (u : Option Str) : List TypeNode → B (Option Str)
  | [] => .ok u
  | e :: es =>
    match specifiedByOf e.dirs with
    | .ok (some v) => if v = [] then foldSpecifiedBy u es else foldSpecifiedBy (some v) es
    | .ok none => foldSpecifiedBy u es
    | .err x => .err x
    | .crash c => .crash c

/-- The per-kind mappers of `extend_schema_args`: merge the existing configuration with the
extension nodes `exts` (already selected for this type's kind and name). -/
def extendType (t : TypeDef) (exts : List TypeNode) : B TypeDef :=
  match t with
  | .scalar n d u =>
    match foldSpecifiedBy u exts with
    | .ok u' => .ok (.scalar n d u')
    | .err e => .err e
    | .crash c => .crash c
  | .object n d is fs =>
    match mapMOut fdToField (exts.flatMap (fun e => e.body.fields)) with
    | .ok new => .ok (.object n d (is ++ exts.flatMap (fun e => e.body.interfaces)) (upsertAll Field.name fs new))
    | .err e => .err e
    | .crash c => .crash c
  | .interface n d is fs =>
    match mapMOut fdToField (exts.flatMap (fun e => e.body.fields)) with
    | .ok new => .ok (.interface n d (is ++ exts.flatMap (fun e => e.body.interfaces)) (upsertAll Field.name fs new))
    | .err e => .err e
    | .crash c => .crash c
  | .union n d ms => .ok (.union n d (ms ++ exts.flatMap (fun e => e.body.members)))
  | .enum n d vs =>
    match mapMOut evdToEnumVal (exts.flatMap (fun e => e.body.values)) with
    | .ok new => .ok (.enum n d (upsertAll EnumVal.name vs new))
    | .err e => .err e
    | .crash c => .crash c
  | .input n d o fs =>
    match mapMOut ivdToArg (exts.flatMap (fun e => e.body.inputFields)) with
    | .ok new => .ok (.input n d o (upsertAll Arg.name fs new))
    | .err e => .err e
    | .crash c => .crash c

/-- Extension nodes that apply to a type: same kind (`type_extensions.<kind>`) and same name. -/
def extsFor (kind : Nat) (name : Str) (exts : List TypeNode) : List TypeNode :=
  exts.filter (fun e => e.body.kind == kind && e.name == name)

/-- `build_named_type`: the definition node followed by its extensions. -/
def buildNamedType (desc : Option DescNode) (node : TypeNode) (exts : List TypeNode) : B TypeDef :=
  match node.body with
  | .scalar =>
    match specifiedByOf node.dirs with
    | .ok u => extendType (.scalar node.name (descValue desc) u) exts
    | .err e => .err e
    | .crash c => .crash c
  | .object .. => extendType (.object node.name (descValue desc) [] []) (node :: exts)
  | .interface .. => extendType (.interface node.name (descValue desc) [] []) (node :: exts)
  | .union .. => extendType (.union node.name (descValue desc) []) (node :: exts)
  | .enum .. => extendType (.enum node.name (descValue desc) []) (node :: exts)
  | .input .. => extendType (.input node.name (descValue desc) (isOneOf node.dirs) []) (node :: exts)

/-- What `extend_schema_args` collects from the document. -/
structure Parts where
  typeDefs : List (Option DescNode × TypeNode) := []
  typeExts : List TypeNode := []
  dirDefs : List Def := []
  dirExts : List (Str × List DirApp) := []
  schemaDef : Option (Option DescNode × List (Op × Str)) := none
  schemaExts : List (List (Op × Str)) := []
  deriving Repr, Inhabited

def collectStep (p : Parts) : Def → Parts
  | .schemaDef d _ ops => { p with schemaDef := some (d, ops) }
  | .schemaExt _ ops => { p with schemaExts := p.schemaExts ++ [ops] }
  | d@(.directiveDef ..) => { p with dirDefs := p.dirDefs ++ [d] }
  | .directiveExt n ds => { p with dirExts := p.dirExts ++ [(n, ds)] }
  | .typeDef d node => { p with typeDefs := p.typeDefs ++ [(d, node)] }
  | .typeExt node => { p with typeExts := p.typeExts ++ [node] }
  | .other => p

def collect (defs : List Def) : Parts := defs.foldl collectStep {}

def Def.isOther : Def → Bool
  | .other => true
  | _ => false

/-- First non-`None` deprecation reason among the directive extension nodes of name `n`. -/
def firstExtReason (n : Str) : List (Str × List DirApp) → B (Option Str)
  | [] => .ok none
  | (m, ds) :: rest =>
    if m = n then
      match deprecationOf ds with
      | .ok (some r) => .ok (some r)
      | .ok none => firstExtReason n rest
      | .err e => .err e
      | .crash c => .crash c
    else firstExtReason n rest

/-- `extend_directive` -/
def extendDirective (exts : List (Str × List DirApp)) (d : Directive) : B Directive :=
  match d.depr with
  | some _ => .ok d
  | none =>
    match firstExtReason d.name exts with
    | .ok r => .ok { d with depr := r }
    | .err e => .err e
    | .crash c => .crash c

/-- `build_directive` -/
def buildDirective (exts : List (Str × List DirApp)) : Def → B Directive
  | .directiveDef desc name args dirs repeatable locations =>
    if locations.all SchemaConsts.locationNames.contains then
      match deprecationOf dirs with
      | .ok r =>
        match buildArgs args with
        | .ok as => extendDirective exts ⟨name, descValue desc, as, repeatable, locations, r⟩
        | .err e => .err e
        | .crash c => .crash c
      | .err e => .err e
      | .crash c => .crash c
    else .crash "KeyError"
  | _ => .crash "TypeError"

/-- `operation_types.update(get_operation_types(nodes))` -/
def applyOps (s : Schema) : List (Op × Str) → Schema
  | [] => s
  | (.query, n) :: rest => applyOps { s with query := some n } rest
  | (.mutation, n) :: rest => applyOps { s with mutation := some n } rest
  | (.subscription, n) :: rest => applyOps { s with subscription := some n } rest

def argRefsOk (s : Schema) (as : List Arg) : Bool := as.all (fun a => resolves s a.type.base)

def typeRefsOk (s : Schema) : TypeDef → Bool
  | .scalar .. => true
  | .object _ _ is fs | .interface _ _ is fs =>
      is.all (resolves s) && fs.all (fun f => resolves s f.type.base && argRefsOk s f.args)
  | .union _ _ ms => ms.all (resolves s)
  | .enum .. => true
  | .input _ _ _ fs => argRefsOk s fs

/-- Every name handed to `get_named_type` while the new `GraphQLSchema` is constructed is known. -/
def allRefsResolve (s : Schema) : Bool :=
  s.types.all (typeRefsOk s) && s.directives.all (fun d => argRefsOk s d.args) &&
  rootOk s s.query && rootOk s s.mutation && rootOk s s.subscription

/-- A directive definition whose name is not one of the specified directives. -/
def Def.isUserDirectiveDef : Def → Bool
  | .directiveDef _ n .. => !isSpecifiedDirective n
  | _ => false

/-- Schema description after the document: the schema definition's, else the existing one. -/
def descOf (p : Parts) (old : Option Str) : Option Str :=
  match p.schemaDef with
  | some (some d, _) => some d.value
  | _ => old

/-- Root operation types: existing ones, updated by the schema definition, then by every
schema extension in document order. -/
def rootsOf (p : Parts) (s : Schema) : Schema :=
  p.schemaExts.foldl applyOps
    (match p.schemaDef with
     | some (_, ops) => applyOps s ops
     | none => s)

def newTypeDefs (p : Parts) : List (Option DescNode × TypeNode) :=
  p.typeDefs.filter (fun dn => !isReservedType dn.2.name)

/-- The new schema is constructed: every referenced name must be known. -/
def finish (r : Schema) : B Schema := if allRefsResolve r then .ok r else .crash "TypeError"

/-- The body of `extend_schema_args` once the document is known to contain type-system
definitions: map the existing types and directives, build the new ones, update roots and
description, construct the schema. -/
def stage (s : Schema) (p : Parts) : B Schema :=
  match mapMOut (fun t => extendType t (extsFor t.kind t.name p.typeExts)) s.types with
  | .ok types1 =>
    match mapMOut (fun (dn : Option DescNode × TypeNode) =>
            buildNamedType dn.1 dn.2 (extsFor dn.2.body.kind dn.2.name p.typeExts))
          (newTypeDefs p) with
    | .ok newTypes =>
      match mapMOut (extendDirective p.dirExts) s.directives with
      | .ok dirs1 =>
        match mapMOut (buildDirective p.dirExts) (p.dirDefs.filter Def.isUserDirectiveDef) with
        | .ok newDirs =>
          finish
            { rootsOf p
                { s with types := upsertAll TypeDef.name types1 newTypes
                         desc := descOf p s.desc } with
              directives := dirs1 ++ newDirs }
        | .err e => .err e
        | .crash c => .crash c
      | .err e => .err e
      | .crash c => .crash c
    | .err e => .err e
    | .crash c => .crash c
  | .err e => .err e
  | .crash c => .crash c

/-- `extend_schema_args` (through `map_schema_config` and the construction of the new schema).
Specified directives and reserved type names are outside the content model: definitions with
such names are not recorded (`std_type_map.get(name) or build_named_type(...)`,
`is_specified_directive`). -/
def extendCore (s : Schema) (defs : List Def) : B Schema :=
  if defs.all Def.isOther then .ok s else stage s (collect defs)

/-- The loop of `build_ast_schema` that picks `Query`/`Mutation`/`Subscription` by name when
the document has no schema definition. -/
def autopick (s : Schema) : Schema :=
  { s with
    query := if s.hasType SchemaConsts.queryName then some SchemaConsts.queryName else s.query
    mutation := if s.hasType SchemaConsts.mutationName then some SchemaConsts.mutationName else s.mutation
    subscription :=
      if s.hasType SchemaConsts.subscriptionName then some SchemaConsts.subscriptionName else s.subscription }

/-- `build_ast_schema(document, assume_valid_sdl=True)` on schema content. -/
def buildFromDefs (defs : List Def) : B Schema :=
  match extendCore Schema.empty defs with
  | .ok s => .ok (if (collect defs).schemaDef.isSome then s else autopick s)
  | .err e => .err e
  | .crash c => .crash c

/-- `extend_schema(schema, document, assume_valid_sdl=True)`; the second component says whether
the *same* schema object is returned (`schema_kwargs is extended_kwargs`). -/
def extendDefs (s : Schema) (defs : List Def) : B Schema := extendCore s defs

def extendReturnsSame (defs : List Def) : Bool := defs.all Def.isOther

end Gql.Types
