import Gql.Types.Json
/-
Spec side of "the result conforms to the introspection types": the declared shape of the meta-schema
(`introspection_types` of type/introspection.py — per object type the fields with their declared types,
per enum the value names; regenerated from the source into `Gql/Generated/IntrospectionTypes.lean`)
and what it means for a JSON response value to conform to a declared type, transcribed from the
GraphQL specification's result coercion: a Non-Null type never yields `null`, a List type yields a list
whose items conform, `String` / `Boolean` yield strings / booleans, an enum yields one of its value names,
an object type yields an object each of whose entries is a declared field (`hdecl`) with a conforming value (`h`).
-/
namespace Gql.Types

/-- A declared (output) type of the meta-schema. -/
inductive ITy where
  | named (n : String)
  | list (t : ITy)
  | nonNull (t : ITy)
  deriving DecidableEq, Repr

def ITy.isNonNull : ITy → Bool
  | .nonNull _ => true
  | _ => false

/-- The meta-schema as data: object types with `(response key, declared type)` and enums with value names. -/
structure ITable where
  objects : List (String × List (Key × ITy))
  enums : List (String × List (List Nat))

namespace Spec

/-- `Conforms tbl t j`: the response value `j` is a legal result for a field of declared type `t`. -/
inductive Conforms (tbl : ITable) : ITy → Json → Prop
  | null (t : ITy) (h : t.isNonNull = false) : Conforms tbl t .null
  | nonNull (t : ITy) (j : Json) (hn : j ≠ .null) (h : Conforms tbl t j) : Conforms tbl (.nonNull t) j
  | list (t : ITy) (xs : List Json) (h : ∀ x ∈ xs, Conforms tbl t x) : Conforms tbl (.list t) (.arr xs)
  | string (s : List Nat) : Conforms tbl (.named "String") (.str s)
  | boolean (b : Bool) : Conforms tbl (.named "Boolean") (.bool b)
  | enum (n : String) (vals : List (List Nat)) (s : List Nat) (hl : tbl.enums.lookup n = some vals)
      (hs : s ∈ vals) : Conforms tbl (.named n) (.str s)
  | object (n : String) (fields : List (Key × ITy)) (kvs : List (Key × Json))
      (hl : tbl.objects.lookup n = some fields)
      (hdecl : ∀ kv ∈ kvs, (fields.lookup kv.1).isSome = true)
      (h : ∀ kv ∈ kvs, ∀ ty, fields.lookup kv.1 = some ty → Conforms tbl ty kv.2) :
      Conforms tbl (.named n) (.obj kvs)

end Spec
end Gql.Types
