import Gql.Text.Out
import Gql.Generated.SchemaConsts
/-!
# Schema content (C17, C19)

Everything of a `GraphQLSchema` that `print_schema` prints and `find_schema_changes` compares:
ordered named types (type-map order without the specified scalars and the introspection
types), directives (declaration order without the specified directives), root operation type
*names*, the schema description.  Type references are by name, so "the same object" of the
Python code (`schema.query_type is schema.get_type("Query")`) is "the same name that
resolves" here; `WFSchema` states that names resolve uniquely.

Strings are lists of code points.  Default values are const literals (`Value`), exactly the
AST `get_default_value_ast` returns (programmatic defaults go through `value_to_literal` on
the implementation side before they reach the model — C15's territory).
-/
namespace Gql.Types
open Gql.Generated

abbrev Str := List Nat

/-- Const value literal.  Lists and objects are cons-chains inside the same inductive type
(`list items` with `items = lcons v₁ (lcons v₂ … vnil)`; `obj fields` with
`fields = fcons n₁ v₁ (… vnil)`) so that equality is decidable by `deriving` and recursion is
structural. -/
inductive Value where
  | int (s : Str)
  | float (s : Str)
  | str (s : Str) (block : Bool)
  | bool (b : Bool)
  | null
  | enum (n : Str)
  | list (items : Value)
  | obj (fields : Value)
  | vnil
  | lcons (v : Value) (rest : Value)
  | fcons (name : Str) (v : Value) (rest : Value)
  deriving DecidableEq, Repr, Inhabited

inductive TypeRef where
  | named (n : Str)
  | list (t : TypeRef)
  | nonNull (t : TypeRef)
  deriving DecidableEq, Repr, Inhabited

namespace TypeRef
def base : TypeRef → Str
  | named n => n
  | list t => t.base
  | nonNull t => t.base

def isNonNull : TypeRef → Bool
  | nonNull _ => true
  | _ => false
end TypeRef

/-- Argument / input field (`GraphQLArgument`, `GraphQLInputField`). -/
structure Arg where
  name : Str
  desc : Option Str
  type : TypeRef
  default : Option Value
  depr : Option Str
  deriving DecidableEq, Repr, Inhabited

structure Field where
  name : Str
  desc : Option Str
  args : List Arg
  type : TypeRef
  depr : Option Str
  deriving DecidableEq, Repr, Inhabited

structure EnumVal where
  name : Str
  desc : Option Str
  depr : Option Str
  deriving DecidableEq, Repr, Inhabited

inductive TypeDef where
  | scalar (name : Str) (desc : Option Str) (specifiedBy : Option Str)
  | object (name : Str) (desc : Option Str) (interfaces : List Str) (fields : List Field)
  | interface (name : Str) (desc : Option Str) (interfaces : List Str) (fields : List Field)
  | union (name : Str) (desc : Option Str) (members : List Str)
  | enum (name : Str) (desc : Option Str) (values : List EnumVal)
  | input (name : Str) (desc : Option Str) (oneOf : Bool) (fields : List Arg)
  deriving DecidableEq, Repr, Inhabited

namespace TypeDef
def name : TypeDef → Str
  | scalar n .. => n
  | object n .. => n
  | interface n .. => n
  | union n .. => n
  | enum n .. => n
  | input n .. => n

def desc : TypeDef → Option Str
  | scalar _ d _ => d
  | object _ d _ _ => d
  | interface _ d _ _ => d
  | union _ d _ => d
  | enum _ d _ => d
  | input _ d _ _ => d

/-- 0 scalar, 1 object, 2 interface, 3 union, 4 enum, 5 input object. -/
def kind : TypeDef → Nat
  | scalar .. => 0
  | object .. => 1
  | interface .. => 2
  | union .. => 3
  | enum .. => 4
  | input .. => 5
end TypeDef

structure Directive where
  name : Str
  desc : Option Str
  args : List Arg
  repeatable : Bool
  locations : List Str
  depr : Option Str
  deriving DecidableEq, Repr, Inhabited

structure Schema where
  desc : Option Str
  query : Option Str
  mutation : Option Str
  subscription : Option Str
  directives : List Directive
  types : List TypeDef
  deriving DecidableEq, Repr, Inhabited

namespace Schema
def empty : Schema := ⟨none, none, none, none, [], []⟩
def typeNames (s : Schema) : List Str := s.types.map TypeDef.name
def hasType (s : Schema) (n : Str) : Bool := s.typeNames.contains n
end Schema

/-- Names the type map never hands to the builder (`GraphQLNamedType.reserved_types`). -/
def reservedTypeNames : List Str := SchemaConsts.specifiedScalarNames ++ SchemaConsts.introspectionTypeNames

def isReservedType (n : Str) : Bool := reservedTypeNames.contains n
def isSpecifiedDirective (n : Str) : Bool := SchemaConsts.specifiedDirectiveNames.contains n

/-! ## Well-formed schemas

What the constructors (`assert_name`, dict keys), `GraphQLSchema.__init__` (unique type names)
and `validate_schema` (query root, locations, resolvable references are by construction object
references) guarantee and the round trip uses.  Decidable. -/

def isNameStart (c : Nat) : Bool := (65 ≤ c && c ≤ 90) || (97 ≤ c && c ≤ 122) || c == 95
def isNameCont (c : Nat) : Bool := isNameStart c || (48 ≤ c && c ≤ 57)

def validName : Str → Bool
  | [] => false
  | c :: cs => isNameStart c && cs.all isNameCont

def nodupNames (ns : List Str) : Bool :=
  match ns with
  | [] => true
  | n :: rest => !rest.contains n && nodupNames rest

/-- A named type reference resolves: to a defined type, a specified scalar or an introspection type. -/
def resolves (s : Schema) (n : Str) : Bool := s.hasType n || isReservedType n

def wfArg (s : Schema) (a : Arg) : Bool := validName a.name && resolves s a.type.base

def wfArgs (s : Schema) (as : List Arg) : Bool :=
  nodupNames (as.map Arg.name) && as.all (wfArg s)

def wfField (s : Schema) (f : Field) : Bool :=
  validName f.name && resolves s f.type.base && wfArgs s f.args

def wfType (s : Schema) : TypeDef → Bool
  | .scalar n _ _ => validName n && !isReservedType n
  | .object n _ is fs | .interface n _ is fs =>
      validName n && !isReservedType n && is.all (resolves s) &&
        nodupNames (fs.map Field.name) && fs.all (wfField s)
  | .union n _ ms => validName n && !isReservedType n && ms.all (resolves s)
  | .enum n _ vs => validName n && !isReservedType n && nodupNames (vs.map EnumVal.name) &&
      vs.all (fun v => validName v.name)
  | .input n _ _ fs => validName n && !isReservedType n && wfArgs s fs

def wfDirective (s : Schema) (d : Directive) : Bool :=
  validName d.name && !isSpecifiedDirective d.name && wfArgs s d.args &&
    !d.locations.isEmpty && d.locations.all SchemaConsts.locationNames.contains

def rootOk (s : Schema) : Option Str → Bool
  | none => true
  | some n => s.hasType n

/-- The decidable well-formedness predicate the round-trip theorems assume. -/
def WFSchema (s : Schema) : Bool :=
  nodupNames s.typeNames && s.types.all (wfType s) &&
  nodupNames (s.directives.map Directive.name) && s.directives.all (wfDirective s) &&
  s.query.isSome && rootOk s s.query && rootOk s s.mutation && rootOk s s.subscription

end Gql.Types
