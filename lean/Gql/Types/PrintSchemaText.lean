import Gql.Syntax.Printer
import Gql.Types.SchemaAst
/-!
# `print_schema` as text (C17)

Executable model of src/graphql/utilities/print_schema.py producing the SDL *text* (code points)
from schema content — function by function: `print_schema_definition`, `print_directive`,
`print_scalar` / `print_object` / `print_interface` / `print_union` / `print_enum` /
`print_input_object`, `print_fields`, `print_args` (one line, or one argument per line as soon as
one argument has a description), `print_input_value`, `print_deprecated`,
`print_specified_by_url`, `print_description` (block string iff `is_printable_as_block_string`,
every LF of the literal followed by the indentation, a blank line before every item of a block but
the first), `print_block`.

Everything `print_schema` prints through `print_ast` of a small node — default values, the string
literals of descriptions, deprecation reasons and specifiedBy URLs — uses the printer's own
pieces (`printString`, `printBlockStringW`, `join`, `block`, `indent` of `Gql.Syntax.Printer`);
the widths are a parameter as there.  `Schema` content already is the filtered content
(`is_defined_type`, `not is_specified_directive`: see `Schema.lean`), so there is nothing to
filter here — the same convention as `schemaToDefs`.

Tied to the code by the correspondence stream `text` of checks/c17.py: model text =
`print_schema(s)` code point for code point on every generated schema.
-/
namespace Gql.Types.PrintSchema
open Gql Gql.Text Gql.Generated
open Gql.Syntax (Widths S joinWith join block indent)

def spaces (k : Nat) : List Nat := List.replicate k 32

/-- `s.replace("\n", "\n" + " " * k)` -/
def reindent (k : Nat) : List Nat → List Nat
  | [] => []
  | c :: r => if c = 10 then 10 :: (List.replicate k 32 ++ reindent k r) else c :: reindent k r

/-- `str(type)` -/
def printType : TypeRef → List Nat
  | .named n => n
  | .list t => [91] ++ printType t ++ [93]
  | .nonNull t => printType t ++ [33]

mutual
  /-- `print_ast` of a const value literal (`leave_int_value` … `leave_object_value`). -/
  def printValue (w : Widths) : Value → List Nat
    | .int s => s
    | .float s => s
    | .str s b => if b then printBlockStringW w.block s false else printString s
    | .bool b => if b then S "true" else S "false"
    | .null => S "null"
    | .enum n => n
    | .list items =>
      let ts := printItems w items
      let line := [91] ++ join ts [44, 32] ++ [93]
      if line.length > w.list then [91] ++ [10] ++ indent (join ts [10]) ++ [10] ++ [93] else line
    | .obj fields =>
      let ts := printObjFields w fields
      let line := [123, 32] ++ join ts [44, 32] ++ [32, 125]
      if line.length > w.object then block ts else line
    | .vnil => []
    | .lcons _ _ => []
    | .fcons _ _ _ => []
  def printItems (w : Widths) : Value → List (List Nat)
    | .lcons v rest => printValue w v :: printItems w rest
    | _ => []
  def printObjFields (w : Widths) : Value → List (List Nat)
    | .fcons n v rest => (n ++ S ": " ++ printValue w v) :: printObjFields w rest
    | _ => []
end

/-- `print_ast(StringValueNode(value=description, block=is_printable_as_block_string(description)))` -/
def descLiteral (w : Widths) (v : Str) : List Nat :=
  if isPrintableAsBlockString v then printBlockStringW w.block v false else printString v

/-- `print_description(def_, indentation, first_in_block)`; the indentation is `ind` blanks. -/
def printDescription (w : Widths) (d : Option Str) (ind : Nat := 0) (first : Bool := true) : List Nat :=
  match d with
  | none => []
  | some v =>
    let pre := if ind ≠ 0 ∧ first = false then 10 :: spaces ind else spaces ind
    pre ++ reindent ind (descLiteral w v) ++ [10]

/-- `print_deprecated` -/
def printDeprecated : Option Str → List Nat
  | none => []
  | some r =>
    if r = SchemaConsts.defaultDeprecationReason then S " @deprecated"
    else S " @deprecated(reason: " ++ printString r ++ S ")"

/-- `print_specified_by_url` -/
def printSpecifiedBy : Option Str → List Nat
  | none => []
  | some u => S " @specifiedBy(url: " ++ printString u ++ S ")"

/-- `print_input_value` -/
def printInputValue (w : Widths) (a : Arg) : List Nat :=
  a.name ++ S ": " ++ printType a.type ++
    (match a.default with
     | none => []
     | some v => S " = " ++ printValue w v) ++
    printDeprecated a.depr

/-- `f(not i, x) for i, x in enumerate(xs)` -/
def mapFirst {α β : Type} (f : Bool → α → β) : List α → List β
  | [] => []
  | x :: xs => f true x :: xs.map (f false)

/-- `print_block` -/
def printBlock (items : List (List Nat)) : List Nat :=
  if items.isEmpty then [] else S " {\n" ++ joinWith [10] items ++ S "\n}"

/-- One argument of the multi-line layout of `print_args`. -/
def printArgLine (w : Widths) (ind : Nat) (first : Bool) (a : Arg) : List Nat :=
  printDescription w a.desc (2 + ind) first ++ spaces (2 + ind) ++ printInputValue w a

/-- `print_args(args, indentation)` -/
def printArgs (w : Widths) (args : List Arg) (ind : Nat := 0) : List Nat :=
  if args.isEmpty then []
  else if args.all (fun a => a.desc.isNone) then
    [40] ++ joinWith [44, 32] (args.map (printInputValue w)) ++ [41]
  else
    S "(\n" ++ joinWith [10] (mapFirst (printArgLine w ind) args) ++ [10] ++ spaces ind ++ [41]

def printFieldLine (w : Widths) (first : Bool) (f : Field) : List Nat :=
  printDescription w f.desc 2 first ++ S "  " ++ f.name ++ printArgs w f.args 2 ++ S ": " ++
    printType f.type ++ printDeprecated f.depr

/-- `print_fields` -/
def printFields (w : Widths) (fs : List Field) : List Nat := printBlock (mapFirst (printFieldLine w) fs)

/-- `print_implemented_interfaces` -/
def printImplemented (is : List Str) : List Nat :=
  if is.isEmpty then [] else S " implements " ++ joinWith (S " & ") is

def printEnumLine (w : Widths) (first : Bool) (v : EnumVal) : List Nat :=
  printDescription w v.desc 2 first ++ S "  " ++ v.name ++ printDeprecated v.depr

def printInputLine (w : Widths) (first : Bool) (a : Arg) : List Nat :=
  printDescription w a.desc 2 first ++ S "  " ++ printInputValue w a

/-- `print_type` -/
def printTypeDef (w : Widths) : TypeDef → List Nat
  | .scalar n d u => printDescription w d ++ S "scalar " ++ n ++ printSpecifiedBy u
  | .object n d is fs => printDescription w d ++ S "type " ++ n ++ printImplemented is ++ printFields w fs
  | .interface n d is fs =>
    printDescription w d ++ S "interface " ++ n ++ printImplemented is ++ printFields w fs
  | .union n d ms =>
    printDescription w d ++ S "union " ++ n ++ (if ms.isEmpty then [] else S " = " ++ joinWith (S " | ") ms)
  | .enum n d vs => printDescription w d ++ S "enum " ++ n ++ printBlock (mapFirst (printEnumLine w) vs)
  | .input n d oneOf fs =>
    printDescription w d ++ S "input " ++ n ++ (if oneOf then S " @oneOf" else []) ++
      printBlock (mapFirst (printInputLine w) fs)

/-- `print_directive` -/
def printDirective (w : Widths) (d : Directive) : List Nat :=
  printDescription w d.desc ++ S "directive @" ++ d.name ++ printArgs w d.args ++ printDeprecated d.depr ++
    (if d.repeatable then S " repeatable" else []) ++ S " on " ++ joinWith (S " | ") d.locations

def printRoot (kw : String) : Option Str → List Nat
  | none => []
  | some n => S "  " ++ S kw ++ S ": " ++ n ++ [10]

/-- `print_schema_definition` (`None` = nothing is printed). -/
def printSchemaDefinition (w : Widths) (s : Schema) : Option (List Nat) :=
  if s.query.isNone && s.mutation.isNone && s.subscription.isNone then none
  else if s.desc.isNone && hasDefaultRoots s then none
  else some (printDescription w s.desc ++ S "schema {\n" ++ printRoot "query" s.query ++
    printRoot "mutation" s.mutation ++ printRoot "subscription" s.subscription ++ S "}")

/-- `print_schema` -/
def printSchemaText (w : Widths) (s : Schema) : List Nat :=
  joinWith [10, 10]
    ((printSchemaDefinition w s).toList ++ s.directives.map (printDirective w) ++ s.types.map (printTypeDef w))

end Gql.Types.PrintSchema
