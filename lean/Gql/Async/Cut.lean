import Gql.Async.Assemble
/-!
Abstract *denotational* model of the incremental executor, used to state
`assemble_eq_reference`: a reference JSON tree together with the places where it is cut.

* `Cut.obj now later`: an object whose fields `now` are delivered with the enclosing piece and
  whose fields in the groups `later` are each delivered by a deferred fragment (one defer piece per
  group) targeting this object;
* `Cut.arr now later`: a list whose first items are delivered with the enclosing piece
  (`initialCount`) and whose remaining items arrive in the stream batches `later`.

`Cut.ref` is the non-incremental response, `Cut.initial` the data of the enclosing piece (the
initial result at the root), `Cut.pieces` the incremental entries with their target paths (relative to the
node, i.e. absolute at the root), parents before children.
-/
namespace Gql.Async

inductive Cut where
  | leaf (j : J)
  | obj (now : List (List Nat × Cut)) (later : List (List (List Nat × Cut)))
  | arr (now : List Cut) (later : List (List Cut))

/-- An incremental entry with its absolute target (`pending[id].path ++ subPath`). -/
inductive Piece where
  | merge (target : Path) (data : List (List Nat × J))
  | append (target : Path) (items : List J)

def Piece.apply (j : J) : Piece → Except Fail J
  | .merge p data => updateAt (mergeInto data) p j
  | .append p items => updateAt (appendInto items) p j

def foldPieces (j : J) : List Piece → Except Fail J
  | [] => .ok j
  | e :: rest =>
    match e.apply j with
    | .ok j' => foldPieces j' rest
    | .error f => .error f

mutual
def Cut.ref : Cut → J
  | .leaf j => j
  | .obj now later => .obj (refFields now ++ refGroups later)
  | .arr now later => .arr (refItems now ++ refBatches later)
def refFields : List (List Nat × Cut) → List (List Nat × J)
  | [] => []
  | (k, c) :: rest => (k, c.ref) :: refFields rest
def refGroups : List (List (List Nat × Cut)) → List (List Nat × J)
  | [] => []
  | g :: rest => refFields g ++ refGroups rest
def refItems : List Cut → List J
  | [] => []
  | c :: rest => c.ref :: refItems rest
def refBatches : List (List Cut) → List J
  | [] => []
  | b :: rest => refItems b ++ refBatches rest
end

mutual
def Cut.initial : Cut → J
  | .leaf j => j
  | .obj now _ => .obj (initFields now)
  | .arr now _ => .arr (initItems now)
def initFields : List (List Nat × Cut) → List (List Nat × J)
  | [] => []
  | (k, c) :: rest => (k, c.initial) :: initFields rest
def initItems : List Cut → List J
  | [] => []
  | c :: rest => c.initial :: initItems rest
end

/-- re-target a piece of a sub-tree to the tree that contains it at `p` -/
def Piece.under (p : Path) : Piece → Piece
  | .merge t data => .merge (p ++ t) data
  | .append t items => .append (p ++ t) items

mutual
/-- the pieces of `c`, targets relative to `c` itself, parents before children -/
def Cut.pieces : Cut → List Piece
  | .leaf _ => []
  | .obj now later => fieldPieces now ++ groupPieces later
  | .arr now later => itemPieces 0 now ++ batchPieces (lenItems now) later
def fieldPieces : List (List Nat × Cut) → List Piece
  | [] => []
  | (k, c) :: rest => c.pieces.map (Piece.under [.key k]) ++ fieldPieces rest
def groupPieces : List (List (List Nat × Cut)) → List Piece
  | [] => []
  | g :: rest => .merge [] (initFields g) :: (fieldPieces g ++ groupPieces rest)
def itemPieces (i : Nat) : List Cut → List Piece
  | [] => []
  | c :: rest => c.pieces.map (Piece.under [.idx i]) ++ itemPieces (i + 1) rest
def batchPieces (i : Nat) : List (List Cut) → List Piece
  | [] => []
  | b :: rest =>
    .append [] (initItems b) :: (itemPieces i b ++ batchPieces (i + lenItems b) rest)
def lenItems : List Cut → Nat
  | [] => 0
  | _ :: rest => lenItems rest + 1
end

mutual
/-- well-formed cut: the keys of every object (now and deferred groups together) are distinct -/
def Cut.wf : Cut → Bool
  | .leaf j => j.wf
  | .obj now later =>
    decide (((refFields now ++ refGroups later).map Prod.fst).Nodup) && wfCutFields now && wfCutGroups later
  | .arr now later => wfCutItems now && wfCutBatches later
def wfCutFields : List (List Nat × Cut) → Bool
  | [] => true
  | (_, c) :: rest => c.wf && wfCutFields rest
def wfCutGroups : List (List (List Nat × Cut)) → Bool
  | [] => true
  | g :: rest => wfCutFields g && wfCutGroups rest
def wfCutItems : List Cut → Bool
  | [] => true
  | c :: rest => c.wf && wfCutItems rest
def wfCutBatches : List (List Cut) → Bool
  | [] => true
  | b :: rest => wfCutItems b && wfCutBatches rest
end

/-- Assembling all pieces of a cut, in the canonical parent-before-child order, into the initial
data gives exactly the reference (checked result, for use with `decide` on concrete cuts). -/
def Cut.reassembles (c : Cut) : Bool :=
  match foldPieces c.initial c.pieces with
  | .ok r => J.eqv r c.ref && J.eqv c.ref r
  | .error _ => false

end Gql.Async
