/-
Model of `src/graphql/execution/incremental/build_execution_plan.py`
(`build_execution_plan`, `get_filtered_defer_usage_set`).

* A `DeferUsage` object is identified by its allocation serial (`Nat`); `RefSet`/`RefMap` key on
  identity, so sets of defer usages are insertion-ordered duplicate-free lists of serials.
  `parentOf` is the `parent_defer_usage` link.
* `GroupedFieldSet` is a Python `dict` response key → `list[FieldDetails]`: an association list in
  insertion order.  `κ` is the type of response keys.
* The `while parent_defer_usage is not None` loop walks an immutable linked list of `NamedTuple`s;
  it is modelled with fuel, and `ancestorIn_fuel` (Proofs) shows that any fuel above the serial is
  enough when parents are older than children (which construction order guarantees).
-/
namespace Gql.Async.Plan

structure FieldDetails where
  /-- serial of the field node (opaque to the plan) -/
  node : Nat
  /-- serial of the defer usage, `none` = not deferred -/
  deferUsage : Option Nat
  deriving Repr, DecidableEq, Inhabited

abbrev FieldDetailsList := List FieldDetails
abbrev GroupedFieldSet (κ : Type) := List (κ × FieldDetailsList)
abbrev DeferUsageSet := List Nat

/-- `RefSet.add`: setting an existing dict key keeps its position. -/
def setAdd (s : DeferUsageSet) (d : Nat) : DeferUsageSet := if d ∈ s then s else s ++ [d]

/-- `Set.__eq__` of `collections.abc`: same length and every element of the left in the right. -/
def setEq (a b : DeferUsageSet) : Bool := a.length == b.length && a.all (fun d => b.contains d)

/-- First loop of `get_filtered_defer_usage_set`: `none` = a non-deferred field was met
(`clear()` and early return of the empty set). -/
def collectUsages : FieldDetailsList → DeferUsageSet → Option DeferUsageSet
  | [], acc => some acc
  | fd :: rest, acc =>
    match fd.deferUsage with
    | none => none
    | some d => collectUsages rest (setAdd acc d)

/-- `while parent_defer_usage is not None: if parent in set: … break; parent = parent.parent`,
started at `cur`. -/
def ancestorIn (parentOf : Nat → Option Nat) (s : DeferUsageSet) : Nat → Option Nat → Bool
  | 0, _ => false
  | _ + 1, none => false
  | fuel + 1, some p => if p ∈ s then true else ancestorIn parentOf s fuel (parentOf p)

/-- Second loop: iterate over a *copy* (`tuple(set)`), test against and discard from the live set. -/
def pruneChildren (parentOf : Nat → Option Nat) (fuel : Nat) :
    List Nat → DeferUsageSet → DeferUsageSet
  | [], live => live
  | d :: rest, live =>
    if ancestorIn parentOf live fuel (parentOf d) then
      pruneChildren parentOf fuel rest (live.erase d)
    else pruneChildren parentOf fuel rest live

def getFilteredDeferUsageSet (parentOf : Nat → Option Nat) (fuel : Nat)
    (fdl : FieldDetailsList) : DeferUsageSet :=
  match collectUsages fdl [] with
  | none => []
  | some s => pruneChildren parentOf fuel s s

/-- `dict.__setitem__`. -/
def dictSet [DecidableEq κ] (k : κ) (v : α) : List (κ × α) → List (κ × α)
  | [] => [(k, v)]
  | (k', v') :: rest => if k' = k then (k', v) :: rest else (k', v') :: dictSet k v rest

structure ExecutionPlan (κ : Type) where
  groupedFieldSet : GroupedFieldSet κ
  newGroupedFieldSets : List (DeferUsageSet × GroupedFieldSet κ)
  deriving Repr

/-- The `for defer_usage_set in new_grouped_field_sets: if == : … break / else: new entry`. -/
def addToSets [DecidableEq κ] (fs : DeferUsageSet) (k : κ) (fdl : FieldDetailsList) :
    List (DeferUsageSet × GroupedFieldSet κ) → List (DeferUsageSet × GroupedFieldSet κ)
  | [] => [(fs, [(k, fdl)])]
  | (s, g) :: rest =>
    if setEq s fs then (s, dictSet k fdl g) :: rest else (s, g) :: addToSets fs k fdl rest

def planStep [DecidableEq κ] (parentOf : Nat → Option Nat) (fuel : Nat) (parent : DeferUsageSet)
    (plan : ExecutionPlan κ) (entry : κ × FieldDetailsList) : ExecutionPlan κ :=
  let fs := getFilteredDeferUsageSet parentOf fuel entry.2
  if setEq fs parent then
    { plan with groupedFieldSet := dictSet entry.1 entry.2 plan.groupedFieldSet }
  else
    { plan with newGroupedFieldSets := addToSets fs entry.1 entry.2 plan.newGroupedFieldSets }

def buildExecutionPlan [DecidableEq κ] (parentOf : Nat → Option Nat) (fuel : Nat)
    (original : GroupedFieldSet κ) (parent : DeferUsageSet) : ExecutionPlan κ :=
  original.foldl (planStep parentOf fuel parent) { groupedFieldSet := [], newGroupedFieldSets := [] }

/-- `a` is a proper ancestor of `d` along the `parent_defer_usage` links (specification side). -/
inductive Ancestor (parentOf : Nat → Option Nat) : Nat → Nat → Prop
  | parent {a d : Nat} : parentOf d = some a → Ancestor parentOf a d
  | step {a p d : Nat} : parentOf d = some p → Ancestor parentOf a p → Ancestor parentOf a d

end Gql.Async.Plan
