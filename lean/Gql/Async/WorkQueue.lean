import Gql.Spec.Protocol
/-
# Model of `WorkQueue` (src/graphql/execution/incremental/work_queue.py)

A deterministic state machine.  Groups, tasks and streams are numbers (object identity);
what the Python code reads from the *objects* (`group.parent`, `task.groups`, how a task's
computation behaves when started) is the static environment `Static`.  The asyncio `Queue`
`_channel` is the explicit FIFO `channel`; done-callbacks that asyncio schedules with
`call_soon` (a task whose future is already done when it is started; the pump's
`_StreamSuccess` after a batch that was delivered with `is_stopped()` already true) are the
second FIFO `deferred`, moved to the channel when the consumer is parked again.

Dictionaries used as ordered sets are lists without duplicates (`oinsert`), dictionaries are
association lists.  Every `del d[k]` / `d[k]` of the Python code is guarded by a `.get` / `in`
test on the same key immediately before it, so there is no crash branch to model here.

Recursion through the graph (`_add_group` to parents, `_prune_empty_groups` and
`_remove_group` to children) is by fuel; every theorem about the model is proved for every
fuel value, and the driver reports an exhausted fuel explicitly.
-/
namespace Gql.Async
open Gql.Spec.Protocol (J Path)

/-! ## association lists / ordered sets -/

def alookup {κ β : Type} [DecidableEq κ] : List (κ × β) → κ → Option β
  | [], _ => none
  | (k', v) :: r, k => if k' = k then some v else alookup r k

/-- `d[k] = v` -/
def aset {κ β : Type} [DecidableEq κ] : List (κ × β) → κ → β → List (κ × β)
  | [], k, v => [(k, v)]
  | (k', v') :: r, k, v => if k' = k then (k, v) :: r else (k', v') :: aset r k v

/-- `d.pop(k, None)` / guarded `del d[k]` -/
def aerase {κ β : Type} [DecidableEq κ] (m : List (κ × β)) (k : κ) : List (κ × β) :=
  m.filter (fun p => !decide (p.1 = k))

/-- `d[x] = None` on a dict used as ordered set -/
def oinsert (xs : List Nat) (x : Nat) : List Nat := if x ∈ xs then xs else xs ++ [x]

def oerase (xs : List Nat) (x : Nat) : List Nat := xs.filter (fun y => y != x)

/-! ## values, work, events -/

/-- `Work(groups, tasks, streams)` -/
structure Work where
  groups : List Nat := []
  tasks : List Nat := []
  streams : List Nat := []
  deriving Repr, DecidableEq

/-- `ExecutionGroupValue(delivery_groups, path, data, errors)` -/
structure GVal where
  groups : List Nat
  path : Path
  data : J
  errs : Bool := false
  deriving Repr

/-- `StreamItemValue(item, errors)` plus the source index the environment knows. -/
structure IVal where
  idx : Option Nat
  item : J
  errs : Bool := false
  deriving Repr

/-- `WorkResult(value, work)` of a task.  `work = none` is Python `None`; a `Work` tuple,
even an empty one, is truthy. -/
structure TResult where
  value : GVal
  work : Option Work := none
  deriving Repr

structure IResult where
  value : IVal
  work : Option Work := none
  deriving Repr

/-- What `task.computation.result()` does when the scheduler starts the task. -/
inductive TaskMode where
  /-- returns a `WorkResult` synchronously -/
  | sync (r : TResult)
  /-- raises synchronously -/
  | syncFail
  /-- returns a pending future, settled later by the environment -/
  | async
  /-- returns a future that is already done (fulfilled): the done-callback is deferred -/
  | early (r : TResult)
  /-- returns a future that is already done (rejected) -/
  | earlyFail
  deriving Repr

structure Static where
  parent : Nat → Option Nat
  tgroups : Nat → List Nat
  mode : Nat → TaskMode

inductive GraphEvent where
  | taskSuccess (t : Nat) (r : TResult)
  | taskFailure (t : Nat)
  /-- `stopped` is what `stream.queue.is_stopped()` answers when the items are handled -/
  | streamItems (s : Nat) (items : List IResult) (stopped : Bool)
  | streamSuccess (s : Nat)
  | streamFailure (s : Nat)
  | stop
  deriving Repr

inductive WQEvent where
  | groupValues (g : Nat) (vals : List GVal)
  | groupSuccess (g : Nat) (newGroups newStreams : List Nat)
  | groupFailure (g : Nat)
  | streamValues (s : Nat) (vals : List IVal) (newGroups newStreams : List Nat)
  | streamSuccess (s : Nat)
  | streamFailure (s : Nat)
  | termination
  deriving Repr

def WQEvent.isTerm : WQEvent → Bool
  | .termination => true
  | _ => false

structure GroupNode where
  children : List Nat := []
  tasks : List Nat := []
  pending : Int := 0
  deriving Repr, DecidableEq

structure TaskNode where
  value : Option GVal := none
  childStreams : List Nat := []
  deriving Repr

structure WQ where
  rootGroups : List Nat := []
  rootStreams : List Nat := []
  groupNodes : List (Nat × GroupNode) := []
  taskNodes : List (Nat × TaskNode) := []
  channel : List GraphEvent := []
  deferred : List GraphEvent := []
  stopped : Bool := false
  /-- log: streams whose pump was started (`_start_stream`), in order -/
  pumps : List Nat := []
  /-- log: tasks whose computation was started, in order -/
  started : List Nat := []
  deriving Repr

/-- `_push` -/
def push (q : WQ) (e : GraphEvent) : WQ :=
  if q.stopped then q else { q with channel := q.channel ++ [e] }

/-- `_start_task` -/
def startTask (σ : Static) (q : WQ) (t : Nat) : WQ :=
  match alookup q.taskNodes t with
  | some _ => q
  | none =>
    let q := { q with taskNodes := aset q.taskNodes t {}, started := q.started ++ [t] }
    match σ.mode t with
    | .sync r => push q (.taskSuccess t r)
    | .syncFail => push q (.taskFailure t)
    | .async => q
    | .early r => { q with deferred := q.deferred ++ [.taskSuccess t r] }
    | .earlyFail => { q with deferred := q.deferred ++ [.taskFailure t] }

/-- `_start_group` -/
def startGroup (σ : Static) (q : WQ) (g : Nat) : WQ :=
  match alookup q.groupNodes g with
  | some n => n.tasks.foldl (startTask σ) q
  | none => q

/-- `_start_stream` -/
def startStream (q : WQ) (s : Nat) : WQ := { q with pumps := q.pumps ++ [s] }

/-- `_start_new_work` -/
def startNewWork (σ : Static) (q : WQ) (newGroups newStreams : List Nat) : WQ :=
  let q := newGroups.foldl
    (fun q g => startGroup σ { q with rootGroups := oinsert q.rootGroups g } g) q
  newStreams.foldl (fun q s => startStream { q with rootStreams := oinsert q.rootStreams s } s) q

/-- The tail of `_add_group`: create the node, then make the group a new root or attach it to
its parent's node.  The accumulator is `(queue, new_root_groups)`. -/
def attachGroup (σ : Static) (hasParentTask : Bool) (g : Nat) (r : WQ × List Nat) : WQ × List Nat :=
  let q : WQ := { r.1 with groupNodes := aset r.1.groupNodes g {} }
  match σ.parent g with
  | none => if hasParentTask then (q, r.2) else (q, r.2 ++ [g])
  | some p =>
    match alookup q.groupNodes p with
    | some pn =>
      ({ q with groupNodes := aset q.groupNodes p { pn with children := pn.children ++ [g] } }, r.2)
    | none => (q, r.2)

/-- `_add_group(group, group_set, new_root_groups, visited, parent_task)`; the accumulator is
`(queue, new_root_groups, visited)`. -/
def addGroup (σ : Static) (groupSet : List Nat) (hasParentTask : Bool) :
    Nat → Nat → WQ × List Nat × List Nat → WQ × List Nat × List Nat
  | 0, _, acc => acc
  | fuel + 1, g, acc =>
    if g ∈ acc.2.2 then acc else
    let acc1 : WQ × List Nat × List Nat := (acc.1, acc.2.1, g :: acc.2.2)
    let acc2 :=
      match σ.parent g with
      | some p => if p ∈ groupSet then addGroup σ groupSet hasParentTask fuel p acc1 else acc1
      | none => acc1
    let r := attachGroup σ hasParentTask g (acc2.1, acc2.2.1)
    (r.1, r.2, acc2.2.2)

/-- `_add_groups` -/
def addGroups (σ : Static) (q : WQ) (groups : List Nat) (hasParentTask : Bool) : WQ × List Nat :=
  let r := groups.foldl
    (fun acc g => addGroup σ groups hasParentTask (groups.length + 1) g acc) (q, [], [])
  (r.1, r.2.1)

/-- One iteration of the loop of `_add_task`. -/
def addTaskStep (σ : Static) (t : Nat) (q : WQ) (g : Nat) : WQ :=
  match alookup q.groupNodes g with
  | some n =>
    let n' : GroupNode := { n with tasks := oinsert n.tasks t, pending := n.pending + 1 }
    let q : WQ := { q with groupNodes := aset q.groupNodes g n' }
    if g ∈ q.rootGroups then startTask σ q t else q
  | none => q

/-- `_add_task` -/
def addTask (σ : Static) (q : WQ) (t : Nat) : WQ := (σ.tgroups t).foldl (addTaskStep σ t) q

/-- `_add_streams`: returns the streams that become roots. -/
def addStreams (q : WQ) (streams : List Nat) (parentTask : Option Nat) : WQ × List Nat :=
  match parentTask with
  | none => (q, streams)
  | some t =>
    match alookup q.taskNodes t with
    | some tn =>
      ({ q with taskNodes := aset q.taskNodes t { tn with childStreams := tn.childStreams ++ streams } }, [])
    | none => (q, [])

/-- `_maybe_integrate_work`: `(queue, new root groups, new root streams)` -/
def integrateWork (σ : Static) (q : WQ) (work : Option Work) (parentTask : Option Nat) :
    WQ × List Nat × List Nat :=
  match work with
  | none => (q, [], [])
  | some w =>
    let r1 : WQ × List Nat :=
      if w.groups.isEmpty then (q, []) else addGroups σ q w.groups parentTask.isSome
    let q2 := w.tasks.foldl (addTask σ) r1.1
    let r3 : WQ × List Nat := if w.streams.isEmpty then (q2, []) else addStreams q2 w.streams parentTask
    (r3.1, r1.2, r3.2)

/-- `_prune_empty_groups(new_groups, non_empty_new_groups)`; `pruneStep` is one iteration of
its loop. -/
def prune : Nat → List Nat → WQ × List Nat → WQ × List Nat
  | 0, _, st => st
  | fuel + 1, gs, st =>
    gs.foldl (fun (st : WQ × List Nat) g =>
      match alookup st.1.groupNodes g with
      | none => st
      | some n =>
        if n.pending != 0 then (st.1, st.2 ++ [g])
        else prune fuel n.children ({ st.1 with groupNodes := aerase st.1.groupNodes g }, st.2)) st

def pruneEmpty (q : WQ) (gs : List Nat) : WQ × List Nat :=
  prune (q.groupNodes.length + 1) gs (q, [])

/-- `_remove_task` -/
def removeTask (σ : Static) (q : WQ) (t : Nat) : WQ :=
  let gn := (σ.tgroups t).foldl (fun gn g =>
    match alookup gn g with
    | some n => aset gn g { n with tasks := oerase n.tasks t }
    | none => gn) q.groupNodes
  { q with groupNodes := gn, taskNodes := aerase q.taskNodes t }

/-- The first loop of `_remove_group`: drop the tasks that no longer belong to any group. -/
def dropOrphanTask (σ : Static) (q : WQ) (t : Nat) : WQ :=
  if (σ.tgroups t).all (fun tg => (alookup q.groupNodes tg).isNone) then removeTask σ q t else q

/-- `_remove_group(group, group_node)` -/
def removeGroup (σ : Static) : Nat → WQ → Nat → GroupNode → WQ
  | 0, q, _, _ => q
  | fuel + 1, q, g, n =>
    let q1 : WQ := { q with groupNodes := aerase q.groupNodes g }
    let q2 := n.tasks.foldl (dropOrphanTask σ) q1
    n.children.foldl (fun q c =>
      match alookup q.groupNodes c with
      | some cn => removeGroup σ fuel q c cn
      | none => q) q2

/-- `_finish_group_failure` -/
def finishGroupFailure (σ : Static) (q : WQ) (g : Nat) (n : GroupNode) : WQ × WQEvent :=
  let q := removeGroup σ (q.groupNodes.length + 1) q g n
  ({ q with rootGroups := oerase q.rootGroups g }, .groupFailure g)

/-- The events of a successfully finished group: its values (if any), then its success. -/
def groupEvents (g : Nat) (values : List GVal) (newGroups newStreams : List Nat) : List WQEvent :=
  (if values.isEmpty then [] else [WQEvent.groupValues g values]) ++
    [WQEvent.groupSuccess g newGroups newStreams]

/-- One iteration of the loop of `_finish_group_success` over the group's tasks: collect the
value and the child streams of a task and remove it.  `(queue, values, new streams)`. -/
def collectTask (σ : Static) (acc : WQ × List GVal × List Nat) (t : Nat) : WQ × List GVal × List Nat :=
  match alookup acc.1.taskNodes t with
  | some tn =>
    (removeTask σ acc.1 t,
      (match tn.value with | some v => acc.2.1 ++ [v] | none => acc.2.1),
      acc.2.2 ++ tn.childStreams)
  | none => acc

/-- `_finish_group_success`: returns `(queue, events, new groups, new streams)` -/
def finishGroupSuccess (σ : Static) (q : WQ) (g : Nat) (n : GroupNode) :
    WQ × List WQEvent × List Nat × List Nat :=
  let q1 : WQ := { q with groupNodes := aerase q.groupNodes g }
  let c := n.tasks.foldl (collectTask σ) (q1, [], [])
  let pr := pruneEmpty c.1 n.children
  let q3 : WQ := { pr.1 with rootGroups := oerase pr.1.rootGroups g }
  (q3, groupEvents g c.2.1 pr.2 c.2.2, pr.2, c.2.2)

/-- One iteration of the loop of `_task_success` over the task's groups.
`(queue, events, new groups, new streams)`. -/
def successStep (σ : Static) (acc : WQ × List WQEvent × List Nat × List Nat) (g : Nat) :
    WQ × List WQEvent × List Nat × List Nat :=
  match alookup acc.1.groupNodes g with
  | some n =>
    let n' : GroupNode := { n with pending := n.pending - 1 }
    let q : WQ := { acc.1 with groupNodes := aset acc.1.groupNodes g n' }
    if g ∈ q.rootGroups ∧ n'.pending = 0 then
      let f := finishGroupSuccess σ q g n'
      (f.1, acc.2.1 ++ f.2.1, acc.2.2.1 ++ f.2.2.1, acc.2.2.2 ++ f.2.2.2)
    else (q, acc.2.1, acc.2.2.1, acc.2.2.2)
  | none => acc

/-- `task_node.value = value` -/
def setTaskValue (q : WQ) (t : Nat) (v : GVal) : WQ :=
  match alookup q.taskNodes t with
  | some tn => { q with taskNodes := aset q.taskNodes t { tn with value := some v } }
  | none => q

/-- `_task_success` -/
def taskSuccess (σ : Static) (q : WQ) (t : Nat) (r : TResult) : WQ × List WQEvent :=
  let q1 := setTaskValue q t r.value
  let q2 := (integrateWork σ q1 r.work (some t)).1
  let acc := (σ.tgroups t).foldl (successStep σ) (q2, [], [], [])
  (startNewWork σ acc.1 acc.2.2.1 acc.2.2.2, acc.2.1)

/-- One iteration of the loop of `_task_failure`. -/
def failureStep (σ : Static) (acc : WQ × List WQEvent) (g : Nat) : WQ × List WQEvent :=
  match alookup acc.1.groupNodes g with
  | some n =>
    let f := finishGroupFailure σ acc.1 g n
    (f.1, acc.2 ++ [f.2])
  | none => acc

/-- `_task_failure` -/
def taskFailure (σ : Static) (q : WQ) (t : Nat) : WQ × List WQEvent :=
  (σ.tgroups t).foldl (failureStep σ) ({ q with taskNodes := aerase q.taskNodes t }, [])

/-- One iteration of the loop of `_stream_items`: `(queue, values, new groups, new streams)`. -/
def itemStep (σ : Static) (acc : WQ × List IVal × List Nat × List Nat) (it : IResult) :
    WQ × List IVal × List Nat × List Nat :=
  let i := integrateWork σ acc.1 it.work none
  let pr := pruneEmpty i.1 i.2.1
  let q := startNewWork σ pr.1 pr.2 i.2.2
  (q, acc.2.1 ++ [it.value], acc.2.2.1 ++ pr.2, acc.2.2.2 ++ i.2.2)

/-- `_stream_items` -/
def streamItems (σ : Static) (q : WQ) (s : Nat) (items : List IResult) (stopped : Bool) :
    WQ × List WQEvent :=
  let acc := items.foldl (itemStep σ) (q, [], [], [])
  let ev := WQEvent.streamValues s acc.2.1 acc.2.2.1 acc.2.2.2
  if stopped then
    ({ acc.1 with rootStreams := oerase acc.1.rootStreams s,
                  -- the pump resumes, `batches()` returns, `_StreamSuccess` is pushed later
                  deferred := acc.1.deferred ++ [.streamSuccess s] },
      [ev, .streamSuccess s])
  else (acc.1, [ev])

/-- `_handle_graph_event` -/
def handleGraphEvent (σ : Static) (q : WQ) : GraphEvent → WQ × List WQEvent
  | .taskSuccess t r => taskSuccess σ q t r
  | .taskFailure t => taskFailure σ q t
  | .streamItems s items stopped => streamItems σ q s items stopped
  | .streamSuccess s =>
    if s ∈ q.rootStreams then ({ q with rootStreams := oerase q.rootStreams s }, [.streamSuccess s])
    else (q, [])
  | .streamFailure s => ({ q with rootStreams := oerase q.rootStreams s }, [.streamFailure s])
  | .stop => (q, [])

/-- `WorkQueue.__init__`: returns the queue and `(initial_groups, initial_streams)`. -/
def init (σ : Static) (work : Option Work) : WQ × List Nat × List Nat :=
  let i := integrateWork σ {} work none
  let pr := pruneEmpty i.1 i.2.1
  let q : WQ := { pr.1 with rootGroups := pr.2.foldl oinsert [],
                            rootStreams := i.2.2.foldl oinsert [] }
  (q, pr.2, i.2.2)

/-- The first step of `events()`: start the root groups and streams. -/
def startRoots (σ : Static) (q : WQ) : WQ :=
  let q := q.rootGroups.foldl (startGroup σ) q
  q.rootStreams.foldl startStream q

/-- The inner `while True` of `events()`: handle graph events until the channel is empty. -/
def drain (σ : Static) : Nat → WQ → List WQEvent → WQ × List WQEvent
  | 0, q, acc => (q, acc)
  | fuel + 1, q, acc =>
    match q.channel with
    | [] => (q, acc)
    | e :: rest =>
      let h := handleGraphEvent σ { q with channel := rest } e
      drain σ fuel h.1 (acc ++ h.2)

/-- One iteration of the outer loop of `events()` after the consumer was woken: one batch
(possibly empty, then nothing is yielded). -/
def batch (σ : Static) (fuel : Nat) (q : WQ) : WQ × List WQEvent :=
  let d := drain σ fuel q []
  if d.1.rootGroups.isEmpty ∧ d.1.rootStreams.isEmpty then
    ({ d.1 with stopped := true }, d.2 ++ [.termination])
  else d

/-- Run the event loop to quiescence: batches are produced while there is something in the
channel; when the consumer is parked again the deferred callbacks run (`_push` each). -/
def settle (σ : Static) (fuel : Nat) : Nat → WQ → List (List WQEvent) → WQ × List (List WQEvent)
  | 0, q, acc => (q, acc)
  | n + 1, q, acc =>
    -- `while not self._stopped`: after the termination batch the generator is finished; callbacks
    -- that still run call `_push`, which ignores them
    if q.stopped then ({ q with deferred := [], channel := [] }, acc)
    else match q.channel with
      | [] =>
        match q.deferred with
        | [] => (q, acc)
        | d => settle σ fuel n (d.foldl push { q with deferred := [] }) acc
      | _ =>
        let b := batch σ fuel q
        settle σ fuel n b.1 (if b.2.isEmpty then acc else acc ++ [b.2])

/-- `cancel()` as far as the graph is concerned: which computations / stream queues are
aborted, in order (`_cancel_group` / `_cancel_task` / `_cancel_stream`). -/
inductive Abort where
  | task (t : Nat)
  | stream (s : Nat)
  deriving Repr, DecidableEq

def cancelGroup (q : WQ) : Nat → Nat → List Abort
  | 0, _ => []
  | fuel + 1, g =>
    match alookup q.groupNodes g with
    | none => []
    | some n =>
      n.tasks.flatMap (fun t =>
        Abort.task t :: (match alookup q.taskNodes t with
          | some tn => tn.childStreams.map Abort.stream
          | none => [])) ++
      n.children.flatMap (cancelGroup q fuel)

def cancel (q : WQ) : WQ × List Abort :=
  -- a consumer parked on the channel is woken by `_STOP` and drains what was pushed before
  -- (`batch`); that last drain is not part of `settle`
  let q' := { q with stopped := true, channel := q.channel ++ [.stop] }
  (q', q.rootGroups.flatMap (cancelGroup q (q.groupNodes.length + 1)) ++ q.rootStreams.map Abort.stream)

end Gql.Async
