/-
# Proc — the asynchronous executor as a labelled transition system over a field tree

The executor of `executor.py` (`execute_fields`, `execute_field`, `complete_awaitable_value`,
`complete_list_value`, `complete_abstract_value`/`complete_object_value` with awaitable
`resolve_type`/`is_type_of`, `handle_field_error`, `gather_with_cancel`, `async_reduce`) seen as
a tree of processes.  What the *request* fixes is the field tree: for every response position
its nullability, the number of awaitables that must complete before its value is known
(`gates`: the resolver result / list item / async-iterator step, then `resolve_type`, then
`is_type_of`), and the own outcome `res` (raise, null, a leaf value, or a composite with
children: object fields or list items).  What the *schedule* fixes is the order in which the
environment completes the awaitables and in which the event loop runs the continuations.

A forest (`Cfg`) is encoded first-child / next-sibling so that it is a plain inductive type;
the process state of every node is stored in the node.  `Step` is the transition relation: any
enabled transition may fire, which is a superset of what asyncio can do.

Errors and cancellation.  A position whose completion fails handles the error (`doneErr`, the
position is nulled) or raises it to its parent (`failed`, non-null).  Two ways in which work
is given up are kept apart:
* `gather_with_cancel` (the awaited children of a selection set / list): on the first child that
  raises, the others are CANCELLED (`fail`: the node is `failing`, every busy descendant is
  `unwinding`), the gather WAITS until each of them has finished - bottom-up, a cancelled gather
  waits for its own children too (`unwound`) - and only then re-raises (`failDone`, `bg = false`).
* `settle_in_background` (a child raises synchronously while the children are being started, or
  an async iteration is aborted): the node handles the error at once, the children that are
  already running are NOT cancelled and nobody waits for them (`bg = true`).
`QuietF` says that nothing is running or unwinding except below a `bg = true` position; the
serial root (`SStep`) starts the next field only when the earlier ones are completed and quiet.
-/
namespace Gql.Async

/-- Response values.  A composite (object or list) is a `nil`/`cons` chain of its members. -/
inductive Val where
  | null
  | leaf (n : Nat)
  | nil
  | cons (hd tl : Val)
  deriving Repr, DecidableEq, Inhabited

/-- Kind of a composite position: an object (children = collected sub-fields, each with a
resolver call), a list (children = items, all started by the list loop), or a list fed by an
async iterator (children = items, each gated by one `__anext__` step; a failure while the
iteration is still going aborts it and leaves earlier items to `settle_in_background`). -/
inductive CKind where
  | obj
  | list
  | aiter
  deriving Repr, DecidableEq, Inhabited

/-- Own outcome of a position once all its awaitables have completed. -/
inductive Res where
  | raise
  | null
  | leaf (n : Nat)
  | comp (k : CKind)
  deriving Repr, DecidableEq, Inhabited

/-- Per-node process state.
* `failing`: a gather node (`gather_with_cancel`) one of whose children raised: the other
  children have been cancelled; the node waits until all of them have finished, then re-raises.
* `doneErr bg`: completed with `null` because an error was handled here (the position was
  nulled); `failed bg`: a non-null position raised the error to its parent.  `bg = true`: the
  node completed while children were still running - they are abandoned WITHOUT being
  cancelled (`settle_in_background`: a synchronous failure in the selection-set / list loop,
  or an aborted async iteration).
* `unwinding`: a cancelled task that has not finished yet (its `finally` blocks run, it waits
  for its own cancelled children); `cancelled`: it has finished. -/
inductive NodeSt where
  | idle
  | wait (k : Nat)
  | ready
  | run
  | failing
  | done (v : Val)
  | doneErr (bg : Bool)
  | failed (bg : Bool)
  | unwinding
  | cancelled
  deriving Repr, DecidableEq, Inhabited

/-- A forest of processes: `cons nn gates res st children rest`. -/
inductive Cfg where
  | nil
  | cons (nn : Bool) (gates : Nat) (res : Res) (st : NodeSt) (ch : Cfg) (rest : Cfg)
  deriving Repr, DecidableEq, Inhabited

abbrev Path := List Nat

namespace NodeSt

/-- the task of the node has completed (normally, by raising, or by cancellation) -/
def settled : NodeSt → Bool
  | done _ | doneErr _ | failed _ | cancelled => true
  | _ => false

/-- started, not cancelled, and not yet completed -/
def busy : NodeSt → Bool
  | wait _ | ready | run | failing => true
  | _ => false

/-- started and not yet finished (busy, or cancelled and still unwinding) -/
def pending : NodeSt → Bool
  | wait _ | ready | run | failing | unwinding => true
  | _ => false

/-- the children of the node have been started -/
def launched : NodeSt → Bool
  | idle | wait _ | ready => false
  | _ => true

end NodeSt

/-! ## Synchronous denotation (the response fragment of fully synchronous execution) -/

/-- Result of a position given the result of its inner completion: `none` = the error
propagates to the parent (non-null), `some null` = handled here. -/
def absorb (nn : Bool) : Option Val → Option Val
  | some .null => if nn then none else some .null
  | some v => some v
  | none => if nn then none else some .null

/-- Values of a forest; `none` when some member raises to the parent. -/
def denF : Cfg → Option Val
  | .nil => some .nil
  | .cons nn _ res _ ch rest =>
    let inner : Option Val :=
      match res with
      | .raise => none
      | .null => some .null
      | .leaf n => some (.leaf n)
      | .comp _ => denF ch
    match absorb nn inner, denF rest with
    | some v, some vs => some (.cons v vs)
    | _, _ => none

/-- inner completion of one node -/
def innerDen (res : Res) (ch : Cfg) : Option Val :=
  match res with
  | .raise => none
  | .null => some .null
  | .leaf n => some (.leaf n)
  | .comp _ => denF ch

/-- denotation of one node -/
def denN (nn : Bool) (res : Res) (ch : Cfg) : Option Val := absorb nn (innerDen res ch)

theorem denF_cons (nn : Bool) (g : Nat) (res : Res) (st : NodeSt) (ch rest : Cfg) :
    denF (.cons nn g res st ch rest) =
      match denN nn res ch, denF rest with
      | some v, some vs => some (.cons v vs)
      | _, _ => none := by
  cases res <;> rfl

/-- `data` of the response for a root selection set. -/
def dataOf (root : Cfg) : Val :=
  match denF root with
  | some v => v
  | none => .null

/-! ## Launching (the synchronous part of starting a selection set / a list) -/

namespace NodeSt
def isFailed : NodeSt → Bool
  | failed _ => true
  | _ => false
end NodeSt

/-- some member has raised to the parent -/
def hasFailed : Cfg → Bool
  | .nil => false
  | .cons _ _ _ st _ rest => st.isFailed || hasFailed rest

/-- some member has been started and has not finished yet -/
def hasPending : Cfg → Bool
  | .nil => false
  | .cons _ _ _ st _ rest => st.pending || hasPending rest

/-- the values of a forest all of whose members completed -/
def forestVals : Cfg → Option Val
  | .nil => some .nil
  | .cons _ _ _ st _ rest =>
    match st, forestVals rest with
    | .done v, some vs => some (.cons v vs)
    | .doneErr _, some vs => some (.cons .null vs)
    | _, _ => none

/-- state after handling an error at a position; `bg`: children are left running -/
def errSt (nn : Bool) (bg : Bool) : NodeSt := if nn then .failed bg else .doneErr bg

/-- A node whose awaitables have all completed runs up to its next await: `lch` are its
children after launching them.  A child that raises synchronously while the children are being
started aborts the loop: the node handles the error at once and the children that are already
running are NOT cancelled (`settle_in_background`). -/
def fireWith (nn : Bool) (res : Res) (ch lch : Cfg) : NodeSt × Cfg :=
  match res with
  | .raise => (errSt nn false, ch)
  | .null => (if nn then .failed false else .done .null, ch)
  | .leaf n => (.done (.leaf n), ch)
  | .comp _ =>
    if hasFailed lch then (errSt nn (hasPending lch), lch)
    else match forestVals lch with
      | some v => (.done v, lch)
      | none => (.run, lch)

/-- Start the members of a forest in document order (`execute_fields` loop, the list loop of
`complete_iterable_value`): a member without pending awaitable runs at once; a member that
raises synchronously aborts the loop, later members are never started. -/
def launchF : Cfg → Cfg
  | .nil => .nil
  | .cons nn g res _ ch rest =>
    let r : NodeSt × Cfg := if g = 0 then fireWith nn res ch (launchF ch) else (.wait g, ch)
    if r.1.isFailed then .cons nn g res r.1 r.2 rest
    else .cons nn g res r.1 r.2 (launchF rest)

/-- `gather_with_cancel` cancels the awaitables that are not done: every busy member becomes
`unwinding`, and so does everything it awaits (the cancellation travels down the chain of
awaited futures at once).  Completed tasks, and work below them that was abandoned to the
background, are not touched. -/
def cancelU : Cfg → Cfg
  | .nil => .nil
  | .cons nn g res st ch rest =>
    if st.busy then .cons nn g res .unwinding (cancelU ch) (cancelU rest)
    else .cons nn g res st ch (cancelU rest)

/-! ## Transitions -/

inductive Label where
  | resolve (p : Path)
  | continue (p : Path)
  | deliverCancel (p : Path)
  | start (p : Path)
  deriving Repr, DecidableEq

namespace Label
def path : Label → Path
  | resolve p | «continue» p | deliverCancel p | start p => p
def mapPath (f : Path → Path) : Label → Label
  | resolve p => resolve (f p)
  | «continue» p => «continue» (f p)
  | deliverCancel p => deliverCancel (f p)
  | start p => start (f p)
/-- the label of a step of a later sibling -/
def next : Label → Label := mapPath (fun p => match p with | [] => [] | i :: q => (i + 1) :: q)
/-- the label of a step inside the children of member 0 -/
def down : Label → Label := mapPath (fun p => 0 :: p)
end Label

/-- `Step f l f'`: forest `f` makes one transition.  Paths address a member by its index in the
forest, then downwards.

The model of `gather_with_cancel` is: on the first child that raises, cancel the rest (`fail`),
await them (`unwound` of every cancelled child, bottom-up), re-raise (`failDone`).  It is the
algorithm the docstring of `gather_with_cancel` promises; the pinned implementation deviates
when the awaiting task is itself cancelled (a cancelled gather does not wait for its children,
and a gather cancelled while it waits cancels them a second time) - witnesses and repair in the
C03 report. -/
inductive Step : Cfg → Label → Cfg → Prop where
  /-- the environment completes one awaitable of the node -/
  | resolve (nn g res k ch rest) :
      Step (.cons nn g res (.wait (k + 1)) ch rest) (.resolve [0])
        (.cons nn g res (if k = 0 then .ready else .wait k) ch rest)
  /-- the node's task is resumed with the awaited value: complete the value, start children -/
  | fire (nn g res ch rest) :
      Step (.cons nn g res .ready ch rest) (.continue [0])
        (.cons nn g res (fireWith nn res ch (launchF ch)).1 (fireWith nn res ch (launchF ch)).2 rest)
  /-- all awaited children completed -/
  | complete (nn g res ch rest v) (h : forestVals ch = some v) :
      Step (.cons nn g res .run ch rest) (.continue [0]) (.cons nn g res (.done v) ch rest)
  /-- one awaited child raised: `gather` re-raises the first exception into
  `gather_with_cancel`, which cancels every awaitable that is not done and then waits -/
  | fail (nn g res ch rest) (h : hasFailed ch = true) :
      Step (.cons nn g res .run ch rest) (.continue [0]) (.cons nn g res .failing (cancelU ch) rest)
  /-- an async-iterator list whose item fails while the iteration is still going: the loop is
  aborted, the iterator closed, earlier items are left to `settle_in_background` (not
  cancelled), later items are never requested -/
  | abort (nn g ch rest) (h : hasFailed ch = true) :
      Step (.cons nn g (.comp .aiter) .run ch rest) (.continue [0])
        (.cons nn g (.comp .aiter) (errSt nn (hasPending ch)) ch rest)
  /-- all cancelled children have finished: the gather node re-raises -/
  | failDone (nn g res ch rest) (h : hasPending ch = false) :
      Step (.cons nn g res .failing ch rest) (.continue [0]) (.cons nn g res (errSt nn false) ch rest)
  /-- a cancelled task finishes, after everything it awaited has finished -/
  | unwound (nn g res ch rest) (h : hasPending ch = false) :
      Step (.cons nn g res .unwinding ch rest) (.deliverCancel [0]) (.cons nn g res .cancelled ch rest)
  /-- a step inside the children of a launched node -/
  | child (nn g res st ch rest l ch') (hl : st.launched = true) (h : Step ch l ch') :
      Step (.cons nn g res st ch rest) l.down (.cons nn g res st ch' rest)
  /-- a step of a later member -/
  | sibling (nn g res st ch rest l rest') (h : Step rest l rest') :
      Step (.cons nn g res st ch rest) l.next (.cons nn g res st ch rest')

/-- The members before the first idle one have all completed and none has failed. -/
def prefixDone : Cfg → Bool
  | .nil => true
  | .cons _ _ _ st _ rest =>
    match st with
    | .idle => true
    | .done _ | .doneErr _ => prefixDone rest
    | _ => false

/-- Start the first idle member (`async_reduce` calling the reducer for the next field). -/
def startNext : Cfg → Cfg
  | .nil => .nil
  | .cons nn g res st ch rest =>
    match st with
    | .idle =>
      let r : NodeSt × Cfg := if g = 0 then fireWith nn res ch (launchF ch) else (.wait g, ch)
      .cons nn g res r.1 r.2 rest
    | _ => .cons nn g res st ch (startNext rest)

/-- index of the first idle member -/
def firstIdle : Cfg → Nat
  | .nil => 0
  | .cons _ _ _ st _ rest => match st with | .idle => 0 | _ => firstIdle rest + 1

def hasIdle : Cfg → Bool
  | .nil => false
  | .cons _ _ _ st _ rest => st == .idle || hasIdle rest

/-- Serial root (`execute_fields_serially`): members are started one after another, each only
after all earlier ones completed; inside a member everything is as in `Step`. -/
inductive SStep : Cfg → Label → Cfg → Prop where
  | inner (f l f') (h : Step f l f') : SStep f l f'
  | start (f) (h1 : prefixDone f = true) (h2 : hasIdle f = true) :
      SStep f (.start [firstIdle f]) (startNext f)

/-- reflexive-transitive closure with the trace of labels -/
inductive Run {σ : Type} (R : σ → Label → σ → Prop) : σ → List Label → σ → Prop where
  | refl (c) : Run R c [] c
  | step (c l c' ls c'') (h : R c l c') (t : Run R c' ls c'') : Run R c (l :: ls) c''

/-- no transition is enabled -/
def Final {σ : Type} (R : σ → Label → σ → Prop) (c : σ) : Prop := ∀ l c', ¬ R c l c'

/-! ## Reading the response off a configuration -/

/-- `data` for a root forest in a final configuration -/
def dataCfg (root : Cfg) : Val :=
  match forestVals root with
  | some v => v
  | none => .null

/-- positions nulled by an error that exist in `data`: traversal of the completed region -/
def nulledF (pfx : Path) (i : Nat) : Cfg → List Path
  | .nil => []
  | .cons _ _ res st ch rest =>
    (match st, res with
      | .doneErr _, _ => [pfx ++ [i]]
      | .done _, .comp _ => if (forestVals ch).isSome then nulledF (pfx ++ [i]) 0 ch else []
      | _, _ => []) ++ nulledF pfx (i + 1) rest

/-- nulled positions of a response: the root position when an error reached the root -/
def nulledCfg (root : Cfg) : List Path :=
  if (forestVals root).isSome then nulledF [] 0 root else [[]]

/-- the same, predicted from the tree alone (what synchronous execution nulls) -/
def specNulledF (pfx : Path) (i : Nat) : Cfg → List Path
  | .nil => []
  | .cons nn _ res _ ch rest =>
    (match innerDen res ch, res with
      | none, _ => if nn then [] else [pfx ++ [i]]
      | some _, .comp _ => specNulledF (pfx ++ [i]) 0 ch
      | some _, _ => []) ++ specNulledF pfx (i + 1) rest

def specNulled (root : Cfg) : List Path :=
  if (denF root).isSome then specNulledF [] 0 root else [[]]

/-! ## Termination measure -/

def rank (g : Nat) : NodeSt → Nat
  | .idle => g + 4
  | .wait k => k + 3
  | .ready => 3
  | .run => 2
  | .failing => 1
  | .unwinding => 1
  | _ => 0

def measure : Cfg → Nat
  | .nil => 0
  | .cons _ g _ st ch rest => rank g st + measure ch + measure rest

/-- all members idle (never started) -/
def allIdle : Cfg → Bool
  | .nil => true
  | .cons _ _ _ st ch rest => st == .idle && allIdle ch && allIdle rest

/-- the same tree with every awaitable made synchronous -/
def syncOf : Cfg → Cfg
  | .nil => .nil
  | .cons nn _ res st ch rest => .cons nn 0 res st (syncOf ch) (syncOf rest)

/-- the same tree, forgetting process states and gates (what the request fixes) -/
def shape : Cfg → Cfg
  | .nil => .nil
  | .cons nn _ res _ ch rest => .cons nn 0 res .idle (shape ch) (shape rest)

/-! ## Root of a query and addressing -/

/-- A query: the root selection set wrapped as a nullable composite position (`data`), about
to start its fields. Position `[0]` is `data`; `0 :: p` is response position `p`. -/
def initQuery (fields : Cfg) : Cfg := .cons false 0 (.comp .obj) .ready fields .nil

/-- `data` of the response once the root has completed -/
def rootData : Cfg → Option Val
  | .cons _ _ _ (.done v) _ _ => some v
  | .cons _ _ _ (.doneErr _) _ _ => some .null
  | _ => none

/-- the node at a position: (non-null, own outcome, state, children) -/
def nodeAt : Cfg → Path → Option (Bool × Res × NodeSt × Cfg)
  | .nil, _ => none
  | .cons _ _ _ _ _ _, [] => none
  | .cons nn _ res st ch _, [0] => some (nn, res, st, ch)
  | .cons _ _ _ _ ch _, 0 :: j :: p => nodeAt ch (j :: p)
  | .cons _ _ _ _ _ rest, (i + 1) :: p => nodeAt rest (i :: p)

/-- some member has been cancelled (finished or still unwinding) -/
def hasCancelled : Cfg → Bool
  | .nil => false
  | .cons _ _ _ st _ rest => st == .cancelled || st == .unwinding || hasCancelled rest

/-- Nothing is running or unwinding in the forest, except below a position that completed while
its children were still running (`bg = true`): work that was abandoned and never cancelled. -/
def QuietF : Cfg → Bool
  | .nil => true
  | .cons _ _ _ st ch rest =>
    (match st with
      | .idle => true
      | .done _ => QuietF ch
      | .doneErr bg => bg || QuietF ch
      | .failed bg => bg || QuietF ch
      | .cancelled => QuietF ch
      | _ => false) && QuietF rest

/-- an error propagates out of the forest through non-null positions only -/
def reachesParent : Cfg → Bool
  | .nil => false
  | .cons nn _ res _ ch rest =>
    (nn && (match res with
      | .raise => true
      | .null => true
      | .leaf _ => false
      | .comp _ => reachesParent ch)) || reachesParent rest

/-- the value conforms to the nullability of the tree: no null at a non-null position -/
def wfVals : Cfg → Val → Prop
  | .nil, .nil => True
  | .cons nn _ res _ ch rest, .cons v vs =>
    (v = .null → nn = false) ∧ (∀ l, res = .comp l → v ≠ .null → wfVals ch v) ∧ wfVals rest vs
  | _, _ => False

/-- member `n` of a composite value -/
def Val.get : Val → Nat → Option Val
  | .cons h _, 0 => some h
  | .cons _ t, n + 1 => t.get n
  | _, _ => none

/-- the value at a position below a composite value -/
def Val.at : Val → Path → Option Val
  | v, [] => some v
  | v, i :: p => match v.get i with
    | some w => w.at p
    | none => none

end Gql.Async
