import Gql.Async.WorkQueue
/-
# Model of `IncrementalPublisher` (src/graphql/execution/incremental/incremental_publisher.py)

`_ensure_id`, `_to_pending_results`, `_handle_work_queue_event`, `_handle_batch`,
`_get_best_id_and_sub_path`, `build_response` (the `pending` list of the initial result).
Ids are `str(self._next_id)`; the model keeps the number.  What the code reads from the
delivery group / item stream objects (`path`, `label`) is `PubStatic`.
-/
namespace Gql.Async
open Gql.Spec.Protocol (J Path Pending Incr Completed Payload)

/-- Keys of `IncrementalPublisher._ids`: delivery groups and item streams are different objects. -/
inductive Node where
  | group (g : Nat)
  | stream (s : Nat)
  deriving Repr, DecidableEq

structure PubStatic where
  gpath : Nat → Path
  glabel : Nat → Option Nat
  spath : Nat → Path
  slabel : Nat → Option Nat

def PubStatic.path (π : PubStatic) : Node → Path
  | .group g => π.gpath g
  | .stream s => π.spath s

def PubStatic.label (π : PubStatic) : Node → Option Nat
  | .group g => π.glabel g
  | .stream s => π.slabel s

structure Pub where
  ids : List (Node × Nat) := []
  nextId : Nat := 0
  deriving Repr

/-- `_ensure_id` -/
def ensureId (p : Pub) (n : Node) : Pub × Nat :=
  match alookup p.ids n with
  | some i => (p, i)
  | none => ({ ids := aset p.ids n p.nextId, nextId := p.nextId + 1 }, p.nextId)

/-- `del self._ids[node]` (always directly after `_ensure_id(node)`) -/
def dropId (p : Pub) (n : Node) : Pub := { p with ids := aerase p.ids n }

/-- `_to_pending_results` -/
def toPendingResults (π : PubStatic) (p : Pub) (newGroups newStreams : List Nat) :
    Pub × List Pending :=
  (newGroups.map Node.group ++ newStreams.map Node.stream).foldl
    (fun (acc : Pub × List Pending) n =>
      let (p, i) := ensureId acc.1 n
      (p, acc.2 ++ [{ id := i, path := π.path n, label := π.label n }])) (p, [])

/-- `_get_best_id_and_sub_path` -/
def bestIdAndSubPath (π : PubStatic) (p : Pub) (initialId : Nat) (g : Nat) (v : GVal) :
    Nat × Path :=
  let r := v.groups.foldl (fun (acc : Nat × Nat) dg =>
    if dg = g then acc else
    match alookup p.ids (.group dg) with
    | none => acc
    | some i =>
      let len := (π.gpath dg).length
      if len > acc.1 then (len, i) else acc) ((π.gpath g).length, initialId)
  (r.2, v.path.drop r.1)

/-- `_SubsequentResultContext` -/
structure PCtx where
  pending : List Pending := []
  incremental : List Incr := []
  completed : List Completed := []
  hasNext : Bool := true

/-- `_handle_work_queue_event` -/
def handleEvent (π : PubStatic) (p : Pub) (c : PCtx) : WQEvent → Pub × PCtx
  | .groupValues g vals =>
    let (p, i) := ensureId p (.group g)
    let incs := vals.map (fun v =>
      let (best, sub) := bestIdAndSubPath π p i g v
      Incr.defer best sub v.data)
    (p, { c with incremental := c.incremental ++ incs })
  | .groupSuccess g newGroups newStreams =>
    let (p, i) := ensureId p (.group g)
    let c := { c with completed := c.completed ++ [{ id := i, failed := false }] }
    let p := dropId p (.group g)
    if newGroups.isEmpty ∧ newStreams.isEmpty then (p, c)
    else
      let (p, pend) := toPendingResults π p newGroups newStreams
      (p, { c with pending := c.pending ++ pend })
  | .groupFailure g =>
    let (p, i) := ensureId p (.group g)
    (dropId p (.group g), { c with completed := c.completed ++ [{ id := i, failed := true }] })
  | .streamValues s vals newGroups newStreams =>
    let (p, i) := ensureId p (.stream s)
    let c := { c with incremental :=
      c.incremental ++ [Incr.stream i (vals.map (fun v => (v.idx, v.item)))] }
    if newGroups.isEmpty ∧ newStreams.isEmpty then (p, c)
    else
      let (p, pend) := toPendingResults π p newGroups newStreams
      (p, { c with pending := c.pending ++ pend })
  | .streamSuccess s =>
    let (p, i) := ensureId p (.stream s)
    (dropId p (.stream s), { c with completed := c.completed ++ [{ id := i, failed := false }] })
  | .streamFailure s =>
    let (p, i) := ensureId p (.stream s)
    (dropId p (.stream s), { c with completed := c.completed ++ [{ id := i, failed := true }] })
  | .termination => (p, { c with hasNext := false })

/-- `_handle_batch` -/
def handleBatch (π : PubStatic) (p : Pub) (evs : List WQEvent) : Pub × Payload :=
  let (p, c) := evs.foldl (fun (acc : Pub × PCtx) e => handleEvent π acc.1 acc.2 e) (p, {})
  (p, { pending := c.pending, incremental := c.incremental, completed := c.completed,
        hasNext := c.hasNext })

/-- `build_response`: the initial result's `pending` (with `hasNext = true`). -/
def initialPayload (π : PubStatic) (initialGroups initialStreams : List Nat) : Pub × Payload :=
  let (p, pend) := toPendingResults π {} initialGroups initialStreams
  (p, { pending := pend, hasNext := true })

/-- Fold the publisher over a list of batches. -/
def publish (π : PubStatic) (p : Pub) : List (List WQEvent) → Pub × List Payload
  | [] => (p, [])
  | b :: r =>
    let (p, pl) := handleBatch π p b
    let (p', pls) := publish π p r
    (p', pl :: pls)

/-! ## The whole pipeline over an environment history -/

/-- What the environment does between two quiescent points (one "tick"): futures of started
tasks are resolved, stream queues deliver a batch / stop / fail.  Each is a `_push`. -/
abbrev Tick := List GraphEvent

structure Sys where
  wq : WQ
  pub : Pub
  out : List Payload      -- emitted so far, oldest first (the initial result included)

/-- `build_response` + first `anext`: initial payload, roots started, loop run to quiescence. -/
def Sys.start (σ : Static) (π : PubStatic) (fuel : Nat) (work : Option Work) : Sys × List (List WQEvent) :=
  let (q, ig, is) := init σ work
  let (p, pl0) := initialPayload π ig is
  let q := startRoots σ q
  let (q, batches) := settle σ fuel fuel q []
  let (p, pls) := publish π p batches
  ({ wq := q, pub := p, out := pl0 :: pls }, batches)

def Sys.tick (σ : Static) (π : PubStatic) (fuel : Nat) (s : Sys) (t : Tick) : Sys × List (List WQEvent) :=
  let q := t.foldl push s.wq
  let (q, batches) := settle σ fuel fuel q []
  let (p, pls) := publish π s.pub batches
  ({ wq := q, pub := p, out := s.out ++ pls }, batches)

def Sys.run (σ : Static) (π : PubStatic) (fuel : Nat) (s : Sys) : List Tick → Sys
  | [] => s
  | t :: r => Sys.run σ π fuel (Sys.tick σ π fuel s t).1 r

/-- The payload stream of a history. -/
def payloads (σ : Static) (π : PubStatic) (fuel : Nat) (work : Option Work) (h : List Tick) :
    List Payload :=
  (Sys.run σ π fuel (Sys.start σ π fuel work).1 h).out

end Gql.Async
