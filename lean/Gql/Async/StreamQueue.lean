/-
# Model of `StreamItemQueue.batches()` (src/graphql/execution/incremental/stream_item_queue.py)

One iteration of the `while True` loop of `batches()`, as a function of the entry carried over
from the previous iteration (`held`) and the entries currently buffered in the queue, oldest
first.  Entries are settled item results, item futures (pending / fulfilled / rejected), the
`_END` sentinel and the `_ErrorEntry`.

* head-blocking: a pending future at the head delays delivery (`wait`), later settled entries
  are not delivered before it;
* consecutive settled entries are delivered together;
* a pending or rejected future, or the error entry, met while collecting is *held* and becomes
  the head of the next iteration (the batch collected so far is delivered first);
* `_END` met while collecting sets `_stopped` (peek-ahead) and is held;
* a *cancelled* item future at the head (an early executed item cancelled because the source
  failed) makes `batches()` drop everything up to the end / error entry and deliver that
  (repo fix 0946959); met while collecting it is held like a rejected one.
-/
namespace Gql.Async

inductive SQEntry where
  | item (v : Nat)
  | pendingFut (id : Nat)
  | doneFut (v : Nat)
  | failedFut (id : Nat)
  | cancelledFut (id : Nat)
  | endMark
  | errorMark
  deriving Repr, DecidableEq

inductive SQStep where
  /-- `await entries.get()` blocks: the queue is empty -/
  | park
  /-- `await entry` blocks on the pending head future `id` -/
  | wait (id : Nat)
  /-- `_END` at the head: `_stopped = True; return` -/
  | finish
  /-- the head raises: a rejected item future (after `_cleanup()`) or the error entry -/
  | raise (cleanup : Bool)
  /-- `yield batch`; `held` is carried to the next iteration, `stopped` is `_stopped` -/
  | yield (batch : List Nat) (held : Option SQEntry) (rest : List SQEntry) (stopped : Bool)
  deriving Repr, DecidableEq

/-- The inner `while True` (`get_nowait` loop): `(batch, held, rest, stopped)`. -/
def sqCollect : List SQEntry → List Nat → List Nat × Option SQEntry × List SQEntry × Bool
  | [], acc => (acc, none, [], false)
  | .endMark :: r, acc => (acc, some .endMark, r, true)
  | .errorMark :: r, acc => (acc, some .errorMark, r, false)
  | .pendingFut i :: r, acc => (acc, some (.pendingFut i), r, false)
  | .failedFut i :: r, acc => (acc, some (.failedFut i), r, false)
  | .cancelledFut i :: r, acc => (acc, some (.cancelledFut i), r, false)
  | .doneFut v :: r, acc => sqCollect r (acc ++ [v])
  | .item v :: r, acc => sqCollect r (acc ++ [v])

/-- `while not (entry is _END or isinstance(entry, _ErrorEntry)): entry = await entries.get()`
after a cancelled head. -/
def sqSkip : List SQEntry → SQStep
  | [] => .park
  | .endMark :: _ => .finish
  | .errorMark :: _ => .raise false
  | _ :: r => sqSkip r

def batchesStep (held : Option SQEntry) (entries : List SQEntry) : SQStep :=
  let headRest : Option (SQEntry × List SQEntry) :=
    match held with
    | some h => some (h, entries)
    | none => match entries with
      | [] => none
      | h :: r => some (h, r)
  match headRest with
  | none => .park
  | some (.pendingFut i, _) => .wait i
  | some (.failedFut _, _) => .raise true
  | some (.cancelledFut _, r) => sqSkip r
  | some (.endMark, _) => .finish
  | some (.errorMark, _) => .raise false
  | some (.doneFut v, r) =>
    let (b, h, rest, st) := sqCollect r [v]
    .yield b h rest st
  | some (.item v, r) =>
    let (b, h, rest, st) := sqCollect r [v]
    .yield b h rest st

/-- The values of the entries that will be delivered unless the stream fails first. -/
def sqValues : List SQEntry → List Nat
  | [] => []
  | .item v :: r => v :: sqValues r
  | .doneFut v :: r => v :: sqValues r
  | _ :: _ => []

/-- How a pending item future settles when the consumer waits for it (scripted by the id:
`i % 4 = 1` rejected, `i % 4 = 3` cancelled, otherwise fulfilled with the id as value). -/
def resolveFut : SQEntry → SQEntry
  | .pendingFut i =>
    if i % 4 = 1 then .failedFut i else if i % 4 = 3 then .cancelledFut i else .doneFut i
  | e => e

/-- `_run`: when the producer raises, the still pending item futures are cancelled
(`_settle_pending`) before the error entry is queued. -/
def sqAfterProducer (es : List SQEntry) : List SQEntry :=
  if es.getLast? = some .errorMark then
    es.map (fun e => match e with | .pendingFut i => .cancelledFut i | e => e)
  else es

inductive SQOut where
  | park
  | wait (id : Nat)
  | finish
  | raise
  | yield (batch : List Nat) (stopped : Bool)
  deriving Repr, DecidableEq

/-- Iterate `batches()` to its end; a pending head future is settled when it is waited for. -/
def sqRun : Nat → Option SQEntry → List SQEntry → List SQOut
  | 0, _, _ => []
  | n + 1, held, entries =>
    match batchesStep held entries with
    | .park => [.park]
    | .wait i =>
      .wait i :: (match held, entries with
        | some h, es => sqRun n (some (resolveFut h)) es
        | none, h :: es => sqRun n none (resolveFut h :: es)
        | none, [] => [])
    | .finish => [.finish]
    | .raise _ => [.raise]
    | .yield b h rest st => .yield b st :: sqRun n h rest

/-- All values delivered by a run, in delivery order. -/
def sqDelivered : List SQOut → List Nat
  | [] => []
  | .yield b _ :: r => b ++ sqDelivered r
  | _ :: r => sqDelivered r

end Gql.Async
