/-
Model of `collect_fields` / `collect_subfields` / `collect_fields_impl`
(src/graphql/execution/collect_fields.py) with live defer usages.

* Selections are given *unfolded*: a fragment spread carries the selections of the fragment it
  names (`body`).  For a document without fragment cycles (validation rule NoFragmentCycles) this is
  a finite tree; every spread of one name carries the same body (`Consistent`), and no spread
  occurs inside its own body (`Acyclic`).  The `visited_fragment_names` map is keyed by name, as in
  the code.
* What `should_include_node` (`@skip`/`@include`) and `does_fragment_condition_match` (also: the
  fragment exists) answer is part of the input (`incl`, `cond`): they do not depend on defer state.
  Fragment variables are out of scope.
* `defer`: `none` = `get_defer_usage` returns `None` (no `@defer`, or `if: false`); `some label` =
  an active `@defer` with that (optional) label.  A new `DeferUsage` object is identified by its
  serial `base + index in new_defer_usages`.
-/
namespace Gql.Async.Collect

inductive Sel where
  | field (key node : Nat) (incl : Bool)
  | inline (incl cond : Bool) (defer : Option (Option Nat)) (sels : List Sel)
  | spread (incl cond : Bool) (name : Nat) (defer : Option (Option Nat)) (body : List Sel)

structure FD where
  node : Nat
  du : Option Nat
  deriving Repr, DecidableEq

structure CState where
  /-- `grouped_field_set`: `defaultdict(list)`, insertion ordered -/
  grouped : List (Nat × List FD)
  /-- `new_defer_usages`: (label, parent) -/
  newUsages : List (Option Nat × Option Nat)
  /-- `visited_fragment_names`: name ↦ visited as deferred -/
  visited : List (Nat × Bool)
  /-- serial of the first new defer usage -/
  base : Nat
  deriving Repr

/-- `grouped_field_set[key].append(details)` on a `defaultdict(list)` -/
def addField (k : Nat) (fd : FD) : List (Nat × List FD) → List (Nat × List FD)
  | [] => [(k, [fd])]
  | (k', fds) :: rest => if k' = k then (k', fds ++ [fd]) :: rest else (k', fds) :: addField k fd rest

def visitedGet (name : Nat) : List (Nat × Bool) → Option Bool
  | [] => none
  | (n, b) :: rest => if n = name then some b else visitedGet name rest

def visitedSet (name : Nat) (b : Bool) : List (Nat × Bool) → List (Nat × Bool)
  | [] => [(name, b)]
  | (n, b') :: rest => if n = name then (n, b) :: rest else (n, b') :: visitedSet name b rest

mutual
/-- one iteration of the `for selection in selection_set.selections` loop of `collect_fields_impl` -/
def collectSel (du : Option Nat) : Sel → CState → CState
  | .field k n incl, s =>
    if incl then { s with grouped := addField k ⟨n, du⟩ s.grouped } else s
  | .inline incl cond defer sels, s =>
    if !(incl && cond) then s
    else
      match defer with
      | none => collectSels du sels s
      | some label =>
        collectSels (some (s.base + s.newUsages.length)) sels
          { s with newUsages := s.newUsages ++ [(label, du)] }
  | .spread incl cond name defer body, s =>
    if !incl then s
    else if !cond then s
    else
      match defer with
      | none =>
        -- not deferred: skipped only when already visited as a non-deferred spread
        if visitedGet name s.visited = some false then s
        else collectSels du body { s with visited := visitedSet name false s.visited }
      | some label =>
        -- deferred: skipped when visited at all
        if (visitedGet name s.visited).isSome then s
        else
          collectSels (some (s.base + s.newUsages.length)) body
            { s with visited := visitedSet name true s.visited,
                     newUsages := s.newUsages ++ [(label, du)] }
def collectSels (du : Option Nat) : List Sel → CState → CState
  | [], s => s
  | x :: rest, s => collectSels du rest (collectSel du x s)
end

def init (base : Nat) : CState := { grouped := [], newUsages := [], visited := [], base := base }

/-- `collect_fields`: the operation's selection set, no defer usage. -/
def collectFields (base : Nat) (sels : List Sel) : CState := collectSels none sels (init base)

/-- `collect_subfields`: the selection sets of the field nodes of one field-details list, each
under the defer usage of its field details, sharing one visited map. -/
def collectMany : List (Option Nat × List Sel) → CState → CState
  | [], s => s
  | (du, sels) :: rest, s => collectMany rest (collectSels du sels s)

def collectSubfields (base : Nat) (parts : List (Option Nat × List Sel)) : CState :=
  collectMany parts (init base)

mutual
/-- the same selections with `@defer` disabled everywhere -/
def Sel.strip : Sel → Sel
  | .field k n incl => .field k n incl
  | .inline incl cond _ sels => .inline incl cond none (stripSels sels)
  | .spread incl cond name _ body => .spread incl cond name none (stripSels body)
def stripSels : List Sel → List Sel
  | [] => []
  | x :: rest => x.strip :: stripSels rest
end

end Gql.Async.Collect
