/-
C04 — the delivery groups of the execution groups of `Gql.Async.IncExec`
(`get_new_delivery_group_map`, `get_delivery_groups`, `collect_execution_groups`): the same
recursion as `IncExec.incCut`, returning for every execution group, in the order of `Cut.pieces`,
its target path and the delivery groups `(path, label)` it belongs to — one delivery group per new
`DeferUsage` of an object, created at the path of that object.  A delivered entry carries the id of
one of these groups (`_get_best_id_and_sub_path`), whose `pending` entry shows path and label.
Not used by the theorems; tied to the code by the correspondence run only.
-/
import Gql.Async.IncExec

namespace Gql.Async.IncExec
open Gql.Exec

/-- target path of an execution group and its delivery groups (path, label) -/
abbrev Ann := Path × List (Path × Option (List Nat))

/-- the defer usages alive at an object, each with the path of its delivery group -/
abbrev GUsages := List (DU × Path)

abbrev GChild :=
  Name → ArgMap → TypeRef → List FD → GUsages → Plan.DeferUsageSet → Path → Option (List Ann)

def gField (cx : Impl.Ctx) (parent : Name) (child : GChild) (usages : GUsages)
    (pset : Plan.DeferUsageSet) (path : Path) (fds : List FD) : Option (List Ann) :=
  match fds with
  | [] => none
  | fd0 :: _ =>
    let name := fd0.node.name
    if name == "__typename" then some []
    else
      match cx.schema.getField parent name with
      | none => some []
      | some fdef =>
        match Spec.coerceArgumentValues (specCtx cx) fd0.node.args fdef.args [] with
        | none => none
        | some args => child name args fdef.type fds usages pset path

def gKeys (cx : Impl.Ctx) (parent : Name) (child : GChild) (usages : GUsages)
    (pset : Plan.DeferUsageSet) (path : Path) (g : GFS) : List Name → Option (List Ann)
  | [] => some []
  | k :: rest =>
    match gfsGet k g with
    | none => none
    | some fds =>
      match gField cx parent child usages pset (path ++ [.key (keyOf k)]) fds,
            gKeys cx parent child usages pset path g rest with
      | some a, some b => some (a ++ b)
      | _, _ => none

def groupsOf (usages : GUsages) (s : Plan.DeferUsageSet) : List (Path × Option (List Nat)) :=
  s.filterMap (fun d => (usages[d]?).map (fun u => (u.2, u.1.label)))

def gSets (cx : Impl.Ctx) (parent : Name) (child : GChild) (usages : GUsages) (path : Path)
    (g : GFS) : List (Plan.DeferUsageSet × Plan.GroupedFieldSet Name) → Option (List Ann)
  | [] => some []
  | (s, part) :: rest =>
    match gKeys cx parent child usages s path g (part.map Prod.fst),
          gSets cx parent child usages path g rest with
    | some a, some b => some ((path, groupsOf usages s) :: (a ++ b))
    | _, _ => none

def gPlan (cx : Impl.Ctx) (parent : Name) (child : GChild) (usages : GUsages)
    (pset : Plan.DeferUsageSet) (path : Path) (st : CState) : Option (List Ann) :=
  let usages' := usages ++ st.newUsages.map (fun u => (u, path))
  let plan := Plan.buildExecutionPlan (parentOf (usages'.map Prod.fst)) (usages'.length + 1)
    (toPlan st.grouped) pset
  match gKeys cx parent child usages' pset path st.grouped (plan.groupedFieldSet.map Prod.fst),
        gSets cx parent child usages' path st.grouped plan.newGroupedFieldSets with
  | some a, some b => some (a ++ b)
  | _, _ => none

def gObject (cx : Impl.Ctx) (rt : Name) (fds : List FD) (usages : GUsages)
    (pset : Plan.DeferUsageSet) (path : Path) (child : GChild) : Option (List Ann) :=
  match collectSubfields cx rt fds usages.length with
  | none => none
  | some st => gPlan cx rt child usages pset path st

def gNamed (cx : Impl.Ctx) (t : TypeRef) (fds : List FD) (usages : GUsages)
    (pset : Plan.DeferUsageSet) (path : Path) (tn : TN) (child : GChild) : Option (List Ann) :=
  match t with
  | .list _ _ => none
  | .named n _ =>
    match cx.schema.kind n with
    | .leaf => some []
    | .abstract =>
      match Impl.ensureValidRuntimeType cx.schema n tn with
      | .ok rt => gObject cx rt fds usages pset path child
      | .error _ => none
    | .object => gObject cx n fds usages pset path child
    | _ => none

def nullG : GChild := fun _ _ _ _ _ _ _ => some []

mutual
def gValue (cx : Impl.Ctx) (t : TypeRef) (fds : List FD) (usages : GUsages)
    (pset : Plan.DeferUsageSet) (path : Path) : RVal → Option (List Ann)
  | .raise _ _ => none
  | .null => some []
  | .leaf _ => gNamed cx t fds usages pset path .missing nullG
  | .list items =>
    match t with
    | .list t' _ => gItems cx t' fds usages pset path 0 items
    | .named _ _ => gNamed cx t fds usages pset path .missing nullG
  | .obj tn f =>
    gNamed cx t fds usages pset path tn
      (fun name args t' fds' us ps p => gValue cx t' fds' us ps p (f name args))

def gItems (cx : Impl.Ctx) (t : TypeRef) (fds : List FD) (usages : GUsages)
    (pset : Plan.DeferUsageSet) (path : Path) (i : Nat) : List RVal → Option (List Ann)
  | [] => some []
  | x :: xs =>
    match gValue cx t fds usages pset (path ++ [.idx i]) x,
          gItems cx t fds usages pset path (i + 1) xs with
    | some a, some b => some (a ++ b)
    | _, _ => none
end

/-- target path and delivery groups of every execution group, in the order of `Cut.pieces` -/
def incGroups (ops : Ops) (s : Schema) (doc : Doc) (opName : Option Name) (vars : Vars)
    (root : RVal) : Option (List Ann) :=
  let cx : Impl.Ctx := { ops := ops, schema := s, doc := doc, vars := vars }
  match Impl.selectOp doc.ops opName with
  | none => none
  | some op =>
    match Impl.rootType s op.kind with
    | none => none
    | some rt =>
      match collectRoot cx rt op.sels with
      | none => none
      | some st =>
        gPlan cx rt (fun name args t fds us ps p => gValue cx t fds us ps p (root.child name args))
          [] [] [] st

end Gql.Async.IncExec
