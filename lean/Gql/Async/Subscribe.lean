import Gql.Text.Out
/-!
# Subscriptions: `subscribe`, `create_source_event_stream`, `map_source_to_response_event`

Model of `src/graphql/execution/execute.py` (`subscribe`, `create_source_event_stream`,
`execute_subscription`, `assert_event_stream`, `map_source_to_response_event`),
`async_iterables.py` (`map_async_iterable` + `aclosing`) and
`Executor.build_per_event_executor`.

The response stream is an async generator: it does nothing until the consumer calls
`__anext__` (a *pull*), then asks the source for one item, awaits the per-event execution and
yields.  The source is fed by a producer that the consumer does not control (a *push* makes
the next item of the source available); a pull on an empty source blocks until the next push.
The model is the transition system over `push | pull | close`; theorems quantify over every
sequence of these operations, i.e. over every interleaving of producer and consumer.

Per-event execution is a parameter (`exec : Ev → R`): the executor is modelled elsewhere
(C02).  What *is* modelled here is the state the subscription pipeline itself hands to it:
the per-event copy of the executor with fresh collected errors.
-/
namespace Gql.Async.Subscribe

/-! ## Per-event executors (`build_per_event_executor`, `execute_subscription_event`) -/

/-- `ExecutionResult(data, errors)`. -/
structure Response (D E : Type) where
  data : D
  errors : List E
  deriving DecidableEq, Repr

/-- The part of `Executor` the subscription pipeline touches: root value and the
`CollectedErrors` accumulator (everything else is shared by `copy(self)`). -/
structure Executor (Ev E : Type) where
  rootValue : Ev
  collectedErrors : List E
  deriving Repr

/-- `build_per_event_executor`: shallow copy, `root_value = payload`, fresh `CollectedErrors()`. -/
def buildPerEventExecutor {Ev E : Type} (ex : Executor Ev E) (payload : Ev) : Executor Ev E :=
  { ex with rootValue := payload, collectedErrors := [] }

/-- `execute_operation` on an executor: `run` is what executing the operation's selection set
with a given root value produces (data, field errors in order of collection); the errors are
*appended to the executor's accumulator* and the response reports the accumulator. -/
def executeOperation {Ev D E : Type} (run : Ev → D × List E) (ex : Executor Ev E) : Response D E :=
  let r := run ex.rootValue
  { data := r.1, errors := ex.collectedErrors ++ r.2 }

/-- The `callback` of `map_source_to_response_event`. -/
def execEvent {Ev D E : Type} (run : Ev → D × List E) (ex : Executor Ev E) (payload : Ev) :
    Response D E :=
  executeOperation run (buildPerEventExecutor ex payload)

/-- What a pipeline *without* the fresh accumulator would do (used only to show that the
isolation theorem is not vacuous): the accumulator is threaded through the events. -/
def execEventsShared {Ev D E : Type} (run : Ev → D × List E) :
    List E → List Ev → List (Response D E)
  | _, [] => []
  | acc, ev :: rest =>
    let r := executeOperation run { rootValue := ev, collectedErrors := acc }
    r :: execEventsShared run r.errors rest

/-! ## The source and the response stream -/

/-- How the source finishes after its events. -/
inductive Term (X : Type) where
  | finish            -- `StopAsyncIteration`
  | raise (x : X)     -- the source iterator raises `x`
  deriving DecidableEq, Repr

/-- What one `__anext__` of the source produces. -/
inductive Item (Ev X : Type) where
  | ev (e : Ev)
  | stop
  | fail (x : X)
  deriving DecidableEq, Repr

/-- What one `__anext__` of the response stream produces for the consumer. -/
inductive Delivered (R X : Type) where
  | resp (r : R)
  | done              -- `StopAsyncIteration`
  | exc (x : X)
  deriving DecidableEq, Repr

structure Source (Ev X : Type) where
  events : List Ev
  term : Term X
  deriving Repr

def Term.item {Ev X : Type} : Term X → Item Ev X
  | .finish => .stop
  | .raise x => .fail x

/-- Everything the source will ever produce, in order. -/
def Source.items {Ev X : Type} (s : Source Ev X) : List (Item Ev X) :=
  s.events.map Item.ev ++ [s.term.item]

/-- What the consumer is handed for a source item. -/
def outOf {Ev R X : Type} (exec : Ev → R) : Item Ev X → Delivered R X
  | .ev e => .resp (exec e)
  | .stop => .done
  | .fail x => .exc x

/-- The specification of the response stream (property text): one response per event in source
order, each `exec` of that event, then the end of the source or its exception. -/
def expected {Ev R X : Type} (exec : Ev → R) (s : Source Ev X) : List (Delivered R X) :=
  s.events.map (fun e => Delivered.resp (exec e)) ++
    [match s.term with | .finish => .done | .raise x => .exc x]

inductive Op where
  | push    -- producer: the source's next item becomes available
  | pull    -- consumer: `__anext__` on the response stream
  | close   -- consumer: `aclose()` on the response stream
  deriving DecidableEq, Repr

structure St (Ev R X : Type) where
  /-- items the producer has not emitted yet -/
  pending : List (Item Ev X)
  /-- emitted, not yet taken by `map_async_iterable` -/
  queue : List (Item Ev X)
  /-- a consumer `__anext__` is blocked in the source's `__anext__` -/
  waiting : Bool
  /-- the generator body has been entered (first `__anext__` happened) -/
  started : Bool
  /-- the response generator returned, raised, or was closed -/
  finished : Bool
  /-- the consumer closed the stream before the source finished -/
  closedEarly : Bool
  /-- number of `aclose()` calls on the source (`aclosing.__aexit__`) -/
  srcClosed : Nat
  /-- results of the consumer's `__anext__` calls, in order -/
  out : List (Delivered R X)

def init {Ev R X : Type} (s : Source Ev X) : St Ev R X :=
  { pending := s.items, queue := [], waiting := false, started := false, finished := false,
    closedEarly := false, srcClosed := 0, out := [] }

/-- `map_async_iterable` receives one source item: `yield await callback(item)`; on
`StopAsyncIteration` / an exception the `async with aclosing(...)` block is left (one `aclose()`
of the source) and the generator finishes. -/
def deliver {Ev R X : Type} (exec : Ev → R) (s : St Ev R X) (it : Item Ev X) : St Ev R X :=
  match it with
  | .ev e => { s with out := s.out ++ [.resp (exec e)], waiting := false }
  | .stop => { s with out := s.out ++ [.done], waiting := false, finished := true,
                       srcClosed := s.srcClosed + 1 }
  | .fail x => { s with out := s.out ++ [.exc x], waiting := false, finished := true,
                         srcClosed := s.srcClosed + 1 }

def step {Ev R X : Type} (exec : Ev → R) (s : St Ev R X) : Op → St Ev R X
  | .push =>
    match s.pending with
    | [] => s
    | it :: rest =>
      if s.waiting then deliver exec { s with pending := rest } it
      else { s with pending := rest, queue := s.queue ++ [it] }
  | .pull =>
    if s.finished then { s with out := s.out ++ [.done] }   -- a finished generator stays finished
    else if s.waiting then s   -- `__anext__` while one is running: RuntimeError, never issued
    else
      match s.queue with
      | [] => { s with waiting := true, started := true }
      | it :: q => deliver exec { s with queue := q, started := true } it
  | .close =>
    if s.finished || s.waiting then s   -- `aclose()` while `__anext__` runs: never issued
    else
      -- a generator that was never started is closed without running its body:
      -- `aclosing.__aexit__` runs only if the `async with` block had been entered
      { s with finished := true, closedEarly := true,
               srcClosed := if s.started then s.srcClosed + 1 else s.srcClosed }

def run {Ev R X : Type} (exec : Ev → R) (s : St Ev R X) : List Op → St Ev R X
  | [] => s
  | op :: ops => run exec (step exec s op) ops

/-- The `ExecutionResult`s among what the consumer received. -/
def responsesOf {R X : Type} : List (Delivered R X) → List R
  | [] => []
  | .resp r :: rest => r :: responsesOf rest
  | _ :: rest => responsesOf rest

/-- "Let everything through": the producer emits all that is left, then the consumer pulls
once per available item. -/
def drainOps {Ev R X : Type} (s : St Ev R X) : List Op :=
  List.replicate s.pending.length Op.push ++
    List.replicate (s.queue.length + s.pending.length) Op.pull

/-- Operations that do something in a state: the producer can emit while items are left, the
consumer can pull unless its previous pull is still blocked.  (`close` is the consumer giving
up; the progress theorem is about a consumer that keeps pulling.) -/
def enabled {Ev R X : Type} (s : St Ev R X) : Op → Bool
  | .push => !s.pending.isEmpty
  | .pull => s.finished || !s.waiting
  | .close => false

/-- A schedule all of whose operations are enabled when they are issued. -/
def EnabledRun {Ev R X : Type} (exec : Ev → R) : St Ev R X → List Op → Prop
  | _, [] => True
  | s, op :: ops => enabled s op = true ∧ EnabledRun exec (step exec s op) ops

/-- Upper bound on the number of enabled operations before the stream finishes. -/
def fuel {Ev R X : Type} (s : St Ev R X) : Nat :=
  2 * s.pending.length + s.queue.length + (if s.waiting then 0 else 1)

/-! ## Creating the source (`subscribe`, `create_source_event_stream`, `execute_subscription`) -/

/-- Ways `Executor.build` refuses the request (returns a list of errors). -/
inductive BuildFault where
  | noOperation
  | variableCoercion (nErrors : Nat)   -- `nErrors + 1` coercion errors
  deriving DecidableEq, Repr

/-- Ways creating the source event stream fails inside `execute_subscription`.  All of them are
raised as (or wrapped by `located_error` into) `GraphQLError`. -/
inductive CreateFault where
  | noSubscriptionType     -- schema has no subscription root type
  | emptyRootSelection     -- every root field skipped (fixed code: request error)
  | unknownField           -- first root field not defined on the subscription type
  | argumentCoercion       -- `get_argument_values` raises
  | resolverRaises         -- the `subscribe` resolver raises (sync, or its awaitable rejects)
  | resolverReturnsError   -- it returns an `Exception` instance (`assert_event_stream` raises it)
  | notAsyncIterable       -- it returns something that is not an async iterable
  deriving DecidableEq, Repr

/-- What the request asks `subscribe` to do. -/
inductive Request (Ev X : Type) where
  | badBuild (f : BuildFault)
  | fault (f : CreateFault) (awaited : Bool)        -- `awaited`: the resolver returned an awaitable
  | source (s : Source Ev X) (awaited : Bool)

/-- `subscribe()` returns (possibly through an awaitable) either an `ExecutionResult` with
`data = None` and `n` errors, or the response stream over a source. -/
inductive Outcome (Ev X : Type) where
  | errorsOnly (nErrors : Nat)
  | stream (s : Source Ev X)

/-- `execute_subscription`: `err ()` is a raised `GraphQLError`. -/
def executeSubscription {Ev X : Type} : Request Ev X → Gql.Out Unit (Source Ev X)
  | .badBuild _ => .crash "unreachable: build failed"   -- not called when build failed
  | .fault _ _ => .err ()
  | .source s _ => .ok s

/-- `create_source_event_stream`: `except GraphQLError as error: ExecutionResult(None, [error])`,
on the synchronous path and inside `await_event_stream` alike. -/
def createSourceEventStream {Ev X : Type} (r : Request Ev X) : Gql.Out Unit (Outcome Ev X) :=
  match executeSubscription r with
  | .ok s => .ok (.stream s)
  | .err () => .ok (.errorsOnly 1)
  | .crash c => .crash c

def subscribe {Ev X : Type} : Request Ev X → Gql.Out Unit (Outcome Ev X)
  | .badBuild .noOperation => .ok (.errorsOnly 1)
  | .badBuild (.variableCoercion n) => .ok (.errorsOnly (n + 1))
  | r => createSourceEventStream r

end Gql.Async.Subscribe
