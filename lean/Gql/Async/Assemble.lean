/-
The incremental-delivery *format* (GraphQL incremental delivery RFC, the response shape that
`graphql-core` emits through `.formatted`):

  initial     {data, errors?, pending:[{id,path,label?}], hasNext}
  subsequent  {pending?:[…], incremental?:[{id, subPath?, data, errors?} | {id, items, errors?}],
               completed?:[{id, errors?}], hasNext}

and the client-side merge it prescribes (`Assemble.apply`): a defer entry merges the keys of its
`data` into the object at `pending[id].path ++ subPath`; a stream entry appends its `items` to the
list at `pending[id].path`.  Every way the merge can go wrong is an explicit failure outcome.

This file is a *specification*: it is written from the format, not from the Python code, and is the
oracle that the check runs (through the driver) on what the implementation emits.

Strings are lists of code points.  Objects are association lists in arrival order.
-/
namespace Gql.Async

/-- JSON values (no floats: the generated schemas use String / Int / Boolean / ID only). -/
inductive J where
  | null
  | bool (b : Bool)
  | int (i : Int)
  | str (s : List Nat)
  | arr (xs : List J)
  | obj (kvs : List (List Nat × J))
  deriving Repr, Inhabited

/-- A response-path segment: field key or list index. -/
inductive Seg where
  | key (k : List Nat)
  | idx (i : Nat)
  deriving Repr, DecidableEq, Inhabited

abbrev Path := List Seg

/-- Python `dict.get`-like first-match lookup in an association list. -/
def lookup (k : List Nat) : List (List Nat × J) → Option J
  | [] => none
  | (k', v) :: rest => if k' = k then some v else lookup k rest

/-- Replace the value of the first entry with key `k` (no-op when absent). -/
def setKey (k : List Nat) (v : J) : List (List Nat × J) → List (List Nat × J)
  | [] => []
  | (k', v') :: rest => if k' = k then (k', v) :: rest else (k', v') :: setKey k v rest

def hasKey (k : List Nat) (kvs : List (List Nat × J)) : Bool := (lookup k kvs).isSome

/-! ## Equality of JSON values, object key order ignored, list order significant -/

mutual
/-- `a` and `b` are the same JSON value when objects are read as unordered maps.
(For objects without duplicate keys; `eqvFields` checks that every entry of the left object has an
equivalent entry on the right, and the lengths are compared by the caller.) -/
def J.eqv : J → J → Bool
  | .null, .null => true
  | .bool a, .bool b => a == b
  | .int a, .int b => a == b
  | .str a, .str b => a == b
  | .arr xs, .arr ys => eqvList xs ys
  | .obj a, .obj b => a.length == b.length && eqvFields a b
  | _, _ => false
def eqvList : List J → List J → Bool
  | [], [] => true
  | x :: xs, y :: ys => J.eqv x y && eqvList xs ys
  | _, _ => false
def eqvFields : List (List Nat × J) → List (List Nat × J) → Bool
  | [], _ => true
  | (k, v) :: rest, b =>
    (match lookup k b with
     | some v' => J.eqv v v'
     | none => false) && eqvFields rest b
end

/-- No object anywhere in the value has two entries with the same key. -/
def keysNodup : List (List Nat × J) → Bool
  | [] => true
  | (k, _) :: rest => !hasKey k rest && keysNodup rest

mutual
def J.wf : J → Bool
  | .arr xs => wfList xs
  | .obj kvs => keysNodup kvs && wfFields kvs
  | _ => true
def wfList : List J → Bool
  | [] => true
  | x :: xs => J.wf x && wfList xs
def wfFields : List (List Nat × J) → Bool
  | [] => true
  | (_, v) :: rest => J.wf v && wfFields rest
end

/-! ## The merge -/

inductive Fail where
  /-- an incremental entry names an id that is not currently pending -/
  | unknownId
  /-- `path ++ subPath` does not resolve in the data assembled so far -/
  | targetMissing
  /-- a defer entry targets something that is not an object -/
  | notObject
  /-- a stream entry targets something that is not a list -/
  | notList
  /-- a defer entry carries a key that the target already has, with a different value -/
  | overwrite
  /-- a defer entry carries a key that the target already has, with the same value
      (the same data delivered twice) -/
  | duplicate
  /-- `data` of a defer entry is not an object -/
  | badData
  /-- a `pending` entry re-announces an id that is currently pending -/
  | idReused
  deriving Repr, DecidableEq, Inhabited

def Fail.name : Fail → String
  | .unknownId => "unknown-id"
  | .targetMissing => "target-missing"
  | .notObject => "not-an-object"
  | .notList => "not-a-list"
  | .overwrite => "key-overwritten"
  | .duplicate => "key-delivered-twice"
  | .badData => "data-not-an-object"
  | .idReused => "id-reused"

/-- Apply `f` to the sub-value at `p`, rebuilding the spine.  Structural in the path. -/
def updateAt (f : J → Except Fail J) : Path → J → Except Fail J
  | [], j => f j
  | .key k :: p, .obj kvs =>
    match lookup k kvs with
    | none => .error .targetMissing
    | some child =>
      match updateAt f p child with
      | .ok c' => .ok (.obj (setKey k c' kvs))
      | .error e => .error e
  | .idx i :: p, .arr xs =>
    match xs[i]? with
    | none => .error .targetMissing
    | some child =>
      match updateAt f p child with
      | .ok c' => .ok (.arr (xs.set i c'))
      | .error e => .error e
  | _ :: _, _ => .error .targetMissing

/-- Add the entries of `add` to the object entries `tgt`; an existing key is a failure. -/
def mergeKeys (tgt : List (List Nat × J)) : List (List Nat × J) → Except Fail (List (List Nat × J))
  | [] => .ok tgt
  | (k, v) :: rest =>
    match lookup k tgt with
    | some old => if J.eqv old v then .error .duplicate else .error .overwrite
    | none => mergeKeys (tgt ++ [(k, v)]) rest

def mergeInto (add : List (List Nat × J)) : J → Except Fail J
  | .obj kvs =>
    match mergeKeys kvs add with
    | .ok kvs' => .ok (.obj kvs')
    | .error e => .error e
  | _ => .error .notObject

def appendInto (items : List J) : J → Except Fail J
  | .arr xs => .ok (.arr (xs ++ items))
  | _ => .error .notList

/-- One entry of `incremental`. `errs` are the paths of the entry's `errors`. -/
inductive IncE where
  | defer (id : List Nat) (subPath : Path) (data : J) (errs : List Path)
  | stream (id : List Nat) (items : List J) (errs : List Path)
  deriving Repr, Inhabited

structure PendingE where
  id : List Nat
  path : Path
  deriving Repr, Inhabited

structure CompletedE where
  id : List Nat
  /-- `none`: completed successfully; `some paths`: completed with errors -/
  errors : Option (List Path)
  deriving Repr, Inhabited

structure Payload where
  pending : List PendingE
  incremental : List IncE
  completed : List CompletedE
  hasNext : Bool
  deriving Repr, Inhabited

/-- What a client holds while it consumes the payload stream. -/
structure State where
  data : J
  /-- ids announced and not yet completed, with their paths -/
  pending : List (List Nat × Path)
  /-- paths of all errors received together with data (initial `errors`, entries' `errors`) -/
  errors : List Path
  /-- paths of announced ids that were completed with errors -/
  failedAt : List Path
  /-- error paths carried by `completed` entries -/
  completedErrors : List Path
  /-- number of completed-with-errors entries whose id had never been announced -/
  failedUnannounced : Nat
  /-- number of completed-without-errors entries whose id was not pending -/
  completedUnknown : Nat
  deriving Repr, Inhabited

def pendingPath (id : List Nat) : List (List Nat × Path) → Option Path
  | [] => none
  | (i, p) :: rest => if i = id then some p else pendingPath id rest

/-- The format's merge of one incremental entry into the data assembled so far. -/
def apply (st : State) : IncE → Except Fail State
  | .defer id sub data errs =>
    match pendingPath id st.pending with
    | none => .error .unknownId
    | some p =>
      match data with
      | .obj add =>
        match updateAt (mergeInto add) (p ++ sub) st.data with
        | .ok d => .ok { st with data := d, errors := st.errors ++ errs }
        | .error e => .error e
      | _ => .error .badData
  | .stream id items errs =>
    match pendingPath id st.pending with
    | none => .error .unknownId
    | some p =>
      match updateAt (appendInto items) p st.data with
      | .ok d => .ok { st with data := d, errors := st.errors ++ errs }
      | .error e => .error e

def announce (st : State) : List PendingE → Except Fail State
  | [] => .ok st
  | e :: rest =>
    match pendingPath e.id st.pending with
    | some _ => .error .idReused
    | none => announce { st with pending := st.pending ++ [(e.id, e.path)] } rest

def applyAll (st : State) : List IncE → Except Fail State
  | [] => .ok st
  | e :: rest =>
    match apply st e with
    | .ok st' => applyAll st' rest
    | .error f => .error f

def complete (st : State) : List CompletedE → State
  | [] => st
  | c :: rest =>
    let st' : State :=
      match pendingPath c.id st.pending, c.errors with
      | some p, some errs =>
        { st with pending := st.pending.filter (fun q => q.1 ≠ c.id),
                  failedAt := st.failedAt ++ [p], completedErrors := st.completedErrors ++ errs }
      | some _, none => { st with pending := st.pending.filter (fun q => q.1 ≠ c.id) }
      | none, some errs =>
        { st with failedUnannounced := st.failedUnannounced + 1,
                  completedErrors := st.completedErrors ++ errs }
      | none, none => { st with completedUnknown := st.completedUnknown + 1 }
    complete st' rest

/-- One subsequent payload: `pending` first, then `incremental`, then `completed`. -/
def applyPayload (st : State) (p : Payload) : Except Fail State :=
  match announce st p.pending with
  | .error f => .error f
  | .ok st1 =>
    match applyAll st1 p.incremental with
    | .error f => .error f
    | .ok st2 => .ok (complete st2 p.completed)

def initState (data : J) (errors : List Path) : State :=
  { data := data, pending := [], errors := errors, failedAt := [], completedErrors := [],
    failedUnannounced := 0, completedUnknown := 0 }

/-- Fold a whole payload stream; on failure report the index of the offending payload. -/
def assembleFrom (st : State) (i : Nat) : List Payload → Except (Fail × Nat) State
  | [] => .ok st
  | p :: rest =>
    match applyPayload st p with
    | .ok st' => assembleFrom st' (i + 1) rest
    | .error f => .error (f, i)

def assemble (data : J) (errors : List Path) (initialPending : List PendingE)
    (rest : List Payload) : Except (Fail × Nat) State :=
  match announce (initState data errors) initialPending with
  | .error f => .error (f, 0)
  | .ok st => assembleFrom st 1 rest

/-! ## The property's two clauses as decision procedures -/
namespace Spec

def isPrefix : Path → Path → Bool
  | [], _ => true
  | _ :: _, [] => false
  | a :: p, b :: q => a == b && isPrefix p q

/-- Evidence accompanying an assembled response. -/
structure Evidence where
  /-- paths of the errors delivered together with data -/
  errors : List Path
  /-- paths of announced ids completed with errors that may explain a missing key -/
  failedFragments : List Path
  /-- paths of announced ids completed with errors that may explain a shortened list -/
  failedStreams : List Path
  /-- some completed-with-errors entry carried an id that had never been announced -/
  failedUnannounced : Bool

/-- A `null` that the reference does not have must lie on the path of a delivered error. -/
def nullJustified (ev : Evidence) (p : Path) : Bool := ev.errors.any (fun e => isPrefix p e)

/-- A missing key must lie at or below the path of an announced id that was completed with
errors (or be explained by a failed fragment that was never announced). -/
def withheldOk (ev : Evidence) (p : Path) : Bool :=
  ev.failedFragments.any (fun q => isPrefix q p) || ev.failedUnannounced

/-- A shortened list must be the list of a stream that was completed with errors. -/
def tailWithheldOk (ev : Evidence) (p : Path) : Bool := ev.failedStreams.any (fun q => q == p)

mutual
/-- `asm` is obtainable from the non-propagating reference `ref` by replacing subtrees with
`null` (each on the path of a delivered error), leaving out keys (each below a fragment
completed with errors) and cutting list tails (each the list of a stream completed with errors).
`p` is reversed current path.

What `approx` is *not*: it is a relation between the reference and data that has already been
assembled, so it is only consulted after every `apply` of the payload stream has succeeded.  The
known finding `workqueue-prunes-promoted-group-with-undelivered-shared-task` never gets that far:
the work queue drops a promoted deferred fragment F2 as "empty" (its only task — the object
`hero.friend`, shared with the still pending fragment L1 — has completed but has not been
delivered), announces F2's child N at path `["hero","friend"]` and delivers `{id}` for it while the
client's data is still `{hero: {}}`.  `apply` rejects that entry with `targetMissing`: the format
says to merge into the object at `pending[id].path ++ subPath`, and there is no such object yet.
Nothing was withheld and nothing was nulled — every field of the reference is eventually sent, no
error is reported, no fragment is completed with errors — so none of `approx`'s three allowances
(null on the path of a delivered error, key below a fragment completed with errors, list tail of a
stream completed with errors) is even in play; the defect is in the *order* of delivery (a child
piece before the piece that creates its target), which is a failure of the first clause's
"applying the subsequent payloads as the format prescribes", not an approximation. -/
def approx (ev : Evidence) (p : Path) : J → J → Bool
  | .null, .null => true
  | _, .null => nullJustified ev p.reverse
  | .bool a, .bool b => a == b
  | .int a, .int b => a == b
  | .str a, .str b => a == b
  | .arr rs, .arr xs =>
    approxList ev p 0 rs xs && (xs.length == rs.length || tailWithheldOk ev p.reverse)
  | .obj rkvs, .obj akvs =>
    keysNodup akvs && akvs.all (fun kv => hasKey kv.1 rkvs) && approxFields ev p rkvs akvs
  | _, _ => false
/-- elementwise; the assembled list may be shorter, never longer -/
def approxList (ev : Evidence) (p : Path) (i : Nat) : List J → List J → Bool
  | _, [] => true
  | [], _ :: _ => false
  | r :: rs, x :: xs => approx ev (.idx i :: p) r x && approxList ev p (i + 1) rs xs
/-- every reference entry is either present and approximated, or legitimately withheld -/
def approxFields (ev : Evidence) (p : Path) : List (List Nat × J) → List (List Nat × J) → Bool
  | [], _ => true
  | (k, rv) :: rest, akvs =>
    (match lookup k akvs with
     | some av => approx ev (.key k :: p) rv av
     | none => withheldOk ev p.reverse) && approxFields ev p rest akvs
end

/-- The sub-value at a path. -/
def getAt : Path → J → Option J
  | [], j => some j
  | .key k :: p, .obj kvs =>
    match lookup k kvs with
    | some c => getAt p c
    | none => none
  | .idx i :: p, .arr xs =>
    match xs[i]? with
    | some c => getAt p c
    | none => none
  | _ :: _, _ => none

def isList : Option J → Bool
  | some (.arr _) => true
  | _ => false

/-- First clause of the property (reference error-free, or propagation disabled): the assembled
data is the reference, except that the list of a stream whose *source raised* (paths `cut`, the
reference holding the items produced before the raise) may stop earlier, that stream being
completed with errors.  No `null` replacement, no missing key. -/
def exact (cut failedAt : List Path) (ref asm : J) : Bool :=
  approx { errors := [], failedFragments := [], failedUnannounced := false,
           failedStreams := cut.filter (fun p => failedAt.contains p) } [] ref asm

/-- Every stream whose source raised and whose list is present in the assembled data must have
been completed with errors. -/
def raisedStreamsReported (cut failedAt : List Path) (asm : J) : Bool :=
  cut.all (fun p => !isList (getAt p asm) || failedAt.contains p)

/-- The error paths that do not lie strictly below another error path of the same response
(an error below a position that another error already nulled need not be reported, and work
below a nulled position may legitimately be cancelled). -/
def topmost (ps : List Path) : List Path :=
  ps.filter (fun p => !ps.any (fun q => q != p && isPrefix q p))

/-- the same *set* of topmost error paths -/
def samePaths (a b : List Path) : Bool :=
  (topmost a).all (fun p => (topmost b).contains p) && (topmost b).all (fun p => (topmost a).contains p)

end Spec
end Gql.Async
