import Gql.Async.Proc
/-!
# Trace monitor for `Proc`

Executable, path-addressed versions of the transitions of `Step` / `SStep`, and a monitor that
replays an observed event trace of the implementation (resolver invocations `S`, completions of
harness awaitables `R`, observed cancellations `C`, delivery of the response `D`) against the
model: every observed event must correspond to an enabled transition, and at the end the model
must be able to reach a final configuration; its response is the prediction.
-/
namespace Gql.Async

/-- Apply `op ab sub` to the sub-forest starting at the member addressed by `p`
(`ab`: the parent of that member abandons its children). -/
def modifyAt (op : Bool → Cfg → Option Cfg) : Bool → Cfg → Path → Option Cfg
  | _, .nil, _ => none
  | _, .cons _ _ _ _ _ _, [] => none
  | ab, f@(.cons _ _ _ _ _ _), [0] => op ab f
  | _, .cons nn g res st ch rest, 0 :: j :: p =>
    if st.launched then
      (modifyAt op st.abandons ch (j :: p)).map (fun ch' => .cons nn g res st ch' rest)
    else none
  | ab, .cons nn g res st ch rest, (i + 1) :: p =>
    (modifyAt op ab rest (i :: p)).map (fun rest' => .cons nn g res st ch rest')

def opResolve (_ab : Bool) : Cfg → Option Cfg
  | .cons nn g res (.wait (k + 1)) ch rest =>
    some (.cons nn g res (if k = 0 then .ready else .wait k) ch rest)
  | _ => none

def opFire (_ab : Bool) : Cfg → Option Cfg
  | .cons nn g res .ready ch rest =>
    let r := fireWith nn res ch (launchF ch)
    some (.cons nn g res r.1 r.2 rest)
  | _ => none

def opComplete (_ab : Bool) : Cfg → Option Cfg
  | .cons nn g res .run ch rest =>
    if hasFailed ch then some (.cons nn g res (errSt nn) ch rest)
    else match forestVals ch with
      | some v => some (.cons nn g res (.done v) ch rest)
      | none => none
  | _ => none

def opCancel (ab : Bool) : Cfg → Option Cfg
  | .cons nn g res st ch rest =>
    if ab && st.active then some (.cons nn g res .cancelled (cancelF ch) rest) else none
  | .nil => none

/-- serial root: start member `j` of the children of the root wrapper -/
def opStartSerial (j : Nat) (_ab : Bool) : Cfg → Option Cfg
  | .cons nn g res .run ch rest =>
    if prefixDone ch && hasIdle ch && firstIdle ch == j then some (.cons nn g res .run (startNext ch) rest)
    else none
  | _ => none

/-- paths (document order) of the nodes that are idle in `old` and started in `new`, and are
fields (children of an object), i.e. the resolver invocations a transition causes -/
def newStarts (pfx : Path) (isField : Bool) : Nat → Cfg → Cfg → List Path
  | _, .nil, _ => []
  | _, _, .nil => []
  | i, .cons _ _ _ st ch rest, .cons _ _ res' st' ch' rest' =>
    let here := if st == .idle && st' != .idle && isField then [pfx ++ [i]] else []
    let below := match res' with
      | .comp l => newStarts (pfx ++ [i]) (!l) 0 ch ch'
      | _ => []
    here ++ below ++ newStarts pfx isField (i + 1) rest rest'

/-- all positions with their state, parents first -/
def positions (pfx : Path) : Nat → Cfg → List (Path × NodeSt)
  | _, .nil => []
  | i, .cons _ _ _ st ch rest =>
    (pfx ++ [i], st) :: (positions (pfx ++ [i]) 0 ch ++ positions pfx (i + 1) rest)

structure MState where
  cfg : Cfg
  queue : List Path := []
  steps : Nat := 0
  delivered : Option Val := none

/-- Fire every enabled transition that causes no resolver invocation: resumptions of nodes
whose completion starts no field, completions and failures of running nodes. -/
def settle : Nat → MState → MState
  | 0, m => m
  | fuel + 1, m =>
    let cands := positions [] 0 m.cfg
    let try1 : Option Cfg := cands.findSome? (fun (p, st) =>
      match st with
      | .ready =>
        match modifyAt opFire false m.cfg p with
        | some c' => if (newStarts [] false 0 m.cfg c').isEmpty then some c' else none
        | none => none
      | .run => modifyAt opComplete false m.cfg p
      | _ => none)
    match try1 with
    | some c' => settle fuel { m with cfg := c', steps := m.steps + 1 }
    | none => m

def fuelOf (c : Cfg) : Nat := measure c + 1

inductive Ev where
  | R (p : Path)
  | S (p : Path)
  | C (p : Path)
  | D

def stateAt (c : Cfg) (p : Path) : Option NodeSt := (nodeAt c p).map (fun x => x.2.2.1)

/-- prefixes of a path, shortest first, excluding the empty one -/
def prefixes (p : Path) : List Path := (List.range p.length).map (fun n => p.take (n + 1))

/-- cancel at the topmost enabled position along `p`; nothing to do when the task (or one
above it) has already been cancelled -/
def cancelAlong (c : Cfg) (p : Path) : Option Cfg :=
  if (prefixes p).any (fun q => stateAt c q == some .cancelled) then some c
  else (prefixes p).findSome? (fun q => modifyAt opCancel false c q)

/-- the node is a list item that the list loop never reached (the loop was aborted by an
earlier item): its awaitable exists all the same and may complete, with no effect -/
def isUnreachedItem (c : Cfg) (p : Path) : Bool :=
  match stateAt c p, nodeAt c p.dropLast with
  | some .idle, some (_, .comp true, _, _) => true
  | _, _ => false

def stepEv (serial : Bool) (m : MState) : Ev → Except String MState
  | .R p =>
    if !m.queue.isEmpty then .error "resolver invocations outstanding before a completion"
    else match modifyAt opResolve false m.cfg p with
      | some c' => .ok (settle (fuelOf c') { m with cfg := c', steps := m.steps + 1 })
      | none =>
        if isUnreachedItem m.cfg p then .ok m
        else .error "completion of an awaitable that is not pending in the model"
  | .S p =>
    match m.queue with
    | q :: qs => if q == p then .ok { m with queue := qs } else .error "resolver invoked out of order"
    | [] =>
      -- the nearest ancestor that is ready to resume, or the serial root starting its next field
      let anc := (prefixes p).reverse.drop 1
      let fired : Option Cfg := anc.findSome? (fun q =>
        match stateAt m.cfg q with
        | some .ready => modifyAt opFire false m.cfg q
        | _ => none)
      let fired : Option Cfg := match fired with
        | some c' => some c'
        | none =>
          match serial, p with
          | true, [0, j] => modifyAt (opStartSerial j) false m.cfg [0]
          | _, _ => none
      match fired with
      | none => .error "resolver invoked but no transition of the model starts it"
      | some c' =>
        match newStarts [] false 0 m.cfg c' with
        | q :: qs =>
          if q == p then .ok (settle (fuelOf c') { m with cfg := c', queue := qs, steps := m.steps + 1 })
          else .error "resolver invoked is not the first one the model starts"
        | [] => .error "the enabled transition starts no resolver"
  | .C p =>
    if !m.queue.isEmpty then .error "resolver invocations outstanding before a cancellation"
    else match cancelAlong m.cfg p with
      | some c' => .ok (settle (fuelOf c') { m with cfg := c', steps := m.steps + 1 })
      | none => .error "cancellation observed where no failed or nulled parent abandons the task"
  | .D =>
    match rootData m.cfg with
    | some v => .ok { m with delivered := some v }
    | none => .error "response delivered before the root completed in the model"

/-- After the trace: whatever is still active must be abandoned work that can be cancelled. -/
def finish : Nat → MState → Except String MState
  | 0, m => .ok m
  | fuel + 1, m =>
    match (positions [] 0 m.cfg).find? (fun (_, st) => st.active) with
    | none => .ok m
    | some (p, _) =>
      match cancelAlong m.cfg p with
      | some c' => finish fuel (settle (fuelOf c') { m with cfg := c', steps := m.steps + 1 })
      | none => .error ("a live task never completed: " ++ toString p)

def runTrace (serial : Bool) (m : MState) : Nat → List Ev → Except String MState
  | _, [] =>
    if !m.queue.isEmpty then .error "resolver invocations outstanding at the end of the trace"
    else finish (fuelOf m.cfg) m
  | n, e :: es =>
    match stepEv serial m e with
    | .ok m' => runTrace serial m' (n + 1) es
    | .error s => .error (toString n ++ " " ++ s)

/-- Initial configuration of the monitor for a root forest. -/
def initCfg (serial : Bool) (fields : Cfg) : Cfg :=
  if serial then .cons false 0 (.comp false) .run fields .nil else initQuery fields

end Gql.Async
