import Gql.Async.Proc
/-!
# Trace monitor for `Proc`

Executable, path-addressed versions of the transitions of `Step` / `SStep`, and a monitor that
replays an observed event trace of the implementation (resolver invocations `S`, completions of
harness awaitables `R`, observed cancellations `C`, delivery of the response `D`) against the
model: every observed event must correspond to an enabled transition, and at the end the model
must be able to reach a configuration in which only abandoned work is left; its response is the
prediction.

The monitor chooses *which* enabled transitions explain an event (search strategy, trusted);
every single move is a transition of `Step` / `SStep` (`Gql/Proofs/Monitor.lean`).
-/
namespace Gql.Async

/-- Apply `op sub` to the sub-forest starting at the member addressed by `p`. -/
def modifyAt (op : Cfg → Option Cfg) : Cfg → Path → Option Cfg
  | .nil, _ => none
  | .cons _ _ _ _ _ _, [] => none
  | f@(.cons _ _ _ _ _ _), [0] => op f
  | .cons nn g res st ch rest, 0 :: j :: p =>
    if st.launched then
      (modifyAt op ch (j :: p)).map (fun ch' => .cons nn g res st ch' rest)
    else none
  | .cons nn g res st ch rest, (i + 1) :: p =>
    (modifyAt op rest (i :: p)).map (fun rest' => .cons nn g res st ch rest')

def opResolve : Cfg → Option Cfg
  | .cons nn g res (.wait (k + 1)) ch rest =>
    some (.cons nn g res (if k = 0 then .ready else .wait k) ch rest)
  | _ => none

def opFire : Cfg → Option Cfg
  | .cons nn g res .ready ch rest =>
    let r := fireWith nn res ch (launchF ch)
    some (.cons nn g res r.1 r.2 rest)
  | _ => none

def opComplete : Cfg → Option Cfg
  | .cons nn g res .run ch rest =>
    match forestVals ch with
    | some v => some (.cons nn g res (.done v) ch rest)
    | none => none
  | _ => none

def opFail : Cfg → Option Cfg
  | .cons nn g res .run ch rest =>
    if hasFailed ch then some (.cons nn g res .failing (cancelU ch) rest) else none
  | _ => none

def opAbort : Cfg → Option Cfg
  | .cons nn g (.comp .aiter) .run ch rest =>
    if hasFailed ch then some (.cons nn g (.comp .aiter) (errSt nn (hasPending ch)) ch rest) else none
  | _ => none

def opFailDone : Cfg → Option Cfg
  | .cons nn g res .failing ch rest =>
    if hasPending ch then none else some (.cons nn g res (errSt nn false) ch rest)
  | _ => none

def opUnwound : Cfg → Option Cfg
  | .cons nn g res .unwinding ch rest =>
    if hasPending ch then none else some (.cons nn g res .cancelled ch rest)
  | _ => none

/-- serial root: start member `j` of the children of the root wrapper -/
def opStartSerial (j : Nat) : Cfg → Option Cfg
  | .cons nn g res .run ch rest =>
    if prefixDone ch && hasIdle ch && firstIdle ch == j then some (.cons nn g res .run (startNext ch) rest)
    else none
  | _ => none

/-- paths (document order) of the nodes that are idle in `old` and started in `new`, and are
fields (children of an object), i.e. the resolver invocations a transition causes -/
def newStarts (pfx : Path) (isField : Bool) : Nat → Cfg → Cfg → List Path
  | _, .nil, _ => []
  | _, _, .nil => []
  | i, .cons _ _ _ st ch rest, .cons _ _ res' st' ch' rest' =>
    let here := if st == .idle && st' != .idle && isField then [pfx ++ [i]] else []
    let below := match res' with
      | .comp k => newStarts (pfx ++ [i]) (k == .obj) 0 ch ch'
      | _ => []
    here ++ below ++ newStarts pfx isField (i + 1) rest rest'

/-- all positions with their state, parents first; `ab`: some strict ancestor has completed
(the position is abandoned work) -/
def positions (pfx : Path) (ab : Bool) : Nat → Cfg → List (Path × NodeSt × Bool)
  | _, .nil => []
  | i, .cons _ _ _ st ch rest =>
    (pfx ++ [i], st, ab) :: (positions (pfx ++ [i]) (ab || st.settled) 0 ch ++ positions pfx ab (i + 1) rest)

structure MState where
  cfg : Cfg
  queue : List Path := []
  steps : Nat := 0
  delivered : Option Val := none

def stateAt (c : Cfg) (p : Path) : Option NodeSt := (nodeAt c p).map (fun x => x.2.2.1)

/-- after resuming an item of an async-iterator list that failed at once: the iteration is
aborted (`abort`), if that is what the parent is -/
def abortParent (c : Cfg) (p : Path) : Cfg :=
  match stateAt c p with
  | some (.failed _) =>
    match modifyAt opAbort c p.dropLast with
    | some c' => c'
    | none => c
  | _ => c

def fireAt (c : Cfg) (p : Path) : Option Cfg :=
  (modifyAt opFire c p).map (fun c' => abortParent c' p)

/-- which transitions `settle` may use -/
inductive Mode where
  | light   -- resumptions that invoke no resolver, completions
  | full    -- also: failing gathers cancel and wait, cancelled tasks finish
  deriving DecidableEq

/-- One enabled transition (of the kinds allowed by `mode`) at a position selected by `sel`,
that causes no resolver invocation. -/
def settleStep (mode : Mode) (sel : Path → Bool → Bool) (c : Cfg) : Option Cfg :=
  (positions [] false 0 c).findSome? (fun (p, st, ab) =>
    if !sel p ab then none else
    match st with
    | .ready =>
      match fireAt c p with
      | some c' => if (newStarts [] false 0 c c').isEmpty then some c' else none
      | none => none
    | .run =>
      match modifyAt opComplete c p with
      | some c' => some c'
      | none => if mode == .full then modifyAt opFail c p else none
    | .failing => if mode == .full then modifyAt opFailDone c p else none
    | .unwinding => if mode == .full then modifyAt opUnwound c p else none
    | _ => none)

def settle (mode : Mode) (sel : Path → Bool → Bool) : Nat → MState → MState
  | 0, m => m
  | fuel + 1, m =>
    match settleStep mode sel m.cfg with
    | some c' => settle mode sel fuel { m with cfg := c', steps := m.steps + 1 }
    | none => m

def fuelOf (c : Cfg) : Nat := measure c + 1

def everywhere : Path → Bool → Bool := fun _ _ => true
/-- positions that are not abandoned work -/
def liveOnly : Path → Bool → Bool := fun _ ab => !ab
/-- positions strictly below `q` -/
def below (q : Path) : Path → Bool → Bool := fun p _ => q.isPrefixOf p && p.length > q.length

def settleLight (m : MState) : MState := settle .light everywhere (fuelOf m.cfg) m

inductive Ev where
  | R (p : Path)
  | S (p : Path)
  | C (p : Path)
  | D

/-- prefixes of a path, shortest first, excluding the empty one -/
def prefixes (p : Path) : List Path := (List.range p.length).map (fun n => p.take (n + 1))

/-- the task at `p`, or one that awaits it, has been cancelled -/
def isCancelledAt (c : Cfg) (p : Path) : Bool :=
  (prefixes p).any (fun q => stateAt c q == some .unwinding || stateAt c q == some .cancelled)

/-- the node is a list item that the list loop never reached (the loop was aborted by an
earlier item): its awaitable exists all the same and may complete, with no effect -/
def isUnreachedItem (c : Cfg) (p : Path) : Bool :=
  match stateAt c p, nodeAt c p.dropLast with
  | some .idle, some (_, .comp .list, _, _) => true
  | some .idle, some (_, .comp .aiter, _, _) => true
  | _, _ => false

/-- Explain an observed cancellation at `p`: some gather above `p` has a child that raised (after
settling everything below that gather); it cancels its other awaitables. Lowest gather first. -/
def explainCancel (m : MState) (p : Path) : Option MState :=
  if isCancelledAt m.cfg p then some m else
  let gathers := ((prefixes p).reverse.drop 1).filter (fun q => stateAt m.cfg q == some .run)
  gathers.findSome? (fun q =>
    let m' := settle .full (below q) (fuelOf m.cfg) m
    match modifyAt opFail m'.cfg q with
    | some c' => if isCancelledAt c' p then some { m' with cfg := c', steps := m'.steps + 1 } else none
    | none => none)

def stepEv (serial : Bool) (m : MState) : Ev → Except String MState
  | .R p =>
    if !m.queue.isEmpty then .error "resolver invocations outstanding before a completion"
    else match modifyAt opResolve m.cfg p with
      | some c' => .ok (settleLight { m with cfg := c', steps := m.steps + 1 })
      | none =>
        if isCancelledAt m.cfg p || isUnreachedItem m.cfg p then .ok m
        else .error "completion of an awaitable that is not pending in the model"
  | .S p =>
    match m.queue with
    | q :: qs => if q == p then .ok { m with queue := qs } else .error "resolver invoked out of order"
    | [] =>
      -- the nearest ancestor that is ready to resume, or the serial root starting its next field
      let anc := (prefixes p).reverse.drop 1
      let fired : Option (Cfg × MState) := anc.findSome? (fun q =>
        match stateAt m.cfg q with
        | some .ready => (fireAt m.cfg q).map (fun c' => (c', m))
        | _ => none)
      let fired : Option (Cfg × MState) := match fired with
        | some x => some x
        | none =>
          match serial, p with
          | true, [0, j] =>
            -- the earlier root fields have completed: everything live is settled
            let m' := settle .full liveOnly (fuelOf m.cfg) m
            (modifyAt (opStartSerial j) m'.cfg [0]).map (fun c' => (c', m'))
          | _, _ => none
      match fired with
      | none => .error "resolver invoked but no transition of the model starts it"
      | some (c', m') =>
        match newStarts [] false 0 m'.cfg c' with
        | q :: qs =>
          if q == p then
            .ok (settleLight { m' with cfg := c', queue := qs, steps := m'.steps + 1 })
          else .error "resolver invoked is not the first one the model starts"
        | [] => .error "the enabled transition starts no resolver"
  | .C p =>
    if !m.queue.isEmpty then .error "resolver invocations outstanding before a cancellation"
    else match explainCancel m p with
      | some m' => .ok (settleLight m')
      | none => .error "cancellation observed but no gather above it has a child that raised"
  | .D =>
    let m' := settle .full liveOnly (fuelOf m.cfg) m
    match rootData m'.cfg with
    | some v => .ok { m' with delivered := some v }
    | none => .error "response delivered before the root completed in the model"

/-- After the trace: whatever is still pending must be abandoned work (below a completed
position): items an aborted iteration never requested, tasks left in the background. -/
def finish (m : MState) : Except String MState :=
  let m' := settle .full everywhere (fuelOf m.cfg) m
  match (positions [] false 0 m'.cfg).find? (fun (_, st, ab) => st.pending && !ab) with
  | none => .ok m'
  | some (p, _, _) => .error ("a live task never completed: " ++ toString p)

def runTrace (serial : Bool) (m : MState) : Nat → List Ev → Except String MState
  | _, [] =>
    if !m.queue.isEmpty then .error "resolver invocations outstanding at the end of the trace"
    else finish m
  | n, e :: es =>
    match stepEv serial m e with
    | .ok m' => runTrace serial m' (n + 1) es
    | .error s => .error (toString n ++ " " ++ s)

/-- Initial configuration of the monitor for a root forest. -/
def initCfg (serial : Bool) (fields : Cfg) : Cfg :=
  if serial then .cons false 0 (.comp .obj) .run fields .nil else initQuery fields

end Gql.Async
