/-
C04 — denotational model of the incremental executor
(`src/graphql/execution/incremental/incremental_executor.py`:
 `execute_collected_root_fields`, `execute_collected_subfields`, `build_sub_execution_plan`,
 `collect_execution_groups`, `execute_execution_group`, `build_execution_group_result`;
 `collect_fields.py`: `collect_fields`, `collect_subfields`, `collect_fields_impl`,
 `get_defer_usage`) for the **error-free, `@defer`-only** class, over C02's schema / document /
data model (`Gql.Exec`).

What is produced: a `Cut` of the response tree, i.e. for every object of the response
* the planned grouped field set of `build_execution_plan` (run with the defer-usage set of the
  executor that completes the object: `[]` for the root executor, the set of the execution group
  for a sub-executor) — executed into the enclosing piece (`now`), and
* one deferred grouped field set per new defer-usage set (`later`): an `ExecutionGroup` whose
  result is `ExecutionGroupValue(path = path of this object, data = the completed fields)`,
  executed by a sub-executor whose `defer_usage_set` is that set.
`Cut.initial` is then the `data` of the initial result, `Cut.pieces` the list of
`(path, data)` of all execution groups (parents before children); `Cut.ref` the same tree with
nothing cut out.

Conventions
* `none` = outside the modelled class: some field error / request error would be raised
  (resolver raised, null at a Non-Null position, leaf serialisation failed, abstract type not
  resolved, argument / directive coercion failed, `RecursionError`), or a `Float` leaf occurs (the
  delivery-format JSON `J` has no floats).  Nothing is said about such executions here.
* A `DeferUsage` object is identified by a serial that is unique *along one response path*: the
  usages created by the collection for an object get the serials following those of all usages
  created for its ancestors (`usages` is that list; serial = index; `parent` = the
  `parent_defer_usage` link).  Sibling objects reuse serials; no plan ever sees usages of two
  siblings.  (`collect_subfields` is memoised per (type, field-details list) in the code, so list
  items literally share `DeferUsage` objects; a delivery group is created per object.)
* `@skip`/`@include`/type conditions are C02's implementation model (`Impl.shouldInclude`,
  `Impl.condMatch`); argument coercion is the stateless `Spec.coerceArgumentValues` (the hidden
  default memo of the implementation does not change results, C02).
* without awaitables `execute_fields_serially` computes the same as `execute_fields`; early
  execution only changes *when* an execution group runs.
-/
import Gql.Exec.ImplExec
import Gql.Exec.SpecExec
import Gql.Async.Plan
import Gql.Async.Cut

namespace Gql.Async.IncExec
open Gql.Exec

/-- `FieldDetails(node, defer_usage)` -/
structure FD where
  node : FieldNode
  du : Option Nat

abbrev GFS := List (Name × List FD)

/-- `DeferUsage(label, parent_defer_usage)` -/
structure DU where
  label : Option (List Nat)
  parent : Option Nat
  deriving Repr

/-- `grouped_field_set[key].append(details)` on a `defaultdict(list)` -/
def addField : GFS → Name → FD → GFS
  | [], k, fd => [(k, [fd])]
  | (k', fds) :: rest, k, fd =>
    if k' = k then (k', fds ++ [fd]) :: rest else (k', fds) :: addField rest k fd

structure CState where
  grouped : GFS
  newUsages : List DU
  /-- `visited_fragment_names`: name ↦ visited as deferred -/
  visited : List (Name × Bool)
  /-- serial of the first new defer usage -/
  base : Nat

def visitedGet (name : Name) : List (Name × Bool) → Option Bool
  | [] => none
  | (n, b) :: rest => if n = name then some b else visitedGet name rest

def visitedSet (name : Name) (b : Bool) : List (Name × Bool) → List (Name × Bool)
  | [] => [(name, b)]
  | (n, b') :: rest => if n = name then (n, b) :: rest else (n, b') :: visitedSet name b rest

def specCtx (cx : Impl.Ctx) : Spec.Ctx :=
  { ops := cx.ops, schema := cx.schema, doc := cx.doc, vars := cx.vars }

/-- the argument definitions of `GraphQLDeferDirective` -/
def deferArgs : List ArgDef :=
  [{ name := "if", type := boolNN, default := some (.bool true) },
   { name := "label", type := .named "String" false, default := none }]

inductive Defer where
  | off
  | on (label : Option (List Nat))

/-- `get_defer_usage`: `none` = the directive values could not be coerced (an error). -/
def getDeferUsage (cx : Impl.Ctx) (dirs : List Directive) : Option Defer :=
  match dirs.find? (fun d => d.name == "defer") with
  | none => some .off
  | some d =>
    match Spec.coerceArgumentValues (specCtx cx) d.args deferArgs [] with
    | none => none
    | some m =>
      match m.lookup "if" with
      | some (.bool false) => some .off
      | _ =>
        some (.on (match m.lookup "label" with
          | some (.str s) => some s
          | _ => none))

mutual
/-- `collect_fields_impl` loop under the defer usage `du`; `recur` is the call on a fragment
definition's selection set. -/
def collectSels (cx : Impl.Ctx) (rt : Name)
    (recur : Option Nat → List Selection → CState → Option CState) (du : Option Nat) :
    List Selection → CState → Option CState
  | [], st => some st
  | sel :: rest, st =>
    match collectSel cx rt recur du sel st with
    | some st' => collectSels cx rt recur du rest st'
    | none => none

def collectSel (cx : Impl.Ctx) (rt : Name)
    (recur : Option Nat → List Selection → CState → Option CState) (du : Option Nat) :
    Selection → CState → Option CState
  | .field alias name args dirs sels, st =>
    match Impl.shouldInclude cx dirs with
    | .ok true =>
      let node : FieldNode := { alias := alias, name := name, args := args, dirs := dirs, sels := sels }
      some { st with grouped := addField st.grouped node.key ⟨node, du⟩ }
    | .ok false => some st
    | _ => none
  | .inline cond dirs sels, st =>
    match Impl.shouldInclude cx dirs with
    | .ok true =>
      if Impl.condMatch cx.schema cond rt then
        match getDeferUsage cx dirs with
        | none => none
        | some .off => collectSels cx rt recur du sels st
        | some (.on label) =>
          collectSels cx rt recur (some (st.base + st.newUsages.length)) sels
            { st with newUsages := st.newUsages ++ [⟨label, du⟩] }
      else some st
    | .ok false => some st
    | _ => none
  | .spread name dirs, st =>
    match Impl.shouldInclude cx dirs with
    | .ok true =>
      match cx.doc.frag name with
      | none => some st
      | some fr =>
        if !Impl.condMatch cx.schema (some fr.cond) rt then some st
        else
          match getDeferUsage cx dirs with
          | none => none
          | some .off =>
            -- not deferred: skipped only when already visited as a non-deferred spread
            if visitedGet name st.visited = some false then some st
            else recur du fr.sels { st with visited := visitedSet name false st.visited }
          | some (.on label) =>
            -- deferred: skipped when visited at all
            if (visitedGet name st.visited).isSome then some st
            else
              recur (some (st.base + st.newUsages.length)) fr.sels
                { st with visited := visitedSet name true st.visited,
                          newUsages := st.newUsages ++ [⟨label, du⟩] }
    | .ok false => some st
    | _ => none
end

/-- Fragment nesting is cut by the tri-state visited map (a fragment body is entered at most twice:
once as deferred, once as not deferred); the fuel bounds the nesting. -/
def collectFuel (cx : Impl.Ctx) (rt : Name) :
    Nat → Option Nat → List Selection → CState → Option CState
  | 0 => fun _ _ _ => none
  | n + 1 => collectSels cx rt (collectFuel cx rt n)

def fuelOf (d : Doc) : Nat := 2 * d.frags.length + 2

def initC (base : Nat) : CState := { grouped := [], newUsages := [], visited := [], base := base }

/-- `collect_fields` (operation root) -/
def collectRoot (cx : Impl.Ctx) (rt : Name) (sels : List Selection) : Option CState :=
  collectFuel cx rt (fuelOf cx.doc) none sels (initC 0)

/-- the loop of `collect_subfields` over the field details (one shared context / visited map),
each selection set under the defer usage of its field details -/
def collectSubLoop (cx : Impl.Ctx) (rt : Name) : List FD → CState → Option CState
  | [], st => some st
  | fd :: rest, st =>
    match collectFuel cx rt (fuelOf cx.doc) fd.du fd.node.sels st with
    | some st' => collectSubLoop cx rt rest st'
    | none => none

def collectSubfields (cx : Impl.Ctx) (rt : Name) (fds : List FD) (base : Nat) : Option CState :=
  collectSubLoop cx rt fds (initC base)

/-! ### JSON of the delivery format -/

def keyOf (n : Name) : List Nat := n.toList.map Char.toNat

mutual
def toJ : Json → Option J
  | .null => some .null
  | .int i => some (.int i)
  | .flt _ => none
  | .str s => some (.str s)
  | .bool b => some (.bool b)
  | .list xs => (toJList xs).map J.arr
  | .obj kvs => (toJFields kvs).map J.obj
def toJList : List Json → Option (List J)
  | [] => some []
  | x :: xs =>
    match toJ x, toJList xs with
    | some j, some js => some (j :: js)
    | _, _ => none
def toJFields : List (Name × Json) → Option (List (List Nat × J))
  | [] => some []
  | (k, v) :: rest =>
    match toJ v, toJFields rest with
    | some j, some js => some ((keyOf k, j) :: js)
    | _, _ => none
end

/-- a completed leaf as a cut; a Python `dict` cannot hold a key twice (`J.wf`) -/
def leafCut (j : Json) : Option Cut :=
  match toJ j with
  | some j' => if j'.wf then some (.leaf j') else none
  | none => none

/-! ### the executor -/

def parentOf (usages : List DU) (n : Nat) : Option Nat :=
  match usages[n]? with
  | some u => u.parent
  | none => none

/-- the collected grouped field set as the plan's input (the plan never looks at the nodes) -/
def toPlan (g : GFS) : Plan.GroupedFieldSet Name :=
  g.map (fun e => (e.1, e.2.map (fun fd => ({ node := 0, deferUsage := fd.du } : Plan.FieldDetails))))

def gfsGet (k : Name) : GFS → Option (List FD)
  | [] => none
  | (k', fds) :: rest => if k' = k then some fds else gfsGet k rest

/-- How the children of the current source value are completed: field name, coerced arguments,
field type, field details; the defer usages alive at this object and the defer-usage set of the
executor that runs the field. -/
abbrev Child := Name → ArgMap → TypeRef → List FD → List DU → Plan.DeferUsageSet → Option Cut

/-- `execute_field`; inner `none` = `Undefined` (no such field on the parent type). -/
def executeField (cx : Impl.Ctx) (parent : Name) (child : Child) (usages : List DU)
    (pset : Plan.DeferUsageSet) (fds : List FD) : Option (Option Cut) :=
  match fds with
  | [] => none
  | fd0 :: _ =>
    let name := fd0.node.name
    if name == "__typename" then
      match cx.ops.serialize cx.schema "String" (.str (parent.toList.map Char.toNat)) with
      | some .null => none
      | some j => (leafCut j).map some
      | none => none
    else
      match cx.schema.getField parent name with
      | none => some none
      | some fdef =>
        match Spec.coerceArgumentValues (specCtx cx) fd0.node.args fdef.args [] with
        | none => none
        | some args => (child name args fdef.type fds usages pset).map some

/-- `execute_fields` on the entries of the original grouped field set with the given response
keys (the keys of one part of the execution plan, in the plan's order). -/
def executeKeys (cx : Impl.Ctx) (parent : Name) (child : Child) (usages : List DU)
    (pset : Plan.DeferUsageSet) (g : GFS) : List Name → Option (List (List Nat × Cut))
  | [] => some []
  | k :: rest =>
    match gfsGet k g with
    | none => none
    | some fds =>
      match executeField cx parent child usages pset fds, executeKeys cx parent child usages pset g rest with
      | some (some c), some cs => some ((keyOf k, c) :: cs)
      | some none, some cs => some cs
      | _, _ => none

/-- `collect_execution_groups`: every new grouped field set is executed by a sub-executor whose
`defer_usage_set` is the set it belongs to. -/
def executeSets (cx : Impl.Ctx) (parent : Name) (child : Child) (usages : List DU) (g : GFS) :
    List (Plan.DeferUsageSet × Plan.GroupedFieldSet Name) → Option (List (List (List Nat × Cut)))
  | [] => some []
  | (s, part) :: rest =>
    match executeKeys cx parent child usages s g (part.map Prod.fst),
          executeSets cx parent child usages g rest with
    | some fs, some gs => some (fs :: gs)
    | _, _ => none

/-- `execute_collected_subfields` / `execute_collected_root_fields` after collection. -/
def executePlan (cx : Impl.Ctx) (parent : Name) (child : Child) (usages : List DU)
    (pset : Plan.DeferUsageSet) (st : CState) : Option Cut :=
  let usages' := usages ++ st.newUsages
  let plan := Plan.buildExecutionPlan (parentOf usages') (usages'.length + 1) (toPlan st.grouped) pset
  match executeKeys cx parent child usages' pset st.grouped (plan.groupedFieldSet.map Prod.fst),
        executeSets cx parent child usages' st.grouped plan.newGroupedFieldSets with
  | some now, some later => some (.obj now later)
  | _, _ => none

/-- `complete_object_value` → `collect_and_execute_subfields` -/
def completeObject (cx : Impl.Ctx) (rt : Name) (fds : List FD) (usages : List DU)
    (pset : Plan.DeferUsageSet) (child : Child) : Option Cut :=
  match collectSubfields cx rt fds usages.length with
  | none => none
  | some st => executePlan cx rt child usages pset st

def completeNull (t : TypeRef) : Option Cut := if t.nonNull then none else some (.leaf .null)

def completeNamed (cx : Impl.Ctx) (t : TypeRef) (fds : List FD) (usages : List DU)
    (pset : Plan.DeferUsageSet) (leaf? : Option PyLeaf) (tn : TN) (child : Child) : Option Cut :=
  match t with
  | .list _ _ => none
  | .named n _ =>
    match cx.schema.kind n with
    | .leaf =>
      match leaf? with
      | some l =>
        match cx.ops.serialize cx.schema n l with
        | some .null => none
        | some j => leafCut j
        | none => none
      | none => none
    | .abstract =>
      match Impl.ensureValidRuntimeType cx.schema n tn with
      | .ok rt => completeObject cx rt fds usages pset child
      | .error _ => none
    | .object => completeObject cx n fds usages pset child
    | _ => none

def nullChild : Child := fun _ _ t _ _ _ => completeNull t

mutual
/-- `complete_value(return_type, field_details_list, info, path, result)` -/
def completeValue (cx : Impl.Ctx) (t : TypeRef) (fds : List FD) (usages : List DU)
    (pset : Plan.DeferUsageSet) : RVal → Option Cut
  | .raise _ _ => none
  | .null => completeNull t
  | .leaf l => completeNamed cx t fds usages pset (some l) .missing nullChild
  | .list items =>
    match t with
    | .list t' _ =>
      match completeItems cx t' fds usages pset items with
      | some cs => some (.arr cs [])
      | none => none
    | .named _ _ => completeNamed cx t fds usages pset none .missing nullChild
  | .obj tn f =>
    completeNamed cx t fds usages pset none tn
      (fun name args t' fds' us ps => completeValue cx t' fds' us ps (f name args))

/-- `complete_list_value` without `@stream`: all items belong to the enclosing piece -/
def completeItems (cx : Impl.Ctx) (t : TypeRef) (fds : List FD) (usages : List DU)
    (pset : Plan.DeferUsageSet) : List RVal → Option (List Cut)
  | [] => some []
  | x :: xs =>
    match completeValue cx t fds usages pset x, completeItems cx t fds usages pset xs with
    | some c, some cs => some (c :: cs)
    | _, _ => none
end

def childOf (cx : Impl.Ctx) (src : RVal) : Child :=
  fun name args t fds us ps => completeValue cx t fds us ps (src.child name args)

/-- The incremental execution of a request as a cut of its response tree. -/
def incCut (ops : Ops) (s : Schema) (doc : Doc) (opName : Option Name) (vars : Vars)
    (root : RVal) : Option Cut :=
  let cx : Impl.Ctx := { ops := ops, schema := s, doc := doc, vars := vars }
  match Impl.selectOp doc.ops opName with
  | none => none
  | some op =>
    match Impl.rootType s op.kind with
    | none => none
    | some rt =>
      match collectRoot cx rt op.sels with
      | none => none
      | some st => executePlan cx rt (childOf cx root) [] [] st

/-- `experimental_execute_incrementally` on an error-free `@defer` request: the `data` of the
initial result and the `(target path, data)` of every execution group that is delivered. -/
def incExec (ops : Ops) (s : Schema) (doc : Doc) (opName : Option Name) (vars : Vars)
    (root : RVal) : Option (J × List Piece) :=
  (incCut ops s doc opName vars root).map (fun c => (c.initial, c.pieces))

/-! ### the same document with `@defer` disabled -/

def stripDirs (dirs : List Directive) : List Directive := dirs.filter (fun d => !(d.name == "defer"))

mutual
def stripSel : Selection → Selection
  | .field alias name args dirs sels => .field alias name args dirs (stripSels sels)
  | .inline cond dirs sels => .inline cond (stripDirs dirs) (stripSels sels)
  | .spread name dirs => .spread name (stripDirs dirs)
def stripSels : List Selection → List Selection
  | [] => []
  | x :: rest => stripSel x :: stripSels rest
end

/-- the document as a client that does not ask for incremental delivery would send it -/
def stripDefer (d : Doc) : Doc :=
  { ops := d.ops.map (fun op => { op with sels := stripSels op.sels }),
    frags := d.frags.map (fun f => { f with sels := stripSels f.sels }) }

end Gql.Async.IncExec
