/-!
# Lifecycle bookkeeping: what a stop leaves behind

Model of the bookkeeping that decides whether stopping an execution early leaves anything
behind (`IncrementalPublisher._subscribe` loop + `finally`, `WorkQueue.cancel`,
`StreamItemQueue.abort/_cleanup`, `Computation.abort`, the executor's
`pending_incremental_futures` / `background_futures`, `cancel_incremental_work`,
`run_async_work_finished_hook`, `map_async_iterable` + `aclosing`).

The model is deliberately about the *bookkeeping* only: tasks are abstract
(`pending | done | cancelled`), a task may own one source async iterator
(`notStarted | running | closed n`), and what matters about the data structures of the code is
one bit per task: is the task *registered* in a collection that the stop procedure walks
(work-queue graph, `_pump_tasks`, `_producer_task`, `_pending_futures`,
`pending_incremental_futures`, `background_futures`, the waiter of `with_abort_signal`) and
whose settlement it awaits before the hook.  That asyncio really delivers a requested
cancellation, that a closed generator really runs its `finally`, that a parked `Queue.put`
wakes up — the runtime side — is *not* in the model (C06 is partial in that sense; the
exploration in `checks/c06.py` covers it from the outside).

Nondeterminism: every enabled action may be taken next.  A stop may occur in *any* reachable
state (`Action.stop` is enabled whenever the publisher is still running).
-/
namespace Gql.Async.Lifecycle

inductive TaskSt where
  | pending | done | cancelled
  deriving DecidableEq, Repr

inductive SrcSt where
  | notStarted
  | running
  | closed (n : Nat)     -- number of times it has been closed
  deriving DecidableEq, Repr

structure Task where
  st : TaskSt
  /-- reachable from a collection that the stop procedure walks and awaits -/
  registered : Bool
  /-- `cancel()` has been requested; delivery is a later step -/
  cancelReq : Bool
  /-- never finishes by itself (a resolver awaiting something that never comes) -/
  hangs : Bool
  /-- the source async iterator this task iterates, if any -/
  src : Option SrcSt
  deriving DecidableEq, Repr

inductive Phase where
  | running    -- result stream open, publisher loop running
  | stopping   -- inside the `finally`: cancelling and awaiting
  | finished   -- hook has been run, caller released
  deriving DecidableEq, Repr

inductive StopKind where
  | aclose | abort | resolverRaise | sourceRaise | exhausted
  deriving DecidableEq, Repr

structure St where
  tasks : List Task
  phase : Phase
  hookFired : Nat
  released : Bool
  deriving DecidableEq, Repr

def init : St := { tasks := [], phase := .running, hookFired := 0, released := false }

inductive Action where
  /-- the execution creates a task (optionally owning a not yet started source) -/
  | spawn (registered hangs withSrc : Bool)
  /-- a task starts iterating its source -/
  | startSrc (i : Nat)
  /-- a task finishes by itself; a source it iterates is exhausted (closed by itself) -/
  | finish (i : Nat)
  /-- the consumer stops / a failure stops the execution: enter the `finally`, request the
      cancellation of every registered pending task -/
  | stop (k : StopKind)
  /-- a requested cancellation is delivered: the task unwinds and closes its source -/
  | deliverCancel (i : Nat)
  /-- all registered work has settled: run the hook, release the caller -/
  | fireHook
  deriving DecidableEq, Repr

def Task.isPending (t : Task) : Bool := t.st == .pending

def modifyAt (f : Task → Task) : Nat → List Task → List Task
  | _, [] => []
  | 0, t :: ts => f t :: ts
  | i + 1, t :: ts => t :: modifyAt f i ts

/-- closing a source: once, and only if it was started -/
def closeSrc : Option SrcSt → Option SrcSt
  | some .running => some (.closed 1)
  | s => s

def requestCancel (t : Task) : Task :=
  if t.isPending && t.registered then { t with cancelReq := true } else t

def enabled (s : St) : Action → Bool
  | .spawn _ _ _ => s.phase == .running
  | .startSrc i =>
    match s.tasks[i]? with
    | some t => t.isPending && !t.cancelReq && t.src == some .notStarted
    | none => false
  | .finish i =>
    match s.tasks[i]? with
    | some t => t.isPending && !t.cancelReq && !t.hangs
    | none => false
  | .stop _ => s.phase == .running
  | .deliverCancel i =>
    match s.tasks[i]? with
    | some t => t.isPending && t.cancelReq
    | none => false
  | .fireHook => s.phase == .stopping && s.tasks.all (fun t => !(t.isPending && t.registered))

def step (s : St) : Action → St
  | .spawn reg hangs withSrc =>
    { s with tasks := s.tasks ++ [{ st := .pending, registered := reg, cancelReq := false,
                                    hangs := hangs,
                                    src := if withSrc then some .notStarted else none }] }
  | .startSrc i => { s with tasks := modifyAt (fun t => { t with src := some .running }) i s.tasks }
  | .finish i =>
    { s with tasks := modifyAt (fun t => { t with st := .done, src := closeSrc t.src }) i s.tasks }
  | .stop _ => { s with phase := .stopping, tasks := s.tasks.map requestCancel }
  | .deliverCancel i =>
    { s with tasks := modifyAt (fun t => { t with st := .cancelled, src := closeSrc t.src }) i s.tasks }
  | .fireHook => { s with phase := .finished, hookFired := s.hookFired + 1, released := true }

def run (s : St) : List Action → St
  | [] => s
  | a :: as => run (step s a) as

/-- every action of the schedule is enabled when it is taken -/
def EnabledRun : St → List Action → Prop
  | _, [] => True
  | s, a :: as => enabled s a = true ∧ EnabledRun (step s a) as

/-- nothing can happen any more -/
def Quiescent (s : St) : Prop := ∀ a, enabled s a = false

def pendingCount : List Task → Nat
  | [] => 0
  | t :: ts => (if t.isPending then 1 else 0) + pendingCount ts

/-- bound on the number of actions after a stop -/
def fuel (s : St) : Nat := pendingCount s.tasks + (if s.phase == .stopping then 1 else 0)

/-- The property's end state: (L1) no task pending, (L2) every started source closed exactly
once and no unstarted source closed, (L3) hook fired exactly once, (L4) caller released. -/
def Good (s : St) : Prop :=
  (∀ t ∈ s.tasks, t.isPending = false) ∧
  (∀ t ∈ s.tasks, t.src = none ∨ t.src = some .notStarted ∨ t.src = some (.closed 1)) ∧
  s.hookFired = 1 ∧ s.released = true

/-- every task the execution ever created is registered (the invariant the code must keep) -/
def AllRegistered : List Action → Prop
  | [] => True
  | .spawn reg _ _ :: as => reg = true ∧ AllRegistered as
  | _ :: as => AllRegistered as

/-- executable scheduler for the driver: deliver every requested cancellation, then the hook -/
def quiesce (s : St) : St :=
  let s1 := { s with tasks := s.tasks.map (fun t =>
    if t.isPending && t.cancelReq then { t with st := .cancelled, src := closeSrc t.src } else t) }
  if enabled s1 .fireHook then step s1 .fireHook else s1

end Gql.Async.Lifecycle
