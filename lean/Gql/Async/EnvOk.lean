import Gql.Async.Publisher
/-
# Well-formed environments (`EnvOk`)

The hypotheses under which the scheduler is meant to work, as an explicit decidable predicate
on a history: it is evaluated on every graph event *at the moment the scheduler handles it*
(`eventOk`), in the state the model is in at that moment.

* E1  a task settles at most once, and only after its computation was started;
* E2  a new group's parent is `None`, in the same `Work`, or was introduced earlier.  (DESIGN
      stated "or currently in the graph"; observing the real executor showed that too strict: a
      task whose groups were removed by the failure of a shared task still settles, and its
      nested work then refers to the removed parent — the scheduler keeps such groups as
      orphans that are never delivered.)
* E3  a stream delivers only after its pump was started, yields its items in index order
      without gaps, and delivers nothing after it stopped or failed (except the pump's
      trailing `_StreamSuccess` after a batch delivered with `is_stopped()` true);
* E4  the tasks of a `Work` belong only to groups it introduces or to groups introduced
      earlier.  (DESIGN stated "groups it introduces or groups of the producing task"; observing
      the real executor showed that too strict: with `... @defer(a) { x ... @defer(b) { y } }`
      both fragments are introduced together, and the execution group of `b` is produced by the
      result of `a`'s execution group.  No theorem uses this clause.)
* E5  every group, task and stream object is introduced by exactly one `Work`, once
      (objects are fresh), and a task belongs to at least one group, without repetition;
* E6  groups are numbered by allocation serial: a group's parent object exists before the
      group does (`DeliveryGroup(path, label, parent)` takes the parent object), so
      `parent g < g`.  This is what makes "ancestor" a well-founded notion.
-/
namespace Gql.Async

structure EnvSt where
  introG : List Nat := []
  introT : List Nat := []
  introS : List Nat := []
  settled : List Nat := []
  streamNext : List (Nat × Nat) := []
  streamPeeked : List Nat := []     -- delivered a batch with `is_stopped()` true
  streamDone : List Nat := []       -- success / failure delivered
  deriving Repr

def nodupB (xs : List Nat) : Bool :=
  match xs with
  | [] => true
  | x :: r => !(r.contains x) && nodupB r

/-- E2, E4, E5 for one `Work`. -/
def workOk (σ : Static) (e : EnvSt) (q : WQ) (producer : Option Nat) (w : Work) : Bool :=
  nodupB w.groups && nodupB w.tasks && nodupB w.streams
  && w.groups.all (fun g => !e.introG.contains g)
  && w.tasks.all (fun t => !e.introT.contains t)
  && w.streams.all (fun s => !e.introS.contains s)
  && w.groups.all (fun g =>
      match σ.parent g with
      | none => true
      | some p => decide (p < g) && (w.groups.contains p || e.introG.contains p))
  && w.tasks.all (fun t =>
      !(σ.tgroups t).isEmpty && nodupB (σ.tgroups t)
      && (σ.tgroups t).all (fun g => w.groups.contains g || e.introG.contains g))

def workOptOk (σ : Static) (e : EnvSt) (q : WQ) (producer : Option Nat) : Option Work → Bool
  | none => true
  | some w => workOk σ e q producer w

def EnvSt.intro (e : EnvSt) : Option Work → EnvSt
  | none => e
  | some w => { e with introG := w.groups ++ e.introG, introT := w.tasks ++ e.introT,
                       introS := w.streams ++ e.introS }

/-- Items of one delivered batch: indices consecutive from `next`, works well-formed one after
the other.  (The graph does not change the clauses checked here between the items of one
batch except through freshness, which `e` threads.) -/
def idxMatches : Option Nat → Nat → Bool
  | some i, next => i == next
  | none, _ => true

def itemsOk (σ : Static) (q : WQ) : EnvSt → Nat → List IResult → Option (EnvSt × Nat)
  | e, next, [] => some (e, next)
  | e, next, it :: r =>
    if idxMatches it.value.idx next && workOptOk σ e q none it.work then
      itemsOk σ q (e.intro it.work) (next + 1) r
    else none

/-- Is this graph event a legal move of the environment in state `(e, q)`?  Returns the
updated ghost state. -/
def eventOk (σ : Static) (e : EnvSt) (q : WQ) : GraphEvent → Option EnvSt
  | .taskSuccess t r =>
    if !e.settled.contains t && q.started.contains t && workOptOk σ e q (some t) r.work then
      some { (e.intro r.work) with settled := t :: e.settled }
    else none
  | .taskFailure t =>
    if !e.settled.contains t && q.started.contains t then some { e with settled := t :: e.settled }
    else none
  | .streamItems s items stopped =>
    if q.pumps.contains s && !e.streamDone.contains s && !e.streamPeeked.contains s then
      let next := (alookup e.streamNext s).getD 0
      match itemsOk σ q e next items with
      | none => none
      | some (e, next') =>
        some { e with streamNext := aset e.streamNext s next',
                      streamPeeked := if stopped then s :: e.streamPeeked else e.streamPeeked }
    else none
  | .streamSuccess s =>
    if q.pumps.contains s && !e.streamDone.contains s then some { e with streamDone := s :: e.streamDone }
    else none
  | .streamFailure s =>
    if q.pumps.contains s && !e.streamDone.contains s && !e.streamPeeked.contains s then
      some { e with streamDone := s :: e.streamDone }
    else none
  | .stop => some e

/-- `drain`, checking every handled event. -/
def drainOk (σ : Static) : Nat → EnvSt → WQ → Option (EnvSt × WQ)
  | 0, e, q => some (e, q)
  | fuel + 1, e, q =>
    match q.channel with
    | [] => some (e, q)
    | ev :: rest =>
      match eventOk σ e { q with channel := rest } ev with
      | none => none
      | some e' => drainOk σ fuel e' (handleGraphEvent σ { q with channel := rest } ev).1

/-- `settle`, checking every handled event. -/
def settleOk (σ : Static) (fuel : Nat) : Nat → EnvSt → WQ → Option (EnvSt × WQ)
  | 0, e, q => some (e, q)
  | n + 1, e, q =>
    if q.stopped then some (e, { q with deferred := [], channel := [] })
    else match q.channel with
      | [] =>
        match q.deferred with
        | [] => some (e, q)
        | d => settleOk σ fuel n e (d.foldl push { q with deferred := [] })
      | _ =>
        match drainOk σ fuel e q with
        | none => none
        | some (e', _) => settleOk σ fuel n e' (batch σ fuel q).1

def runOk (σ : Static) (fuel : Nat) : EnvSt → WQ → List Tick → Bool
  | _, _, [] => true
  | e, q, t :: r =>
    match settleOk σ fuel fuel e (t.foldl push q) with
    | none => false
    | some (e', q') => runOk σ fuel e' q' r

/-- The whole history is a well-formed environment for the initial work. -/
def envOk (σ : Static) (fuel : Nat) (work : Option Work) (h : List Tick) : Bool :=
  let e0 : EnvSt := {}
  workOptOk σ e0 {} none work &&
  (match settleOk σ fuel fuel (e0.intro work) (startRoots σ (init σ work).1) with
   | none => false
   | some (e, q) => runOk σ fuel e q h)

/-! ## Well-formed data (hypothesis of clause P3b)

What the executor guarantees about the *data* carried by the work it feeds the scheduler, for
deferred fragments (no streams): a task's value is an object that lives at the path of (all)
the fragments the task belongs to, and a fragment introduced by the result of a task lies
inside the data of that very result. -/

open Gql.Spec.Protocol in
def isObj : Option J → Bool
  | some (.obj _) => true
  | _ => false

open Gql.Spec.Protocol in
/-- One task result is well-formed data for task `t`. -/
def resultDataOk (σ : Static) (π : PubStatic) (t : Nat) (r : TResult) : Prop :=
  r.value.groups = σ.tgroups t ∧
  (∀ g ∈ σ.tgroups t, π.gpath g = r.value.path) ∧
  isObj (some r.value.data) = true ∧
  (∀ w, r.work = some w → w.streams = [] ∧
    ∀ g ∈ w.groups, ∃ q, π.gpath g = r.value.path ++ q ∧ isObj (resolve r.value.data q) = true)

open Gql.Spec.Protocol in
/-- The whole environment carries well-formed data over the initial data `initData`. -/
def DataOk (σ : Static) (π : PubStatic) (initData : J) (work : Option Work) (h : List Tick) : Prop :=
  (∀ w, work = some w → w.streams = [] ∧ ∀ g ∈ w.groups, isObj (resolve initData (π.gpath g)) = true) ∧
  (∀ t r, (σ.mode t = .sync r ∨ σ.mode t = .early r) → resultDataOk σ π t r) ∧
  (∀ tick ∈ h, ∀ ev ∈ tick, match ev with
    | .taskSuccess t r => resultDataOk σ π t r
    | .taskFailure _ => True
    | _ => False)

end Gql.Async
