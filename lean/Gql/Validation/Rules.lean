import Gql.Validation.Framework
/-!
C12 — the *document-only* concrete rules of graphql-core (validation/rules/*.py), as visitors of the
framework model (`Gql.Validation.Rule`): LoneAnonymousOperation, UniqueOperationNames, UniqueFragmentNames,
UniqueVariableNames, UniqueArgumentNames, UniqueInputFieldNames, KnownFragmentNames, NoUnusedFragments,
NoFragmentCycles, NoUndefinedVariables, NoUnusedVariables, and the context getters they call
(validation_context.py: `get_fragment`, `get_fragment_spreads`, `get_recursively_referenced_fragments`,
`get_variable_usages`, `get_recursive_variable_usages`).

How a rule sees the document.  The framework hands a rule only `Info` (object identity + kind); a Python rule
receives the node object and reads its attributes.  Here the rule is a closure over the annotated document
`ATree` (every node: identity, kind, the name of the parent attribute it hangs under, the `.value` of a `NameNode`,
children along the traversal keys of `validate()`), and `doc.find i.id` is "the node object".  `ATree.erase` is the
tree the framework traverses.

What is mirrored: which `enter_*`/`leave_*` methods exist (`hEnter`/`hLeave`), what each returns (`None` = `idle`,
`SKIP` = `skip`; no rule returns BREAK or edits), the private attributes (`RS`), the order in which errors are
reported and the nodes each error carries (`RErr.nodes`, in the order of `GraphQLError.nodes`), the name quoted in
the message.  Message wording is not modelled.

Crash convention.  A required attribute that is missing (`node.name` of a fragment definition, …) is an
`AttributeError` in Python; the framework's rule type has no crash channel, so the rule reports the marker
`RErr.crash rule` at that point and goes on idle.  The parser never produces such nodes (`ATree.wf`), and
`rules_no_crash_marker` (Props/C12) is checked on every generated document by the driver.

The caches of the context are modelled by `Gql.Validation.Context`; with the call pattern of these rules
(`get_variable_usages` only on fragments) every getter returns what recomputation returns (`memo_pure_partial`), so
the getters below are the recomputations.
-/
namespace Gql.Validation.Rules
open Gql.Validation

/-- A node of the document with what the rules read of it.  `field`: the attribute of the parent this node hangs
under (`"definitions"`, `"name"`, `"alias"`, `"arguments"`, …; `""` for the root).  `value`: `NameNode.value`
(`""` for other kinds). -/
inductive ATree where
  | node (info : Info) (field : String) (value : String) (children : List ATree)
  deriving Repr, Inhabited

namespace ATree
def info : ATree → Info
  | node i _ _ _ => i
def field : ATree → String
  | node _ f _ _ => f
def value : ATree → String
  | node _ _ v _ => v
def children : ATree → List ATree
  | node _ _ _ cs => cs
def id (t : ATree) : Nat := t.info.id
def kind (t : ATree) : String := t.info.kind

mutual
  def size : ATree → Nat
    | node _ _ _ cs => 1 + sizeList cs
  def sizeList : List ATree → Nat
    | [] => 0
    | t :: ts => size t + sizeList ts
end

mutual
  /-- The tree `visit()` traverses. -/
  def erase : ATree → Tree
    | node i _ _ cs => .node i (eraseList cs)
  def eraseList : List ATree → List Tree
    | [] => []
    | t :: ts => erase t :: eraseList ts
end

mutual
  /-- The node object with identity `n` (first in preorder; identities are unique: `uniqueIds`). -/
  def find : ATree → Nat → Option ATree
    | node i f v cs, n => if i.id = n then some (node i f v cs) else findList cs n
  def findList : List ATree → Nat → Option ATree
    | [], _ => none
    | t :: ts, n =>
      match find t n with
      | some r => some r
      | none => findList ts n
end

mutual
  def ids : ATree → List Nat
    | node i _ _ cs => i.id :: idsList cs
  def idsList : List ATree → List Nat
    | [] => []
    | t :: ts => ids t ++ idsList ts
end

/-- Python object identity: no two nodes of the document are the same object. -/
def uniqueIds (t : ATree) : Prop := t.ids.Nodup

/-- `node.<f>` for a tuple-valued attribute (absent / `None` / empty tuple all give `[]`; the rules always write
`node.<f> or ()`). -/
def kids (t : ATree) (f : String) : List ATree := t.children.filter (fun c => c.field == f)

/-- `node.<f>` for a node-valued attribute (`none` = `None`). -/
def kid (t : ATree) (f : String) : Option ATree := (t.kids f).head?

/-- `node.name.value` (`none`: `node.name` is `None`). -/
def nameValue (t : ATree) : Option String := (t.kid "name").map (fun n => n.value)
end ATree

/-- One reported `GraphQLError`: the reporting rule, the name quoted in its message (`""` if none), the identities
of `error.nodes` in order. -/
structure RErr where
  rule : String
  name : String
  nodes : List Nat
  deriving DecidableEq, Repr

/-- Marker for "Python raises `AttributeError`/`IndexError` here" (see the file header). -/
def RErr.crash (rule : String) : RErr := ⟨rule, "<crash>", []⟩

def RErr.isCrash (e : RErr) : Bool := e.name == "<crash>"

/-- The private attributes of the rules (each rule uses its own; one record so that rule lists are homogeneous). -/
structure RS where
  /-- `LoneAnonymousOperationRule.operation_count` -/
  count : Nat := 0
  /-- `known_operation_names` / `known_fragment_names` / `known_names`: name ↦ `NameNode` (insertion order) -/
  known : List (String × Nat) := []
  /-- `UniqueInputFieldNamesRule.known_names_stack` (head = top) -/
  stack : List (List (String × Nat)) := []
  /-- `NoUnusedFragmentsRule.operation_defs` -/
  ops : List ATree := []
  /-- `NoUnusedFragmentsRule.fragment_defs` -/
  frags : List ATree := []
  /-- `NoFragmentCyclesRule.visited_frags` -/
  visited : List String := []
  /-- `NoUndefinedVariablesRule.defined_variable_names` -/
  defined : List String := []
  deriving Inhabited

def RS.init : RS := {}

def lookupName (k : String) : List (String × Nat) → Option Nat
  | [] => none
  | (k', v) :: rest => if k' = k then some v else lookupName k rest

/-! ## The context getters -/

/-- the `FragmentDefinitionNode`s of `document.definitions` -/
def fragDefs (doc : ATree) : List ATree :=
  (doc.kids "definitions").filter (fun d => d.kind == "fragment_definition")

def opDefs (doc : ATree) : List ATree :=
  (doc.kids "definitions").filter (fun d => d.kind == "operation_definition")

/-- `context.get_fragment(name)`: the dict comprehension keeps the *last* definition of a name. -/
def getFragment (doc : ATree) (name : String) : Option ATree :=
  (fragDefs doc).reverse.find? (fun f => f.nameValue == some name)

/-- the `while sets_to_visit:` loop of `get_fragment_spreads`: `stack` (head = top = end of the Python list),
`acc` = `spreads`.  One selection set is popped per round; fuel = number of nodes in the stack (proved sufficient:
`spreads_fuel_enough` in Proofs/RulesFuel.lean). -/
def spreadsLoop : Nat → List ATree → List ATree → List ATree × Bool
  | 0, [], acc => (acc, false)
  | 0, _ :: _, acc => (acc, true)
  | _ + 1, [], acc => (acc, false)
  | fuel + 1, s :: stack, acc =>
    let sels := s.kids "selections"
    let direct := sels.filter (fun x => x.kind == "fragment_spread")
    -- `append_set` in selection order; the last appended is popped first
    let pushed := (sels.filter (fun x => x.kind != "fragment_spread")).filterMap (fun x => x.kid "selection_set")
    spreadsLoop fuel (pushed.reverse ++ stack) (acc ++ direct)

/-- `context.get_fragment_spreads(selection_set)`; the flag says the fuel ran out (never: `spreads_fuel_enough`). -/
def getSpreads (selSet : ATree) : List ATree × Bool := spreadsLoop selSet.size [selSet] []

/-- the `for spread in get_fragment_spreads(visited_node)` loop of `get_recursively_referenced_fragments`:
returns (collected names, fragments appended, selection sets appended, fuel flag). -/
def refsInner (doc : ATree) : List ATree → List String → List ATree → List ATree → List String × List ATree × List ATree
  | [], names, frs, sets => (names, frs, sets)
  | sp :: rest, names, frs, sets =>
    match sp.nameValue with
    | none => refsInner doc rest names frs sets
    | some n =>
      if names.contains n then refsInner doc rest names frs sets
      else
        match getFragment doc n with
        | some f =>
          match f.kid "selection_set" with
          | some ss => refsInner doc rest (names ++ [n]) (frs ++ [f]) (sets ++ [ss])
          | none => refsInner doc rest (names ++ [n]) (frs ++ [f]) sets
        | none => refsInner doc rest (names ++ [n]) frs sets

/-- the `while nodes_to_visit:` loop: `stack` head = top.  A selection set is pushed only together with a newly
collected name of a defined fragment, so fuel `#fragment definitions + 1` suffices (argued, not proved; running out
would truncate the list and show as a disagreement with the implementation in the correspondence runs). -/
def refsLoop (doc : ATree) : Nat → List ATree → List String → List ATree → List ATree × Bool
  | 0, [], _, frs => (frs, false)
  | 0, _ :: _, _, frs => (frs, true)
  | _ + 1, [], _, frs => (frs, false)
  | fuel + 1, s :: stack, names, frs =>
    let sp := getSpreads s
    let r := refsInner doc sp.1 names frs []
    let rest := refsLoop doc fuel (r.2.2.reverse ++ stack) r.1 r.2.1
    (rest.1, rest.2 || sp.2)

/-- `context.get_recursively_referenced_fragments(operation)` -/
def getRecFrags (doc : ATree) (op : ATree) : List ATree × Bool :=
  match op.kid "selection_set" with
  | some ss => refsLoop doc ((fragDefs doc).length + 1) [ss] [] []
  | none => ([], false)

mutual
  /-- `VariableUsageVisitor` under `visit(node, …)`: every `VariableNode` of the subtree in preorder, not below a
  `VariableDefinitionNode` (`enter_variable_definition` answers SKIP). -/
  def variablesIn : ATree → List ATree
    | .node i f v cs =>
      if i.kind == "variable_definition" then []
      else if i.kind == "variable" then .node i f v cs :: variablesInList cs
      else variablesInList cs
  def variablesInList : List ATree → List ATree
    | [] => []
    | t :: ts => variablesIn t ++ variablesInList ts
end

/-- A `VariableUsage` as far as these rules read it: the `VariableNode`, its name, and whether
`fragment_variable_definition` is set. -/
structure Usage where
  node : ATree
  name : Option String
  fragVar : Bool

/-- `fragment_signature.variable_definitions.get(name)` for the signature registered under the fragment's *name*
(`get_fragment_signatures`: the last definition of that name). -/
def fragVarDefined (doc : ATree) (fragName : Option String) (var : Option String) : Bool :=
  match fragName, var with
  | some fn, some v =>
    match getFragment doc fn with
    | some sig => (sig.kids "variable_definitions").any (fun vd => ((vd.kid "variable").bind (·.nameValue)) == some v)
    | none => false
  | _, _ => false

/-- `context.get_variable_usages(node)` for an operation (`isFrag = false`) or a fragment definition. -/
def getUsages (doc : ATree) (n : ATree) : List Usage :=
  let isFrag := n.kind == "fragment_definition"
  (variablesIn n).map (fun v => ⟨v, v.nameValue, isFrag && fragVarDefined doc n.nameValue v.nameValue⟩)

/-- `context.get_recursive_variable_usages(operation)` -/
def getRecUsages (doc : ATree) (op : ATree) : List Usage :=
  getUsages doc op ++ (getRecFrags doc op).1.flatMap (getUsages doc)

/-! ## The rules -/

abbrev CRule (τ : Type) := Rule τ RS RErr

/-- boilerplate: look the node object up; a call with a node that is not in the document does nothing -/
def withNode (doc : ATree) (i : Info) (s : RS) (f : ATree → Action × RS × List RErr) : Action × RS × List RErr :=
  match doc.find i.id with
  | some n => f n
  | none => (.idle, s, [])

/-- `if name in known: report([known[name], node]) else: known[name] = node` -/
def uniqueStep (rule : String) (known : List (String × Nat)) (nm : ATree) : List (String × Nat) × List RErr :=
  match lookupName nm.value known with
  | some prev => (known, [⟨rule, nm.value, [prev, nm.id]⟩])
  | none => (known ++ [(nm.value, nm.id)], [])

def loneAnonymousOperation {τ : Type} (doc : ATree) : CRule τ where
  hEnter := fun k => k == "document" || k == "operation_definition"
  hLeave := fun _ => false
  step := fun s ph i _ => withNode doc i s fun n =>
    match ph with
    | .leave => (.idle, s, [])
    | .enter =>
      if i.kind == "document" then
        (.idle, { s with count := ((n.kids "definitions").filter (fun d => d.kind == "operation_definition")).length }, [])
      else if (n.kid "name").isNone && s.count > 1 then
        (.idle, s, [⟨"LoneAnonymousOperationRule", "", [n.id]⟩])
      else (.idle, s, [])

def uniqueOperationNames {τ : Type} (doc : ATree) : CRule τ where
  hEnter := fun k => k == "operation_definition" || k == "fragment_definition"
  hLeave := fun _ => false
  step := fun s ph i _ => withNode doc i s fun n =>
    match ph with
    | .leave => (.idle, s, [])
    | .enter =>
      if i.kind == "operation_definition" then
        match n.kid "name" with
        | some nm =>
          let r := uniqueStep "UniqueOperationNamesRule" s.known nm
          (.skip, { s with known := r.1 }, r.2)
        | none => (.skip, s, [])
      else (.skip, s, [])

def uniqueFragmentNames {τ : Type} (doc : ATree) : CRule τ where
  hEnter := fun k => k == "operation_definition" || k == "fragment_definition"
  hLeave := fun _ => false
  step := fun s ph i _ => withNode doc i s fun n =>
    match ph with
    | .leave => (.idle, s, [])
    | .enter =>
      if i.kind == "fragment_definition" then
        match n.kid "name" with
        | some nm =>
          let r := uniqueStep "UniqueFragmentNamesRule" s.known nm
          (.skip, { s with known := r.1 }, r.2)
        | none => (.skip, s, [RErr.crash "UniqueFragmentNamesRule"])
      else (.skip, s, [])

/-- `group_by(items, key)`: keys in order of first occurrence, each with its items in order. -/
def groupBy (items : List (String × Nat)) : List (String × List Nat) :=
  items.foldl (fun acc kv =>
    if acc.any (fun g => g.1 == kv.1) then acc.map (fun g => if g.1 == kv.1 then (g.1, g.2 ++ [kv.2]) else g)
    else acc ++ [(kv.1, [kv.2])]) []

/-- `for name, nodes in group_by(...).items(): if len(nodes) > 1: report(nodes)` -/
def dupErrors (rule : String) (items : List (String × Nat)) : List RErr :=
  (groupBy items).filterMap (fun g => if g.2.length > 1 then some ⟨rule, g.1, g.2⟩ else none)

/-- the keyed items, or `none` if some key attribute is missing (`attrgetter` raises) -/
def keyed (nodes : List ATree) (nameOf : ATree → Option ATree) : Option (List (String × Nat)) :=
  nodes.mapM (fun a => (nameOf a).map (fun nm => (nm.value, nm.id)))

def uniqueVariableNames {τ : Type} (doc : ATree) : CRule τ where
  hEnter := fun k => k == "operation_definition"
  hLeave := fun _ => false
  step := fun s ph i _ => withNode doc i s fun n =>
    match ph with
    | .leave => (.idle, s, [])
    | .enter =>
      match keyed (n.kids "variable_definitions") (fun vd => (vd.kid "variable").bind (·.kid "name")) with
      | some items => (.idle, s, dupErrors "UniqueVariableNamesRule" items)
      | none => (.idle, s, [RErr.crash "UniqueVariableNamesRule"])

def uniqueArgumentNames {τ : Type} (doc : ATree) : CRule τ where
  hEnter := fun k => k == "field" || k == "directive"
  hLeave := fun _ => false
  step := fun s ph i _ => withNode doc i s fun n =>
    match ph with
    | .leave => (.idle, s, [])
    | .enter =>
      match keyed (n.kids "arguments") (fun a => a.kid "name") with
      | some items => (.idle, s, dupErrors "UniqueArgumentNamesRule" items)
      | none => (.idle, s, [RErr.crash "UniqueArgumentNamesRule"])

def uniqueInputFieldNames {τ : Type} (doc : ATree) : CRule τ where
  hEnter := fun k => k == "object_value" || k == "object_field"
  hLeave := fun k => k == "object_value"
  step := fun s ph i _ => withNode doc i s fun n =>
    match ph with
    | .enter =>
      if i.kind == "object_value" then (.idle, { s with stack := s.known :: s.stack, known := [] }, [])
      else
        match n.kid "name" with
        | some nm =>
          let r := uniqueStep "UniqueInputFieldNamesRule" s.known nm
          (.idle, { s with known := r.1 }, r.2)
        | none => (.idle, s, [RErr.crash "UniqueInputFieldNamesRule"])
    | .leave =>
      match s.stack with
      | top :: rest => (.idle, { s with known := top, stack := rest }, [])
      | [] => (.idle, s, [RErr.crash "UniqueInputFieldNamesRule"])   -- `.pop()` on an empty list

def knownFragmentNames {τ : Type} (doc : ATree) : CRule τ where
  hEnter := fun k => k == "fragment_spread"
  hLeave := fun _ => false
  step := fun s ph i _ => withNode doc i s fun n =>
    match ph with
    | .leave => (.idle, s, [])
    | .enter =>
      match n.kid "name" with
      | some nm =>
        if (getFragment doc nm.value).isNone then (.idle, s, [⟨"KnownFragmentNamesRule", nm.value, [nm.id]⟩])
        else (.idle, s, [])
      | none => (.idle, s, [RErr.crash "KnownFragmentNamesRule"])

/-- `fragment_names_used` of `NoUnusedFragmentsRule.leave_document` -/
def usedFragmentNames (doc : ATree) (ops : List ATree) : List String :=
  ops.flatMap (fun op => (getRecFrags doc op).1.filterMap (·.nameValue))

def noUnusedFragments {τ : Type} (doc : ATree) : CRule τ where
  hEnter := fun k => k == "operation_definition" || k == "fragment_definition"
  hLeave := fun k => k == "document"
  step := fun s ph i _ => withNode doc i s fun n =>
    match ph with
    | .enter =>
      if i.kind == "operation_definition" then (.skip, { s with ops := s.ops ++ [n] }, [])
      else (.skip, { s with frags := s.frags ++ [n] }, [])
    | .leave =>
      let used := usedFragmentNames doc s.ops
      (.idle, s, s.frags.filterMap (fun fd =>
        match fd.nameValue with
        | some nm => if used.contains nm then none else some ⟨"NoUnusedFragmentsRule", nm, [fd.id]⟩
        | none => some (RErr.crash "NoUnusedFragmentsRule")))

/-- Result of `detect_cycle_recursive`: `visited_frags`, errors in report order, fuel flag. -/
structure CycleOut where
  visited : List String
  errs : List RErr
  ranOut : Bool

/-- the `for spread_node in spread_nodes:` loop of `detect_cycle_recursive`; `recur` is the recursive call. -/
def detectLoop (doc : ATree) (recur : ATree → List String → List ATree → List (String × Nat) → CycleOut) :
    List ATree → List String → List ATree → List (String × Nat) → CycleOut
  | [], visited, _, _ => ⟨visited, [], false⟩
  | sp :: rest, visited, path, index =>
    match sp.nameValue with
    | none => ⟨visited, [RErr.crash "NoFragmentCyclesRule"], false⟩
    | some sname =>
      let path1 := path ++ [sp]
      let r1 : CycleOut :=
        match lookupName sname index with
        | none =>
          match getFragment doc sname with
          | some f => recur f visited path1 index
          | none => ⟨visited, [], false⟩
        | some ci => ⟨visited, [⟨"NoFragmentCyclesRule", sname, (path1.drop ci).map (·.id)⟩], false⟩
      let r2 := detectLoop doc recur rest r1.visited path index
      ⟨r2.visited, r1.errs ++ r2.errs, r1.ranOut || r2.ranOut⟩

/-- `NoFragmentCyclesRule.detect_cycle_recursive(fragment)`.  `path` = `spread_path` (in order), `index` =
`spread_path_index_by_name`; both are restored by the Python code when the call returns (`pop`, `del`), so they
are passed by value.  Every recursive call marks a not yet visited name of a *defined* fragment, so the depth is
at most the number of fragment definitions + 1 (argued, not proved: running out is reported by the rule as an error
named `<fuel>`, which the correspondence runs would flag on every generated document). -/
def detectCycle (doc : ATree) : Nat → ATree → List String → List ATree → List (String × Nat) → CycleOut
  | 0, _, visited, _, _ => ⟨visited, [], true⟩
  | fuel + 1, fragment, visited, path, index =>
    match fragment.nameValue with
    | none => ⟨visited, [RErr.crash "NoFragmentCyclesRule"], false⟩
    | some fname =>
      if visited.contains fname then ⟨visited, [], false⟩
      else
        let visited1 := visited ++ [fname]
        match fragment.kid "selection_set" with
        | none => ⟨visited1, [RErr.crash "NoFragmentCyclesRule"], false⟩
        | some ss =>
          let sp := getSpreads ss
          if sp.1.isEmpty then ⟨visited1, [], sp.2⟩
          else
            let r := detectLoop doc (detectCycle doc fuel) sp.1 visited1 path ((fname, path.length) :: index)
            ⟨r.visited, r.errs, r.ranOut || sp.2⟩

/-- fuel for a top-level `detect_cycle_recursive` -/
def cycleFuel (doc : ATree) : Nat := (fragDefs doc).length + 2

def noFragmentCycles {τ : Type} (doc : ATree) : CRule τ where
  hEnter := fun k => k == "operation_definition" || k == "fragment_definition"
  hLeave := fun _ => false
  step := fun s ph i _ => withNode doc i s fun n =>
    match ph with
    | .leave => (.idle, s, [])
    | .enter =>
      if i.kind == "fragment_definition" then
        let r := detectCycle doc (cycleFuel doc) n s.visited [] []
        (.skip, { s with visited := r.visited }, r.errs ++ (if r.ranOut then [⟨"NoFragmentCyclesRule", "<fuel>", []⟩] else []))
      else (.skip, s, [])

def noUndefinedVariables {τ : Type} (doc : ATree) : CRule τ where
  hEnter := fun k => k == "operation_definition" || k == "variable_definition"
  hLeave := fun k => k == "operation_definition"
  step := fun s ph i _ => withNode doc i s fun n =>
    match ph with
    | .enter =>
      if i.kind == "operation_definition" then (.idle, { s with defined := [] }, [])
      else
        match (n.kid "variable").bind (·.nameValue) with
        | some v => (.idle, { s with defined := if s.defined.contains v then s.defined else s.defined ++ [v] }, [])
        | none => (.idle, s, [RErr.crash "NoUndefinedVariablesRule"])
    | .leave =>
      (.idle, s, (getRecUsages doc n).filterMap (fun u =>
        if u.fragVar then none
        else match u.name with
          | some v => if s.defined.contains v then none else some ⟨"NoUndefinedVariablesRule", v, [u.node.id, n.id]⟩
          | none => some (RErr.crash "NoUndefinedVariablesRule")))

/-- `for var_def in node.variable_definitions or (): if name not in used: report(var_def)` -/
def unusedVarErrors (used : List String) (n : ATree) : List RErr :=
  (n.kids "variable_definitions").filterMap (fun vd =>
    match (vd.kid "variable").bind (·.nameValue) with
    | some v => if used.contains v then none else some ⟨"NoUnusedVariablesRule", v, [vd.id]⟩
    | none => some (RErr.crash "NoUnusedVariablesRule"))

def noUnusedVariables {τ : Type} (doc : ATree) : CRule τ where
  hEnter := fun _ => false
  hLeave := fun k => k == "operation_definition" || k == "fragment_definition"
  step := fun s ph i _ => withNode doc i s fun n =>
    match ph with
    | .enter => (.idle, s, [])
    | .leave =>
      if i.kind == "fragment_definition" then
        (.idle, s, unusedVarErrors ((getUsages doc n).filterMap (·.name)) n)
      else
        (.idle, s, unusedVarErrors (((getRecUsages doc n).filter (fun u => !u.fragVar)).filterMap (·.name)) n)

/-- The modelled rules by their Python class names, in the order of `specified_rules`. -/
def modelled {τ : Type} (doc : ATree) : List (String × CRule τ) :=
  [ ("UniqueOperationNamesRule", uniqueOperationNames doc),
    ("LoneAnonymousOperationRule", loneAnonymousOperation doc),
    ("UniqueFragmentNamesRule", uniqueFragmentNames doc),
    ("KnownFragmentNamesRule", knownFragmentNames doc),
    ("NoUnusedFragmentsRule", noUnusedFragments doc),
    ("NoFragmentCyclesRule", noFragmentCycles doc),
    ("UniqueVariableNamesRule", uniqueVariableNames doc),
    ("NoUndefinedVariablesRule", noUndefinedVariables doc),
    ("NoUnusedVariablesRule", noUnusedVariables doc),
    ("UniqueArgumentNamesRule", uniqueArgumentNames doc),
    ("UniqueInputFieldNamesRule", uniqueInputFieldNames doc) ]

def modelledRules {τ : Type} (doc : ATree) : List (CRule τ) := (modelled doc).map (·.2)

end Gql.Validation.Rules
