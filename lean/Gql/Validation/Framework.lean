/-
C12 — the validation *framework* of graphql-core (validation/validate.py, language/visitor.py
`ParallelVisitor`, utilities/type_info.py `TypeInfo` / `TypeInfoVisitor`), over an abstract
traversal.

What is modelled, and at which level
* A document is a finite tree of nodes (`Info` = identity + kind; children = the node-valued fields
  in traversal-key order, tuples flattened, `None` fields absent).  `visit()` itself is modelled by
  C11; here it only *provides the enter/leave sequence* (`run0`): depth first, `enter` may answer
  SKIP (children and the node's own `leave` are not visited — visitor.py: `path_pop(); continue`) or
  BREAK (everything stops); a kind without a handler is descended into without a call.  Rules never
  edit, so there is no remove/replace.
* A *rule* is a state-passing non-editing visitor `σ → Phase → Info → TI → Action × σ × List ε` that may
  read the `TypeInfo` snapshot (and, being a closure, the document, the schema and the context
  getters: `Gql.Validation.Context`).  It reports errors through `on_error`.
* `parallel` is `ParallelVisitor` with its `skipping` array exactly as written: per member `None` /
  the node being skipped / BREAK; `enter` calls the members whose entry is falsy, `leave` calls them
  or resets the entry when it `is` the node being left.  `ParallelVisitor` never answers SKIP or BREAK
  to `visit()` for non-editing members.
* `tiVisitor` is `TypeInfoVisitor`: `type_info.enter(node)` before the inner enter, and — when the
  inner enter returns a result (SKIP/BREAK) — `type_info.leave(node)` at once; `type_info.leave(node)`
  after the inner leave.
* `TI` is `TypeInfo` as a table-driven stack machine: the table (which stacks a kind pushes/pops, which
  registers it sets/resets) is *generated* from type_info.py (`Gql.Generated.ValidationTables`); the
  values pushed come from abstract lookup functions that read the node and the TypeInfo *before* the
  call (every `enter_*` of type_info.py computes its values before its first push).
* `validate`: `on_error` appends to a list and raises `ValidationAbortedError` once `max_errors`
  errors are stored; the exception unwinds through the member loop, `TypeInfoVisitor` and `visit()`.
  Unwinding is modelled as an immediate stop (no further member is called; the traversal ends); the
  only thing it skips that a BREAK would run is `TypeInfo.leave`, unobservable because the `TypeInfo`
  is local to `validate()`.
-/
namespace Gql.Validation

inductive Action where
  | idle | skip | brk
  deriving DecidableEq, Repr, Inhabited

inductive Phase where
  | enter | leave
  deriving DecidableEq, Repr, Inhabited

/-- A node as a visitor sees it: `id` stands for Python object identity (`is`), `kind` is `node.kind`. -/
structure Info where
  id : Nat
  kind : String
  deriving DecidableEq, Repr, Inhabited

inductive Tree where
  | node (info : Info) (children : List Tree)
  deriving Repr, Inhabited

namespace Tree
def info : Tree → Info
  | node i _ => i
def children : Tree → List Tree
  | node _ cs => cs

mutual
  def size : Tree → Nat
    | node _ cs => 1 + sizeList cs
  def sizeList : List Tree → Nat
    | [] => 0
    | t :: ts => size t + sizeList ts
end

mutual
  /-- All node kinds occurring in the tree (preorder). -/
  def kinds : Tree → List String
    | node i cs => i.kind :: kindsList cs
  def kindsList : List Tree → List String
    | [] => []
    | t :: ts => kinds t ++ kindsList ts
end

mutual
  /-- All nodes of the tree (preorder). -/
  def infos : Tree → List Info
    | node i cs => i :: infosList cs
  def infosList : List Tree → List Info
    | [] => []
    | t :: ts => infos t ++ infosList ts
end

mutual
  /-- No node is (the same object as) one of its proper descendants — automatic for Python objects in a
  finite tree; the hypothesis under which `skipping[i] is node` identifies the node being skipped. -/
  def noSelfNest : Tree → Bool
    | node i cs => !(infosList cs).contains i && noSelfNestList cs
  def noSelfNestList : List Tree → Bool
    | [] => true
    | t :: ts => noSelfNest t && noSelfNestList ts
end

/-- Simultaneous induction over a tree and its lists of children. -/
theorem induct {P : Tree → Prop} {Q : List Tree → Prop}
    (hnode : ∀ i cs, Q cs → P (node i cs)) (hnil : Q [])
    (hcons : ∀ t ts, P t → Q ts → Q (t :: ts)) : (∀ t, P t) ∧ (∀ ts, Q ts) := by
  have H : ∀ n, (∀ t, size t ≤ n → P t) ∧ (∀ ts, sizeList ts ≤ n → Q ts) := by
    intro n
    induction n with
    | zero =>
      constructor
      · intro t ht; cases t; simp [size] at ht
      · intro ts hts
        cases ts with
        | nil => exact hnil
        | cons t ts => cases t; simp [sizeList, size] at hts
    | succ n ih =>
      constructor
      · intro t ht
        cases t with
        | node i cs =>
          apply hnode
          apply ih.2
          simp [size] at ht; omega
      · intro ts hts
        cases ts with
        | nil => exact hnil
        | cons t ts =>
          have h1 : 1 ≤ size t := by cases t; simp [size]
          simp [sizeList] at hts
          apply hcons
          · cases t with
            | node i cs =>
              apply hnode
              apply ih.2
              simp [size] at hts; omega
          · apply ih.2; omega
  exact ⟨fun t => (H _).1 t (Nat.le_refl _), fun ts => (H _).2 ts (Nat.le_refl _)⟩
end Tree

/-! ## The enter/leave sequence `visit()` provides -/

/-- A visitor as `visit()` sees it.  `hEnter s k` = "`get_enter_leave_for_kind(k).enter` is not
`None`" (static in the code; allowed to depend on the state here because `parallel` carries its
member list in the state). -/
structure V0 (σ : Type) where
  hEnter : σ → String → Bool
  hLeave : σ → String → Bool
  enter : σ → Info → Action × σ
  leave : σ → Info → Action × σ

mutual
  /-- Traversal of one subtree; the `Bool` says that the traversal was stopped (BREAK / abort). -/
  def run0 {σ : Type} (v : V0 σ) : σ → Tree → σ × Bool
    | s, .node i cs =>
      let r := if v.hEnter s i.kind then v.enter s i else (Action.idle, s)
      match r.1 with
      | .brk => (r.2, true)
      | .skip => (r.2, false)
      | .idle =>
        let r2 := run0List v r.2 cs
        if r2.2 then (r2.1, true)
        else
          let r3 := if v.hLeave r2.1 i.kind then v.leave r2.1 i else (Action.idle, r2.1)
          (r3.2, r3.1 == Action.brk)
  def run0List {σ : Type} (v : V0 σ) : σ → List Tree → σ × Bool
    | s, [] => (s, false)
    | s, t :: ts =>
      let r := run0 v s t
      if r.2 then (r.1, true) else run0List v r.1 ts
end

/-! ## TypeInfo -/

/-- `TypeInfo`: the five stacks and the registers, addressed by their Python attribute names.
Head of a list = top of the stack (the *end* of the Python list).  `none` stands for `None` /
`Undefined` / the constant-`None` lambda. -/
structure TI (τ : Type) where
  stacks : String → List (Option τ)
  regs : String → Option τ

namespace TI
variable {τ : Type}

def init : TI τ := ⟨fun _ => [], fun _ => none⟩

def push (ti : TI τ) (s : String) (v : Option τ) : TI τ :=
  { ti with stacks := fun s' => if s' = s then v :: ti.stacks s' else ti.stacks s' }

/-- `del self._x_stack[-1:]` — removes the last element if there is one (never raises). -/
def pop (ti : TI τ) (s : String) : TI τ :=
  { ti with stacks := fun s' => if s' = s then (ti.stacks s').tail else ti.stacks s' }

def setReg (ti : TI τ) (r : String) (v : Option τ) : TI τ :=
  { ti with regs := fun r' => if r' = r then v else ti.regs r' }

def depths (ti : TI τ) (names : List String) : List Nat := names.map (fun s => (ti.stacks s).length)
end TI

/-- One `enter_<kind>` / `leave_<kind>` pair of `TypeInfo`: the stacks pushed (in order), the
registers assigned on enter; the stacks popped, the registers reset to `None` on leave. -/
structure TIRow where
  kind : String
  pushes : List String
  sets : List String
  pops : List String
  resets : List String
  deriving Repr, DecidableEq

abbrev TITable := List TIRow

def TITable.row (tbl : TITable) (k : String) : Option TIRow := tbl.find? (fun r => r.kind == k)

def TITable.setsOf (tbl : TITable) (k : String) : List String :=
  match tbl.row k with
  | some r => r.sets
  | none => []

def TITable.resetsOf (tbl : TITable) (k : String) : List String :=
  match tbl.row k with
  | some r => r.resets
  | none => []

mutual
  /-- No node whose kind assigns a TypeInfo register has a proper descendant whose kind resets that register
  (the grammar guarantees it: no directive inside a directive, no argument inside an argument, …). -/
  def Tree.noRegNest (tbl : TITable) : Tree → Bool
    | .node i cs =>
      (tbl.setsOf i.kind).all (fun r => (Tree.kindsList cs).all (fun k => !(tbl.resetsOf k).contains r))
        && Tree.noRegNestList tbl cs
  def Tree.noRegNestList (tbl : TITable) : List Tree → Bool
    | [] => true
    | t :: ts => Tree.noRegNest tbl t && Tree.noRegNestList tbl ts
end

/-- The abstract lookups (`schema.get_field`, `type_from_ast`, `get_named_type`, …): the value an
`enter_*` method pushes on a stack / stores in a register is a function of the node and of the
TypeInfo *before* the method runs. -/
structure Lookups (τ : Type) where
  stackVal : String → Info → TI τ → Option τ
  regVal : String → Info → TI τ → Option τ

namespace TI
variable {τ : Type}

/-- `TypeInfo.enter(node)`: `getattr(self, "enter_" + node.kind, None)`; no method, no effect. -/
def enter (tbl : TITable) (L : Lookups τ) (ti : TI τ) (i : Info) : TI τ :=
  match tbl.row i.kind with
  | none => ti
  | some r =>
    let ti1 := r.sets.foldl (fun acc reg => acc.setReg reg (L.regVal reg i ti)) ti
    r.pushes.foldl (fun acc s => acc.push s (L.stackVal s i ti)) ti1

/-- `TypeInfo.leave(node)`. -/
def leave (tbl : TITable) (ti : TI τ) (i : Info) : TI τ :=
  match tbl.row i.kind with
  | none => ti
  | some r =>
    let ti1 := r.resets.foldl (fun acc reg => acc.setReg reg none) ti
    r.pops.foldl (fun acc s => acc.pop s) ti1
end TI

/-- A visitor that may read the TypeInfo (what `TypeInfoVisitor` wraps). -/
structure V (τ σ : Type) where
  hEnter : σ → String → Bool
  hLeave : σ → String → Bool
  enter : σ → TI τ → Info → Action × σ
  leave : σ → TI τ → Info → Action × σ

/-- What drives the TypeInfo: `type_info.enter(node)` / `type_info.leave(node)`. -/
structure Driver (τ : Type) where
  enter : TI τ → Info → TI τ
  leave : TI τ → Info → TI τ

/-- The real `TypeInfo` (table generated from type_info.py, abstract lookups). -/
def realDriver {τ : Type} (tbl : TITable) (L : Lookups τ) : Driver τ := ⟨fun ti i => ti.enter tbl L i, fun ti i => ti.leave tbl i⟩

/-- No TypeInfo at all (used to relate `plainVisitor` to `tiVisitor`). -/
def idDriver {τ : Type} : Driver τ := ⟨fun ti _ => ti, fun ti _ => ti⟩

/-- `TypeInfoVisitor(type_info, visitor)`.  It defines the generic `enter`/`leave`, so it has a
handler for every kind. -/
def tiVisitor {τ σ : Type} (D : Driver τ) (v : V τ σ) : V0 (TI τ × σ) where
  hEnter := fun _ _ => true
  hLeave := fun _ _ => true
  enter := fun s i =>
    let ti1 := D.enter s.1 i
    if v.hEnter s.2 i.kind then
      let r := v.enter s.2 ti1 i
      -- `if result is not None: self.type_info.leave(node)`
      (r.1, (if r.1 = Action.idle then ti1 else D.leave ti1 i, r.2))
    else (Action.idle, (ti1, s.2))
  leave := fun s i =>
    let r := if v.hLeave s.2 i.kind then v.leave s.2 s.1 i else (Action.idle, s.2)
    (r.1, (D.leave s.1 i, r.2))

/-- A visitor used without `TypeInfoVisitor` (`validate_sdl`: `visit(doc, ParallelVisitor(vs))`);
whatever it reads of a TypeInfo is the constant `ti0`. -/
def plainVisitor {τ σ : Type} (ti0 : TI τ) (v : V τ σ) : V0 σ where
  hEnter := v.hEnter
  hLeave := v.hLeave
  enter := fun s i => v.enter s ti0 i
  leave := fun s i => v.leave s ti0 i

/-! ## Rules, `on_error`, `ParallelVisitor` -/

structure Rule (τ σ ε : Type) where
  hEnter : String → Bool
  hLeave : String → Bool
  /-- the handler: action, new private state, errors reported (in order) -/
  step : σ → Phase → Info → TI τ → Action × σ × List ε

/-- `ParallelVisitor.skipping[i]`. -/
inductive Skipping where
  | none
  /-- the node being skipped; `skipping[i] is node` is equality of `Info` (same object ⇒ same id and kind) -/
  | node (i : Info)
  | brk
  deriving DecidableEq, Repr, Inhabited

/-- One call a member receives: phase, node, and the TypeInfo it could read. -/
structure Call (τ : Type) where
  phase : Phase
  info : Info
  ti : TI τ

/-- A member of a `ParallelVisitor`: the rule (never changes), its private state, its `skipping`
entry, and two ghost logs (the calls it received; the errors it handed to `on_error`). -/
structure Member (τ σ ε : Type) where
  rule : Rule τ σ ε
  st : σ
  skipping : Skipping
  calls : List (Call τ)
  errs : List ε

/-- The `errors` list of `validate()` plus "ValidationAbortedError is propagating". -/
structure Sink (ε : Type) where
  errs : List ε
  aborted : Bool

namespace Sink
variable {ε : Type}
/-- `on_error`: `if len(errors) >= max_errors: raise validation_aborted_error; errors.append(error)`. -/
def report (max : Option Nat) (snk : Sink ε) (e : ε) : Sink ε :=
  if snk.aborted then snk
  else match max with
    | some n => if n ≤ snk.errs.length then { snk with aborted := true } else { snk with errs := snk.errs ++ [e] }
    | none => { snk with errs := snk.errs ++ [e] }

def reportAll (max : Option Nat) (snk : Sink ε) (es : List ε) : Sink ε := es.foldl (report max) snk
end Sink

namespace Member
variable {τ σ ε : Type}

def skipOf (a : Action) (i : Info) : Skipping :=
  match a with
  | .skip => .node i
  | .brk => .brk
  | .idle => .none

/-- Body of the `enter` loop of `ParallelVisitor` for one member:
`if not skipping[i] and fn: result = fn(node, …); SKIP → skipping[i] = node; BREAK → skipping[i] = BREAK`. -/
def enter (ti : TI τ) (i : Info) (m : Member τ σ ε) : Member τ σ ε × List ε :=
  if m.skipping = .none ∧ m.rule.hEnter i.kind then
    let r := m.rule.step m.st .enter i ti
    ({ m with st := r.2.1, skipping := skipOf r.1 i, calls := m.calls ++ [⟨.enter, i, ti⟩], errs := m.errs ++ r.2.2 }, r.2.2)
  else (m, [])

/-- Body of the `leave` loop: `if not skipping[i]: (if fn: result = fn(…); BREAK → skipping[i] = BREAK)
elif skipping[i] is node: skipping[i] = None`. -/
def leave (ti : TI τ) (i : Info) (m : Member τ σ ε) : Member τ σ ε × List ε :=
  match m.skipping with
  | .none =>
    if m.rule.hLeave i.kind then
      let r := m.rule.step m.st .leave i ti
      ({ m with st := r.2.1, skipping := (if r.1 = Action.brk then .brk else .none),
                calls := m.calls ++ [⟨.leave, i, ti⟩], errs := m.errs ++ r.2.2 }, r.2.2)
    else (m, [])
  | .node j => if j = i then ({ m with skipping := .none }, []) else (m, [])
  | .brk => (m, [])
end Member

/-- State of a `ParallelVisitor` inside `validate()`: the members and the error sink. -/
structure PState (τ σ ε : Type) where
  members : List (Member τ σ ε)
  sink : Sink ε

/-- The `for i, fn in enumerate(...)` loop; a raised `ValidationAbortedError` leaves the remaining
members untouched. -/
def memberLoop {τ σ ε : Type} (max : Option Nat) (f : Member τ σ ε → Member τ σ ε × List ε) :
    List (Member τ σ ε) → Sink ε → List (Member τ σ ε) × Sink ε
  | [], snk => ([], snk)
  | m :: ms, snk =>
    if snk.aborted then (m :: ms, snk)
    else
      let r := f m
      let snk1 := snk.reportAll max r.2
      let rest := memberLoop max f ms snk1
      (r.1 :: rest.1, rest.2)

/-- `ParallelVisitor(visitors)` with the `on_error` of `validate(max_errors = max)`.  A kind has an
enter and a leave function iff some member has an enter or a leave handler for it (`has_visitor`). -/
def parallel {τ σ ε : Type} (max : Option Nat) : V τ (PState τ σ ε) where
  hEnter := fun s k => s.members.any (fun m => m.rule.hEnter k || m.rule.hLeave k)
  hLeave := fun s k => s.members.any (fun m => m.rule.hEnter k || m.rule.hLeave k)
  enter := fun s ti i =>
    let r := memberLoop max (Member.enter ti i) s.members s.sink
    (if r.2.aborted then Action.brk else Action.idle, ⟨r.1, r.2⟩)
  leave := fun s ti i =>
    let r := memberLoop max (Member.leave ti i) s.members s.sink
    (if r.2.aborted then Action.brk else Action.idle, ⟨r.1, r.2⟩)

/-- One rule used directly as the visitor of `visit()` (no `ParallelVisitor` around it): SKIP and
BREAK are answered to `visit()` itself.  Same ghost logs as a member; `skipping` is unused. -/
def single {τ σ ε : Type} : V τ (Member τ σ ε) where
  hEnter := fun m k => m.rule.hEnter k
  hLeave := fun m k => m.rule.hLeave k
  enter := fun m ti i =>
    let r := m.rule.step m.st .enter i ti
    (r.1, { m with st := r.2.1, calls := m.calls ++ [⟨.enter, i, ti⟩], errs := m.errs ++ r.2.2 })
  leave := fun m ti i =>
    let r := m.rule.step m.st .leave i ti
    (r.1, { m with st := r.2.1, calls := m.calls ++ [⟨.leave, i, ti⟩], errs := m.errs ++ r.2.2 })

/-! ## `validate` -/

inductive Reported (ε : Type) where
  | error (e : ε)
  /-- the `validation_aborted_error` notice -/
  | aborted
  deriving DecidableEq, Repr

def Member.start {τ σ ε : Type} (r : Rule τ σ ε) (s0 : σ) : Member τ σ ε := ⟨r, s0, .none, [], []⟩

def PState.start {τ σ ε : Type} (rules : List (Rule τ σ ε × σ)) : PState τ σ ε :=
  ⟨rules.map (fun r => Member.start r.1 r.2), ⟨[], false⟩⟩

/-- Final state of `visit(doc, TypeInfoVisitor(type_info, ParallelVisitor(visitors)), keys)` inside
`validate(max_errors = max)`. -/
def validateRun {τ σ ε : Type} (tbl : TITable) (L : Lookups τ) (max : Option Nat)
    (rules : List (Rule τ σ ε × σ)) (doc : Tree) : (TI τ × PState τ σ ε) × Bool :=
  run0 (tiVisitor (realDriver tbl L) (parallel max)) (TI.init, PState.start rules) doc

def Sink.result {ε : Type} (snk : Sink ε) : List (Reported ε) :=
  if snk.aborted then snk.errs.map Reported.error ++ [Reported.aborted] else snk.errs.map Reported.error

/-- `validate(schema, doc, rules, max_errors)`: the list it returns (`max = none`: no limit). -/
def validate {τ σ ε : Type} (tbl : TITable) (L : Lookups τ) (max : Option Nat)
    (rules : List (Rule τ σ ε × σ)) (doc : Tree) : List (Reported ε) :=
  (validateRun tbl L max rules doc).1.2.sink.result

/-- `validate_sdl(doc, schema_to_extend, rules)`: no TypeInfo, no limit (`errors.append`). -/
def validateSdl {τ σ ε : Type} (ti0 : TI τ) (rules : List (Rule τ σ ε × σ)) (doc : Tree) : List (Reported ε) :=
  (run0 (plainVisitor ti0 (parallel none)) (PState.start rules) doc).1.sink.result

end Gql.Validation
