/-
C12 — the memoised getters of `ValidationContext` (validation/validation_context.py).

Every getter is `cache.get(key)`, and on a miss computes, stores and returns the value.  What is
computed on a miss reads only the immutable document / schema (and, for `get_variable_usages`, runs a
nested `visit` on the shared `TypeInfo`, which `typeinfo_balanced` shows leaves it unchanged); it is
a *parameter* here (`Pure`).  Keys are nodes; Python compares them with the dataclass `__eq__`/`__hash__`
(all fields including `loc`), the model's numbers stand for those equality classes.  Operations and
fragment definitions are different classes and never compare equal (`NodeRef`).

`get_recursive_variable_usages` is modelled as it is written:

    usages = get_variable_usages(operation)          # the *cached list object itself*
    for fragment in self.get_recursively_referenced_fragments(operation):
        usages.extend(get_variable_usages(fragment))  # mutates the object stored in _variable_usages
    self._recursive_variable_usages[operation] = usages

so the list stored in `_variable_usages[operation]` is extended in place.  The object stored in
`_recursive_variable_usages[operation]` is never mutated after it has been stored (an entry is only
extended on the first `get_recursive_variable_usages` of its own operation), hence storing its value
is exact; the in-place extension is modelled as an update of the `_variable_usages` entry.
-/
namespace Gql.Validation.Context

/-- `NodeWithSelectionSet`: an operation definition or a fragment definition. -/
inductive NodeRef where
  | op (n : Nat)
  | frag (n : Nat)
  deriving DecidableEq, Repr

/-- What a miss computes (pure functions of document and schema). -/
structure Pure (υ : Type) where
  fragment : Nat → Option Nat          -- name ↦ fragment definition
  spreads : Nat → List Nat             -- selection set ↦ fragment spreads below it
  recFrags : Nat → List Nat            -- operation ↦ fragments reachable from it
  usages : NodeRef → List υ            -- the nested TypeInfo visit of one operation / fragment

structure Ctx (υ : Type) where
  fragments : Option Unit                         -- `_fragments is None` or the built dict
  spreads : List (Nat × List Nat)                 -- `_fragment_spreads`
  recFrags : List (Nat × List Nat)                -- `_recursively_referenced_fragments`
  varUsages : List (NodeRef × List υ)             -- `_variable_usages`
  recUsages : List (Nat × List υ)                 -- `_recursive_variable_usages`

def Ctx.empty {υ : Type} : Ctx υ := ⟨none, [], [], [], []⟩

inductive Req where
  | fragment (name : Nat)
  | spreads (selSet : Nat)
  | recFrags (op : Nat)
  | usages (node : NodeRef)
  | recUsages (op : Nat)
  deriving DecidableEq, Repr

inductive Resp (υ : Type) where
  | frag (f : Option Nat)
  | ids (xs : List Nat)
  | us (xs : List υ)
  deriving DecidableEq, Repr

def lookup {κ ν : Type} [DecidableEq κ] (k : κ) : List (κ × ν) → Option ν
  | [] => none
  | (k', v) :: rest => if k' = k then some v else lookup k rest

/-- `d[k] = v` -/
def store {κ ν : Type} [DecidableEq κ] (k : κ) (v : ν) : List (κ × ν) → List (κ × ν)
  | [] => [(k, v)]
  | (k', v') :: rest => if k' = k then (k, v) :: rest else (k', v') :: store k v rest

variable {υ : Type}

def getFragment (P : Pure υ) (c : Ctx υ) (name : Nat) : Option Nat × Ctx υ :=
  (P.fragment name, { c with fragments := some () })

def getSpreads (P : Pure υ) (c : Ctx υ) (s : Nat) : List Nat × Ctx υ :=
  match lookup s c.spreads with
  | some v => (v, c)
  | none => (P.spreads s, { c with spreads := store s (P.spreads s) c.spreads })

def getRecFrags (P : Pure υ) (c : Ctx υ) (o : Nat) : List Nat × Ctx υ :=
  match lookup o c.recFrags with
  | some v => (v, c)
  | none => (P.recFrags o, { c with recFrags := store o (P.recFrags o) c.recFrags, fragments := some () })

def getUsages (P : Pure υ) (c : Ctx υ) (n : NodeRef) : List υ × Ctx υ :=
  match lookup n c.varUsages with
  | some v => (v, c)
  | none => (P.usages n, { c with varUsages := store n (P.usages n) c.varUsages })

/-- `usages.extend(get_variable_usages(fragment))` for every fragment, `usages` being the object
stored under `.op o` in `_variable_usages`. -/
def extendLoop (P : Pure υ) (o : Nat) : Ctx υ → List Nat → Ctx υ
  | c, [] => c
  | c, f :: fs =>
    let r := getUsages P c (.frag f)
    let cur := (lookup (NodeRef.op o) r.2.varUsages).getD []   -- the object `usages` (entry exists: stored by the first call)
    extendLoop P o { r.2 with varUsages := store (.op o) (cur ++ r.1) r.2.varUsages } fs

def getRecUsages (P : Pure υ) (c : Ctx υ) (o : Nat) : List υ × Ctx υ :=
  match lookup o c.recUsages with
  | some v => (v, c)
  | none =>
    let r1 := getUsages P c (.op o)
    let r2 := getRecFrags P r1.2 o
    let c3 := extendLoop P o r2.2 r2.1
    let final := (lookup (NodeRef.op o) c3.varUsages).getD []
    (final, { c3 with recUsages := store o final c3.recUsages })

def stepReq (P : Pure υ) (c : Ctx υ) : Req → Resp υ × Ctx υ
  | .fragment n => let r := getFragment P c n; (.frag r.1, r.2)
  | .spreads s => let r := getSpreads P c s; (.ids r.1, r.2)
  | .recFrags o => let r := getRecFrags P c o; (.ids r.1, r.2)
  | .usages n => let r := getUsages P c n; (.us r.1, r.2)
  | .recUsages o => let r := getRecUsages P c o; (.us r.1, r.2)

def runReqs (P : Pure υ) : Ctx υ → List Req → List (Resp υ) × Ctx υ
  | c, [] => ([], c)
  | c, q :: qs =>
    let r := stepReq P c q
    let rest := runReqs P r.2 qs
    (r.1 :: rest.1, rest.2)

/-! ### Recomputation (the specification of each getter) -/

def specRecUsages (P : Pure υ) (o : Nat) : List υ :=
  P.usages (.op o) ++ (P.recFrags o).flatMap (fun f => P.usages (.frag f))

def specResp (P : Pure υ) : Req → Resp υ
  | .fragment n => .frag (P.fragment n)
  | .spreads s => .ids (P.spreads s)
  | .recFrags o => .ids (P.recFrags o)
  | .usages n => .us (P.usages n)
  | .recUsages o => .us (specRecUsages P o)

end Gql.Validation.Context
