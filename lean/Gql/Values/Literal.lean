/-
GraphQL value literals (`ValueNode` of src/graphql/language/ast.py) as the value layer sees
them.  `IntValueNode.value` / `FloatValueNode.value` are *strings* in the AST; the models keep
them as strings and convert where the code converts.
-/
namespace Gql.Values

inductive Lit where
  | var (name : List Nat)
  | int (s : List Nat)
  | float (s : List Nat)
  | str (s : List Nat)
  | bool (b : Bool)
  | null
  | enum (s : List Nat)
  | list (xs : List Lit)
  | obj (fields : List (List Nat × Lit))
  deriving Repr, Inhabited

namespace Lit

def isVar : Lit → Bool
  | var _ => true
  | _ => false

def isNull : Lit → Bool
  | null => true
  | _ => false

mutual
/-- no `VariableNode` anywhere (a `ConstValueNode`) -/
def isConst : Lit → Bool
  | var _ => false
  | list xs => isConstList xs
  | obj fs => isConstFields fs
  | _ => true
def isConstList : List Lit → Bool
  | [] => true
  | x :: xs => isConst x && isConstList xs
def isConstFields : List (List Nat × Lit) → Bool
  | [] => true
  | (_, x) :: xs => isConst x && isConstFields xs
end

end Lit
end Gql.Values
