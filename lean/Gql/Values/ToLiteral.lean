import Gql.Values.Coerce
/-
Model of `value_to_literal` (src/graphql/utilities/value_to_literal.py): `none` is Python's
`None` result ("invalid: intentionally return no value").  Exceptions of the leaf type's
`value_to_literal` are swallowed by the code.
-/
namespace Gql.Values
open Gql

/-- `try: leaf_type.value_to_literal(value) except Exception: return None` -/
def leafToLiteral (c : PyConv) : Leaf → PyVal → Option Lit
  | .scalar s, v => match s.valueToLiteral c v with
    | .ok r => r
    | _ => none
  | .enum e, v => e.valueToLiteral v

def seqLits : List (Option Lit) → Option (List Lit)
  | [] => some []
  | none :: _ => none
  | some l :: rest => match seqLits rest with
    | some ls => some (l :: ls)
    | none => none

/-- per declared field: `none` = invalid, `some none` = omitted, `some (some (k, node))` -/
def seqLitFields : List (Option (Option (List Nat × Lit))) → Option (List (List Nat × Lit))
  | [] => some []
  | none :: _ => none
  | some none :: rest => seqLitFields rest
  | some (some kv) :: rest => match seqLitFields rest with
    | some ls => some (kv :: ls)
    | none => none

/-- `value_to_literal(value, type_)` -/
def valueToLiteral (c : PyConv) (tm : TypeMap) (v : PyVal) (t : InType) : Option Lit :=
  match t with
  | .nonNull t' =>
    if v.isNullish then none else valueToLiteral c tm v t'
  | .list t' =>
    if v.isNullish then some .null
    else match hit : v.iterItems with
      | some xs =>
        (match seqLits (xs.attach.map fun ⟨x, _⟩ => valueToLiteral c tm x t') with
         | some ls => some (.list ls)
         | none => none)
      | none => valueToLiteral c tm v t'
  | .named n =>
    if v.isNullish then some .null
    else match tm.find n with
      | some (.inputObject fields _) =>
        (match hd : v.asMapping with
         | some kvs =>
           if hasUnknownDefined kvs fields then none
           else
             match seqLitFields (fields.map fun f =>
               match h : dictGetDefined kvs f.name with
               | some fv => (match valueToLiteral c tm fv f.type with
                 | some node => some (some (f.name, node))
                 | none => none)
               | none => if f.isRequired then none else some none) with
             | some fs => some (.obj fs)
             | none => none
         | none => none)
      | some (.scalar s) => leafToLiteral c (.scalar s) v
      | some (.enum e) => leafToLiteral c (.enum e) v
      | none => none
termination_by (sizeOf v, sizeOf t)
decreasing_by
  all_goals simp_wf
  · apply Prod.Lex.right; simp
  · apply Prod.Lex.left; exact iterItems_sizeOf hit ‹_ ∈ _›
  · apply Prod.Lex.right; simp
  · apply Prod.Lex.left
    have h1 := dictGetDefined_sizeOf h
    have h2 := asMapping_sizeOf hd
    omega

end Gql.Values
