import Gql.Values.ValidateInput
/-
Model of `get_variable_values` / `coerce_variable_values` / `maybe_use_default_value`
(src/graphql/execution/values.py), without `max_errors`.
-/
namespace Gql.Values
open Gql

/-- a variable definition: name, declared type (`none`: not an input type →
`get_variable_signature` returns an error), default literal -/
structure VarDef where
  name : List Nat
  type : Option InType
  default : Option Lit
  deriving Repr, Inhabited

/-- one reported error: the variable and the path inside its value -/
structure VarError where
  var : List Nat
  path : Path
  deriving Repr, Inhabited, DecidableEq

structure VarState where
  errors : List VarError := []
  sources : List (List Nat × VarSource) := []
  coerced : List (List Nat × PyVal) := []
  deriving Repr, Inhabited

/-- `maybe_use_default_value` for a variable signature (its default is always a literal):
an invalid default is a `TypeError` out of `coerce_default_value`, caught and reported through
`validate_default_input` — or, if that validated, as the `TypeError` itself. -/
def useVarDefault (c : PyConv) (D : Field → R) (tm : TypeMap) (name : List Nat) (t : InType) (dl : Lit)
    (st : VarState) : Out Unit VarState :=
  match coerceLiteral c D tm none dl t with
  | .ok .undefined =>
    let errs := validateInputLiteral c tm none dl t
    let errs := if errs.isEmpty then [[]] else errs
    .ok { st with errors := st.errors ++ errs.map (fun p => ⟨name, p⟩) }
  | .ok cv => .ok { st with coerced := st.coerced ++ [(name, cv)] }
  | .err e => .err e
  | .crash "TypeError" =>
    -- a nested input-field default was invalid: same `except TypeError` branch
    let errs := validateInputLiteral c tm none dl t
    let errs := if errs.isEmpty then [[]] else errs
    .ok { st with errors := st.errors ++ errs.map (fun p => ⟨name, p⟩) }
  | .crash k => .crash k

/-- one iteration of the loop of `coerce_variable_values` -/
def coerceVariable (c : PyConv) (D : Field → R) (tm : TypeMap) (inputs : List (List Nat × PyVal))
    (d : VarDef) (st : VarState) : Out Unit VarState :=
  match d.type with
  | none => .ok { st with errors := st.errors ++ [⟨d.name, []⟩] }
  | some t =>
    match dictGetDefined inputs d.name with
    | none =>
      let st := { st with sources := st.sources ++ [(d.name, VarSource.mk t d.default .undefined)] }
      (match d.default with
       | some dl => useVarDefault c D tm d.name t dl st
       | none =>
         if !t.isNonNull then .ok st
         else
           -- falls through to coerce_input_value(Undefined, NonNull) = Undefined, then validation
           .ok { st with errors := st.errors ++ (validateInputValue c tm .undefined t).map (fun p => ⟨d.name, p⟩) })
    | some value =>
      let st := { st with sources := st.sources ++ [(d.name, VarSource.mk t d.default value)] }
      (match coerceValue c D tm value t with
       | .ok .undefined =>
         .ok { st with errors := st.errors ++ (validateInputValue c tm value t).map (fun p => ⟨d.name, p⟩) }
       | .ok cv => .ok { st with coerced := st.coerced ++ [(d.name, cv)] }
       | .err e => .err e
       | .crash k => .crash k)

def coerceVariables (c : PyConv) (D : Field → R) (tm : TypeMap) (inputs : List (List Nat × PyVal)) :
    List VarDef → VarState → Out Unit VarState
  | [], st => .ok st
  | d :: ds, st =>
    match coerceVariable c D tm inputs d st with
    | .ok st' => coerceVariables c D tm inputs ds st'
    | .err e => .err e
    | .crash k => .crash k

/-- `get_variable_values`: the errors if there are any, else the variable values -/
def getVariableValues (c : PyConv) (D : Field → R) (tm : TypeMap) (defs : List VarDef)
    (inputs : List (List Nat × PyVal)) : Out Unit (Sum (List VarError) VarValues) :=
  match coerceVariables c D tm inputs defs {} with
  | .ok st => if st.errors.isEmpty then .ok (.inr ⟨st.sources, st.coerced⟩) else .ok (.inl st.errors)
  | .err e => .err e
  | .crash k => .crash k

end Gql.Values
