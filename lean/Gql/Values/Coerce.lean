import Gql.Values.Enum
/-
Model of src/graphql/utilities/coerce_input_value.py: `coerce_input_value`,
`coerce_input_literal`, `coerce_default_value`, over input types built from the built-in
scalars, enums and (recursive, OneOf) input objects.

* A result `.ok .undefined` is Python's `Undefined` ("invalid: intentionally return no value").
* The only exception that can escape is the `TypeError` of `coerce_default_value` for an
  invalid default (`crash "TypeError"`): leaf coercion exceptions are swallowed by the code.
* `coerce_default_value(field)` is the parameter `D : Field → R` of the coercers (the code
  memoises it on the default object); `mkD` ties the knot by bounded iteration for the driver.
  Theorems assume of `D` exactly what schema validation guarantees (valid defaults).
* `out_name`/`out_type` (graphql-core extensions) are not modelled (identity).
* Recursion is on the *value* (a finite tree), lexicographically with the type wrappers.
-/
namespace Gql.Values
open Gql

inductive InType where
  | named (n : List Nat)
  | list (t : InType)
  | nonNull (t : InType)
  deriving DecidableEq, Repr, Inhabited

def InType.isNonNull : InType → Bool
  | .nonNull _ => true
  | _ => false

/-- `default` (a `GraphQLDefaultInput` holding an external value or a literal) or the
deprecated internal `default_value` (used as is). -/
inductive FieldDefault where
  | none
  | value (v : PyVal)
  | literal (l : Lit)
  | legacy (v : PyVal)
  deriving Repr, Inhabited

structure Field where
  name : List Nat
  type : InType
  default : FieldDefault
  deriving Repr, Inhabited

/-- `is_required_input_field` -/
def Field.isRequired (f : Field) : Bool :=
  f.type.isNonNull && (match f.default with
    | .none => true
    | .legacy .undefined => true
    | _ => false)

inductive NamedDef where
  | scalar (s : Scalar)
  | enum (e : EnumType)
  | inputObject (fields : List Field) (oneOf : Bool)
  deriving Repr, Inhabited

abbrev TypeMap := List (List Nat × NamedDef)

def TypeMap.find (tm : TypeMap) (n : List Nat) : Option NamedDef :=
  match tm with
  | [] => none
  | (k, d) :: rest => if k = n then some d else TypeMap.find rest n

/-- `try: leaf_type.coerce_input_value(v) except Exception: return Undefined` -/
def leafValue (c : PyConv) (t : Leaf) (v : PyVal) : PyVal :=
  match t.coerceInputValue c v with
  | .ok r => r
  | _ => .undefined

def Leaf.coerceInputLiteral (c : PyConv) : Leaf → Lit → R
  | .scalar s => s.coerceLiteral c
  | .enum e => e.coerceInputLiteral

/-- `try: leaf_type.coerce_input_literal(replace_variables(node, …)) except Exception: Undefined`.
The built-in leaf types reject list/object literals whatever `replace_variables` made of the
variables inside (and any exception it raises is swallowed here), and a bare variable never
reaches this point, so `replace_variables` does not influence the outcome. -/
def leafLiteral (c : PyConv) (t : Leaf) (l : Lit) : PyVal :=
  match t.coerceInputLiteral c l with
  | .ok r => r
  | _ => .undefined

def NamedDef.asLeaf : NamedDef → Option Leaf
  | .scalar s => some (.scalar s)
  | .enum e => some (.enum e)
  | .inputObject _ _ => none

/-- `input_value.get(name, Undefined)` with "is Undefined" folded in -/
def dictGetDefined (kvs : List (List Nat × PyVal)) (k : List Nat) : Option PyVal :=
  match PyVal.dictGet kvs k with
  | some .undefined => none
  | r => r

/-- the loop that appends coerced items and returns `Undefined` at the first invalid one;
`none` = `Undefined` -/
def seqItems : List R → Out Unit (Option (List PyVal))
  | [] => .ok (some [])
  | r :: rs =>
    match r with
    | .ok .undefined => .ok none
    | .ok c =>
      (match seqItems rs with
       | .ok (some cs) => .ok (some (c :: cs))
       | other => other)
    | .err e => .err e
    | .crash k => .crash k

def wrapList : Out Unit (Option (List PyVal)) → R
  | .ok (some cs) => .ok (.list cs)
  | .ok none => .ok .undefined
  | .err e => .err e
  | .crash k => .crash k

/-- what one declared field contributes to the coerced dict -/
inductive FieldRes where
  | invalid
  | skip
  | entry (k : List Nat) (c : PyVal)
  deriving Repr, Inhabited

def seqFields : List (Out Unit FieldRes) → Out Unit (Option (List (List Nat × PyVal)))
  | [] => .ok (some [])
  | r :: rs =>
    match r with
    | .ok .invalid => .ok none
    | .ok .skip => seqFields rs
    | .ok (.entry k c) =>
      (match seqFields rs with
       | .ok (some es) => .ok (some ((k, c) :: es))
       | other => other)
    | .err e => .err e
    | .crash k => .crash k

def fieldOfCoerced (name : List Nat) : R → Out Unit FieldRes
  | .ok .undefined => .ok .invalid
  | .ok r => .ok (.entry name r)
  | .err e => .err e
  | .crash k => .crash k

/-- the missing-field branch: required → invalid, else the coerced default if there is one -/
def fieldMissing (D : Field → R) (f : Field) : Out Unit FieldRes :=
  if f.isRequired then .ok .invalid
  else match D f with
    | .ok .undefined => .ok .skip
    | .ok r => .ok (.entry f.name r)
    | .err e => .err e
    | .crash k => .crash k

def isDefined : PyVal → Bool
  | .undefined => false
  | _ => true

/-- `defined_field_count`: entries whose value is not `Undefined` -/
def definedCount (kvs : List (List Nat × PyVal)) : Nat :=
  (kvs.filter fun kv => isDefined kv.2).length

/-- some key with a defined value is not a declared field -/
def hasUnknownDefined (kvs : List (List Nat × PyVal)) (fields : List Field) : Bool :=
  kvs.any fun kv => isDefined kv.2 && !fields.any (fun f => f.name = kv.1)

/-- the OneOf post-check of `coerce_input_value` -/
def oneOfValue (definedFieldCount : Nat) (entries : List (List Nat × PyVal)) : R :=
  match entries with
  | [(k, c)] =>
    if definedFieldCount ≠ 1 then .ok .undefined
    else match c with
      | .none => .ok .undefined
      | _ => .ok (.dict [(k, c)])
  | _ => .ok .undefined

theorem dictGet_sizeOf {kvs : List (List Nat × PyVal)} {k : List Nat} {v : PyVal}
    (h : PyVal.dictGet kvs k = some v) : sizeOf v < sizeOf kvs := by
  induction kvs with
  | nil => simp [PyVal.dictGet] at h
  | cons hd tl ih =>
    obtain ⟨k0, v0⟩ := hd
    unfold PyVal.dictGet at h
    split at h
    · simp only [Option.some.injEq] at h; subst h; simp; omega
    · have := ih h; simp; omega

theorem dictGetDefined_sizeOf {kvs : List (List Nat × PyVal)} {k : List Nat} {v : PyVal}
    (h : dictGetDefined kvs k = some v) : sizeOf v < sizeOf kvs := by
  unfold dictGetDefined at h
  split at h
  · simp at h
  · exact dictGet_sizeOf h

/-- `is_iterable(v)`: the items of a list, tuple or other iterable — but not of a str, bytes
or Mapping (`not_iterable_types`), which count as single values. -/
def PyVal.iterItems : PyVal → Option (List PyVal)
  | .list xs => some xs
  | .tuple xs => some xs
  | .iter xs => some xs
  | _ => Option.none

/-- `isinstance(v, dict)`: false for a Mapping that is not a dict -/
def PyVal.asDict : PyVal → Option (List (List Nat × PyVal))
  | .dict kvs => some kvs
  | _ => Option.none

/-- `isinstance(v, Mapping)` (what `value_to_literal` tests instead) -/
def PyVal.asMapping : PyVal → Option (List (List Nat × PyVal))
  | .dict kvs => some kvs
  | .mapping kvs => some kvs
  | _ => Option.none

theorem iterItems_sizeOf {v : PyVal} {xs : List PyVal} {x : PyVal}
    (h : v.iterItems = some xs) (hx : x ∈ xs) : sizeOf x < sizeOf v := by
  have := List.sizeOf_lt_of_mem hx
  cases v <;> simp [PyVal.iterItems] at h <;> subst h <;> simp <;> omega

theorem asDict_sizeOf {v : PyVal} {kvs : List (List Nat × PyVal)}
    (h : v.asDict = some kvs) : sizeOf kvs < sizeOf v := by
  cases v <;> simp [PyVal.asDict] at h; subst h; simp

theorem asMapping_sizeOf {v : PyVal} {kvs : List (List Nat × PyVal)}
    (h : v.asMapping = some kvs) : sizeOf kvs < sizeOf v := by
  cases v <;> simp [PyVal.asMapping] at h <;> subst h <;> simp

/-- `coerce_input_value(input_value, type_)` -/
def coerceValue (c : PyConv) (D : Field → R) (tm : TypeMap) (v : PyVal) (t : InType) : R :=
  match t with
  | .nonNull t' =>
    if v.isNullish then .ok .undefined else coerceValue c D tm v t'
  | .list t' =>
    if v.isNullish then .ok .none
    else match hit : v.iterItems with
      | some xs => wrapList (seqItems (xs.attach.map fun ⟨x, _⟩ => coerceValue c D tm x t'))
      | none =>
        match coerceValue c D tm v t' with
        | .ok .undefined => .ok .undefined
        | .ok r => .ok (.list [r])
        | .err e => .err e
        | .crash k => .crash k
  | .named n =>
    if v.isNullish then .ok .none
    else match tm.find n with
      | some (.inputObject fields oneOf) =>
        (match hd : v.asDict with
         | some kvs =>
           if hasUnknownDefined kvs fields then .ok .undefined
           else
             match seqFields (fields.map fun f =>
               match h : dictGetDefined kvs f.name with
               | some fv => fieldOfCoerced f.name (coerceValue c D tm fv f.type)
               | none => fieldMissing D f) with
             | .ok (some entries) =>
               if oneOf then oneOfValue (definedCount kvs) entries else .ok (.dict entries)
             | .ok none => .ok .undefined
             | .err e => .err e
             | .crash k => .crash k
         | none => .ok .undefined)
      | some (.scalar s) => .ok (leafValue c (.scalar s) v)
      | some (.enum e) => .ok (leafValue c (.enum e) v)
      | none => .ok .undefined
termination_by (sizeOf v, sizeOf t)
decreasing_by
  all_goals simp_wf
  · apply Prod.Lex.right; simp
  · apply Prod.Lex.left; exact iterItems_sizeOf hit ‹_ ∈ _›
  · apply Prod.Lex.right; simp
  · apply Prod.Lex.left
    have h1 := dictGetDefined_sizeOf h
    have h2 := asDict_sizeOf hd
    omega

/-! ### literals -/

/-- what `coerce_variable_values` leaves behind: per variable its signature and raw value
(`sources`), and the coerced values (`coerced`, never `Undefined`). -/
structure VarSource where
  type : InType
  default : Option Lit
  value : PyVal
  deriving Repr, Inhabited

structure VarValues where
  sources : List (List Nat × VarSource)
  coerced : List (List Nat × PyVal)
  deriving Repr, Inhabited

/-- `get_coerced_variable_value` (no fragment variables) -/
def varGet (vars : Option VarValues) (x : List Nat) : PyVal :=
  match vars with
  | none => .undefined
  | some vv => match PyVal.dictGet vv.coerced x with
    | some v => v
    | none => .undefined

/-- `FragmentVariableValues` (experimental fragment arguments) as far as input coercion reads it:
the names the fragment declares (keys of `.sources` — declared with a value, with a default, or
without any value) and the coerced values (`.coerced`, only for those that have one). -/
structure FragVarValues where
  sources : List (List Nat)
  coerced : List (List Nat × PyVal)
  deriving Repr, Inhabited

/-- `fragment_variable_values.coerced.get(name, Undefined)` -/
def fragLookup (fv : FragVarValues) (k : List Nat) : PyVal :=
  match PyVal.dictGet fv.coerced k with
  | some v => v
  | none => .undefined

/-- The scoping rule of `get_coerced_variable_value` / `get_scoped_variable_values`:
```
if fragment_variable_values and var_name in fragment_variable_values.sources:
    return fragment_variable_values.coerced.get(var_name, Undefined)
if variable_values: return variable_values.coerced.get(var_name, Undefined)
return Undefined
```
A name the fragment declares shadows the operation variable of the same name *even when it has
no value*. Expressed as one effective variable map, so that `coerceLiteral` / `validateLiteral`
(which only ever look variables up, and test "static" = neither map given) apply unchanged. -/
def scopeVars (vars : Option VarValues) (fvars : Option FragVarValues) : Option VarValues :=
  match fvars with
  | none => vars
  | some fv =>
    let own := fv.sources.map fun k => (k, fragLookup fv k)
    let outer := match vars with
      | some vv => vv.coerced.filter fun kv => !fv.sources.contains kv.1
      | none => []
    some ⟨match vars with | some vv => vv.sources | none => [], own ++ outer⟩

def Lit.asVar : Lit → Option (List Nat)
  | .var x => some x
  | _ => none

def Lit.asList : Lit → Option (List Lit)
  | .list xs => some xs
  | _ => none

def Lit.asObj : Lit → Option (List (List Nat × Lit))
  | .obj fs => some fs
  | _ => none

/-- the runtime value of a literal that is a variable (`Undefined` otherwise) -/
def litVarValue (vars : Option VarValues) : Lit → PyVal
  | .var x => varGet vars x
  | _ => .undefined

/-- `{field.name.value: field for field in node.fields}.get(k)`: the last occurrence wins -/
def litGetLast : List (List Nat × Lit) → List Nat → Option Lit
  | [], _ => none
  | (k', v) :: rest, k =>
    match litGetLast rest k with
    | some w => some w
    | none => if k' = k then some v else none

/-- the keys of that dict -/
def litNames (fs : List (List Nat × Lit)) : List (List Nat) := (fs.map (·.1)).eraseDups

theorem litGetLast_sizeOf {fs : List (List Nat × Lit)} {k : List Nat} {v : Lit}
    (h : litGetLast fs k = some v) : sizeOf v < sizeOf fs := by
  induction fs with
  | nil => simp [litGetLast] at h
  | cons hd tl ih =>
    obtain ⟨k0, v0⟩ := hd
    unfold litGetLast at h
    split at h
    · rename_i w hw
      simp only [Option.some.injEq] at h; subst h
      have := ih hw; simp; omega
    · split at h
      · simp only [Option.some.injEq] at h; subst h; simp; omega
      · simp at h

theorem asList_sizeOf {l : Lit} {xs : List Lit} {x : Lit} (h : l.asList = some xs) (hx : x ∈ xs) :
    sizeOf x < sizeOf l := by
  have := List.sizeOf_lt_of_mem hx
  cases l <;> simp [Lit.asList] at h; subst h; simp; omega

theorem asObj_sizeOf {l : Lit} {fs : List (List Nat × Lit)} (h : l.asObj = some fs) :
    sizeOf fs < sizeOf l := by
  cases l <;> simp [Lit.asObj] at h; subst h; simp

/-- `isinstance(field_node.value, NullValueNode)` for the node named `n` -/
def nodeIsNull (fs : List (List Nat × Lit)) (n : List Nat) : Bool :=
  match litGetLast fs n with
  | some node => node.isNull
  | none => false

/-- `coerced_dict.get(n, Undefined) is None` for the one-entry dict `{k: cv}` -/
def coercedIsNone (k : List Nat) (cv : PyVal) (n : List Nat) : Bool :=
  match PyVal.dictGet [(k, cv)] n with
  | some .none => true
  | _ => false

/-- the OneOf post-check of `coerce_input_literal` -/
def oneOfLiteral (fs : List (List Nat × Lit)) (entries : List (List Nat × PyVal)) : R :=
  match litNames fs, entries with
  | [n], [(k, cv)] =>
    if nodeIsNull fs n || coercedIsNone k cv n then .ok .undefined else .ok (.dict [(k, cv)])
  | _, _ => .ok .undefined

/-- a list item that came out `Undefined`: "a missing variable within a list is coerced to null" -/
def listItemLiteral (vars : Option VarValues) (it : Lit) (itemNonNull : Bool) : R → R
  | .ok .undefined =>
    if it.isVar && !itemNonNull && (litVarValue vars it).isNullish then .ok .none else .ok .undefined
  | r => r

/-- `coerce_input_literal(value_node, type_, variable_values)` -/
def coerceLiteral (c : PyConv) (D : Field → R) (tm : TypeMap) (vars : Option VarValues)
    (l : Lit) (t : InType) : R :=
  match l.asVar with
  | some x =>
    let value := varGet vars x
    if value.isNullish && t.isNonNull then .ok .undefined else .ok value
  | none =>
    match t with
    | .nonNull t' =>
      if l.isNull then .ok .undefined else coerceLiteral c D tm vars l t'
    | .list t' =>
      if l.isNull then .ok .none
      else match hl : l.asList with
        | some items =>
          wrapList (seqItems (items.attach.map fun ⟨it, _⟩ =>
            listItemLiteral vars it t'.isNonNull (coerceLiteral c D tm vars it t')))
        | none =>
          match coerceLiteral c D tm vars l t' with
          | .ok .undefined => .ok .undefined
          | .ok r => .ok (.list [r])
          | .err e => .err e
          | .crash k => .crash k
    | .named n =>
      if l.isNull then .ok .none
      else match tm.find n with
        | some (.inputObject fields oneOf) =>
          (match ho : l.asObj with
           | some fs =>
             if fs.any (fun kv => !fields.any (fun f => f.name = kv.1)) then .ok .undefined
             else
               match seqFields (fields.map fun f =>
                 match h : litGetLast fs f.name with
                 | some fv =>
                   if fv.isVar && !isDefined (litVarValue vars fv) then fieldMissing D f
                   else fieldOfCoerced f.name (coerceLiteral c D tm vars fv f.type)
                 | none => fieldMissing D f) with
               | .ok (some entries) =>
                 if oneOf then oneOfLiteral fs entries else .ok (.dict entries)
               | .ok none => .ok .undefined
               | .err e => .err e
               | .crash k => .crash k
           | none => .ok .undefined)
        | some (.scalar s) => .ok (leafLiteral c (.scalar s) l)
        | some (.enum e) => .ok (leafLiteral c (.enum e) l)
        | none => .ok .undefined
termination_by (sizeOf l, sizeOf t)
decreasing_by
  all_goals simp_wf
  · apply Prod.Lex.right; simp
  · apply Prod.Lex.left; exact asList_sizeOf hl ‹_ ∈ _›
  · apply Prod.Lex.right; simp
  · apply Prod.Lex.left
    have h1 := litGetLast_sizeOf h
    have h2 := asObj_sizeOf ho
    omega

/-! ### `coerce_default_value` -/

/-- one unfolding of `coerce_default_value(field)` given the coercers for nested defaults -/
def coerceDefaultWith (c : PyConv) (D : Field → R) (tm : TypeMap) (f : Field) : R :=
  match f.default with
  | .none => .ok .undefined
  | .legacy v => .ok v
  | .value v =>
    (match coerceValue c D tm v f.type with
     | .ok .undefined => .crash "TypeError"
     | r => r)
  | .literal l =>
    (match coerceLiteral c D tm none l f.type with
     | .ok .undefined => .crash "TypeError"
     | r => r)

/-- `coerce_default_value` with nested defaults resolved to depth `k` (`RecursionError`
beyond: circular defaults, which schema validation rejects). -/
def mkD (c : PyConv) (tm : TypeMap) : Nat → Field → R
  | 0, _ => .crash "RecursionError"
  | k + 1, f => coerceDefaultWith c (mkD c tm k) tm f

end Gql.Values
