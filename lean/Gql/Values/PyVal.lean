import Gql.Text.Out
/-
Python runtime values as seen by the value layer of graphql-core (scalars, enums, input
coercion).  Shared by C15/C16 (and later C13/C17/C18).

* `int` is unbounded (`Int`); `bool` is a separate constructor — every model function that
  mirrors an `isinstance(x, int)` test has to decide explicitly what it does with `bool`
  (in Python `isinstance(True, int)` holds), in the order the code tests.
* `float` is an exact dyadic `± m · 2^e`, plus `nan` and `± inf`; `-0.0` is `fin true 0 e`.
* strings are lists of code points.
* `list` and `tuple` are kept apart (a tuple is hashable, a list is not; `(1,) != [1]`).
* `dict` has string keys in insertion order (a `dict` or any subclass: OrderedDict, defaultdict …).
* `iter` is any other iterable the code's `is_iterable` accepts (set, frozenset, generator, range,
  user classes with `__iter__`), reduced to the items one traversal yields; `mapping` is a
  `collections.abc.Mapping` that is *not* a dict (MappingProxyType, ChainMap, UserDict …) with
  string keys.  The value layer tells them apart from list/dict: `isinstance(v, dict)` is false
  for a `mapping`, `is_iterable` is false for it too (mappings are excluded), and only
  `value_to_literal` tests `Mapping` instead of `dict`.  (For `==`/`hash` — used by C16's enum
  lookup only — such objects are sent as `other`; `pyEq`/`hashable` treat `iter`/`mapping` as
  never equal / unhashable.)
* `other` is any other object, reduced to what the value layer reads from it: an identity
  tag (default `==`/`hash` are identity), whether its class lives in the `builtins` module
  (bytes, set, complex, `object()` ...), and what `str(obj)` returns (`none`: `__str__` raises).
-/
namespace Gql.Values

inductive PyFloat where
  | nan
  | inf (neg : Bool)
  | fin (neg : Bool) (m : Nat) (e : Int)
  deriving DecidableEq, Repr, Inhabited

namespace PyFloat

/-- `math.isfinite(f)` -/
def isFinite : PyFloat → Bool
  | fin _ _ _ => true
  | _ => false

def isZero : PyFloat → Bool
  | fin _ m _ => m == 0
  | _ => false

/-- magnitude of a finite dyadic truncated towards zero -/
def truncMag (m : Nat) (e : Int) : Nat :=
  if 0 ≤ e then m * 2 ^ e.toNat else m / 2 ^ (-e).toNat

def signed (neg : Bool) (n : Nat) : Int := if neg then -(n : Int) else (n : Int)

/-- the dyadic `± m · 2^e` is a whole number -/
def integralMag (m : Nat) (e : Int) : Bool :=
  if 0 ≤ e then true else m % 2 ^ (-e).toNat == 0

/-- `int(f)` for a finite float: truncation towards zero -/
def truncInt : PyFloat → Int
  | fin neg m e => signed neg (truncMag m e)
  | _ => 0

def isIntegral : PyFloat → Bool
  | fin _ m e => integralMag m e
  | _ => false

/-- Python `int(f)`: `ValueError` on nan, `OverflowError` on infinities. -/
def toIntPy : PyFloat → Out Unit Int
  | nan => .crash "ValueError"
  | inf _ => .crash "OverflowError"
  | f@(fin _ _ _) => .ok f.truncInt

/-- the float is exactly the integer `z` (what Python's exact `float == int` computes) -/
def eqInt (f : PyFloat) (z : Int) : Bool :=
  f.isFinite && f.isIntegral && f.truncInt == z

/-- exact float of a (small) integer -/
def ofInt (z : Int) : PyFloat := fin (z < 0) z.natAbs 0

/-- numeric equality of two floats (`nan` equals nothing, `-0.0 == 0.0`) -/
def eqFloat : PyFloat → PyFloat → Bool
  | fin n1 m1 e1, fin n2 m2 e2 =>
    if m1 == 0 || m2 == 0 then m1 == 0 && m2 == 0
    else
      let lo := min e1 e2
      n1 == n2 && m1 * 2 ^ (e1 - lo).toNat == m2 * 2 ^ (e2 - lo).toNat
  | inf a, inf b => a == b
  | _, _ => false

end PyFloat

structure PyObj where
  tag : Nat
  builtin : Bool
  strResult : Option (List Nat)
  deriving DecidableEq, Repr, Inhabited

inductive PyVal where
  | none
  | undefined
  | bool (b : Bool)
  | int (z : Int)
  | float (f : PyFloat)
  | str (s : List Nat)
  | list (xs : List PyVal)
  | tuple (xs : List PyVal)
  | dict (kvs : List (List Nat × PyVal))
  | other (o : PyObj)
  | iter (xs : List PyVal)
  | mapping (kvs : List (List Nat × PyVal))
  deriving Repr, Inhabited

namespace PyVal

def isNullish : PyVal → Bool
  | none => true
  | undefined => true
  | _ => false

def boolInt (b : Bool) : Int := if b then 1 else 0

mutual
/-- `hash(v)` does not raise `TypeError` -/
def hashable : PyVal → Bool
  | list _ => false
  | dict _ => false
  | iter _ => false
  | mapping _ => false
  | tuple xs => hashableAll xs
  | _ => true
def hashableAll : List PyVal → Bool
  | [] => true
  | x :: xs => hashable x && hashableAll xs
end

def dictGet (kvs : List (List Nat × PyVal)) (k : List Nat) : Option PyVal :=
  match kvs with
  | [] => Option.none
  | (k', v) :: rest => if k' = k then some v else dictGet rest k

mutual
/-- Python `a == b` on the modelled values (identity shortcuts of containers are not
modelled: the harness never shares a `nan` object between the two sides). -/
def pyEq : PyVal → PyVal → Bool
  | none, none => true
  | undefined, undefined => true
  | bool a, bool b => a == b
  | bool a, int z => boolInt a == z
  | int z, bool a => boolInt a == z
  | bool a, float f => f.eqInt (boolInt a)
  | float f, bool a => f.eqInt (boolInt a)
  | int a, int b => a == b
  | int z, float f => f.eqInt z
  | float f, int z => f.eqInt z
  | float f, float g => f.eqFloat g
  | str a, str b => a == b
  | list xs, list ys => pyEqList xs ys
  | tuple xs, tuple ys => pyEqList xs ys
  | dict a, dict b => a.length == b.length && pyEqDict a b
  | other a, other b => a.tag == b.tag
  | _, _ => false
def pyEqList : List PyVal → List PyVal → Bool
  | [], [] => true
  | x :: xs, y :: ys => pyEq x y && pyEqList xs ys
  | _, _ => false
/-- every entry of the first dict has an equal entry in the second -/
def pyEqDict : List (List Nat × PyVal) → List (List Nat × PyVal) → Bool
  | [], _ => true
  | (k, v) :: rest, b =>
    (match dictGet b k with
     | some w => pyEq v w
     | Option.none => false) && pyEqDict rest b
end

mutual
/-- What every Python object satisfies and the models cannot express in the type: the keys of a
`dict` / Mapping are pairwise different, recursively. A hypothesis of theorems that count fields. -/
def WF : PyVal → Prop
  | list xs => WFList xs
  | tuple xs => WFList xs
  | iter xs => WFList xs
  | dict kvs => (kvs.map (·.1)).Nodup ∧ WFDict kvs
  | mapping kvs => (kvs.map (·.1)).Nodup ∧ WFDict kvs
  | _ => True
def WFList : List PyVal → Prop
  | [] => True
  | x :: xs => WF x ∧ WFList xs
def WFDict : List (List Nat × PyVal) → Prop
  | [] => True
  | (_, v) :: rest => WF v ∧ WFDict rest
end

end PyVal

/-- CPython conversions whose exact result the models do not compute: parameters of every
theorem, instantiated by the drivers from what CPython itself returns.
`none` is the exception the code catches or lets escape at that point. -/
structure PyConv where
  /-- `int(s)`; `none` = `ValueError` -/
  intOfStr : List Nat → Option Int
  /-- `float(s)`; `none` = `ValueError` -/
  floatOfStr : List Nat → Option PyFloat
  /-- `float(z)`; `none` = `OverflowError` -/
  floatOfInt : Int → Option PyFloat
  /-- `str(f)` for a finite float -/
  strOfFloat : PyFloat → List Nat
  /-- `str(z)`; `none` = `ValueError` (CPython's integer string conversion length limit) -/
  strOfInt : Int → Option (List Nat)

end Gql.Values
