import Gql.Values.Scalars
/-
Model of `GraphQLEnumType` (src/graphql/type/definition.py): `_value_lookup`,
`coerce_output_value` (hashable dict lookup, unhashable scan), `coerce_input_value`,
`coerce_input_literal`, `value_to_literal`, and of `complete_leaf_value`
(src/graphql/execution/executor.py).
-/
namespace Gql.Values
open Gql

/-- `GraphQLEnumType.values`: value name → internal value, in definition order. -/
structure EnumType where
  values : List (List Nat × PyVal)
  deriving Repr, Inhabited

namespace EnumType

def names (e : EnumType) : List (List Nat) := e.values.map (·.1)

/-- `k in lookup` / `lookup[k]` on a dict with hashable keys: the entry whose key is `==`
(equal values hash equally in Python, so `True`, `1` and `1.0` share one slot). -/
def lookupFind (lookup : List (PyVal × List Nat)) (k : PyVal) : Option (List Nat) :=
  match lookup with
  | [] => none
  | (k', name) :: rest => if PyVal.pyEq k' k then some name else lookupFind rest k

/-- `_value_lookup`: first name wins per value; `None`/`Undefined` values are looked up by
their name; unhashable values are skipped (`TypeError` ignored). `acc` is in insertion order. -/
def buildLookup (acc : List (PyVal × List Nat)) : List (List Nat × PyVal) → List (PyVal × List Nat)
  | [] => acc
  | (name, v) :: rest =>
    let value := if v.isNullish then PyVal.str name else v
    if !value.hashable then buildLookup acc rest
    else match lookupFind acc value with
      | some _ => buildLookup acc rest
      | none => buildLookup (acc ++ [(value, name)]) rest

def valueLookup (e : EnumType) : List (PyVal × List Nat) := buildLookup [] e.values

/-- the scan of the `except TypeError` branch: first name whose *raw* value `==` the output -/
def scan (v : PyVal) : List (List Nat × PyVal) → Option (List Nat)
  | [] => none
  | (name, w) :: rest => if PyVal.pyEq w v then some name else scan v rest

/-- `coerce_output_value` -/
def coerceOutputValue (e : EnumType) (v : PyVal) : R :=
  if v.hashable then
    match lookupFind e.valueLookup v with
    | some name => .ok (.str name)
    | none => .err ()
  else
    match scan v e.values with
    | some name => .ok (.str name)
    | none => .err ()

/-- `self.values[name]` -/
def valueOf (e : EnumType) (name : List Nat) : Option PyVal :=
  PyVal.dictGet e.values name

/-- `coerce_input_value` -/
def coerceInputValue (e : EnumType) : PyVal → R
  | .str s => match e.valueOf s with
    | some v => .ok v
    | none => .err ()
  | _ => .err ()

/-- `coerce_input_literal` -/
def coerceInputLiteral (e : EnumType) : Lit → R
  | .enum s => match e.valueOf s with
    | some v => .ok v
    | none => .err ()
  | _ => .err ()

/-- `value_to_literal`: `isinstance(value, str) and self.values.get(value)` (a
`GraphQLEnumValue` object is always truthy) -/
def valueToLiteral (e : EnumType) : PyVal → Option Lit
  | .str s => match e.valueOf s with
    | some _ => some (.enum s)
    | none => none
  | _ => none

end EnumType

/-- a leaf type of the modelled universe -/
inductive Leaf where
  | scalar (s : Scalar)
  | enum (e : EnumType)
  deriving Repr, Inhabited

def Leaf.coerceOutputValue (c : PyConv) : Leaf → PyVal → R
  | .scalar s => s.serialize c
  | .enum e => e.coerceOutputValue

def Leaf.coerceInputValue (c : PyConv) : Leaf → PyVal → R
  | .scalar s => s.coerceValue c
  | .enum e => e.coerceInputValue

/-- `complete_leaf_value`: a `None`/`Undefined` result of the coercer is a `TypeError`. -/
def completeLeafValue (c : PyConv) (t : Leaf) (result : PyVal) : R :=
  match t.coerceOutputValue c result with
  | .ok v => if v.isNullish then .crash "TypeError" else .ok v
  | .err e => .err e
  | .crash k => .crash k

namespace Spec
open Gql.Generated.ScalarConsts

/-- GraphQL spec §3.5.1 Int: "a signed 32‐bit numeric non‐fractional value". -/
def IntDomain (r : PyVal) : Prop := ∃ n : Int, r = .int n ∧ -(2 ^ 31) ≤ n ∧ n ≤ 2 ^ 31 - 1

/-- §3.5.2 Float: "signed double‐precision finite values" — in JSON a number: a finite float,
or an integer that a double holds exactly. -/
def FloatDomain (r : PyVal) : Prop :=
  (∃ neg m e, r = .float (.fin neg m e)) ∨ (∃ n : Int, r = .int n ∧ -(2 ^ 53) ≤ n ∧ n ≤ 2 ^ 53)

/-- §3.5.3 String / §3.5.5 ID: textual data. -/
def TextDomain (r : PyVal) : Prop := ∃ s, r = .str s

/-- §3.5.4 Boolean. -/
def BoolDomain (r : PyVal) : Prop := ∃ b, r = .bool b

/-- §3.9 Enums: "serialized as the name of the represented value". -/
def EnumDomain (e : EnumType) (r : PyVal) : Prop := ∃ name, r = .str name ∧ name ∈ e.names

def ScalarDomain : Scalar → PyVal → Prop
  | .int => IntDomain
  | .float => FloatDomain
  | .string => TextDomain
  | .boolean => BoolDomain
  | .id => TextDomain

def LeafDomain : Leaf → PyVal → Prop
  | .scalar s => ScalarDomain s
  | .enum e => EnumDomain e

/-- the number a Python value denotes exactly, if it is a number -/
def numEqInt (v : PyVal) (n : Int) : Prop :=
  match v with
  | .bool b => PyVal.boolInt b = n
  | .int z => z = n
  | .float f => f.eqInt n = true
  | _ => False

end Spec
end Gql.Values
