import Gql.Values.PyVal
import Gql.Values.Literal
import Gql.Generated.ScalarConsts
/-
Model of src/graphql/type/scalars.py: for each built-in scalar the output coercion
(`serialize_*`), the input coercion of runtime values (`coerce_*`), of literals
(`parse_*_literal`) and `*_value_to_literal`, in the code's own order of `isinstance` tests.

`Out Unit α`: `ok` a value, `err ()` a `GraphQLError` (wording not modelled), `crash cls` any
other exception at the place CPython raises it.
-/
namespace Gql.Values
open Gql
open Gql.Generated.ScalarConsts

abbrev R := Out Unit PyVal

/-- `GRAPHQL_MIN_INT <= z <= GRAPHQL_MAX_INT` -/
def inIntRange (z : Int) : Bool := graphqlMinInt ≤ z && z ≤ graphqlMaxInt

/-! ### helpers at the end of scalars.py -/

/-- `coerce_int_from_number` on an `int` (not bool) -/
def coerceIntFromInt (z : Int) : R :=
  if !inIntRange z then .err () else .ok (.int z)

/-- `coerce_int_from_number` on a `float`: `isfinite`, `int(value) != value`, range, `int(value)` -/
def coerceIntFromFloat (f : PyFloat) : R :=
  if !f.isFinite then .err ()
  else if !f.isIntegral then .err ()
  else if !inIntRange f.truncInt then .err ()
  else .ok (.int f.truncInt)

/-- `coerce_int_from_string` -/
def coerceIntFromString (c : PyConv) (s : List Nat) : R :=
  if s.isEmpty then .err ()
  else match c.intOfStr s with
    | Option.none => .err ()
    | some num => if !inIntRange num then .err () else .ok (.int num)

/-- `coerce_float_from_number` on a float -/
def coerceFloatFromFloat (f : PyFloat) : R :=
  if !f.isFinite then .err () else .ok (.float f)

/-- `coerce_float_from_string` -/
def coerceFloatFromString (c : PyConv) (s : List Nat) : R :=
  if s.isEmpty then .err ()
  else match c.floatOfStr s with
    | Option.none => .err ()
    | some num => if !num.isFinite then .err () else .ok (.float num)

/-- `coerce_float_from_int`: `float(value)` (OverflowError caught), then `int(num) != value` -/
def coerceFloatFromInt (c : PyConv) (z : Int) : R :=
  match c.floatOfInt z with
  | Option.none => .err ()
  | some num =>
    match num.toIntPy with
    | .ok t => if t ≠ z then .err () else .ok (.float num)
    | .err e => .err e
    | .crash k => .crash k

/-- `str(z)` where the code does not guard it -/
def strOfIntPy (c : PyConv) (z : Int) : R :=
  match c.strOfInt z with
  | Option.none => .crash "ValueError"
  | some s => .ok (.str s)

/-- `coerce_string_from_number` on a float -/
def coerceStringFromFloat (c : PyConv) (f : PyFloat) : R :=
  if !f.isFinite then .err () else .ok (.str (c.strOfFloat f))

/-- `coerce_boolean_from_number` on a float -/
def coerceBooleanFromFloat (f : PyFloat) : R :=
  if !f.isFinite then .err () else .ok (.bool (!f.isZero))

/-- `coerce_id_from_number` on a float -/
def coerceIdFromFloat (c : PyConv) (f : PyFloat) : R :=
  if !f.isFinite then .err ()
  else if !f.isIntegral then .err ()
  else strOfIntPy c f.truncInt

/-- `str(obj)` of a non-str, non-number object whose class is not in `builtins` -/
def strOfObj (o : PyObj) : R :=
  if o.builtin then .err ()
  else match o.strResult with
    | Option.none => .crash "Exception"
    | some s => .ok (.str s)

def sTrue : List Nat := [116, 114, 117, 101]
def sFalse : List Nat := [102, 97, 108, 115, 101]
/-- `str(Undefined)` (its class lives in graphql.pyutils.undefined, not in builtins) -/
def sUndefined : List Nat := [85, 110, 100, 101, 102, 105, 110, 101, 100]

/-! ### output coercion -/

/-- `serialize_int` -/
def serializeInt (c : PyConv) : PyVal → R
  | .bool b => .ok (.int (PyVal.boolInt b))
  | .int z => coerceIntFromInt z
  | .float f => coerceIntFromFloat f
  | .str s => coerceIntFromString c s
  | _ => .err ()

/-- `serialize_float` (note: a bool gives the *int* 1 or 0) -/
def serializeFloat (c : PyConv) : PyVal → R
  | .bool b => .ok (.int (PyVal.boolInt b))
  | .float f => coerceFloatFromFloat f
  | .int z => coerceFloatFromInt c z
  | .str s => coerceFloatFromString c s
  | _ => .err ()

/-- `serialize_string` -/
def serializeString (c : PyConv) : PyVal → R
  | .str s => .ok (.str s)
  | .bool b => .ok (.str (if b then sTrue else sFalse))
  | .float f => coerceStringFromFloat c f
  | .int z => strOfIntPy c z
  | .other o => strOfObj o
  | .undefined => .ok (.str sUndefined)
  | _ => .err ()

/-- `serialize_boolean` -/
def serializeBoolean : PyVal → R
  | .bool b => .ok (.bool b)
  | .float f => coerceBooleanFromFloat f
  | .int z => .ok (.bool (z ≠ 0))
  | _ => .err ()

/-- `serialize_id` -/
def serializeID (c : PyConv) : PyVal → R
  | .str s => .ok (.str s)
  | .int z => strOfIntPy c z
  | .float f => coerceIdFromFloat c f
  | .other o => strOfObj o
  | .undefined => .ok (.str sUndefined)
  | _ => .err ()

/-! ### input coercion of runtime values -/

def coerceInt : PyVal → R
  | .int z => coerceIntFromInt z
  | .float f => coerceIntFromFloat f
  | _ => .err ()

def coerceFloat (c : PyConv) : PyVal → R
  | .float f => coerceFloatFromFloat f
  | .int z => coerceFloatFromInt c z
  | _ => .err ()

def coerceString : PyVal → R
  | .str s => .ok (.str s)
  | _ => .err ()

def coerceBoolean : PyVal → R
  | .bool b => .ok (.bool b)
  | _ => .err ()

def coerceID (c : PyConv) : PyVal → R
  | .str s => .ok (.str s)
  | .int z => strOfIntPy c z
  | .float f => coerceIdFromFloat c f
  | _ => .err ()

/-! ### input coercion of literals -/

/-- `parse_int_literal`: `int(value_node.value)` is unguarded -/
def parseIntLiteral (c : PyConv) : Lit → R
  | .int s =>
    match c.intOfStr s with
    | Option.none => .crash "ValueError"
    | some num => if !inIntRange num then .err () else .ok (.int num)
  | _ => .err ()

/-- `parse_float_literal` (fixed code: a literal that overflows to ±inf is rejected) -/
def parseFloatLiteral (c : PyConv) : Lit → R
  | .float s | .int s =>
    match c.floatOfStr s with
    | Option.none => .crash "ValueError"
    | some f => if !f.isFinite then .err () else .ok (.float f)
  | _ => .err ()

def parseStringLiteral : Lit → R
  | .str s => .ok (.str s)
  | _ => .err ()

def parseBooleanLiteral : Lit → R
  | .bool b => .ok (.bool b)
  | _ => .err ()

def parseIDLiteral : Lit → R
  | .str s => .ok (.str s)
  | .int s => .ok (.str s)
  | _ => .err ()

/-! ### value → literal -/

def isDigit (c : Nat) : Bool := 48 ≤ c && c ≤ 57

/-- `(?:0|[1-9][0-9]*)` against the whole of `s` -/
def isIntegerBody : List Nat → Bool
  | [] => false
  | [48] => true
  | d :: rest => 49 ≤ d && d ≤ 57 && rest.all isDigit

/-- `_re_integer_string.match(s)`, pattern `^-?(?:0|[1-9][0-9]*)$`: Python's `$` also matches
just before one trailing `\n`. -/
def isIntegerString (s : List Nat) : Bool :=
  let t := match s with
    | 45 :: r => r
    | _ => s
  let t := if t.getLast? = some 10 then t.dropLast else t
  isIntegerBody t

mutual
/-- `default_scalar_value_to_literal` -/
def defaultLit (c : PyConv) : PyVal → Out Unit Lit
  | .none => .ok .null
  | .undefined => .ok .null
  | .bool b => .ok (.bool b)
  | .str s => .ok (.str s)
  | .int z =>
    match c.strOfInt z with
    | Option.none => .crash "ValueError"
    | some s => .ok (if isIntegerString s then .int s else .float s)
  | .float f =>
    if !f.isFinite then .ok .null
    else
      let s := c.strOfFloat f
      .ok (if isIntegerString s then .int s else .float s)
  | .list xs => match defaultLitList c xs with
    | .ok ls => .ok (.list ls)
    | .err e => .err e
    | .crash k => .crash k
  | .tuple xs => match defaultLitList c xs with
    | .ok ls => .ok (.list ls)
    | .err e => .err e
    | .crash k => .crash k
  | .dict kvs => match defaultLitFields c kvs with
    | .ok fs => .ok (.obj fs)
    | .err e => .err e
    | .crash k => .crash k
  | .iter xs => match defaultLitList c xs with
    | .ok ls => .ok (.list ls)
    | .err e => .err e
    | .crash k => .crash k
  | .mapping kvs => match defaultLitFields c kvs with
    | .ok fs => .ok (.obj fs)
    | .err e => .err e
    | .crash k => .crash k
  | .other _ => .crash "TypeError"
def defaultLitList (c : PyConv) : List PyVal → Out Unit (List Lit)
  | [] => .ok []
  | x :: xs => match defaultLit c x with
    | .ok l => (match defaultLitList c xs with
      | .ok ls => .ok (l :: ls)
      | .err e => .err e
      | .crash k => .crash k)
    | .err e => .err e
    | .crash k => .crash k
def defaultLitFields (c : PyConv) : List (List Nat × PyVal) → Out Unit (List (List Nat × Lit))
  | [] => .ok []
  | (_, .undefined) :: xs => defaultLitFields c xs
  | (k, x) :: xs => match defaultLit c x with
    | .ok l => (match defaultLitFields c xs with
      | .ok ls => .ok ((k, l) :: ls)
      | .err e => .err e
      | .crash k => .crash k)
    | .err e => .err e
    | .crash k => .crash k
end

/-- `int_value_to_literal`; `math.isfinite(.int)` converts to float first (OverflowError). -/
def intValueToLiteral (c : PyConv) : PyVal → Out Unit (Option Lit)
  | .int z =>
    match c.floatOfInt z with
    | Option.none => .crash "OverflowError"
    | some _ =>
      if !inIntRange z then .ok Option.none
      else match c.strOfInt z with
        | Option.none => .crash "ValueError"
        | some s => .ok (some (.int s))
  | .float f =>
    if !f.isFinite then .ok Option.none
    else if !f.isIntegral then .ok Option.none
    else if !inIntRange f.truncInt then .ok Option.none
    else match c.strOfInt f.truncInt with
      | Option.none => .crash "ValueError"
      | some s => .ok (some (.int s))
  | _ => .ok Option.none

def floatValueToLiteral (c : PyConv) (v : PyVal) : Out Unit (Option Lit) :=
  match defaultLit c v with
  | .ok (.float s) => .ok (some (.float s))
  | .ok (.int s) => .ok (some (.int s))
  | .ok _ => .ok Option.none
  | .err e => .err e
  | .crash k => .crash k

def stringValueToLiteral (c : PyConv) (v : PyVal) : Out Unit (Option Lit) :=
  match defaultLit c v with
  | .ok (.str s) => .ok (some (.str s))
  | .ok _ => .ok Option.none
  | .err e => .err e
  | .crash k => .crash k

def booleanValueToLiteral (c : PyConv) (v : PyVal) : Out Unit (Option Lit) :=
  match defaultLit c v with
  | .ok (.bool b) => .ok (some (.bool b))
  | .ok _ => .ok Option.none
  | .err e => .err e
  | .crash k => .crash k

def idValueToLiteral (c : PyConv) : PyVal → Out Unit (Option Lit)
  | .str s => .ok (some (if isIntegerString s then .int s else .str s))
  | .int z => match strOfIntPy c z with
    | .ok (.str s) => .ok (some (.int s))
    | .ok _ => .ok Option.none
    | .err e => .err e
    | .crash k => .crash k
  | .float f => match coerceIdFromFloat c f with
    | .ok (.str s) => .ok (some (.int s))
    | .ok _ => .ok Option.none
    | .err e => .err e
    | .crash k => .crash k
  | _ => .ok Option.none

/-- the five specified scalar types -/
inductive Scalar where
  | int | float | string | boolean | id
  deriving DecidableEq, Repr, Inhabited

def Scalar.serialize (c : PyConv) : Scalar → PyVal → R
  | .int => serializeInt c
  | .float => serializeFloat c
  | .string => serializeString c
  | .boolean => serializeBoolean
  | .id => serializeID c

def Scalar.coerceValue (c : PyConv) : Scalar → PyVal → R
  | .int => coerceInt
  | .float => coerceFloat c
  | .string => coerceString
  | .boolean => coerceBoolean
  | .id => coerceID c

def Scalar.coerceLiteral (c : PyConv) : Scalar → Lit → R
  | .int => parseIntLiteral c
  | .float => parseFloatLiteral c
  | .string => parseStringLiteral
  | .boolean => parseBooleanLiteral
  | .id => parseIDLiteral

def Scalar.valueToLiteral (c : PyConv) : Scalar → PyVal → Out Unit (Option Lit)
  | .int => intValueToLiteral c
  | .float => floatValueToLiteral c
  | .string => stringValueToLiteral c
  | .boolean => booleanValueToLiteral c
  | .id => idValueToLiteral c

end Gql.Values
