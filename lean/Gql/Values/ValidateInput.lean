import Gql.Values.Coerce
/-
Model of src/graphql/utilities/validate_input_value.py: `validate_input_value` and
`validate_input_literal`.  The result is the list of error paths in the order the code
reports them (one entry per `on_error` call; wording is not modelled).
-/
namespace Gql.Values
open Gql

inductive Seg where
  | key (k : List Nat)
  | idx (i : Nat)
  deriving DecidableEq, Repr, Inhabited

abbrev Path := List Seg

/-- the OneOf part of `validate_input_value_impl`; `known` = provided, defined, declared
fields in the order of the input dict -/
def oneOfValueErrors (path : Path) (known : List (List Nat × PyVal)) : List Path :=
  (if known.length ≠ 1 then [path] else []) ++
  (match known with
   | (k, .none) :: _ => [path ++ [.key k]]
   | _ => [])

/-- `validate_input_value_impl` -/
def validateValue (c : PyConv) (tm : TypeMap) (v : PyVal) (t : InType) (path : Path) : List Path :=
  match t with
  | .nonNull t' =>
    if v.isNullish then [path] else validateValue c tm v t' path
  | .list t' =>
    if v.isNullish then []
    else match hit : v.iterItems with
      | some xs =>
        xs.attach.zipIdx.flatMap fun ⟨⟨x, _⟩, i⟩ => validateValue c tm x t' (path ++ [.idx i])
      | none => validateValue c tm v t' path
  | .named n =>
    if v.isNullish then []
    else match tm.find n with
      | some (.inputObject fields oneOf) =>
        (match hd : v.asDict with
         | some kvs =>
           (fields.flatMap fun f =>
              match h : dictGetDefined kvs f.name with
              | some fv => validateValue c tm fv f.type (path ++ [.key f.name])
              | none => if f.isRequired then [path] else [])
           ++ ((kvs.filter fun kv => isDefined kv.2 && !fields.any (fun f => f.name = kv.1)).map fun _ => path)
           ++ (if oneOf then
                 oneOfValueErrors path (kvs.filter fun kv => isDefined kv.2 && fields.any (fun f => f.name = kv.1))
               else [])
         | none => [path])
      | some (.scalar s) => if isDefined (leafValue c (.scalar s) v) then [] else [path]
      | some (.enum e) => if isDefined (leafValue c (.enum e) v) then [] else [path]
      | none => [path]
termination_by (sizeOf v, sizeOf t)
decreasing_by
  all_goals simp_wf
  · apply Prod.Lex.right; simp
  · apply Prod.Lex.left; exact iterItems_sizeOf hit ‹_ ∈ _›
  · apply Prod.Lex.right; simp
  · apply Prod.Lex.left
    have h1 := dictGetDefined_sizeOf h
    have h2 := asDict_sizeOf hd
    omega

/-- the OneOf part of `validate_input_literal_impl`; `known` = the field nodes (duplicates
included) whose name is declared -/
def oneOfLiteralErrors (path : Path) (known : List (List Nat × Lit)) : List Path :=
  match known with
  | [(k, node)] => if node.isNull then [path ++ [.key k]] else []
  | _ => [path]

/-- the extra reports for a variable in a field of an input object (non-static) -/
def fieldVarErrors (vars : Option VarValues) (oneOf : Bool) (path : Path) (fv : Lit) : List Path :=
  if fv.isVar && oneOf && (litVarValue vars fv).isNullish then [path] else []

/-- `validate_input_literal_impl`; `vars = none` is the static mode -/
def validateLiteral (c : PyConv) (tm : TypeMap) (vars : Option VarValues) (l : Lit) (t : InType)
    (path : Path) : List Path :=
  match l.asVar with
  | some x =>
    if vars.isNone then []
    else if t.isNonNull && (varGet vars x).isNullish then [path] else []
  | none =>
    match t with
    | .nonNull t' =>
      if l.isNull then [path] else validateLiteral c tm vars l t' path
    | .list t' =>
      if l.isNull then []
      else match hl : l.asList with
        | some items =>
          items.attach.zipIdx.flatMap fun ⟨⟨it, _⟩, i⟩ => validateLiteral c tm vars it t' (path ++ [.idx i])
        | none => validateLiteral c tm vars l t' path
    | .named n =>
      if l.isNull then []
      else match tm.find n with
        | some (.inputObject fields oneOf) =>
          (match ho : l.asObj with
           | some fs =>
             (fields.flatMap fun f =>
                match h : litGetLast fs f.name with
                | some fv =>
                  if fv.isVar && vars.isSome && !oneOf && !isDefined (litVarValue vars fv) && !f.isRequired then []
                  else
                    (if vars.isSome then fieldVarErrors vars oneOf path fv else [])
                    ++ validateLiteral c tm vars fv f.type (path ++ [.key f.name])
                | none => if f.isRequired then [path] else [])
             ++ ((fs.filter fun kv => !fields.any (fun f => f.name = kv.1)).map fun _ => path)
             ++ (if oneOf then
                   oneOfLiteralErrors path (fs.filter fun kv => fields.any (fun f => f.name = kv.1))
                 else [])
           | none => [path])
        | some (.scalar s) => if isDefined (leafLiteral c (.scalar s) l) then [] else [path]
        | some (.enum e) => if isDefined (leafLiteral c (.enum e) l) then [] else [path]
        | none => [path]
termination_by (sizeOf l, sizeOf t)
decreasing_by
  all_goals simp_wf
  · apply Prod.Lex.right; simp
  · apply Prod.Lex.left; exact asList_sizeOf hl ‹_ ∈ _›
  · apply Prod.Lex.right; simp
  · apply Prod.Lex.left
    have h1 := litGetLast_sizeOf h
    have h2 := asObj_sizeOf ho
    omega

/-- `validate_input_value(value, type, on_error)` -/
def validateInputValue (c : PyConv) (tm : TypeMap) (v : PyVal) (t : InType) : List Path :=
  validateValue c tm v t []

/-- `validate_input_literal(node, type, on_error, variables)` -/
def validateInputLiteral (c : PyConv) (tm : TypeMap) (vars : Option VarValues) (l : Lit) (t : InType) : List Path :=
  validateLiteral c tm vars l t []

end Gql.Values
