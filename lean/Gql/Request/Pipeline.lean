import Gql.Spec.ResponseFormat
/-
Model of the control flow of `graphql_impl` (src/graphql/graphql.py 249-330, synchronous path) and of
`located_error` (src/graphql/error/located_error.py, with the F7 hardening) + `GraphQLError.__init__`
/ `.formatted` (src/graphql/error/graphql_error.py) + `Executor.handle_field_error`
(src/graphql/execution/executor.py 813-830) and the `except Exception` of `execute_field` up the
chain of enclosing fields.

Stages are abstract: each either returns or raises.  Which exceptions a stage *can* raise is not
decided here (C20: `validate_schema`; this property's parser theorems: `parse`; C12: `validate`;
C02/C13: `execute`).
-/
namespace Gql.Request
open Gql.Spec

inductive PathSeg where
  | key                -- a `str`
  | idx (i : Int)      -- an `int`
  deriving Repr, DecidableEq

/-- What `.formatted` reads from a `GraphQLError`. -/
structure GErr where
  messageIsStr : Bool := true
  locations : Option (List (Int × Int)) := none
  path : Option (List PathSeg) := none
  extensions : Bool := false          -- a non-empty `extensions` dict
  deriving Repr, DecidableEq

def PathSeg.toJ : PathSeg → J
  | .key => .str
  | .idx i => .int i

/-- `SourceLocation.formatted` -/
def locToJ (lc : Int × Int) : J := .obj [("line", .int lc.1), ("column", .int lc.2)]

/-- `GraphQLError.formatted` -/
def GErr.formatted (e : GErr) : J :=
  .obj ([("message", if e.messageIsStr then J.str else J.other "object")]
    ++ (match e.locations with
        | some ls => [("locations", J.list (ls.map locToJ))]
        | none => [])
    ++ (match e.path with
        | some p => [("path", J.list (p.map PathSeg.toJ))]
        | none => [])
    ++ (if e.extensions then [("extensions", J.obj [])] else []))

/-- The library's own well-formed error: a `str` message, 1-based locations, non-negative indices. -/
def GErr.WF (e : GErr) : Prop :=
  e.messageIsStr = true ∧
  (∀ ls, e.locations = some ls → ∀ lc ∈ ls, 1 ≤ lc.1 ∧ 1 ≤ lc.2) ∧
  (∀ p, e.path = some p → ∀ s ∈ p, ∀ i, s = .idx i → 0 ≤ i)

/-- `ExecutionResult(data, errors)`; `dataIsMap = none` is `data=None`. -/
structure Resp where
  dataIsMap : Bool
  errors : Option (List GErr)
  deriving Repr, DecidableEq

/-- `ExecutionResult.formatted` (no `extensions`) -/
def Resp.formatted (r : Resp) : J :=
  .obj ([("data", if r.dataIsMap then J.obj [] else J.null)]
    ++ (match r.errors with
        | some es => [("errors", J.list (es.map GErr.formatted))]
        | none => []))

inductive StageOut (α : Type) where
  | ret (a : α)
  | raiseGql (e : GErr)        -- raises `GraphQLError` (or a subclass)
  | raiseOther (cls : String)  -- raises any other exception
  deriving Repr

structure Stages where
  schemaErrors : List GErr              -- `validate_schema(schema)`
  parse : StageOut Unit                 -- `harness.parse(source, …)`
  validate : StageOut (List GErr)       -- `harness.validate(schema, document, …)`
  execute : StageOut Resp               -- `harness.execute(schema, document, …)`

inductive Outcome where
  | result (r : Resp)
  | raised (cls : String)
  deriving Repr, DecidableEq

/-- `graphql_impl`, synchronous path -/
def graphqlImpl (st : Stages) : Outcome :=
  if !st.schemaErrors.isEmpty then .result ⟨false, some st.schemaErrors⟩
  else
    match st.parse with
    | .raiseGql e => .result ⟨false, some [e]⟩          -- `except GraphQLError as error`
    | .raiseOther c => .raised c
    | .ret () =>
      match st.validate with
      | .raiseGql _ => .raised "GraphQLError"            -- not caught
      | .raiseOther c => .raised c
      | .ret errs =>
        if !errs.isEmpty then .result ⟨false, some errs⟩
        else
          match st.execute with
          | .ret r => .result r
          | .raiseGql _ => .raised "GraphQLError"
          | .raiseOther c => .raised c

/-! ### `located_error` and `handle_field_error` -/

/-- How reading (and then using) one duck-typed attribute of a foreign exception behaves. -/
inductive Attr where
  | missing                 -- `AttributeError`
  | good                    -- present and of the documented type
  | illTyped                -- present, but using it raises (`nodes = 5`, a `message` whose `__str__` raises, …)
  | raises                  -- the read itself raises something other than `AttributeError`
  deriving Repr, DecidableEq

/-- A value raised by a resolver. -/
structure Exn where
  isException : Bool := true           -- `isinstance(e, Exception)`
  gqlPath : Option (Option (List PathSeg)) := none   -- `some p` = a `GraphQLError` whose `.path` is `p`
  strOk : Bool := true                 -- `str(e)` returns
  message : Attr := .missing
  source : Attr := .missing
  positions : Attr := .missing
  nodes : Attr := .missing
  extensions : Attr := .missing
  deriving Repr, DecidableEq

/-- every attribute read behaves as documented -/
def Exn.WellTyped (e : Exn) : Prop :=
  e.strOk = true ∧ (e.message = .missing ∨ e.message = .good) ∧ (e.source = .missing ∨ e.source = .good) ∧
  (e.positions = .missing ∨ e.positions = .good) ∧ (e.nodes = .missing ∨ e.nodes = .good) ∧
  (e.extensions = .missing ∨ e.extensions = .good)

/-- `GraphQLError(message, nodes, source, positions, path, original_error)`: `self.path = path or None` -/
def mkError (path : List PathSeg) (ext : Bool) : GErr :=
  { messageIsStr := true, locations := none, path := if path.isEmpty then none else some path,
    extensions := ext }

/-- an attribute read that either finds nothing or a value of the documented type -/
def attrOk (a : Attr) : Bool := a = .missing || a = .good

/-- `str(original_error.message)`, or `str(original_error)` when there is no such attribute, returns -/
def msgOk (e : Exn) : Bool :=
  match e.message with
  | .missing => e.strOk
  | .good => true
  | _ => false

/-- every duck-typed read of `_located_error` and every use `GraphQLError.__init__` makes of it works -/
def attrsOk (e : Exn) : Bool :=
  msgOk e && attrOk e.source && attrOk e.positions && attrOk e.nodes && attrOk e.extensions

/-- the body `_located_error` (the original, unguarded attribute reads); `none` = it raises -/
def locatedInner (e : Exn) (path : List PathSeg) : Option GErr :=
  if attrsOk e then some (mkError path (e.extensions = .good)) else none

/-- `located_error(original_error, nodes, path)` with the F7 hardening: a failure while reading or
using the duck-typed attributes falls back to an error located by the given nodes and path.
`hardened = false` is the code before the fix (the failure propagates). -/
def locatedError (hardened : Bool) (e : Exn) (path : List PathSeg) : StageOut GErr :=
  -- a non-exception is wrapped into a `TypeError` first
  let e : Exn := if e.isException then e else {}
  match e.gqlPath with
  | some (some p) => .ret { (mkError p false) with path := some p }   -- already located: returned as is
  | _ =>
    match locatedInner e path with
    | some g => .ret g
    | none => if hardened then .ret (mkError path false) else .raiseOther "Exception"

/-- Outcome of a raising resolver after `handle_field_error` at the field and the `except Exception`
handlers of the enclosing fields: `nonNull` lists, innermost first, whether the field and each
enclosing field has a non-null type (with error propagation on).  The error is finally *collected*
(some enclosing nullable position, or the root's `except GraphQLError`: `data = None`) or an
exception *escapes* `execute`. -/
inductive FieldOutcome where
  | collected (e : GErr)
  | escaped (cls : String)
  deriving Repr, DecidableEq

def handleFieldErrorChain (hardened : Bool) : List Bool → Exn → List PathSeg → FieldOutcome
  | [], e, _ =>
    -- root: `execute_operation` catches `GraphQLError` only; what arrives here is the located error
    -- raised by the outermost non-null field
    match e.gqlPath with
    | some p => .collected { path := p }
    | none => .escaped "Exception"
  | nn :: outer, e, path =>
    match locatedError hardened e path with
    | .ret g =>
      if nn then
        -- `raise error`: caught by the enclosing field's `except Exception`, located again (a no-op
        -- for an error that has a path)
        handleFieldErrorChain hardened outer { gqlPath := some g.path } (path.dropLast)
      else .collected g
    | .raiseGql g => .collected g
    | .raiseOther c =>
      -- (unhardened code only) `located_error` itself raised inside `handle_field_error`: the fresh
      -- exception propagates to the enclosing field's `except Exception` and is located at *its*
      -- path; out of a root field it escapes `execute`
      match outer with
      | [] => .escaped c
      | _ :: _ => handleFieldErrorChain hardened outer {} (path.dropLast)

end Gql.Request
