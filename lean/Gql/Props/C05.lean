import Gql.Proofs.Sys
import Gql.Proofs.Complete
import Gql.Proofs.AnnounceRun
import Gql.Proofs.Fuel
import Gql.Proofs.RootNodes
import Gql.Proofs.StreamOrder
import Gql.Proofs.PayloadNest
import Gql.Proofs.StreamQueue
import Gql.Proofs.ProtoRelabel
import Gql.Async.EnvOk
/-!
# C05 — The incremental payload stream obeys the delivery protocol

Property theorems only.  Models: `Gql.Async.WorkQueue` (work_queue.py), `Gql.Async.Publisher`
(incremental_publisher.py), `Gql.Async.StreamQueue` (stream_item_queue.py `batches()`); the
pipeline over an environment history is `Gql.Async.payloads σ π fuel work history`
(`Sys.start` / `Sys.tick` / `Sys.run`).  Spec: `Gql.Spec.Protocol` (clause predicates and
the decision procedure `check` / `protocolOk`).  Helper lemmas: `Gql/Proofs/{Publisher,
WorkQueue,Sys,StreamQueue}.lean`; for the whole validator `Gql/Proofs/{ProtoAccept,ProtoPub,
ProtoRun,ProtoFinal,ProtoRelabel}.lean`.

All theorems quantify over *every* static environment (groups, parents, task modes, paths),
*every* initial work, *every* history (list of ticks of graph events) and *every* fuel value;
the publisher-level ones hold for arbitrary streams of work-queue events, so they need no
`EnvOk` hypothesis at all.
-/
namespace Gql.Props.C05
open Gql.Async Gql.Spec.Protocol

/-- **P2 (ids are strictly fresh; never reused after deletion).**  In the payload stream of
every history, no payload announces an id that an earlier payload completed. -/
theorem ids_never_reused (σ : Static) (π : PubStatic) (fuel : Nat) (work : Option Work)
    (h : List Tick) : NoReuse [] (payloads σ π fuel work h) :=
  (run_idsInv σ π fuel h _ (start_idsInv σ π fuel work)).noReuse

/-- **P3a, the part about completion (no data after completion).**  In the payload stream of
every history, no incremental entry (deferred data or stream items) targets an id that an
earlier payload completed; the id an entry carries is in the publisher's table at that moment
(`handleEvent_delta`, field `incr`). -/
theorem no_data_after_completion (σ : Static) (π : PubStatic) (fuel : Nat) (work : Option Work)
    (h : List Tick) : NoLateData [] (payloads σ π fuel work h) :=
  (run_idsInv σ π fuel h _ (start_idsInv σ π fuel work)).noLate

/-- **P4a (an id is completed at most once).**  In the payload stream of every history the ids
of all `completed` entries are pairwise distinct. -/
theorem completed_at_most_once (σ : Static) (π : PubStatic) (fuel : Nat) (work : Option Work)
    (h : List Tick) : CompletedOnce (payloads σ π fuel work h) :=
  (run_idsInv σ π fuel h _ (start_idsInv σ π fuel work)).nodup

/-- **P2/P4a at the publisher, for arbitrary event streams.**  Whatever batches of work-queue
events the publisher is fed (well-formed scheduler or not), starting from any consistent id
table: completed ids are pairwise distinct and distinct from the already retired ones, and no
announced id was retired before. -/
theorem publisher_ids_fresh (π : PubStatic) (batches : List (List WQEvent)) (p : Pub) (R : List Nat)
    (hp : PubInv p) (hr : Ret p R) (hn : R.Nodup) :
    (R ++ completedIds (publish π p batches).2).Nodup ∧ NoReuse R (publish π p batches).2 :=
  ⟨(publish_inv π batches p R hp hr hn).2.2, publish_noReuse π batches p R hp hr hn⟩

/-- `nextId` is monotone and every id in the table is below it (supporting invariant of P2). -/
theorem nextId_monotone (π : PubStatic) (p : Pub) (c : PCtx) (e : WQEvent) (hp : PubInv p) :
    p.nextId ≤ (handleEvent π p c e).1.nextId ∧ PubInv (handleEvent π p c e).1 :=
  ⟨(handleEvent_delta π p c e hp).ext.mono, (handleEvent_delta π p c e hp).inv⟩

/-- **P7 (`hasNext` is true on every payload except the last; nothing follows).**  In the
payload stream of every history every payload but the last carries `hasNext = true`. -/
theorem hasNext_only_last_false (σ : Static) (π : PubStatic) (fuel : Nat) (work : Option Work)
    (h : List Tick) : HasNextOk (payloads σ π fuel work h) :=
  outShape_hasNextOk _ _ (run_outShape σ π fuel h _ (start_outShape σ π fuel work))

/-- **P7, second half.**  If some payload carries `hasNext = false` then the scheduler is
stopped (so no later tick can emit anything: `settle` returns no batch for a stopped queue)
and that payload is the last one. -/
theorem hasNext_false_is_final (σ : Static) (π : PubStatic) (fuel : Nat) (work : Option Work)
    (h : List Tick) (p : Payload) (hp : p ∈ payloads σ π fuel work h) (hn : p.hasNext = false) :
    (Sys.run σ π fuel (Sys.start σ π fuel work).1 h).wq.stopped = true ∧
    (payloads σ π fuel work h).getLast? = some p := by
  have hs := run_outShape σ π fuel h _ (start_outShape σ π fuel work)
  rcases hs with hall | ⟨hst, pre, last, e1, e2, e3⟩
  · have := hall p hp; rw [hn] at this; cases this
  · refine ⟨hst, ?_⟩
    unfold payloads at hp ⊢
    rw [e1] at hp ⊢
    rcases List.mem_append.mp hp with h1 | h1
    · have := e2 p h1; rw [hn] at this; cases this
    · simp at h1; subst h1; simp

/-- **P4b (every announced id is completed — with P4a: exactly once — in a complete stream).**
For every well-formed environment history: once the scheduler has stopped (it emitted the
termination event, i.e. the stream ended with `hasNext = false`), every id that was ever
announced appears in a `completed` entry. -/
theorem announced_all_completed (σ : Static) (π : PubStatic) (fuel : Nat) (work : Option Work)
    (h : List Tick) (hok : envOk σ fuel work h = true)
    (hst : (Sys.run σ π fuel (Sys.start σ π fuel work).1 h).wq.stopped = true) :
    ∀ i ∈ announcedIds (payloads σ π fuel work h), i ∈ completedIds (payloads σ π fuel work h) := by
  obtain ⟨hout, hwq⟩ := payloads_eq σ π fuel work h
  obtain ⟨e, _, hstop, hdom⟩ := domInv_final σ fuel work h hok
  rw [hwq] at hst
  obtain ⟨hg, hs⟩ := hstop hst
  obtain ⟨ti, td, tl, tc⟩ := initial_table π (init σ work).2.1 (init σ work).2.2
  have hempty : ∀ i, ¬ live (publish π (initialPayload π (init σ work).2.1 (init σ work).2.2).1
      (wqRun σ fuel (wqStart σ fuel work) h).2).1 i := by
    intro i ⟨n, hn⟩
    have hr := hdom n (publish_dom π _ _ _ td n i hn)
    cases n with
    | group g => simp [isRoot, hg] at hr
    | stream s => simp [isRoot, hs] at hr
  have hopen := publish_open π (wqRun σ fuel (wqStart σ fuel work) h).2
    (initialPayload π (init σ work).2.1 (init σ work).2.2).1
    ((initialPayload π (init σ work).2.1 (init σ work).2.2).2.pending.map (·.id)) []
    ti (by intro r hr; simp at hr) (by simp)
    (by intro i hi; obtain ⟨a, ha, rfl⟩ := List.mem_map.mp hi; exact Or.inr (tl a ha))
  intro i hi
  rw [hout] at hi ⊢
  have hi' : i ∈ (initialPayload π (init σ work).2.1 (init σ work).2.2).2.pending.map (·.id) ++
      announcedIds (publish π (initialPayload π (init σ work).2.1 (init σ work).2.2).1
        (wqRun σ fuel (wqStart σ fuel work) h).2).2 := by
    simpa [announcedIds] using hi
  rcases hopen i hi' with h1 | h1
  · simp only [List.nil_append] at h1
    simp only [completedIds, List.flatMap_cons, tc, List.map_nil, List.nil_append]
    exact h1
  · exact absurd h1 (hempty i)

/-- P4b for a stream that ended: if some payload carries `hasNext = false`, every announced id
is completed. -/
theorem complete_stream_all_completed (σ : Static) (π : PubStatic) (fuel : Nat) (work : Option Work)
    (h : List Tick) (hok : envOk σ fuel work h = true) (p : Payload)
    (hp : p ∈ payloads σ π fuel work h) (hn : p.hasNext = false) :
    ∀ i ∈ announcedIds (payloads σ π fuel work h), i ∈ completedIds (payloads σ π fuel work h) :=
  announced_all_completed σ π fuel work h hok (hasNext_false_is_final σ π fuel work h p hp hn).1

/-- After the termination batch nothing more is ever emitted: a stopped scheduler yields no
batch, whatever the environment still does. -/
theorem stopped_emits_nothing (σ : Static) (π : PubStatic) (fuel : Nat) (s : Sys) (t : Tick)
    (hs : s.wq.stopped = true) : (Sys.tick σ π fuel s t).1.out = s.out := by
  unfold Sys.tick
  simp only
  obtain ⟨new, h1, _, h3⟩ := settle_spec σ fuel fuel (t.foldl push s.wq) []
  rw [foldl_push_stopped] at h3
  obtain ⟨hnew, _⟩ := h3 hs
  subst hnew
  simp only [List.append_nil] at h1
  rw [h1]; simp [publish]

/-- The graph-event handlers never emit the termination event themselves (supporting lemma of
P7: only the `events()` loop does, as the last event of a batch). -/
theorem handlers_never_terminate (σ : Static) (q : WQ) (e : GraphEvent) :
    ∀ ev ∈ (handleGraphEvent σ q e).2, ev.isTerm = false :=
  handleGraphEvent_noTerm σ q e

/-- **P6 at the stream queue (items in list order, no gaps, no repeats).**  Whatever is buffered
in a `StreamItemQueue` — settled items, pending / fulfilled / rejected item futures, the end
or error entry, in any order — the concatenation of all batches `batches()` delivers is a
prefix, in queue order, of the queue's item values up to the first failure. -/
theorem stream_queue_in_order (n : Nat) (held : Option SQEntry) (entries : List SQEntry) :
    sqDelivered (sqRun n held entries) <+: sqFinal (heldList held ++ entries) :=
  sqRun_prefix n held entries

/-! ## The whole validator: the original full statement

`protocol_prefix_full` is the statement as it was first written down.  It is *false* as stated
(`protocol_prefix_full_fails` below: it forgets to constrain the labels of the streams); with
that hypothesis added it is proved (`protocol_prefix`, `protocol_prefix_unlabelled`). -/

/-- P1–P7 without the data-dependent halves, for every well-formed environment history: the
validator accepts the emitted stream as a legal prefix (labels = group numbers, nesting = the
parent relation).  Kept as written; see `protocol_prefix_full_fails` and `protocol_prefix`. -/
def protocol_prefix_full : Prop :=
  ∀ (σ : Static) (π : PubStatic) (parents : List (Nat × Nat)) (fuel : Nat) (work : Option Work)
    (h : List Tick),
    envOk σ fuel work h = true →
    (∀ g p, σ.parent g = some p ↔ (g, p) ∈ parents) → (∀ g, π.glabel g = some g) →
    checkPrefix false (enclByLabels parents) .null (payloads σ π fuel work h) = none

/-- **P1 (each pending id is announced at most once) — and P2 in full: ids are handed out in
strictly increasing order.**  For every well-formed environment history the ids announced by
the whole payload stream (initial result included) are strictly increasing, hence pairwise
distinct.  Behind it: the scheduler-graph invariant `Good` (group nodes form a forest along
`parent`, children are listed once and are not roots, child streams wait in one task node)
and `AnnFresh` — a node is announced only when it is not in the publisher's table. -/
theorem announced_increasing (σ : Static) (π : PubStatic) (fuel : Nat) (work : Option Work)
    (h : List Tick) (hok : envOk σ fuel work h = true) :
    (announcedIds (payloads σ π fuel work h)).Pairwise (· < ·) := by
  obtain ⟨hout, _⟩ := payloads_eq σ π fuel work h
  obtain ⟨hnd, e, _, _, hfresh⟩ := annInv_final σ fuel work h hok
  obtain ⟨_, td, _, _⟩ := initial_table π (init σ work).2.1 (init σ work).2.2
  have h0 := toPending_fresh π {} (init σ work).2.1 (init σ work).2.2 hnd
    (by intro n _; simp [alookup])
  have hs0 : SortedBelow ((initialPayload π (init σ work).2.1 (init σ work).2.2).2.pending.map (·.id))
      (initialPayload π (init σ work).2.1 (init σ work).2.2).1.nextId := by
    have hb : SortedBelow ([] : List Nat) 0 := ⟨List.Pairwise.nil, by simp⟩
    have := hb.append_range (nodesOf (init σ work).2.1 (init σ work).2.2).length
    simp only [initialPayload]
    rw [h0.1, h0.2]
    simpa using this
  have := publish_ann π (wqRun σ fuel (wqStart σ fuel work) h).2
    (initialPayload π (init σ work).2.1 (init σ work).2.2).1 _ _ td hfresh hs0
  rw [hout]
  simpa [announcedIds] using this.1

theorem announced_once (σ : Static) (π : PubStatic) (fuel : Nat) (work : Option Work)
    (h : List Tick) (hok : envOk σ fuel work h = true) : AnnouncedOnce (payloads σ π fuel work h) := by
  have hp := announced_increasing σ π fuel work h hok
  unfold AnnouncedOnce
  exact hp.imp (fun hab => Nat.ne_of_lt hab)

/-- The scheduler-graph invariant itself, at the end of every well-formed history: the group
nodes form a forest along `σ.parent` (a child is listed only in its parent's node, once, and
is not a root), and child streams wait in exactly one task node and are not roots. -/
theorem scheduler_graph_invariant (σ : Static) (fuel : Nat) (work : Option Work) (h : List Tick)
    (hok : envOk σ fuel work h = true) :
    Forest σ (wqRun σ fuel (wqStart σ fuel work) h).1 ∧ SForest (wqRun σ fuel (wqStart σ fuel work) h).1 := by
  obtain ⟨_, e, g, _, _⟩ := annInv_final σ fuel work h hok
  exact ⟨g.forest, g.sforest⟩

/-- What holds of P1/P2 *without* any hypothesis on the environment: an announced id never
equals an id completed by an earlier payload, and completed ids never repeat — together "an id
is never reused once its entry was deleted". -/
theorem ids_no_hypothesis (σ : Static) (π : PubStatic) (fuel : Nat) (work : Option Work)
    (h : List Tick) :
    NoReuse [] (payloads σ π fuel work h) ∧ CompletedOnce (payloads σ π fuel work h) :=
  ⟨ids_never_reused σ π fuel work h, completed_at_most_once σ π fuel work h⟩

/-- **P5 (a nested fragment is never announced while an announced enclosing fragment is still
pending), as a state invariant.**  At the end of every well-formed history (hence at every
quiescent point), no proper ancestor (along `parent`) of a root group — an announced, still
pending fragment — has a node in the graph: the enclosing fragments are all finished or
pruned. -/
theorem root_ancestors_gone (σ : Static) (π : PubStatic) (fuel : Nat) (work : Option Work)
    (h : List Tick) (hok : envOk σ fuel work h = true) :
    ∀ r ∈ (Sys.run σ π fuel (Sys.start σ π fuel work).1 h).wq.rootGroups, ∀ a, Anc σ a r →
      ¬ hasNode (Sys.run σ π fuel (Sys.start σ π fuel work).1 h).wq a := by
  rw [(payloads_eq σ π fuel work h).2]
  exact (p5_final σ fuel work h hok).1

/-- **P5: the pending fragments form an antichain of the nesting order** — no root group is a
proper ancestor of another root group (every root has its node, no root's ancestor has one). -/
theorem roots_antichain (σ : Static) (π : PubStatic) (fuel : Nat) (work : Option Work)
    (h : List Tick) (hok : envOk σ fuel work h = true) :
    ∀ r ∈ (Sys.run σ π fuel (Sys.start σ π fuel work).1 h).wq.rootGroups,
    ∀ a ∈ (Sys.run σ π fuel (Sys.start σ π fuel work).1 h).wq.rootGroups, ¬ Anc σ a r := by
  rw [(payloads_eq σ π fuel work h).2]
  obtain ⟨ha, hn⟩ := p5_final σ fuel work h hok
  intro r hr a har hanc
  exact ha r hr a hanc (hn a har)

/-- **P5 at the payload level.**  Groups labelled by their own number (`Labels π`).  At every
payload boundary of every well-formed history: if `a` and `b` are `pending` entries announced
so far and `a` has not been completed yet (its id is in no `completed` list so far), then the
fragment of `a` does not enclose the fragment of `b` — a nested fragment's id is never in a
`pending` list while the id of an announced enclosing fragment is still pending.  (The
publisher's id table ties the entries to `_root_groups`: an uncompleted entry's id is still in
the table under its group, the table holds only roots, roots have nodes, and every group ever
announced keeps all its ancestors out of the graph.) -/
theorem nested_never_pending_with_enclosing (σ : Static) (π : PubStatic) (L : Labels π) (fuel : Nat)
    (work : Option Work) (h : List Tick) (hok : envOk σ fuel work h = true) (k : Nat)
    (hk : k < (payloads σ π fuel work h).length) :
    ∀ a ∈ annEntries ((payloads σ π fuel work h).take (k + 1)),
    ∀ b ∈ annEntries ((payloads σ π fuel work h).take (k + 1)),
    ∀ ga gb, a.label = some ga → b.label = some gb →
      a.id ∉ completedIds ((payloads σ π fuel work h).take (k + 1)) → ¬ Anc σ ga gb :=
  payload_nesting σ π L fuel work h hok k hk

/-- **P6 at the model level (stream items arrive in list order without gaps or repeats).**  For
every well-formed environment history:
* the stream entries of the payload stream are, entry for entry and item for item, the batches
  the scheduler handled (`streamValues` events), in handling order — nothing is dropped,
  duplicated or reordered between `_stream_items` and the payloads;
* per stream, the source indices of the delivered items are their positions: `0, 1, 2, …`
  (E3: the batches come from `batches()` in queue order — `stream_queue_in_order` — one at a
  time, the pump waits for `handled`). -/
theorem stream_items_in_order (σ : Static) (π : PubStatic) (fuel : Nat) (work : Option Work)
    (h : List Tick) (hok : envOk σ fuel work h = true) :
    payloadStreams (payloads σ π fuel work h) = svAll (wqRun σ fuel (wqStart σ fuel work) h).2.flatten ∧
    ∀ s, InOrder (svIdx s (wqRun σ fuel (wqStart σ fuel work) h).2.flatten) := by
  constructor
  · rw [(payloads_eq σ π fuel work h).1]
    have := publish_streams π (wqRun σ fuel (wqStart σ fuel work) h).2
      (initialPayload π (init σ work).2.1 (init σ work).2.2).1
    simp only [payloadStreams, List.flatMap_cons] at this ⊢
    rw [this]
    simp [initialPayload, incrStreams]
  · obtain ⟨e, he⟩ := (orderInv_run σ).envOk fuel work h
      (by intro s
          refine ⟨by intro j i hj; simp [svIdx] at hj, ?_⟩
          cases work <;> simp [svIdx, EnvSt.intro, alookup]) hok
    exact fun s => (he s).1

/-! ## Fuel bounds

The model's recursions through the graph are by fuel.  The fuel the model passes is never
exhausted: any larger amount gives the same result.  (`drain`'s fuel — how many graph events
one batch can handle — depends on the environment and stays a parameter of every theorem.) -/

/-- `_prune_empty_groups`: `|group nodes| + 1` units are enough. -/
theorem prune_fuel_adequate (q : WQ) (gs : List Nat) (k : Nat) :
    pruneEmpty q gs = prune (q.groupNodes.length + 1 + k) gs (q, []) :=
  pruneEmpty_fuel q gs k

/-- `_remove_group` (called on a group that has a node, as `_finish_group_failure` does):
`|group nodes| + 1` units are enough. -/
theorem removeGroup_fuel_adequate (σ : Static) (q : WQ) (g : Nat) (n : GroupNode)
    (hn : alookup q.groupNodes g = some n) (k : Nat) :
    removeGroup σ (q.groupNodes.length + 1) q g n = removeGroup σ (q.groupNodes.length + 1 + k) q g n :=
  removeGroup_fuel_ok σ q g n n hn k

/-- `_add_group` (called on a group of the list, as `_add_groups` does): `len(groups) + 1` units
are enough, whatever has been visited. -/
theorem addGroup_fuel_adequate (σ : Static) (gs : List Nat) (hpt : Bool) (g : Nat)
    (acc : WQ × List Nat × List Nat) (hg : g ∈ gs) (k : Nat) :
    addGroup σ gs hpt (gs.length + 1) g acc = addGroup σ gs hpt (gs.length + 1 + k) g acc :=
  addGroups_fuel_ok σ gs hpt g acc hg k

/-! ## P3b and the known finding `workqueue-prunes-promoted-group-with-undelivered-shared-task` -/

/-- **P3b for deferred fragments, full statement.**  For every well-formed environment that carries
well-formed data (`DataOk`: a fragment introduced by a task's result lies inside that result's
data), no incremental entry of the emitted stream targets a path that does not resolve to an
object of the data assembled so far. -/
def p3b_defer_full : Prop :=
  ∀ (σ : Static) (π : PubStatic) (initData : J) (fuel : Nat) (work : Option Work) (h : List Tick),
    envOk σ fuel work h = true → DataOk σ π initData work h →
    ∀ v, checkPrefix true (fun _ _ => false) initData (payloads σ π fuel work h) = some v →
      v.clause ≠ .P3b

/-- The witness (keys: hero = 1, friend = 3, name = 5, slow = 7, i = 9).  Fragments L1 = 0 and
L3 = 1 are roots at `hero`; F2 = 2 is nested in L3; N = 3 is nested in F2 at `hero.friend`.
Task 0 (`slow`) ∈ {L1}; task 1 (`friend`) ∈ {L1, F2} — its result introduces N with task 3
(`i`, synchronous); task 2 (`name`) ∈ {L3}. -/
def kfStatic : Static where
  parent g := if g = 2 then some 1 else if g = 3 then some 2 else none
  tgroups t := if t = 0 then [0] else if t = 1 then [0, 2] else if t = 2 then [1] else [3]
  mode t := if t = 3 then .sync { value := { groups := [3], path := [1, 3], data := .obj [(9, .leaf 0)] } }
            else .async

def kfPub : PubStatic where
  gpath g := if g = 3 then [1, 3] else [1]
  glabel g := some g
  spath _ := []
  slabel _ := none

def kfInit : J := .obj [(1, .obj [])]
def kfWork : Option Work := some { groups := [0, 1, 2], tasks := [0, 1, 2] }
def kfFriend : TResult :=
  { value := { groups := [0, 2], path := [1], data := .obj [(3, .obj [])] },
    work := some { groups := [3], tasks := [3] } }
def kfName : TResult := { value := { groups := [1], path := [1], data := .obj [(5, .leaf 1)] } }
/-- `friend` completes first (L1 still waits for `slow`), then `name` completes L3. -/
def kfHistory : List Tick := [[.taskSuccess 1 kfFriend], [.taskSuccess 2 kfName]]

/-- On the model, exactly as on the code: when L3 finishes, F2 is pruned as empty although its
task `friend` has not been delivered (it is shared with the still pending L1); N is announced
at `hero.friend` and its data delivered while the client only has `{hero: {}}`. -/
example :
    ((payloads kfStatic kfPub 8 kfWork kfHistory).map
      (fun p => (p.pending.map (fun a => (a.id, a.path)), p.incremental.map (·.id), p.completed.map (·.id)))) =
      [([(0, [1]), (1, [1])], [], []), ([(2, [1, 3])], [1, 2], [1, 2])] ∧
    checkPrefix true (fun _ _ => false) kfInit (payloads kfStatic kfPub 8 kfWork kfHistory) =
      some ⟨.P3b, 1, 2⟩ := by
  decide

theorem kf_envOk : envOk kfStatic 8 kfWork kfHistory = true := by decide

theorem kf_dataOk : DataOk kfStatic kfPub kfInit kfWork kfHistory := by
  refine ⟨?_, ?_, ?_⟩
  · intro w hw
    cases hw
    refine ⟨rfl, ?_⟩
    intro g hg
    simp at hg
    rcases hg with rfl | rfl | rfl <;> decide
  · intro t r hm
    have h3 : t = 3 := by
      by_cases h : t = 3
      · exact h
      · simp [kfStatic, h] at hm
    subst h3
    have hr : r = { value := { groups := [3], path := [1, 3], data := .obj [(9, .leaf 0)] } } := by
      simp [kfStatic] at hm; exact hm.symm
    subst hr
    refine ⟨rfl, ?_, rfl, ?_⟩
    · intro g hg; simp [kfStatic] at hg; subst hg; rfl
    · intro w hw; cases hw
  · intro tick ht ev hev
    simp [kfHistory] at ht
    rcases ht with rfl | rfl <;> simp at hev <;> subst hev
    · refine ⟨rfl, ?_, rfl, ?_⟩
      · intro g hg; simp [kfStatic] at hg; rcases hg with rfl | rfl <;> rfl
      · intro w hw
        cases hw
        refine ⟨rfl, ?_⟩
        intro g hg
        simp at hg; subst hg
        exact ⟨[3], rfl, rfl⟩
    · refine ⟨rfl, ?_, rfl, ?_⟩
      · intro g hg; simp [kfStatic] at hg; subst hg; rfl
      · intro w hw; cases hw

/-- **The known finding refutes P3b on the faithful model**: the full statement is false. -/
theorem p3b_defer_full_fails : ¬ p3b_defer_full := by
  intro h
  have := h kfStatic kfPub kfInit 8 kfWork kfHistory kf_envOk kf_dataOk ⟨.P3b, 1, 2⟩ (by decide)
  exact this rfl

/-! ## The whole validator accepts every well-formed history -/

/-- **P1, second half (an id is announced before any data for it) and the O1 shape of
`completed`.**  For every well-formed environment history: every `incremental` entry carries an
id that this or an earlier payload announced, and every `completed` entry carries such an id or
is a *failed* completion (observation O1).  Behind it: the roots of the scheduler are always
inside the publisher's id table (`Cover`, the converse of `scheduler`'s `DomInv`), every event
that reports values or success concerns a root (`evsPre_final`), so `_ensure_id` finds the id
instead of minting one, and every id in the table is an announced id (`TableAnn`). -/
theorem data_only_for_announced (σ : Static) (π : PubStatic) (fuel : Nat) (work : Option Work)
    (h : List Tick) (hok : envOk σ fuel work h = true) :
    ∀ pre pl post, payloads σ π fuel work h = pre ++ pl :: post →
      (∀ x ∈ pl.incremental, x.id ∈ announcedIds (pre ++ [pl])) ∧
      (∀ c ∈ pl.completed, c.id ∈ announcedIds (pre ++ [pl]) ∨ c.failed = true) := by
  intro pre pl post e
  have := (payloads_dataAnnounced σ π fuel work h hok).split pre pl post e
  simpa using this

/-- **P5 at the payload level, streams labelled.**  `nested_never_pending_with_enclosing` for
environments whose streams carry labels too, as long as a stream's label does not occur in the
nesting relation (`LabelsS σ π`: groups are labelled by their own number; a stream label is
neither a nested group nor the parent of one).  The payload stream depends on the labels only
through the `label` field of the `pending` entries (`payloads_rel`), so the statement is carried
over from the environment with the stream labels erased. -/
theorem nested_never_pending_labelled_streams (σ : Static) (π : PubStatic) (L : LabelsS σ π) (fuel : Nat)
    (work : Option Work) (h : List Tick) (hok : envOk σ fuel work h = true) (k : Nat)
    (hk : k < (payloads σ π fuel work h).length) :
    ∀ a ∈ pendEntries ((payloads σ π fuel work h).take (k + 1)),
    ∀ b ∈ pendEntries ((payloads σ π fuel work h).take (k + 1)),
    ∀ ga gb, a.label = some ga → b.label = some gb →
      a.id ∉ completedIds ((payloads σ π fuel work h).take (k + 1)) → ¬ Anc σ ga gb :=
  payload_nesting_S σ π L fuel work h hok k hk

/-- **P1–P7 without the data-dependent halves: the executable validator accepts the payload
stream of every well-formed history as a legal prefix** (`checkPrefix false … = none`; labels =
group numbers, nesting = the parent relation, stream labels outside the nesting relation:
`LabelsS σ π` — in particular unlabelled streams, `Labels π`, and the direct harness' `100 + s`).
This is `protocol_prefix_full` with the one hypothesis it lacks (see
`protocol_prefix_full_fails`), for any initial data.  Every clause of `checkPrefix false` is
reached: P7 (`hasNext_only_last_false`), P1/P2 in `announce` (`announced_increasing`,
`ids_never_reused`), P1/P3a in `applyIncr` (`data_only_for_announced`,
`no_data_after_completion`), P4a/P1 in `complete` (`completed_at_most_once`,
`data_only_for_announced`), P5 in `nestingOk` (`nested_never_pending_labelled_streams`; the
validator's `ancestorLabel` is the scheduler's `Anc` — `ancestorLabel_anc`), P4b at the last
payload (`complete_stream_all_completed`).  The assembly is `streamOk_of_facts` (the per-clause
facts give `StreamOk`) and `checkPrefix_of_streamOk` (an invariant `VInv` of the validator state
— open entries = announced and not completed, `used` = announced ∪ completed — is kept by every
payload that satisfies `PayloadOk`, and implies no rejection).  What `checkPrefix false` skips
and this theorem therefore does not cover: P3b (refuted on the model, `p3b_defer_full_fails`)
and the data-level half of P6 (model-level P6 is `stream_items_in_order`). -/
theorem protocol_prefix (σ : Static) (π : PubStatic) (parents : List (Nat × Nat)) (fuel : Nat)
    (work : Option Work) (h : List Tick) (initData : J)
    (hok : envOk σ fuel work h = true)
    (hpar : ∀ g p, σ.parent g = some p ↔ (g, p) ∈ parents) (L : LabelsS σ π) :
    checkPrefix false (enclByLabels parents) initData (payloads σ π fuel work h) = none := by
  apply checkPrefix_of_streamOk
  apply streamOk_of_facts
  · exact (announced_once σ π fuel work h hok)
  · exact ids_never_reused σ π fuel work h
  · exact no_data_after_completion σ π fuel work h
  · exact completed_at_most_once σ π fuel work h
  · exact payloads_dataAnnounced σ π fuel work h hok
  · exact hasNext_only_last_false σ π fuel work h
  · intro k hk a ha b hb hnc
    cases henc : enclByLabels parents a b with
    | false => rfl
    | true =>
      obtain ⟨ga, gb, hla, hlb, hanc⟩ := enclByLabels_anc σ parents hpar a b henc
      exact absurd hanc
        (payload_nesting_S σ π L fuel work h hok k hk a ha b hb ga gb hla hlb hnc)
  · intro p hp hn
    exact complete_stream_all_completed σ π fuel work h hok p hp hn

/-- **Complete streams.**  For every well-formed history whose stream ended (some payload carries
`hasNext = false`), the validator for *complete* streams — `check false`, the data-free part of
the oracle `protocolOk` that the end-to-end runs use — accepts the payload stream: in addition to
`protocol_prefix`, the last payload carries `hasNext = false` and leaves nothing pending. -/
theorem protocol_complete (σ : Static) (π : PubStatic) (parents : List (Nat × Nat)) (fuel : Nat)
    (work : Option Work) (h : List Tick) (initData : J)
    (hok : envOk σ fuel work h = true)
    (hpar : ∀ g p, σ.parent g = some p ↔ (g, p) ∈ parents) (L : LabelsS σ π)
    (p : Payload) (hp : p ∈ payloads σ π fuel work h) (hn : p.hasNext = false) :
    check false (enclByLabels parents) initData (payloads σ π fuel work h) = none := by
  apply check_of_streamOk
  · apply streamOk_of_facts
    · exact (announced_once σ π fuel work h hok)
    · exact ids_never_reused σ π fuel work h
    · exact no_data_after_completion σ π fuel work h
    · exact completed_at_most_once σ π fuel work h
    · exact payloads_dataAnnounced σ π fuel work h hok
    · exact hasNext_only_last_false σ π fuel work h
    · intro k hk a ha b hb hnc
      cases henc : enclByLabels parents a b with
      | false => rfl
      | true =>
        obtain ⟨ga, gb, hla, hlb, hanc⟩ := enclByLabels_anc σ parents hpar a b henc
        exact absurd hanc
          (payload_nesting_S σ π L fuel work h hok k hk a ha b hb ga gb hla hlb hnc)
    · intro p hp hn
      exact complete_stream_all_completed σ π fuel work h hok p hp hn
  · exact ⟨p, (hasNext_false_is_final σ π fuel work h p hp hn).2, hn⟩

/-- `protocol_prefix` for unlabelled streams, in the shape of `protocol_prefix_full`. -/
theorem protocol_prefix_unlabelled (σ : Static) (π : PubStatic) (parents : List (Nat × Nat)) (fuel : Nat)
    (work : Option Work) (h : List Tick)
    (hok : envOk σ fuel work h = true)
    (hpar : ∀ g p, σ.parent g = some p ↔ (g, p) ∈ parents) (hg : ∀ g, π.glabel g = some g)
    (hs : ∀ s, π.slabel s = none) :
    checkPrefix false (enclByLabels parents) .null (payloads σ π fuel work h) = none :=
  protocol_prefix σ π parents fuel work h .null hok hpar (Labels.toS ⟨hg, hs⟩ σ)

/-- `protocol_prefix_full` as stated is **false**, for a reason that has nothing to do with the
code: it constrains the labels of the groups (`π.glabel g = some g`) but not those of the
streams.  Witness: group 1 nested in group 0 (`parents = [(1, 0)]`); the initial work is the
root group 0 and a root stream whose label is `1`.  The initial result announces both; the
validator's label-based nesting test takes the stream entry (label 1) for the fragment nested
in group 0 and reports P5.  In a validated document this cannot happen (rule "defer/stream
labels are unique": a stream's label is never the label of a deferred fragment); the direct
harness labels stream `s` with `100 + s`.  `protocol_prefix` is the statement with the missing
hypothesis (`LabelsS`: a stream's label does not occur in the nesting relation). -/
theorem protocol_prefix_full_fails : ¬ protocol_prefix_full := by
  intro hfull
  have := hfull
    { parent := fun g => if g = 1 then some 0 else none, tgroups := fun _ => [0], mode := fun _ => .async }
    { gpath := fun _ => [], glabel := fun g => some g, spath := fun _ => [], slabel := fun _ => some 1 }
    [(1, 0)] 8 (some { groups := [0], tasks := [0], streams := [5] }) [] (by decide)
    (by
      intro g p
      constructor
      · intro hp
        by_cases hg : g = 1
        · subst hg; simp at hp; subst hp; simp
        · simp [hg] at hp
      · intro hm
        simp at hm
        obtain ⟨rfl, rfl⟩ := hm
        simp)
    (fun _ => rfl)
  revert this
  decide

/-! ## Non-vacuity -/

/-- A three-level nested history: group 0 (root) ← 1 ← 2; task `k` belongs to group `k` and its
result introduces group `k+1` with task `k+1`; all three tasks are asynchronous and settle in
order, one per tick. -/
def exParent : Nat → Option Nat
  | 1 => some 0
  | 2 => some 1
  | _ => none

def exResult (k : Nat) (w : Option Work) : TResult :=
  { value := { groups := [k], path := [], data := .leaf k }, work := w }

def exStatic : Static where
  parent := exParent
  tgroups t := [t]
  mode _ := .async

def exPub : PubStatic where
  gpath g := List.replicate g 1
  glabel g := some g
  spath _ := []
  slabel _ := none

def exWork : Option Work := some { groups := [0], tasks := [0] }

def exHistory : List Tick :=
  [ [.taskSuccess 0 (exResult 0 (some { groups := [1], tasks := [1] }))],
    [.taskSuccess 1 (exResult 1 (some { groups := [2], tasks := [2] }))],
    [.taskSuccess 2 (exResult 2 none)] ]

example : Labels exPub := ⟨fun _ => rfl, fun _ => rfl⟩
example : LabelsS exStatic exPub := Labels.toS ⟨fun _ => rfl, fun _ => rfl⟩ exStatic
/-- `LabelsS` with labelled streams (the harness convention `100 + s`). -/
example : LabelsS exStatic { exPub with slabel := fun s => some (100 + s) } := by
  refine ⟨fun _ => rfl, ?_⟩
  intro s l hl
  simp only [Option.some.injEq] at hl
  subst hl
  refine ⟨?_, ?_⟩
  · show exParent (100 + s) = none
    unfold exParent
    split <;> first | rfl | omega
  intro x hx
  simp only [exStatic] at hx
  unfold exParent at hx
  split at hx <;> simp at hx <;> omega

/-- The example history is a well-formed environment … -/
example : envOk exStatic 8 exWork exHistory = true := by decide

/-- … its payload stream has 4 payloads, is accepted by the protocol validator as a *complete*
stream (so the hypotheses of the theorems above are met by a non-trivial run, and the `_full`
statement holds on it), and ends with `hasNext = false`. -/
example : (payloads exStatic exPub 8 exWork exHistory).length = 4 ∧
    check false (enclByLabels [(1, 0), (2, 1)]) .null (payloads exStatic exPub 8 exWork exHistory) = none ∧
    ((payloads exStatic exPub 8 exWork exHistory).map (·.hasNext)) = [true, true, true, false] := by
  decide

/-- `protocol_prefix` is not vacuous: the example history meets all its hypotheses (`envOk`
above, `Labels exPub` above, the parent list below), and so does the O1 history below. -/
example : ∀ g p, exStatic.parent g = some p ↔ (g, p) ∈ [(1, 0), (2, 1)] := by
  intro g p
  match g with
  | 0 => simp [exStatic, exParent]
  | 1 => simp [exStatic, exParent]; exact eq_comm
  | 2 => simp [exStatic, exParent]; exact eq_comm
  | (n + 3) => simp [exStatic, exParent]

/-- O1 (DESIGN §7) as a lemma about the model: a task shared by a root group and a nested,
not yet announced group fails; the publisher emits `completed` for id 1, which was never
announced.  No stated clause forbids it; the validator accepts the stream. -/
example :
    let σ : Static := { parent := fun g => if g = 1 then some 0 else none,
                        tgroups := fun t => if t = 0 then [0] else [1, 2], mode := fun _ => .async }
    let π : PubStatic := { gpath := fun _ => [], glabel := fun g => some g, spath := fun _ => [], slabel := fun _ => none }
    let out := payloads σ π 8 (some { groups := [0, 1, 2], tasks := [0, 1] }) [[.taskFailure 1]]
    (out.map (fun p => (p.pending.map (·.id), p.completed.map (fun c => (c.id, c.failed))))) =
      [([0, 1], []), ([], [(2, true), (1, true)])] ∧
    checkPrefix false (enclByLabels [(1, 0)]) .null out = none := by
  decide

/-- The validator is not vacuous: a stream that announces a nested fragment while its
enclosing fragment stays pending is rejected with P5, one that completes an id twice with P4a. -/
example :
    check false (enclByLabels [(1, 0)]) .null
      [{ pending := [⟨0, [], some 0⟩, ⟨1, [], some 1⟩] }, { completed := [⟨0, false⟩, ⟨1, false⟩], hasNext := false }]
      = some ⟨.P5, 0, 1⟩ ∧
    check false (fun _ _ => false) .null
      [{ pending := [⟨0, [], none⟩] }, { completed := [⟨0, false⟩] }, { completed := [⟨0, false⟩], hasNext := false }]
      = some ⟨.P4a, 2, 0⟩ := by
  decide

end Gql.Props.C05
