import Gql.Proofs.ValidationOrder
import Gql.Proofs.ValidationMemo
import Gql.Generated.ValidationTables
import Gql.Proofs.RuleReturnsFacts
import Gql.Proofs.RulesSpec2
import Gql.Proofs.RulesFuel
import Gql.Proofs.RulesFuel2
import Gql.Proofs.RulesSpec4
import Gql.Proofs.RulesInputFields
import Gql.Proofs.RulesSpec6
import Gql.Proofs.RulesLone
import Gql.Proofs.RulesUniqueOps
import Gql.Proofs.RulesUniqueFrags
/-!
# C12 — Validation is a deterministic, compositional function of document and schema

Property theorems only (lemmas: `Gql/Proofs/Validation*.lean`).  Model: `Gql/Validation/Framework.lean`
(`validate` = `visit(doc, TypeInfoVisitor(TypeInfo, ParallelVisitor(rules)))` with `on_error` and the error
limit; rules are arbitrary state-passing non-editing visitors that may read the TypeInfo) and
`Gql/Validation/Context.lean` (the memoised context getters).  Eleven document-only concrete rules are modelled as
such visitors in `Gql/Validation/Rules.lean` (section C12-7 below; each is run alone through the real `validate()`
against the model by `checks/c12.py`); for the other rules `checks/c12.py` checks on the implementation that they
behave as such visitors.

All statements are for every tree, every list of rules (any private state type `σ`, any error type `ε`), every
lookup functions `L` and — where the TypeInfo table matters — every balanced table, instantiated with the
table generated from type_info.py.
-/
namespace Gql.Props.C12
open Gql.Validation Gql.Generated

variable {τ σ ε : Type}

/-! ## C12-1 `parallel_alone` — "exactly … what each rule reports when run alone", as call sequences -/

/-- C12-1 (members are independent).  Inside `TypeInfoVisitor(ParallelVisitor(members))` without error limit,
from any TypeInfo, any members (whatever their current `skipping` entries) and any subtree: the traversal is
never stopped, the TypeInfo ends as `tiTrav` — a function of the subtree alone — and every member ends as
`Member.trav`, a function of *that member* (state, `skipping`, received calls with the TypeInfo snapshots it
could read, reported errors) and of the subtree alone: no dependence on the other members, whichever subset of
them skips or breaks. -/
theorem parallel_members (D : Driver τ) (t : Tree) (ti : TI τ) (ms : List (Member τ σ ε)) (snk : Sink ε)
    (h : snk.aborted = false) (hw : ∀ m ∈ ms, m.WF) :
    ∃ es, run0 (tiVisitor D (parallel none)) (ti, ⟨ms, snk⟩) t =
      ((tiTrav D ti t, ⟨ms.map (fun m => Member.trav D ti m t), ⟨snk.errs ++ es, false⟩⟩), false) :=
  (par_run D).1 t ti ms snk h hw

/-- C12-1 `parallel_alone`.  The final record of every rule (private state, `skipping` entry, the sequence of
`enter`/`leave` calls it received *including the TypeInfo it could read at each call*, the errors it reported)
in `validate(rules)` is the one it has in `validate([rule])`: the member list of the parallel run is the
concatenation of the member lists of the single-rule runs. -/
theorem parallel_alone (tbl : TITable) (L : Lookups τ) (rules : List (Rule τ σ ε × σ)) (doc : Tree) :
    (validateRun tbl L none rules doc).1.2.members =
      rules.flatMap (fun r => (validateRun tbl L none [r] doc).1.2.members) := by
  have hw : ∀ (rs : List (Rule τ σ ε × σ)), ∀ m ∈ (PState.start rs).members, m.WF := by
    intro rs m hm
    obtain ⟨r, _, rfl⟩ := List.mem_map.mp hm
    exact Member.start_WF _ _
  obtain ⟨es, he⟩ := (par_run (realDriver tbl L)).1 doc TI.init (PState.start rules).members ⟨[], false⟩ rfl (hw rules)
  have hall : (validateRun tbl L none rules doc) = _ := he
  rw [hall]
  have hone : ∀ r : Rule τ σ ε × σ, (validateRun tbl L none [r] doc).1.2.members =
      [Member.trav (realDriver tbl L) TI.init (Member.start r.1 r.2) doc] := by
    intro r
    obtain ⟨es1, he1⟩ := (par_run (realDriver tbl L)).1 doc TI.init (PState.start [r]).members ⟨[], false⟩ rfl (hw [r])
    have : (validateRun tbl L none [r] doc) = _ := he1
    rw [this]; rfl
  simp only [hone]
  simp only [PState.start, List.map_map, Function.comp_def]
  exact map_eq_flatMap_singleton _ _

/-- C12-1, direct form (C11-5 for non-editing visitors, any TypeInfo driver).  A rule used *directly* as the
visitor of `visit(doc, TypeInfoVisitor(type_info, rule))` — no `ParallelVisitor`; SKIP and BREAK are answered to
`visit()` itself, which then does not descend / stops — ends with exactly the record (`Member.trav`) it ends
with as a member of a `ParallelVisitor`: same private state, same sequence of calls with the same TypeInfo at
every call, same reported errors; `skipping = BREAK` iff the direct run stopped.  Hypotheses: no node is its own
descendant (`noSelfNest`; what makes `skipping[i] is node` identify the skipped node), and the driver's frame
`F` (the TypeInfo the skipped children would have been traversed from is restored by them). -/
theorem parallel_alone_single_full (D : Driver τ) (F : Frame D) (t : Tree) (ti : TI τ) (m : Member τ σ ε)
    (hF : F.P ti t) (hN : t.noSelfNest = true) (hm : m.skipping = .none) :
    Member.trav D ti m t =
      asMember (run0 (tiVisitor D single) (ti, m) t).1.2 (run0 (tiVisitor D single) (ti, m) t).2 :=
  ((single_sim D F).1 t ti m hF hN hm).1

/-- C12-1, direct form, for `validate()`: on a document without self-nesting and without register nesting
(checked on every generated document by the driver), the members of `validate(rules)` are, rule by rule, the
records of `visit(doc, TypeInfoVisitor(TypeInfo(schema), rule))` run directly from a fresh TypeInfo.  Together
with `parallel_alone` this closes the gap "consistently wrong in both `validate([r])` and `validate(rules)`":
the reference is the rule under plain `visit()`. -/
theorem parallel_alone_direct (tbl : TITable) (hb : tbl.Balanced) (hr : tbl.RegsReset) (L : Lookups τ)
    (rules : List (Rule τ σ ε × σ)) (doc : Tree) (h1 : doc.noSelfNest = true) (h2 : doc.noRegNest tbl = true) :
    (validateRun tbl L none rules doc).1.2.members =
      rules.map (fun r =>
        asMember (run0 (tiVisitor (realDriver tbl L) single) (TI.init, Member.start r.1 r.2) doc).1.2
                 (run0 (tiVisitor (realDriver tbl L) single) (TI.init, Member.start r.1 r.2) doc).2) := by
  unfold validateRun
  rw [run_closed]
  simp only [startMembers, List.map_map, Function.comp_def]
  apply List.map_congr_left
  intro r _
  exact parallel_alone_single_full (realDriver tbl L) (Frame.real tbl hb hr L) doc TI.init _
    ⟨Quiet.init tbl _, h2⟩ h1 rfl

/-- C12-1, direct form, for `validate_sdl()` (no TypeInfo): the members of `visit(doc, ParallelVisitor(rules))`
are the records of `visit(doc, rule)`. -/
theorem parallel_alone_direct_sdl (ti0 : TI τ) (rules : List (Rule τ σ ε × σ)) (doc : Tree) (h1 : doc.noSelfNest = true) :
    (run0 (plainVisitor ti0 (parallel none)) (PState.start rules) doc).1.members =
      rules.map (fun r =>
        asMember (run0 (plainVisitor ti0 single) (Member.start r.1 r.2) doc).1
                 (run0 (plainVisitor ti0 single) (Member.start r.1 r.2) doc).2) := by
  have hp := (run0_plain ti0 (parallel (τ := τ) (σ := σ) (ε := ε) none)).1 doc (PState.start rules)
  have hc := run_closed idDriver ti0 rules doc
  rw [hp] at hc
  have hm : (run0 (plainVisitor ti0 (parallel none)) (PState.start rules) doc).1 = _ := congrArg (fun x => x.1.2) hc
  rw [hm]
  simp only [startMembers, List.map_map, Function.comp_def]
  apply List.map_congr_left
  intro r _
  have hs := parallel_alone_single_full idDriver Frame.id doc ti0 (Member.start r.1 r.2) trivial h1 rfl
  rw [(run0_plain ti0 single).1] at hs
  exact hs

-- non-vacuity: two rules, the first skips the subtree of node 1, the second breaks at node 2
private def exRule (skipAt brkAt : Nat) : Rule Nat Nat Nat where
  hEnter := fun _ => true
  hLeave := fun k => k == "b"
  step := fun s ph i _ =>
    (if ph = .enter ∧ i.id = skipAt then .skip else if ph = .enter ∧ i.id = brkAt then .brk else .idle, s + 1, [10 * i.id + s])
private def exDoc : Tree := .node ⟨0, "a"⟩ [.node ⟨1, "b"⟩ [.node ⟨2, "field"⟩ []], .node ⟨3, "b"⟩ []]
private def exL : Lookups Nat := ⟨fun _ i _ => some i.id, fun _ i _ => some i.id⟩

example : ((validateRun tiTable exL none [(exRule 1 9, 0), (exRule 9 2, 0)] exDoc).1.2.members.map (fun m => m.calls.length)) = [4, 3] := by
  decide

-- the hypotheses of the direct form hold for that document, and the direct runs skip / stop for real
example : exDoc.noSelfNest = true ∧ exDoc.noRegNest tiTable = true ∧
    (run0 (tiVisitor (realDriver tiTable exL) single) (TI.init, Member.start (exRule 9 2) 0) exDoc).2 = true ∧
    (run0 (tiVisitor (realDriver tiTable exL) single) (TI.init, Member.start (exRule 1 9) 0) exDoc).1.2.calls.length = 4 := by
  decide

-- `noSelfNest` is needed: if the node being skipped reappears below itself, `skipping[i]` is reset early
-- (cannot happen with Python object identity in a finite tree)
private def exBad : Tree := .node ⟨1, "b"⟩ [.node ⟨1, "b"⟩ [], .node ⟨2, "b"⟩ []]
example : exBad.noSelfNest = false ∧
    (Member.trav (realDriver tiTable exL) TI.init (Member.start (exRule 1 9) 0) exBad).calls.length = 4 ∧
    (run0 (tiVisitor (realDriver tiTable exL) single) (TI.init, Member.start (exRule 1 9) 0) exBad).1.2.calls.length = 1 := by
  decide

/-! ## C12-2 `rules_union` -/

/-- C12-2 `rules_union`.  Without limit, what `validate(rules)` returns is, as a multiset, exactly the union of
what `validate([r])` returns for each `r` of `rules` (order of rules and of errors between rules irrelevant). -/
theorem rules_union (tbl : TITable) (L : Lookups τ) (rules : List (Rule τ σ ε × σ)) (doc : Tree) :
    (validate tbl L none rules doc).Perm (rules.flatMap (fun r => validate tbl L none [r] doc)) := by
  have hstart : ∀ rs : List (Rule τ σ ε × σ), UnionInv (PState.start rs) := by
    intro rs
    refine ⟨rfl, ?_⟩
    have : (PState.start rs).members.flatMap (fun m => m.errs) = [] := by
      simp [PState.start, Member.start, List.flatMap_map]
    rw [this]; exact List.Perm.refl _
  have hrun : ∀ rs : List (Rule τ σ ε × σ),
      (validate tbl L none rs doc).Perm (((validateRun tbl L none rs doc).1.2.members.flatMap (fun m => m.errs)).map Reported.error) := by
    intro rs
    have hu := (union_inv (realDriver tbl L)).1 doc (TI.init, PState.start rs) (hstart rs)
    unfold validate Sink.result
    have ha : (validateRun tbl L none rs doc).1.2.sink.aborted = false := hu.1
    rw [ha]
    exact List.Perm.map _ hu.2
  refine (hrun rules).trans ?_
  rw [parallel_alone, List.flatMap_assoc, List.map_flatMap]
  apply perm_flatMap_congr
  intro r _
  exact (hrun [r]).symm

/-- C12-2 (order).  Without limit, `validate(rules)` returns exactly `errsTrav`: the enter/leave events of the
complete traversal in depth-first order (enter of a node, its children left to right, its leave); within one
event the rules in the order of `rules`; and what a rule reports at an event is what its own independent
evolution (`Member.trav`, the one of its single run) reports there. -/
theorem rules_order (tbl : TITable) (L : Lookups τ) (rules : List (Rule τ σ ε × σ)) (doc : Tree) :
    validate tbl L none rules doc =
      (errsTrav (realDriver tbl L) TI.init (startMembers rules) doc).map Reported.error := by
  unfold validate validateRun
  rw [run_closed]
  simp [Sink.result]

/-- C12-2 `rules_order_full`.  The errors of every single-rule run appear in the combined run in the same
relative order (a subsequence): errors are reported in traversal order, ties in rule order, and no rule's
sequence is reordered by the presence of the others. -/
theorem rules_order_full (tbl : TITable) (L : Lookups τ) (rules : List (Rule τ σ ε × σ)) (doc : Tree)
    (r : Rule τ σ ε × σ) (hr : r ∈ rules) :
    (validate tbl L none [r] doc).Sublist (validate tbl L none rules doc) := by
  rw [rules_order, rules_order]
  apply List.Sublist.map
  exact (errsTrav_sublist (realDriver tbl L)).1 doc TI.init (startMembers rules) (Member.start r.1 r.2)
    (List.mem_map_of_mem (f := fun r => Member.start r.1 r.2) hr)

/-- C12-2 for `validate_sdl()`: same union law without TypeInfo. -/
theorem rules_union_sdl (ti0 : TI τ) (rules : List (Rule τ σ ε × σ)) (doc : Tree) :
    (validateSdl ti0 rules doc).Perm (rules.flatMap (fun r => validateSdl ti0 [r] doc)) := by
  have hrun : ∀ rs : List (Rule τ σ ε × σ), validateSdl ti0 rs doc =
      (errsTrav idDriver ti0 (startMembers rs) doc).map Reported.error := by
    intro rs
    have hp := (run0_plain ti0 (parallel (τ := τ) (σ := σ) (ε := ε) none)).1 doc (PState.start rs)
    have hc := run_closed idDriver ti0 rs doc
    rw [hp] at hc
    have hm : (run0 (plainVisitor ti0 (parallel none)) (PState.start rs) doc).1 = _ := congrArg (fun x => x.1.2) hc
    unfold validateSdl
    rw [hm]
    simp [Sink.result]
  rw [hrun rules]
  have h := (errsTrav_perm idDriver ti0 rules doc).map Reported.error
  refine h.trans ?_
  rw [List.map_flatMap]
  apply perm_flatMap_congr
  intro r _
  rw [hrun [r]]
  simp [startMembers]

/-- C12-2 (order, per rule).  Inside the parallel run every rule reports exactly the error sequence of its
single run, in the same order (from `parallel_alone`); how the sequences interleave is `rules_order`. -/
theorem rules_order_partial (tbl : TITable) (L : Lookups τ) (rules : List (Rule τ σ ε × σ)) (doc : Tree) :
    (validateRun tbl L none rules doc).1.2.members.map (fun m => m.errs) =
      rules.flatMap (fun r => (validateRun tbl L none [r] doc).1.2.members.map (fun m => m.errs)) := by
  rw [parallel_alone, List.map_flatMap]

example : (validate tiTable exL none [(exRule 1 9, 0), (exRule 9 2, 0)] exDoc) =
    [.error 0, .error 0, .error 11, .error 11, .error 22, .error 32, .error 33] := by decide

example : (validate tiTable exL none [(exRule 1 9, 0), (exRule 9 2, 0)] exDoc).length = 7 ∧
    (validate tiTable exL none [(exRule 1 9, 0)] exDoc).length = 4 ∧ (validate tiTable exL none [(exRule 9 2, 0)] exDoc).length = 3 := by
  decide

/-! ## C12-3 `typeinfo_balanced` -/

/-- The table generated from type_info.py is balanced: every `leave_<kind>` pops each stack exactly as often
as `enter_<kind>` pushes it … -/
theorem tiTable_balanced : tiTable.Balanced := TITable.balanced_of_balancedB _ (by decide)

/-- … and resets to `None` every register `enter_<kind>` assigns. -/
theorem tiTable_regsReset : tiTable.RegsReset := by
  unfold TITable.RegsReset
  decide

/-- C12-3 `typeinfo_balanced`.  Under `TypeInfoVisitor`, for *every* inner visitor (descending, answering SKIP
— where `TypeInfoVisitor` calls `type_info.leave(node)` at once — at any nodes) and every subtree whose
traversal was not stopped by BREAK: every TypeInfo stack is restored to what it was before the sub-traversal,
and every register is unchanged or `None`.  (`tbl` any balanced table; instantiated below.) -/
theorem typeinfo_balanced (tbl : TITable) (hb : tbl.Balanced) (hr : tbl.RegsReset) (L : Lookups τ) {σ' : Type}
    (v : V τ σ') (t : Tree) (ti : TI τ) (s : σ')
    (hns : (run0 (tiVisitor (realDriver tbl L) v) (ti, s) t).2 = false) :
    (run0 (tiVisitor (realDriver tbl L) v) (ti, s) t).1.1.stacks = ti.stacks ∧
    ∀ r, (run0 (tiVisitor (realDriver tbl L) v) (ti, s) t).1.1.regs r = ti.regs r ∨
         (run0 (tiVisitor (realDriver tbl L) v) (ti, s) t).1.1.regs r = none :=
  (ti_balanced tbl hb hr L v).1 t (ti, s) hns

/-- C12-3, the form used for the nested `get_variable_usages` visit on the *shared* TypeInfo: started where all
registers are `None` (between definitions / at `leave_operation_definition`), a nested
`visit(node, TypeInfoVisitor(type_info, usage_visitor))` — the usage visitor skips variable definitions —
leaves the TypeInfo exactly as it found it, so a rule reading the TypeInfo after calling a context getter
reads what it would have read without the call. -/
theorem typeinfo_restored_nested (L : Lookups τ) {σ' : Type} (v : V τ σ') (t : Tree) (ti : TI τ) (s : σ')
    (hregs : ∀ r, ti.regs r = none)
    (hns : (run0 (tiVisitor (realDriver tiTable L) v) (ti, s) t).2 = false) :
    (run0 (tiVisitor (realDriver tiTable L) v) (ti, s) t).1.1 = ti := by
  obtain ⟨h1, h2⟩ := typeinfo_balanced tiTable tiTable_balanced tiTable_regsReset L v t ti s hns
  generalize (run0 (tiVisitor (realDriver tiTable L) v) (ti, s) t).1.1 = ti' at h1 h2
  cases ti'; cases ti
  simp only at h1 h2 hregs
  subst h1
  congr
  funext r
  rcases h2 r with h | h
  · exact h
  · rw [h, hregs r]

-- non-vacuity: a skipping inner visitor over a tree with argument / list_value / field nodes
private def exSkipper : V Nat Unit where
  hEnter := fun _ _ => true
  hLeave := fun _ _ => false
  enter := fun s _ i => (if i.kind = "argument" then .skip else .idle, s)
  leave := fun s _ _ => (.idle, s)
private def exDoc2 : Tree :=
  .node ⟨0, "operation_definition"⟩ [.node ⟨1, "selection_set"⟩ [.node ⟨2, "field"⟩ [.node ⟨3, "argument"⟩ [.node ⟨4, "list_value"⟩ []], .node ⟨5, "directive"⟩ []]]]
example : (run0 (tiVisitor (realDriver tiTable exL) exSkipper) (TI.init, ()) exDoc2).2 = false ∧
    ((run0 (tiVisitor (realDriver tiTable exL) exSkipper) (TI.init, ()) exDoc2).1.1.depths tiStackNames) = [0, 0, 0, 0, 0] := by
  decide

/-! ## C12-4 `limit_prefix` -/

/-- C12-4 `limit_prefix`.  `validate(max_errors = n)` returns the first `n` errors of the unlimited run followed
by the abort notice iff the unlimited run has more than `n` errors, and otherwise exactly the unlimited list —
for every `n` (including 0), every rule list, every tree. -/
theorem limit_prefix (tbl : TITable) (L : Lookups τ) (n : Nat) (rules : List (Rule τ σ ε × σ)) (doc : Tree) :
    validate tbl L (some n) rules doc =
      if n < (validate tbl L none rules doc).length then (validate tbl L none rules doc).take n ++ [Reported.aborted]
      else validate tbl L none rules doc := by
  have hok : SinkOK n ((TI.init : TI τ), PState.start rules).2.sink := ⟨rfl, Nat.zero_le _⟩
  unfold validate validateRun
  rcases (limit_sim (realDriver tbl L) n).1 doc _ hok with ⟨h1, _, h3⟩ | ⟨_, h2⟩
  · simp only [Vl, Vu] at h1 h3
    rw [← h1]
    have ha := h3.1
    have hl := h3.2
    simp only [Sink.result, ha, Bool.false_eq_true, if_false, List.length_map]
    rw [if_neg (by omega)]
  · simp only [Vl, Vu] at h2
    obtain ⟨a1, a2, a3, rest, hr, he⟩ := h2
    simp only [Sink.result, a1, a3, if_true, Bool.false_eq_true, if_false, List.length_map]
    rw [he]
    have hlen : 0 < rest.length := List.length_pos_iff.mpr hr
    rw [if_pos (by simp; omega)]
    simp [List.map_append, a2]

/-- At most `n` errors plus one final abort notice. -/
theorem limit_length (tbl : TITable) (L : Lookups τ) (n : Nat) (rules : List (Rule τ σ ε × σ)) (doc : Tree) :
    (validate tbl L (some n) rules doc).length ≤ n + 1 := by
  rw [limit_prefix]
  split
  · simp; omega
  · omega

example : validate tiTable exL (some 2) [(exRule 1 9, 0), (exRule 9 2, 0)] exDoc =
    (validate tiTable exL none [(exRule 1 9, 0), (exRule 9 2, 0)] exDoc).take 2 ++ [Reported.aborted] := by decide

/-- `validate()` without an explicit limit uses the default extracted from validate.py (a parameter of the
theorem above; a different constant breaks nothing). -/
theorem max_errors_default_pos : 0 < maxErrorsDefault := by decide

/-! ## C12-5 `loc_blind` — generated-table facts

The model's `validate` is by construction a function of the tree of *traversed* fields; these theorems say
which fields the implementation traverses.  Precisely, from the source as it is now: `QUERY_DOCUMENT_KEYS`
never lists `loc`, and it **does** list `description` (for operation, fragment and variable definitions and
for the type-system definitions); `validate()` passes `query_document_keys_to_validate`, built from
`QUERY_DOCUMENT_KEYS` by dropping exactly the key `"description"`; `validate_sdl()` and the nested visit of
`get_variable_usages` use the default keys (descriptions are traversed there — as `StringValue` leaves no
specified rule has a handler for; checked by oracle iii on SDL documents). -/

def keysToValidate : List (String × List String) :=
  queryDocumentKeys.map (fun kv => (kv.1, kv.2.filter (fun k => !validateExcludedKeys.contains k)))

/-- No traversal key is `loc`. -/
theorem loc_blind_no_loc : queryDocumentKeys.all (fun kv => !kv.2.contains "loc") = true := by decide

/-- `validate()` visits with the filtered map, which is built from `QUERY_DOCUMENT_KEYS` by excluding exactly
`description`; the filtered map contains neither `loc` nor `description`. -/
theorem loc_blind_validate_keys :
    validateVisitKeys = "query_document_keys_to_validate" ∧ validateFilteredFrom = "QUERY_DOCUMENT_KEYS" ∧
    validateExcludedKeys = ["description"] ∧
    keysToValidate.all (fun kv => !kv.2.contains "loc" && !kv.2.contains "description") = true := by decide

/-- The unfiltered map does traverse descriptions (of operation, fragment and variable definitions and of the
type-system definitions), and `validate_sdl` / the nested usages visit use it. -/
theorem description_traversed_elsewhere :
    (["operation_definition", "fragment_definition", "variable_definition", "object_type_definition"].all
      (fun k => queryDocumentKeys.any (fun kv => kv.1 == k && kv.2.contains "description"))) = true ∧
    validateSdlVisitKeys = "<default>" ∧ nestedUsagesVisitKeys = "<default>" := by decide

/-- Filtering removes nothing but `description`: every other key of every kind is still traversed, in order. -/
theorem filter_only_description :
    (queryDocumentKeys.zip keysToValidate).all (fun p => p.1.1 == p.2.1 && p.1.2.filter (· != "description") == p.2.2) = true := by
  decide

/-- The ordered rule lists (names) the check iterates over; `specified_rules` ends with the recommended rule. -/
theorem rule_lists : specifiedRules ≠ [] ∧ specifiedSdlRules ≠ [] ∧ specifiedRules.Nodup ∧
    specifiedSdlRules.Nodup ∧ recommendedRules.all (fun r => specifiedRules.contains r) = true := by decide

/-! ## C12-7 the modelled concrete rules (`Gql/Validation/Rules.lean`)

LoneAnonymousOperation, UniqueOperationNames, UniqueFragmentNames, UniqueVariableNames, UniqueArgumentNames,
UniqueInputFieldNames, KnownFragmentNames, NoUnusedFragments, NoFragmentCycles, NoUndefinedVariables,
NoUnusedVariables are *values of the rule type the theorems above quantify over* (`Rule τ RS RErr`, private state
`RS`, reading the document through the closure), so every framework theorem applies to them as it stands. -/

section Modelled
open Gql.Validation.Rules

/-- C12-7 (non-editing).  Every handler of every modelled rule answers `None` or `SKIP` — never BREAK; the
`Action` type has no edit, so "never edits" is by construction. -/
theorem modelled_rules_never_edit (doc : ATree) (r : CRule τ) (hr : r ∈ modelledRules doc)
    (s : RS) (ph : Phase) (i : Info) (ti : TI τ) :
    (r.step s ph i ti).1 = Action.idle ∨ (r.step s ph i ti).1 = Action.skip := by
  have h := modelled_nb doc r hr s ph i ti
  cases hx : (r.step s ph i ti).1 with
  | idle => exact Or.inl rfl
  | skip => exact Or.inr rfl
  | brk => exact absurd hx h

/-- C12-7 `modelled_rules_compositional`.  For any list `rs` of modelled rules (any sub-list of the eleven, any
order, repetitions allowed), each started from its `__init__` state, on any tree: (1) what `validate(rs)` returns is,
as a multiset, the union of the single-rule runs; (2) every single-rule run is a subsequence of it (errors in
traversal order, ties in rule order); (3) every rule's member record (state, calls, errors) is the one of its single
run; (4) `validate(max_errors = n)` is the `n`-prefix law of the unlimited run. -/
theorem modelled_rules_compositional (tbl : TITable) (L : Lookups τ) (doc : ATree) (rs : List (CRule τ))
    (hrs : ∀ r ∈ rs, r ∈ modelledRules doc) (t : Tree) :
    (∀ r ∈ rs, NeverBreaks r) ∧
    (validate tbl L none (rs.map (fun r => (r, RS.init))) t).Perm
      ((rs.map (fun r => (r, RS.init))).flatMap (fun r => validate tbl L none [r] t)) ∧
    (∀ r ∈ rs, (validate tbl L none [(r, RS.init)] t).Sublist (validate tbl L none (rs.map (fun r => (r, RS.init))) t)) ∧
    (validateRun tbl L none (rs.map (fun r => (r, RS.init))) t).1.2.members =
      (rs.map (fun r => (r, RS.init))).flatMap (fun r => (validateRun tbl L none [r] t).1.2.members) ∧
    (∀ n, validate tbl L (some n) (rs.map (fun r => (r, RS.init))) t =
      if n < (validate tbl L none (rs.map (fun r => (r, RS.init))) t).length
      then (validate tbl L none (rs.map (fun r => (r, RS.init))) t).take n ++ [Reported.aborted]
      else validate tbl L none (rs.map (fun r => (r, RS.init))) t) :=
  ⟨fun r hr => modelled_nb doc r (hrs r hr),
   rules_union tbl L _ t,
   fun r hr => rules_order_full tbl L _ t (r, RS.init) (List.mem_map_of_mem (f := fun r => (r, RS.init)) hr),
   parallel_alone tbl L _ t,
   fun n => limit_prefix tbl L n _ t⟩

-- non-vacuity: `{ ...A }  fragment B on T { ...B }` — an unknown fragment, an unused fragment, a self-cycle
private def exADoc : ATree :=
  .node ⟨0, "document"⟩ "" "" [
    .node ⟨1, "operation_definition"⟩ "definitions" "" [
      .node ⟨2, "selection_set"⟩ "selection_set" "" [
        .node ⟨3, "fragment_spread"⟩ "selections" "" [.node ⟨4, "name"⟩ "name" "A" []]]],
    .node ⟨5, "fragment_definition"⟩ "definitions" "" [
      .node ⟨6, "name"⟩ "name" "B" [],
      .node ⟨7, "selection_set"⟩ "selection_set" "" [
        .node ⟨8, "fragment_spread"⟩ "selections" "" [.node ⟨9, "name"⟩ "name" "B" []]]]]

example : validate tiTable exL none ((modelledRules exADoc).map (fun r => (r, RS.init))) exADoc.erase =
    [.error ⟨"KnownFragmentNamesRule", "A", [4]⟩, .error ⟨"NoFragmentCyclesRule", "B", [8]⟩,
     .error ⟨"NoUnusedFragmentsRule", "B", [5]⟩] := by decide +kernel

/-- C12-7 `rule_iff_spec`, KnownFragmentNames.  On a document whose nodes are distinct objects, `validate([KnownFragmentNamesRule])`
reports nothing iff every fragment spread (anywhere in the document, also inside fragments that are never used and
inside skipped directives' neighbours) has a name, and that name is the name of a fragment definition of the
document.  (`uniqueIds`: Python object identity; checked on every encoded document by the driver, `|u 1`.) -/
theorem knownFragmentNames_iff_spec (tbl : TITable) (L : Lookups τ) (doc : ATree) (hu : doc.uniqueIds) :
    validate tbl L none [(knownFragmentNames doc, RS.init)] doc.erase = [] ↔ Spec.knownFragmentNames doc :=
  knownFragmentNames_iff tbl L doc hu

example : exADoc.uniqueIds ∧ ¬ Spec.knownFragmentNames exADoc := by
  refine ⟨by unfold ATree.uniqueIds; decide +kernel, ?_⟩
  intro h
  have := (knownFragmentNames_iff_spec tiTable exL exADoc (by unfold ATree.uniqueIds; decide +kernel)).mpr h
  exact absurd this (by decide +kernel)

-- `query Q($a: Int, $a: Int) { f(x: 1, x: 2) }`: duplicate variable, duplicate argument, unused variable
private def exBDoc : ATree :=
  .node ⟨0, "document"⟩ "" "" [
    .node ⟨1, "operation_definition"⟩ "definitions" "" [
      .node ⟨2, "name"⟩ "name" "Q" [],
      .node ⟨3, "variable_definition"⟩ "variable_definitions" "" [
        .node ⟨4, "variable"⟩ "variable" "" [.node ⟨5, "name"⟩ "name" "a" []], .node ⟨6, "named_type"⟩ "type" "" [.node ⟨7, "name"⟩ "name" "Int" []]],
      .node ⟨8, "variable_definition"⟩ "variable_definitions" "" [
        .node ⟨9, "variable"⟩ "variable" "" [.node ⟨10, "name"⟩ "name" "a" []], .node ⟨11, "named_type"⟩ "type" "" [.node ⟨12, "name"⟩ "name" "Int" []]],
      .node ⟨13, "selection_set"⟩ "selection_set" "" [
        .node ⟨14, "field"⟩ "selections" "" [
          .node ⟨15, "name"⟩ "name" "f" [],
          .node ⟨16, "argument"⟩ "arguments" "" [.node ⟨17, "name"⟩ "name" "x" [], .node ⟨18, "int_value"⟩ "value" "" []],
          .node ⟨19, "argument"⟩ "arguments" "" [.node ⟨20, "name"⟩ "name" "x" [], .node ⟨21, "int_value"⟩ "value" "" []]]]]]

-- `query Q($a: Int) { f(x: $a) ...B }  fragment B on T { g }`: nothing to report
private def exCDoc : ATree :=
  .node ⟨0, "document"⟩ "" "" [
    .node ⟨1, "operation_definition"⟩ "definitions" "" [
      .node ⟨2, "name"⟩ "name" "Q" [],
      .node ⟨3, "variable_definition"⟩ "variable_definitions" "" [
        .node ⟨4, "variable"⟩ "variable" "" [.node ⟨5, "name"⟩ "name" "a" []], .node ⟨6, "named_type"⟩ "type" "" [.node ⟨7, "name"⟩ "name" "Int" []]],
      .node ⟨8, "selection_set"⟩ "selection_set" "" [
        .node ⟨9, "field"⟩ "selections" "" [
          .node ⟨10, "name"⟩ "name" "f" [],
          .node ⟨11, "argument"⟩ "arguments" "" [.node ⟨12, "name"⟩ "name" "x" [], .node ⟨13, "variable"⟩ "value" "" [.node ⟨14, "name"⟩ "name" "a" []]]],
        .node ⟨15, "fragment_spread"⟩ "selections" "" [.node ⟨16, "name"⟩ "name" "B" []]]],
    .node ⟨17, "fragment_definition"⟩ "definitions" "" [
      .node ⟨18, "name"⟩ "name" "B" [],
      .node ⟨19, "named_type"⟩ "type_condition" "" [.node ⟨20, "name"⟩ "name" "T" []],
      .node ⟨21, "selection_set"⟩ "selection_set" "" [.node ⟨22, "field"⟩ "selections" "" [.node ⟨23, "name"⟩ "name" "g" []]]]]

example : validate tiTable exL none ((modelledRules exBDoc).map (fun r => (r, RS.init))) exBDoc.erase =
    [.error ⟨"UniqueVariableNamesRule", "a", [5, 10]⟩, .error ⟨"UniqueArgumentNamesRule", "x", [17, 20]⟩,
     .error ⟨"NoUnusedVariablesRule", "a", [3]⟩, .error ⟨"NoUnusedVariablesRule", "a", [8]⟩] := by decide +kernel

example : validate tiTable exL none ((modelledRules exCDoc).map (fun r => (r, RS.init))) exCDoc.erase = [] := by
  decide +kernel

set_option linter.defProp false in
private def exB_unique : exBDoc.uniqueIds := by unfold ATree.uniqueIds; decide +kernel
set_option linter.defProp false in
private def exC_unique : exCDoc.uniqueIds := by unfold ATree.uniqueIds; decide +kernel

-- the predicate holds of a document with spreads, and fails where the rule reports
example : Spec.knownFragmentNames exCDoc :=
  (knownFragmentNames_iff_spec tiTable exL exCDoc exC_unique).mp (by decide +kernel)

/-- C12-7 `rule_iff_spec`, UniqueArgumentNames: `validate([UniqueArgumentNamesRule])` reports nothing iff in every
field and every directive of the document (wherever it occurs) every argument has a name and the names are pairwise
distinct. -/
theorem uniqueArgumentNames_iff_spec (tbl : TITable) (L : Lookups τ) (doc : ATree) (hu : doc.uniqueIds) :
    validate tbl L none [(uniqueArgumentNames doc, RS.init)] doc.erase = [] ↔ Spec.uniqueArgumentNames doc :=
  uniqueArgumentNames_iff tbl L doc hu

/-- C12-7 `rule_iff_spec`, UniqueVariableNames: `validate([UniqueVariableNamesRule])` reports nothing iff in every
operation the defined variables have names and these are pairwise distinct. -/
theorem uniqueVariableNames_iff_spec (tbl : TITable) (L : Lookups τ) (doc : ATree) (hu : doc.uniqueIds) :
    validate tbl L none [(uniqueVariableNames doc, RS.init)] doc.erase = [] ↔ Spec.uniqueVariableNames doc :=
  uniqueVariableNames_iff tbl L doc hu

/-- C12-7 `rule_iff_spec`, NoUnusedVariables, stated through the context getters (kept; superseded by the fully
declarative `noUnusedVariables_iff_spec` below, which replaces the getters by the spread graph).
`validate([NoUnusedVariablesRule])` reports nothing iff every variable an operation defines occurs among the names
of `get_recursive_variable_usages(operation)` that are not fragment variables, and every variable a fragment
definition defines occurs among the names of `get_variable_usages(fragment)`.  Missing for a fully declarative
statement: a characterisation of the getters (`getRecFrags` = reachability in the spread graph). -/
theorem noUnusedVariables_iff_spec_partial (tbl : TITable) (L : Lookups τ) (doc : ATree) (hu : doc.uniqueIds) :
    validate tbl L none [(noUnusedVariables doc, RS.init)] doc.erase = [] ↔ Spec.noUnusedVariables doc :=
  noUnusedVariables_iff tbl L doc hu

example : Spec.uniqueArgumentNames exCDoc ∧ Spec.uniqueVariableNames exCDoc ∧ Spec.noUnusedVariables exCDoc :=
  ⟨(uniqueArgumentNames_iff_spec tiTable exL exCDoc exC_unique).mp (by decide +kernel),
   (uniqueVariableNames_iff_spec tiTable exL exCDoc exC_unique).mp (by decide +kernel),
   (noUnusedVariables_iff_spec_partial tiTable exL exCDoc exC_unique).mp (by decide +kernel)⟩

example : ¬ Spec.uniqueArgumentNames exBDoc ∧ ¬ Spec.uniqueVariableNames exBDoc ∧ ¬ Spec.noUnusedVariables exBDoc :=
  ⟨fun h => absurd ((uniqueArgumentNames_iff_spec tiTable exL exBDoc exB_unique).mpr h) (by decide +kernel),
   fun h => absurd ((uniqueVariableNames_iff_spec tiTable exL exBDoc exB_unique).mpr h) (by decide +kernel),
   fun h => absurd ((noUnusedVariables_iff_spec_partial tiTable exL exBDoc exB_unique).mpr h) (by decide +kernel)⟩

/-- C12-7 (termination, partial).  The worklist loop of `context.get_fragment_spreads` terminates on every selection
set: the model's fuel (the number of nodes below the selection set) is never exhausted.  The other two fuelled loops
(`get_recursively_referenced_fragments`, `detect_cycle_recursive`) are `rec_frags_terminates` and
`detect_cycle_terminates` below; with them no fuelled loop of the modelled rules is left unproved. -/
theorem fragment_spreads_terminates_partial (selSet : ATree) : (getSpreads selSet).2 = false :=
  spreads_fuel_enough selSet

example : (getSpreads (.node ⟨0, "selection_set"⟩ "" "" [
    .node ⟨1, "field"⟩ "selections" "" [.node ⟨2, "selection_set"⟩ "selection_set" "" [.node ⟨3, "fragment_spread"⟩ "selections" "" []]],
    .node ⟨4, "fragment_spread"⟩ "selections" "" []])).1.map (·.id) = [4, 3] := by decide +kernel

/-- C12-7 (termination) `rec_frags_terminates`.  The `while nodes_to_visit:` loop of
`context.get_recursively_referenced_fragments(operation)` terminates on every document and every operation node: the
model's fuel (number of fragment definitions of the document + 1) is never exhausted, so the list the model returns is
never a truncated one.  No hypothesis on the document (duplicate fragment names, spreads of undefined fragments,
cycles, missing names and selection sets included).  Argument: a selection set is pushed only together with a newly
collected name for which `get_fragment` answers, and there are at most as many such names as fragment definitions. -/
theorem rec_frags_terminates (doc op : ATree) : (getRecFrags doc op).2 = false :=
  recFrags_fuel_enough doc op

-- `{ ...A }  fragment A on T { ...B ...A }  fragment B on T { ...A ...C }`: a cycle, a self-spread, an unknown name
private def exGSs : ATree :=
  .node ⟨2, "selection_set"⟩ "selection_set" "" [
    .node ⟨3, "fragment_spread"⟩ "selections" "" [.node ⟨4, "name"⟩ "name" "A" []]]
private def exGOp : ATree := .node ⟨1, "operation_definition"⟩ "definitions" "" [exGSs]
private def exGDoc : ATree :=
  .node ⟨0, "document"⟩ "" "" [
    exGOp,
    .node ⟨5, "fragment_definition"⟩ "definitions" "" [
      .node ⟨6, "name"⟩ "name" "A" [],
      .node ⟨7, "selection_set"⟩ "selection_set" "" [
        .node ⟨8, "fragment_spread"⟩ "selections" "" [.node ⟨9, "name"⟩ "name" "B" []],
        .node ⟨10, "fragment_spread"⟩ "selections" "" [.node ⟨11, "name"⟩ "name" "A" []]]],
    .node ⟨12, "fragment_definition"⟩ "definitions" "" [
      .node ⟨13, "name"⟩ "name" "B" [],
      .node ⟨14, "selection_set"⟩ "selection_set" "" [
        .node ⟨15, "fragment_spread"⟩ "selections" "" [.node ⟨16, "name"⟩ "name" "A" []],
        .node ⟨17, "fragment_spread"⟩ "selections" "" [.node ⟨18, "name"⟩ "name" "C" []]]]]

-- the loop really runs (two rounds beyond the operation's own set) and the fuel `2 + 1` is used up exactly
example : (opDefs exGDoc).map (fun op => ((getRecFrags exGDoc op).1.map (·.id), (getRecFrags exGDoc op).2)) =
    [([5, 12], false)] ∧ (fragDefs exGDoc).length = 2 := by decide +kernel

-- one unit of fuel less and the flag is set: the bound is tight on this document
example : (refsLoop exGDoc 2 [exGSs] [] []).2 = true := by decide +kernel

/-- C12-7 (termination) `detect_cycle_terminates`.  `NoFragmentCyclesRule.detect_cycle_recursive(fragment)` terminates:
started by the rule (fuel = number of fragment definitions + 2) on any fragment node, with any `visited_frags`, any
`spread_path` and `spread_path_index_by_name`, the recursion never exhausts the model's fuel — so the rule never
reports the `<fuel>` marker, on any document (no well-formedness assumed).  Argument: every recursive call is for the
fragment `get_fragment` returns for the spread's name; it either finds that name in `visited_frags` and returns, or
adds it — and at most #definitions distinct names have a definition.  The `+ 2`: one call that finds its name
visited, and the first call's fragment may be a definition that `get_fragment` does not return (shadowed by a later
one of the same name).  Also states that `visited_frags` only grows. -/
theorem detect_cycle_terminates (doc fragment : ATree) (visited : List String) (path : List ATree)
    (index : List (String × Nat)) :
    (detectCycle doc (cycleFuel doc) fragment visited path index).ranOut = false ∧
    ∀ n ∈ visited, n ∈ (detectCycle doc (cycleFuel doc) fragment visited path index).visited :=
  detectCycle_ok doc (cycleFuel doc) fragment visited path index (fragNames doc) (cover_fragNames doc visited)
    (Or.inr (by have := fragNames_length_le doc; unfold cycleFuel; omega))

/-- Consequence for the rule: what `NoFragmentCyclesRule.enter_fragment_definition` reports is exactly what
`detect_cycle_recursive` reports (no `<fuel>` marker is ever appended). -/
theorem noFragmentCycles_no_fuel_marker (doc n : ATree) (s : RS) :
    (let r := detectCycle doc (cycleFuel doc) n s.visited [] []
     r.errs ++ (if r.ranOut then [(⟨"NoFragmentCyclesRule", "<fuel>", []⟩ : RErr)] else [])) =
    (detectCycle doc (cycleFuel doc) n s.visited [] []).errs := by
  simp [(detect_cycle_terminates doc n s.visited [] []).1]

-- the recursion really descends (A → B → A closes a cycle, A → A another) and comes back without the flag
example : (fragDefs exGDoc).map (fun f =>
      let r := detectCycle exGDoc (cycleFuel exGDoc) f [] [] []
      (r.visited, r.errs.map (fun e => (e.name, e.nodes)), r.ranOut)) =
    [(["A", "B"], [("A", [8, 15]), ("A", [10])], false), (["B", "A"], [("B", [15, 8]), ("A", [10])], false)] := by
  decide +kernel

-- the flag is not constant: with fuel 1 instead of `cycleFuel` (= 4) it is set on this document
example : (detectCycle exGDoc 1 (.node ⟨5, "fragment_definition"⟩ "definitions" "" [
      .node ⟨6, "name"⟩ "name" "A" [],
      .node ⟨7, "selection_set"⟩ "selection_set" "" [
        .node ⟨8, "fragment_spread"⟩ "selections" "" [.node ⟨9, "name"⟩ "name" "B" []],
        .node ⟨10, "fragment_spread"⟩ "selections" "" [.node ⟨11, "name"⟩ "name" "A" []]]]) [] [] []).ranOut = true := by
  decide +kernel

/-- C12-7 (getter = spec) `fragment_spreads_iff_spec`.  `context.get_fragment_spreads(selection_set)` returns exactly
the fragment spreads of the selection set (`Spec.SpreadIn`: a selection of kind fragment spread, or — recursively — a
spread of the selection set of a selection that is not a fragment spread: field, inline fragment).  It does not look
into the fragments the spreads name.  Any tree; no hypothesis. -/
theorem fragment_spreads_iff_spec (selSet sp : ATree) : sp ∈ (getSpreads selSet).1 ↔ Spec.SpreadIn selSet sp :=
  getSpreads_mem_iff selSet sp

/-- C12-7 (getter = spec) `rec_frags_iff_reachable`.  `context.get_recursively_referenced_fragments(operation)` is
reachability in the spread graph: a fragment definition is in the returned list iff it is what `get_fragment` returns
for a name reachable (`Spec.Reaches`: inductively, a spread of the operation's selection set, or a spread of the
selection set of the fragment of a reachable name) from the operation's selection set.  Any document (duplicate
fragment names: edges leave only the *last* definition of a name, as `get_fragment` resolves it; undefined names have no
outgoing edges; cycles allowed); an operation without selection set gets the empty list
(`getRecFrags_no_selection_set`). -/
theorem rec_frags_iff_reachable (doc op ss : ATree) (hss : op.kid "selection_set" = some ss) (f : ATree) :
    f ∈ (getRecFrags doc op).1 ↔ ∃ n, Spec.Reaches doc ss n ∧ getFragment doc n = some f :=
  getRecFrags_mem_iff_reaches doc op ss hss f

-- non-vacuity: in `exGDoc` fragment B (node 12) is reached from the operation (through A), a spread (node 3) is found
example : (∃ sp, sp.id = 3 ∧ Spec.SpreadIn exGSs sp) ∧
    ∃ f n, f.id = 12 ∧ Spec.Reaches exGDoc exGSs n ∧ getFragment exGDoc n = some f := by
  constructor
  · have h : 3 ∈ (getSpreads exGSs).1.map (·.id) := by decide +kernel
    obtain ⟨sp, hsp, hid⟩ := List.mem_map.mp h
    exact ⟨sp, hid, (fragment_spreads_iff_spec exGSs sp).mp hsp⟩
  · have h : 12 ∈ (getRecFrags exGDoc exGOp).1.map (·.id) := by decide +kernel
    obtain ⟨f, hf, hid⟩ := List.mem_map.mp h
    obtain ⟨n, hr, hg⟩ := (rec_frags_iff_reachable exGDoc exGOp exGSs (by rfl) f).mp hf
    exact ⟨f, n, hid, hr, hg⟩

-- and in `exADoc` (`{ ...A }  fragment B on T { ...B }`) no defined fragment is reachable from the operation
example : ¬ ∃ n f, Spec.Reaches exADoc exGSs n ∧ getFragment exADoc n = some f := by
  rintro ⟨n, f, hr, hg⟩
  have := (rec_frags_iff_reachable exADoc exGOp exGSs (by rfl) f).mpr ⟨n, hr, hg⟩
  have h0 : (getRecFrags exADoc exGOp).1.length = 0 := by decide +kernel
  rw [List.length_eq_zero_iff] at h0
  rw [h0] at this
  simp at this

/-- C12-7 `rule_iff_spec`, NoUnusedFragments (private state `operation_defs` / `fragment_defs`, SKIP at every
definition, the report at `leave_document`).  On a document — root of kind `document`, no other node of that kind,
nodes distinct objects; all guaranteed by the parser and decidable — `validate([NoUnusedFragmentsRule])` reports nothing
iff every fragment definition has a name that is reachable in the spread graph (`Spec.Reaches`) from the selection set
of some operation definition (and is resolved by `get_fragment`, i.e. the definition is in `document.definitions` —
automatic for parsed documents).  Purely declarative: no context getter occurs in `Spec.noUnusedFragments`. -/
theorem noUnusedFragments_iff_spec (tbl : TITable) (L : Lookups τ) (doc : ATree) (hk : doc.kind = "document")
    (hu : doc.uniqueIds) (hnd : ∀ n ∈ ATree.nodesList doc.children, n.kind ≠ "document") :
    validate tbl L none [(noUnusedFragments doc, RS.init)] doc.erase = [] ↔ Spec.noUnusedFragments doc :=
  noUnusedFragments_iff tbl L doc hk hu hnd

example : validate tiTable exL none [(noUnusedFragments exADoc, RS.init)] exADoc.erase =
    [.error ⟨"NoUnusedFragmentsRule", "B", [5]⟩] := by decide +kernel

-- fails where the rule reports (B is only reachable from itself), holds on a document with a used fragment
example : ¬ Spec.noUnusedFragments exADoc ∧ Spec.noUnusedFragments exCDoc :=
  ⟨fun h => absurd ((noUnusedFragments_iff_spec tiTable exL exADoc (by decide +kernel)
      (by unfold ATree.uniqueIds; decide +kernel) (by decide +kernel)).mpr h) (by decide +kernel),
   (noUnusedFragments_iff_spec tiTable exL exCDoc (by decide +kernel) exC_unique (by decide +kernel)).mp (by decide +kernel)⟩

/-- C12-7 `rule_iff_spec`, NoUnusedVariables — full.  `validate([NoUnusedVariablesRule])` reports nothing iff every
variable an operation defines occurs (as a `VariableNode` outside variable definitions) in the operation itself or in
a fragment reachable from it in the spread graph where it is not shadowed by a fragment variable of that fragment's
signature, and every variable a fragment definition defines occurs in that fragment.  `Spec.noUnusedVariablesFull`
mentions only the document (`Spec.Reaches`, the structural `variablesIn`, `get_fragment` as name resolution); the
context getters `get_recursively_referenced_fragments` / `get_recursive_variable_usages` are gone. -/
theorem noUnusedVariables_iff_spec (tbl : TITable) (L : Lookups τ) (doc : ATree) (hu : doc.uniqueIds) :
    validate tbl L none [(noUnusedVariables doc, RS.init)] doc.erase = [] ↔ Spec.noUnusedVariablesFull doc :=
  noUnusedVariables_iff_full tbl L doc hu

example : Spec.noUnusedVariablesFull exCDoc ∧ ¬ Spec.noUnusedVariablesFull exBDoc :=
  ⟨(noUnusedVariables_iff_spec tiTable exL exCDoc exC_unique).mp (by decide +kernel),
   fun h => absurd ((noUnusedVariables_iff_spec tiTable exL exBDoc exB_unique).mpr h) (by decide +kernel)⟩

-- `query Q($a: Int) { ...B }  fragment B on T { f(x: $a) }`: `$a` is used only in the fragment the operation reaches
private def exHOp : ATree :=
  .node ⟨1, "operation_definition"⟩ "definitions" "" [
    .node ⟨2, "name"⟩ "name" "Q" [],
    .node ⟨3, "variable_definition"⟩ "variable_definitions" "" [
      .node ⟨4, "variable"⟩ "variable" "" [.node ⟨5, "name"⟩ "name" "a" []], .node ⟨6, "named_type"⟩ "type" "" [.node ⟨7, "name"⟩ "name" "Int" []]],
    .node ⟨8, "selection_set"⟩ "selection_set" "" [
      .node ⟨9, "fragment_spread"⟩ "selections" "" [.node ⟨10, "name"⟩ "name" "B" []]]]
private def exHDoc : ATree :=
  .node ⟨0, "document"⟩ "" "" [
    exHOp,
    .node ⟨11, "fragment_definition"⟩ "definitions" "" [
      .node ⟨12, "name"⟩ "name" "B" [],
      .node ⟨13, "named_type"⟩ "type_condition" "" [.node ⟨14, "name"⟩ "name" "T" []],
      .node ⟨15, "selection_set"⟩ "selection_set" "" [
        .node ⟨16, "field"⟩ "selections" "" [
          .node ⟨17, "name"⟩ "name" "f" [],
          .node ⟨18, "argument"⟩ "arguments" "" [.node ⟨19, "name"⟩ "name" "x" [],
            .node ⟨20, "variable"⟩ "value" "" [.node ⟨21, "name"⟩ "name" "a" []]]]]]]

-- the spec holds there, and only through the spread graph: the operation itself does not mention `$a`
example : Spec.noUnusedVariablesFull exHDoc ∧ (variablesIn exHOp).length = 0 :=
  ⟨(noUnusedVariables_iff_spec tiTable exL exHDoc (by unfold ATree.uniqueIds; decide +kernel)).mp (by decide +kernel),
   by decide +kernel⟩

/-- C12-7 `rule_iff_spec`, NoUndefinedVariables (private state `defined_variable_names`: reset at every operation,
extended at every variable definition, read at `leave_operation_definition`).  On a document whose nodes are distinct
objects and in which no operation definition is nested in another one (`hno`; the parser only produces operations in
`document.definitions`; decidable) `validate([NoUndefinedVariablesRule])` reports nothing iff every variable definition
has a name and, for every operation, every variable occurring in the operation or in a fragment it reaches in the
spread graph (`Spec.Reaches`) — unless it is one of that fragment's own fragment variables — is defined by one of the
operation's variable definitions.  Declarative: no context getter, no rule state in `Spec.noUndefinedVariables`. -/
theorem noUndefinedVariables_iff_spec (tbl : TITable) (L : Lookups τ) (doc : ATree) (hu : doc.uniqueIds)
    (hno : ∀ n ∈ doc.nodes, n.kind = "operation_definition" →
      ∀ m ∈ ATree.nodesList n.children, m.kind ≠ "operation_definition") :
    validate tbl L none [(noUndefinedVariables doc, RS.init)] doc.erase = [] ↔ Spec.noUndefinedVariables doc :=
  noUndefinedVariables_iff tbl L doc hu hno

-- `{ ...B }  fragment B on T { f(x: $a) }`: `$a` is undefined, found through the spread graph only
private def exKDoc : ATree :=
  .node ⟨0, "document"⟩ "" "" [
    .node ⟨1, "operation_definition"⟩ "definitions" "" [
      .node ⟨8, "selection_set"⟩ "selection_set" "" [
        .node ⟨9, "fragment_spread"⟩ "selections" "" [.node ⟨10, "name"⟩ "name" "B" []]]],
    .node ⟨11, "fragment_definition"⟩ "definitions" "" [
      .node ⟨12, "name"⟩ "name" "B" [],
      .node ⟨13, "named_type"⟩ "type_condition" "" [.node ⟨14, "name"⟩ "name" "T" []],
      .node ⟨15, "selection_set"⟩ "selection_set" "" [
        .node ⟨16, "field"⟩ "selections" "" [
          .node ⟨17, "name"⟩ "name" "f" [],
          .node ⟨18, "argument"⟩ "arguments" "" [.node ⟨19, "name"⟩ "name" "x" [],
            .node ⟨20, "variable"⟩ "value" "" [.node ⟨21, "name"⟩ "name" "a" []]]]]]]

example : validate tiTable exL none [(noUndefinedVariables exKDoc, RS.init)] exKDoc.erase =
    [.error ⟨"NoUndefinedVariablesRule", "a", [20, 1]⟩] := by decide +kernel

example : ¬ Spec.noUndefinedVariables exKDoc ∧ Spec.noUndefinedVariables exHDoc ∧ Spec.noUndefinedVariables exCDoc :=
  ⟨fun h => absurd ((noUndefinedVariables_iff_spec tiTable exL exKDoc (by unfold ATree.uniqueIds; decide +kernel)
      (by decide +kernel)).mpr h) (by decide +kernel),
   (noUndefinedVariables_iff_spec tiTable exL exHDoc (by unfold ATree.uniqueIds; decide +kernel) (by decide +kernel)).mp (by decide +kernel),
   (noUndefinedVariables_iff_spec tiTable exL exCDoc exC_unique (by decide +kernel)).mp (by decide +kernel)⟩

/-- C12-7 `rule_iff_spec`, UniqueInputFieldNames (private state: `known_names` and the stack `known_names_stack`
pushed at `enter_object_value`, popped at `leave_object_value`).  On a document whose nodes are distinct objects,
`validate([UniqueInputFieldNamesRule])` reports nothing iff in every object value the object fields in its scope (not
below a deeper object value) have names and these are pairwise distinct — the same name may recur in a nested or a
sibling object.  In particular the pop never hits an empty stack (no crash marker). -/
theorem uniqueInputFieldNames_iff_spec (tbl : TITable) (L : Lookups τ) (doc : ATree) (hu : doc.uniqueIds) :
    validate tbl L none [(uniqueInputFieldNames doc, RS.init)] doc.erase = [] ↔ Spec.uniqueInputFieldNames doc :=
  uniqueInputFieldNames_iff tbl L doc hu

-- `{ f(x: {a: 1, b: {a: 2}, a: 3}) }`: the nested `a` is fine, the second `a` of the outer object is reported
private def exIDoc (dup : String) : ATree :=
  .node ⟨0, "document"⟩ "" "" [
    .node ⟨1, "operation_definition"⟩ "definitions" "" [
      .node ⟨2, "selection_set"⟩ "selection_set" "" [
        .node ⟨3, "field"⟩ "selections" "" [
          .node ⟨4, "name"⟩ "name" "f" [],
          .node ⟨5, "argument"⟩ "arguments" "" [
            .node ⟨6, "name"⟩ "name" "x" [],
            .node ⟨7, "object_value"⟩ "value" "" [
              .node ⟨8, "object_field"⟩ "fields" "" [.node ⟨9, "name"⟩ "name" "a" [], .node ⟨10, "int_value"⟩ "value" "" []],
              .node ⟨11, "object_field"⟩ "fields" "" [.node ⟨12, "name"⟩ "name" "b" [],
                .node ⟨13, "object_value"⟩ "value" "" [
                  .node ⟨14, "object_field"⟩ "fields" "" [.node ⟨15, "name"⟩ "name" "a" [], .node ⟨16, "int_value"⟩ "value" "" []]]],
              .node ⟨17, "object_field"⟩ "fields" "" [.node ⟨18, "name"⟩ "name" dup [], .node ⟨19, "int_value"⟩ "value" "" []]]]]]]]

example : validate tiTable exL none [(uniqueInputFieldNames (exIDoc "a"), RS.init)] (exIDoc "a").erase =
    [.error ⟨"UniqueInputFieldNamesRule", "a", [9, 18]⟩] := by decide +kernel

example : ¬ Spec.uniqueInputFieldNames (exIDoc "a") ∧ Spec.uniqueInputFieldNames (exIDoc "c") :=
  ⟨fun h => absurd ((uniqueInputFieldNames_iff_spec tiTable exL (exIDoc "a") (by unfold ATree.uniqueIds; decide +kernel)).mpr h) (by decide +kernel),
   (uniqueInputFieldNames_iff_spec tiTable exL (exIDoc "c") (by unfold ATree.uniqueIds; decide +kernel)).mp (by decide +kernel)⟩

/-- C12-7 `rule_iff_spec`, LoneAnonymousOperation (a rule with private state: `operation_count` is set at the
document node and read at every operation).  On a document — root of kind `document`, no other node of that kind,
nodes distinct objects; all guaranteed by the parser and decidable — `validate([LoneAnonymousOperationRule])` reports
nothing iff: if the document defines more than one operation, then every operation definition has a name. -/
theorem loneAnonymousOperation_iff_spec (tbl : TITable) (L : Lookups τ) (doc : ATree) (hk : doc.kind = "document")
    (hu : doc.uniqueIds) (hnd : ∀ n ∈ ATree.nodesList doc.children, n.kind ≠ "document") :
    validate tbl L none [(loneAnonymousOperation doc, RS.init)] doc.erase = [] ↔ Spec.loneAnonymousOperation doc := by
  cases doc with
  | node i f v cs => exact loneAnonymousOperation_iff tbl L i f v cs (by simpa [ATree.kind, ATree.info] using hk) hu hnd

-- `{ a }  query Q { b }`
private def exDDoc : ATree :=
  .node ⟨0, "document"⟩ "" "" [
    .node ⟨1, "operation_definition"⟩ "definitions" "" [
      .node ⟨2, "selection_set"⟩ "selection_set" "" [.node ⟨3, "field"⟩ "selections" "" [.node ⟨4, "name"⟩ "name" "a" []]]],
    .node ⟨5, "operation_definition"⟩ "definitions" "" [
      .node ⟨6, "name"⟩ "name" "Q" [],
      .node ⟨7, "selection_set"⟩ "selection_set" "" [.node ⟨8, "field"⟩ "selections" "" [.node ⟨9, "name"⟩ "name" "b" []]]]]

example : validate tiTable exL none [(loneAnonymousOperation exDDoc, RS.init)] exDDoc.erase =
    [.error ⟨"LoneAnonymousOperationRule", "", [1]⟩] := by decide +kernel

example : ¬ Spec.loneAnonymousOperation exDDoc ∧ Spec.loneAnonymousOperation exCDoc :=
  ⟨fun h => absurd ((loneAnonymousOperation_iff_spec tiTable exL exDDoc (by decide +kernel)
      (by unfold ATree.uniqueIds; decide +kernel) (by decide +kernel)).mpr h) (by decide +kernel),
   (loneAnonymousOperation_iff_spec tiTable exL exCDoc (by decide +kernel) exC_unique (by decide +kernel)).mp (by decide +kernel)⟩

/-- C12-7 `rule_iff_spec`, UniqueOperationNames (a rule with private state that answers SKIP at every operation and
fragment definition; the proof goes through `ParallelVisitor`'s `skipping` entry being set to the definition node,
its subtree being ignored, and the entry being reset when the node is left).  On a document whose nodes are distinct
objects, `validate([UniqueOperationNamesRule])` reports nothing iff the names of the named operation definitions
(`outer doc`: the operation / fragment definitions not nested in another one — for a parsed document,
`document.definitions`) are pairwise distinct. -/
theorem uniqueOperationNames_iff_spec (tbl : TITable) (L : Lookups τ) (doc : ATree) (hu : doc.uniqueIds) :
    validate tbl L none [(uniqueOperationNames doc, RS.init)] doc.erase = [] ↔ Spec.uniqueOperationNames doc :=
  uniqueOperationNames_iff tbl L doc hu

-- `query Q { a }  query Q { b }`
private def exEDoc : ATree :=
  .node ⟨0, "document"⟩ "" "" [
    .node ⟨1, "operation_definition"⟩ "definitions" "" [
      .node ⟨2, "name"⟩ "name" "Q" [],
      .node ⟨3, "selection_set"⟩ "selection_set" "" [.node ⟨4, "field"⟩ "selections" "" [.node ⟨5, "name"⟩ "name" "a" []]]],
    .node ⟨6, "operation_definition"⟩ "definitions" "" [
      .node ⟨7, "name"⟩ "name" "Q" [],
      .node ⟨8, "selection_set"⟩ "selection_set" "" [.node ⟨9, "field"⟩ "selections" "" [.node ⟨10, "name"⟩ "name" "b" []]]]]

example : validate tiTable exL none [(uniqueOperationNames exEDoc, RS.init)] exEDoc.erase =
    [.error ⟨"UniqueOperationNamesRule", "Q", [2, 7]⟩] := by decide +kernel

example : opNames (outer exEDoc) = ["Q", "Q"] ∧ ¬ Spec.uniqueOperationNames exEDoc ∧ Spec.uniqueOperationNames exDDoc :=
  ⟨by decide +kernel,
   fun h => absurd ((uniqueOperationNames_iff_spec tiTable exL exEDoc (by unfold ATree.uniqueIds; decide +kernel)).mpr h) (by decide +kernel),
   (uniqueOperationNames_iff_spec tiTable exL exDDoc (by unfold ATree.uniqueIds; decide +kernel)).mp (by decide +kernel)⟩

/-- C12-7 `rule_iff_spec`, UniqueFragmentNames (private state, SKIP at every definition).  On a document whose nodes
are distinct objects, `validate([UniqueFragmentNamesRule])` reports nothing iff every fragment definition has a name
and these names are pairwise distinct. -/
theorem uniqueFragmentNames_iff_spec (tbl : TITable) (L : Lookups τ) (doc : ATree) (hu : doc.uniqueIds) :
    validate tbl L none [(uniqueFragmentNames doc, RS.init)] doc.erase = [] ↔ Spec.uniqueFragmentNames doc :=
  uniqueFragmentNames_iff tbl L doc hu

-- `fragment A on T { f }  fragment A on T { g }`
private def exFDoc : ATree :=
  .node ⟨0, "document"⟩ "" "" [
    .node ⟨1, "fragment_definition"⟩ "definitions" "" [
      .node ⟨2, "name"⟩ "name" "A" [],
      .node ⟨3, "selection_set"⟩ "selection_set" "" [.node ⟨4, "field"⟩ "selections" "" [.node ⟨5, "name"⟩ "name" "f" []]]],
    .node ⟨6, "fragment_definition"⟩ "definitions" "" [
      .node ⟨7, "name"⟩ "name" "A" [],
      .node ⟨8, "selection_set"⟩ "selection_set" "" [.node ⟨9, "field"⟩ "selections" "" [.node ⟨10, "name"⟩ "name" "g" []]]]]

example : validate tiTable exL none [(uniqueFragmentNames exFDoc, RS.init)] exFDoc.erase =
    [.error ⟨"UniqueFragmentNamesRule", "A", [2, 7]⟩] := by decide +kernel

example : ¬ Spec.uniqueFragmentNames exFDoc ∧ Spec.uniqueFragmentNames exCDoc :=
  ⟨fun h => absurd ((uniqueFragmentNames_iff_spec tiTable exL exFDoc (by unfold ATree.uniqueIds; decide +kernel)).mpr h) (by decide +kernel),
   (uniqueFragmentNames_iff_spec tiTable exL exCDoc exC_unique).mp (by decide +kernel)⟩

/-- C12-7 (T1).  The modelled rules carry the class names of eleven members of `specified_rules` (the list
regenerated from specified_rules.py), in the order of that list. -/
theorem modelled_rules_are_specified (doc : ATree) :
    ((modelled (τ := τ) doc).map (·.1)).isSublist specifiedRules = true ∧ ((modelled (τ := τ) doc).map (·.1)).length = 11 := by
  simp only [modelled, List.map_cons, List.map_nil]
  decide

end Modelled

/-! ## C12-6 `memo_pure` -/

open Gql.Validation.Context in
/-- Full statement: on every request sequence every getter returns what recomputation returns. -/
def memo_pure_full : Prop :=
  ∀ (υ : Type) (P : Pure υ) (qs : List Req) (q : Req) (r : Resp υ),
    (q, r) ∈ qs.zip (runReqs P Ctx.empty qs).1 → r = specResp P q

open Gql.Validation.Context in
/-- C12-6 (exact characterisation).  From the empty context, on every request sequence, every response equals
recomputation — except that `get_variable_usages(operation)` may return the *recursive* usages of that
operation (own + all reachable fragments'): `get_recursive_variable_usages` extends the cached list in place. -/
theorem memo_responses {υ : Type} (P : Pure υ) (qs : List Req) (q : Req) (r : Resp υ)
    (h : (q, r) ∈ qs.zip (runReqs P Ctx.empty qs).1) :
    r = specResp P q ∨ ∃ o, q = .usages (.op o) ∧ r = .us (specRecUsages P o) :=
  run_ok P qs Ctx.empty (Inv.empty P) q r h

open Gql.Validation.Context in
/-- C12-6 `memo_pure_partial`.  On request sequences that never ask `get_variable_usages` for an *operation*
— the pattern of every specified rule: `get_variable_usages` is only called by `NoUnusedVariablesRule` with a
fragment definition; operations go through `get_recursive_variable_usages` — every getter returns exactly what
recomputation returns.  Missing for the full statement: see `memo_pure_full_false`. -/
theorem memo_pure_partial {υ : Type} (P : Pure υ) (qs : List Req) (hqs : ∀ o, Req.usages (.op o) ∉ qs)
    (q : Req) (r : Resp υ) (h : (q, r) ∈ qs.zip (runReqs P Ctx.empty qs).1) : r = specResp P q := by
  rcases memo_responses P qs q r h with h1 | ⟨o, ho, _⟩
  · exact h1
  · exact absurd (ho ▸ (List.of_mem_zip h).1) (hqs o)

open Gql.Validation.Context in
private def exP : Pure Nat where
  fragment := fun n => if n = 0 then some 0 else none
  spreads := fun _ => [0]
  recFrags := fun _ => [0]
  usages := fun r => match r with | .op k => [100 + k] | .frag f => [200 + f]

open Gql.Validation.Context in
/-- The aliasing is observable through the public getters, as the code is written: after
`get_recursive_variable_usages(op)`, `get_variable_usages(op)` returns the extended list.  (Witness replayed on
the implementation by the `memo` correspondence cases; not reachable with the specified rules.) -/
theorem memo_pure_full_false : ¬ memo_pure_full := by
  intro h
  have := h Nat exP [.recUsages 0, .usages (.op 0)] (.usages (.op 0)) (.us [100, 200]) (by decide)
  exact absurd this (by decide)

open Gql.Validation.Context in
example : (runReqs exP Ctx.empty [.usages (.op 0), .recUsages 0, .usages (.op 0), .usages (.frag 0)]).1 =
    [.us [100], .us [100, 200], .us [100, 200], .us [200]] := by decide

/-- **The concrete rules are non-editing visitors (T1, regenerated from the source on every run).**  The
framework theorems above (`rules_union`, `parallel_alone`, `rules_order`, `limit_prefix`) quantify over
*non-editing* rules.  For the ~40 concrete rule classes this is decided here on a table extracted from
`src/graphql/validation/rules/**.py` with Python's `ast` module: every `return` of every `enter*` / `leave*`
method (following `return self.helper(…)` into the helper) yields `None`, `SKIP`/`False` or `BREAK`/`True` —
never a node or `REMOVE`; and every rule listed in `specified_rules` / `specified_sdl_rules` is in the table.
A rule that starts returning a replacement node breaks this `decide`. -/
theorem rules_never_edit :
    Gql.Validation.Static.neverEdit Gql.Generated.ruleReturns = true ∧
    Gql.Validation.Static.covers Gql.Generated.ruleReturns
      (Gql.Generated.specifiedRules ++ Gql.Generated.specifiedSdlRules) = true :=
  ⟨Gql.Validation.Static.ruleReturns_neverEdit, Gql.Validation.Static.ruleReturns_covers⟩

-- the predicate is not vacuous: a method returning a node is rejected
example : Gql.Validation.Static.neverEdit [("R", "enter_field", ["none", "other:node"])] = false := by decide

end Gql.Props.C12
